(* C08: the connect callback runs at most once and before every other per-connection
   callback, for ALL schedules of Model/SubLifecycle.v. *)
From Coq Require Import List NArith ZArith Bool Lia.
From Cfg Require Import Model.SubLifecycle Proofs.SubLifecycleLib Proofs.SubBroker Proofs.SubBrokerStep Proofs.SubLocks.
Import ListNotations.
Open Scope N_scope.

Definition is_cb (e : ev) : bool :=
  match e with
  | EvSubCb _ _ | EvUnsubCb _ _ | EvConnectCb | EvDisconnectCb | EvAliveCb => true
  | _ => false
  end.
Definition cbs (l : list ev) : list ev := filter is_cb l.

Definition pre_enter (pc : kpc) : bool :=
  match pc with KCheck | KAuth | KShut | KFinal | KTrigLock | KTrigCheck | KEnter => true | _ => false end.

Record CbInv (s : st) : Prop := {
  cb_none : hreg s = false -> cbs (trace s) = [];
  cb_first : hreg s = true -> exists l, cbs (trace s) = EvConnectCb :: l /\ ~ In EvConnectCb l;
  cb_cli : forall t a, thr s t = Some (TAtt a) -> a_kind a = Cli -> hreg s = true;
  (* any number of connect commands may be in flight; one past KEnter means the handlers are registered *)
  cb_con : forall t pc, thr s t = Some (TCon pc) -> kstarted s = true /\ (pre_enter pc = false -> hreg s = true);
  cb_hk : hreg s = true -> kstarted s = true;
  (* handlers registered: the connect handler section is still running, or the status has left Connecting *)
  cb_pre : hreg s = true -> status s <> Connecting \/ exists t pc, thr s t = Some (TCon pc) /\ pre_enter pc = false;
  cb_conn : status s = Connected -> hreg s = true;
  cb_prev : forall t k, thr s t = Some (TCls k) -> k_prev k = Connected -> hreg s = true
}.

Lemma CbInv_init : CbInv init.
Proof. constructor; cbn; intros; try discriminate; auto. Qed.

Lemma cbs_app l e : cbs (l ++ [e]) = cbs l ++ (if is_cb e then [e] else []).
Proof. unfold cbs. rewrite filter_app. cbn. destruct (is_cb e); reflexivity. Qed.

(* appending an event that is not the connect callback while handlers are registered *)
Lemma first_app s e l0 :
  (hreg s = true -> exists l, cbs l0 = EvConnectCb :: l /\ ~ In EvConnectCb l) ->
  e <> EvConnectCb -> hreg s = true ->
  exists l, cbs (l0 ++ [e]) = EvConnectCb :: l /\ ~ In EvConnectCb l.
Proof.
  intros H NE HR. destruct (H HR) as (l & E & NI). rewrite cbs_app, E.
  destruct (is_cb e); [exists (l ++ [e])|exists l; rewrite app_nil_r]; split; auto.
  intros X. apply in_app_or in X. destruct X as [X|[X|[]]]; auto.
Qed.

Ltac corec :=
  unfold spawn_int, submit_job, thr_set, thr_del, log, set_gst1 in *;
  cbn [trace thr hreg kstarted status next_int next_ext
       set_status set_authed set_closing set_chans set_genctr set_gclosed set_cmu set_pmu set_pinfl
       set_kstarted set_slock set_hub set_others set_reg set_pres set_bsub set_jobs set_gconn set_gsub
       set_trace set_thr set_next_ext set_next_int set_panicked set_wclosed set_hreg set_shut set_gst] in *.

(* A generic step: thread t becomes o' (None = ends), optionally one fresh thread x appears,
   events es are appended; hreg, kstarted and status change only as stated by the caller. *)
Lemma Cb_step s s' t o' es nt :
  CbInv s -> thr s t <> None ->
  trace s' = trace s ++ es ->
  hreg s' = hreg s -> kstarted s' = kstarted s ->
  (status s' = status s \/ status s' = Closed \/ (status s' = Connected /\ hreg s = true)) ->
  (forall e, In e es -> is_cb e = true -> e <> EvConnectCb /\ hreg s = true) ->
  (forall t0, t0 <> t -> thr s' t0 = thr s t0 \/
                          (t0 = nt /\ thr s t0 = None /\
                           match thr s' t0 with Some (TCls k) => k_prev k = Connecting | Some (TJob _) => True | _ => False end)) ->
  thr s' t = o' ->
  (* the stepping thread keeps its kind-specific obligations *)
  (forall a, o' = Some (TAtt a) -> a_kind a = Cli -> hreg s = true) ->
  (forall pc, o' = Some (TCon pc) -> exists pc0, thr s t = Some (TCon pc0) /\ pre_enter pc = pre_enter pc0) ->
  (forall k, o' = Some (TCls k) -> k_prev k = Connected -> hreg s = true) ->
  (* a connect thread past KEnter stays past it, or ends having set the status *)
  (forall pc0, thr s t = Some (TCon pc0) -> pre_enter pc0 = false ->
     (exists pc, o' = Some (TCon pc) /\ pre_enter pc = false) \/ status s' = Connected) ->
  CbInv s'.
Proof.
  intros [C1 C2 C3 C4 C8 C5 C6 C7] NN TR HR KS ST EV OTH THT OA OC OK OC2.
  assert (CBS : hreg s = false -> cbs (trace s') = []).
  { intros F. rewrite TR. unfold cbs. rewrite filter_app. fold (cbs (trace s)). rewrite (C1 F). cbn.
    clear TR. revert EV. induction es as [|e es IH]; intros EV; cbn; auto. destruct (is_cb e) eqn:Ee.
    - destruct (EV e (or_introl eq_refl) Ee) as [_ X]. congruence.
    - apply IH. intros e0 I0. apply EV. right. auto. }
  constructor.
  - rewrite HR. exact CBS.
  - rewrite HR. intros T. rewrite TR. clear CBS.
    revert EV. generalize (trace s) (C2 T). clear - T.
    induction es as [|e es IH]; intros l0 H EV; [rewrite app_nil_r; auto|].
    replace (l0 ++ e :: es) with ((l0 ++ [e]) ++ es) by (rewrite <- app_assoc; reflexivity).
    apply IH.
    + destruct H as (l & E & NI). rewrite cbs_app, E.
      destruct (is_cb e) eqn:Ee; [exists (l ++ [e])|exists l; rewrite app_nil_r]; split; auto.
      intros X. apply in_app_or in X. destruct X as [X|[X|[]]]; auto.
      destruct (EV e (or_introl eq_refl) Ee) as [NE _]. congruence.
    + intros e0 I0. apply EV. right. auto.
  - intros t0 a E K. rewrite HR. destruct (N.eqb_spec t0 t); [subst t0; rewrite THT in E; eauto|].
    destruct (OTH t0 n) as [X|(_ & _ & X)]; [rewrite X in E; eauto|rewrite E in X; destruct X].
  - intros t0 pc E. rewrite HR, KS. destruct (N.eqb_spec t0 t).
    + subst t0. rewrite THT in E. destruct (OC pc E) as (pc0 & E0 & P). destruct (C4 _ _ E0) as [A B].
      split; auto. rewrite P. auto.
    + destruct (OTH t0 n) as [X|(_ & _ & X)]; [rewrite X in E; eauto|rewrite E in X; destruct X].
  - rewrite HR, KS. exact C8.
  - rewrite HR. intros T.
    assert (STC : status s <> Connecting -> status s' <> Connecting).
    { intros N. destruct ST as [-> |[-> |[-> _]]]; auto; discriminate. }
    destruct (C5 T) as [N|(t1 & pc1 & E1 & P1)]; [left; auto|].
    destruct (N.eqb_spec t1 t).
    + subst t1. destruct (OC2 _ E1 P1) as [(pc & E' & P')|X].
      * right. exists t, pc. rewrite THT. auto.
      * left. rewrite X. discriminate.
    + right. exists t1, pc1. split; auto.
      destruct (OTH t1 n) as [X|(_ & X & _)]; [rewrite X; auto|congruence].
  - rewrite HR. intros X. destruct ST as [E|[E|[_ H]]]; auto; [rewrite E in X; auto|rewrite E in X; discriminate].
  - intros t0 k E P. rewrite HR. destruct (N.eqb_spec t0 t); [subst t0; rewrite THT in E; eauto|].
    destruct (OTH t0 n) as [X|(_ & _ & X)]; [rewrite X in E; eauto|].
    rewrite E in X. rewrite X in P. discriminate.
Qed.

Lemma Cb_step0 s s' t o' nt :
  CbInv s -> thr s t <> None ->
  trace s' = trace s -> hreg s' = hreg s -> kstarted s' = kstarted s ->
  (status s' = status s \/ status s' = Closed \/ (status s' = Connected /\ hreg s = true)) ->
  (forall t0, t0 <> t -> thr s' t0 = thr s t0 \/
                          (t0 = nt /\ thr s t0 = None /\
                           match thr s' t0 with Some (TCls k) => k_prev k = Connecting | Some (TJob _) => True | _ => False end)) ->
  thr s' t = o' ->
  (forall a, o' = Some (TAtt a) -> a_kind a = Cli -> hreg s = true) ->
  (forall pc, o' = Some (TCon pc) -> exists pc0, thr s t = Some (TCon pc0) /\ pre_enter pc = pre_enter pc0) ->
  (forall k, o' = Some (TCls k) -> k_prev k = Connected -> hreg s = true) ->
  (forall pc0, thr s t = Some (TCon pc0) -> pre_enter pc0 = false ->
     (exists pc, o' = Some (TCon pc) /\ pre_enter pc = false) \/ status s' = Connected) ->
  CbInv s'.
Proof.
  intros. eapply Cb_step with (es := []); eauto; try (rewrite app_nil_r; auto; fail); try (intros e []; fail).
Qed.

Lemma Cb_step1 s s' t o' e nt :
  CbInv s -> thr s t <> None ->
  trace s' = trace s ++ [e] -> hreg s' = hreg s -> kstarted s' = kstarted s ->
  (status s' = status s \/ status s' = Closed \/ (status s' = Connected /\ hreg s = true)) ->
  (is_cb e = true -> e <> EvConnectCb /\ hreg s = true) ->
  (forall t0, t0 <> t -> thr s' t0 = thr s t0 \/
                          (t0 = nt /\ thr s t0 = None /\
                           match thr s' t0 with Some (TCls k) => k_prev k = Connecting | Some (TJob _) => True | _ => False end)) ->
  thr s' t = o' ->
  (forall a, o' = Some (TAtt a) -> a_kind a = Cli -> hreg s = true) ->
  (forall pc, o' = Some (TCon pc) -> exists pc0, thr s t = Some (TCon pc0) /\ pre_enter pc = pre_enter pc0) ->
  (forall k, o' = Some (TCls k) -> k_prev k = Connected -> hreg s = true) ->
  (forall pc0, thr s t = Some (TCon pc0) -> pre_enter pc0 = false ->
     (exists pc, o' = Some (TCon pc) /\ pre_enter pc = false) \/ status s' = Connected) ->
  CbInv s'.
Proof.
  intros. eapply Cb_step with (es := [e]); eauto.
  intros e0 [<-|[]]. auto.
Qed.

(* threads elsewhere are untouched by a plain update / by an update plus one internal spawn *)
Lemma oth_plain (th : tid -> option thread) t o' nt :
  forall t0, t0 <> t -> upd th t o' t0 = th t0 \/
    (t0 = nt /\ th t0 = None /\ match upd th t o' t0 with Some (TCls k) => k_prev k = Connecting | Some (TJob _) => True | _ => False end).
Proof. intros t0 NE. left. apply upd_other. auto. Qed.

Lemma oth_spawn (th : tid -> option thread) t o' nt x :
  th nt = None -> t <> nt ->
  match x with TCls k => k_prev k = Connecting | TJob _ => True | _ => False end ->
  forall t0, t0 <> t -> upd (upd th nt (Some x)) t o' t0 = th t0 \/
    (t0 = nt /\ th t0 = None /\
     match upd (upd th nt (Some x)) t o' t0 with Some (TCls k) => k_prev k = Connecting | Some (TJob _) => True | _ => False end).
Proof.
  intros FR NT X t0 NE. rewrite upd_other; auto.
  destruct (N.eqb_spec t0 nt); [subst t0; right; rewrite upd_same; auto|left; apply upd_other; auto].
Qed.

Lemma cg_tr g s : trace (close_gate g s) = trace s /\ thr (close_gate g s) = thr s /\
  hreg (close_gate g s) = hreg s /\ kstarted (close_gate g s) = kstarted s /\ status (close_gate g s) = status s.
Proof. unfold close_gate. destruct (gclosed s g); cbn; auto. Qed.
Lemma cgT g s : trace (close_gate g s) = trace s. Proof. apply cg_tr. Qed.
Lemma cgTh g s : thr (close_gate g s) = thr s. Proof. apply cg_tr. Qed.
Lemma cgH g s : hreg (close_gate g s) = hreg s. Proof. apply cg_tr. Qed.
Lemma cgK g s : kstarted (close_gate g s) = kstarted s. Proof. apply cg_tr. Qed.
Lemma cgS g s : status (close_gate g s) = status s. Proof. apply cg_tr. Qed.
Lemma cg_ni' g s : next_int (close_gate g s) = next_int s.
Proof. unfold close_gate. destruct (gclosed s g); reflexivity. Qed.
Lemma cc_tr c s : trace (close_cap c s) = trace s /\ thr (close_cap c s) = thr s /\
  hreg (close_cap c s) = hreg s /\ kstarted (close_cap c s) = kstarted s /\ status (close_cap c s) = status s.
Proof. destruct c; cbn; auto. apply cg_tr. Qed.
Lemma hr_tr c g s : trace (hubrem c g s) = trace s /\ thr (hubrem c g s) = thr s /\
  hreg (hubrem c g s) = hreg s /\ kstarted (hubrem c g s) = kstarted s /\ status (hubrem c g s) = status s.
Proof.
  unfold hubrem. destruct (hub s c); [destruct (_ =? g); [destruct (others s c =? 0)|]|]; cbn; auto.
Qed.

Ltac cb_side ET :=
  first [ intros ? X; inversion X; subst; cbn in *; eauto; fail
        | intros ? X; discriminate X
        | intros ? X; rewrite ET; inversion X; subst; cbn; eauto ].

Ltac oc2 ET := let pc0 := fresh in let X := fresh in let P := fresh in
  intros pc0 X P;
  first [ rewrite ET in X; discriminate X
        | rewrite ET in X; inversion X; subst;
          first [discriminate P | left; eexists; split; reflexivity | right; corec; reflexivity] ].

Lemma att_step_Cb s t a b s' :
  CbInv s -> InvBS s -> thr s t = Some (TAtt a) -> att_step s t a b = Some s' -> CbInv s'.
Proof.
  intros CI I ET H. unfold att_step in H.
  assert (NN : thr s t <> None) by congruence.
  assert (CLI : a_kind a = Cli -> hreg s = true) by (intros K; eapply (cb_cli _ CI); eauto).
  assert (FR : thr s (2 * next_int s + 1) = None) by (eapply fresh_int_b; eauto).
  assert (NT : t <> 2 * next_int s + 1) by (intros E; rewrite <- E in FR; congruence).
  destruct (cc_tr (a_cap a) s) as (C1 & C2 & C3 & C4 & C5).
  destruct (hr_tr (a_ch a) (a_use a) s) as (H1 & H2 & H3 & H4 & H5).
  destruct (hr_tr (a_ch a) (a_own a) s) as (G1 & G2 & G3 & G4 & G5).
  destruct (a_pc a) eqn:EPC;
    repeat match type of H with
    | (if ?c then _ else _) = _ => destruct c eqn:?
    | match ?o with Some _ => _ | None => _ end = _ => destruct o eqn:?
    | match ?k with Cli => _ | Srv => _ end = _ => destruct k eqn:?
    end; try discriminate; inv H; cbv zeta;
    repeat (match goal with |- context [if ?x then _ else _] => destruct x eqn:? end);
    repeat (match goal with |- context [match hub ?s0 ?c with Some _ => _ | None => _ end] => destruct (hub s0 c) eqn:? end);
    repeat (match goal with |- context [if ?x then _ else _] => destruct x eqn:? end).
  all: try (eapply Cb_step0 with (t := t) (nt := 2 * next_int s + 1); [exact CI|exact NN
       |corec; rewrite ?C1, ?H1, ?G1; reflexivity|corec; rewrite ?C3, ?H3, ?G3; reflexivity
       |corec; rewrite ?C4, ?H4, ?G4; reflexivity|corec; rewrite ?C5, ?H5, ?G5; auto
       |corec; rewrite ?C2, ?H2, ?G2; first [apply oth_plain | apply oth_spawn; [exact FR|exact NT|reflexivity]]
       |corec; rewrite ?C2, ?H2, ?G2; apply upd_same
       |intros ? X; inversion X; subst; cbn; intros; first [apply CLI; assumption | congruence | auto]
       |intros ? X; discriminate X|intros ? X; discriminate X|oc2 ET]; fail).
  all: try (eapply Cb_step1 with (t := t) (nt := 2 * next_int s + 1); [exact CI|exact NN
       |corec; reflexivity|corec; reflexivity|corec; reflexivity|corec; auto
       |cbn; intros X; first [discriminate X | split; [discriminate|auto]]
       |corec; apply oth_plain|corec; apply upd_same
       |intros ? X; inversion X; subst; cbn; intros; first [apply CLI; assumption | congruence | auto]
       |intros ? X; discriminate X|intros ? X; discriminate X|oc2 ET]; fail).
Qed.

(* generic application for threads that are neither attempts nor the connect thread *)
Ltac cb0 CI NN FR NT :=
  eapply Cb_step0 with (nt := 2 * next_int _ + 1); [exact CI|exact NN
    |corec; reflexivity|corec; reflexivity|corec; reflexivity|corec; auto
    |corec; first [apply oth_plain | apply oth_spawn; [exact FR|exact NT|reflexivity]]
    |corec; apply upd_same
    |intros ? X; discriminate X|intros ? X; discriminate X
    |intros ? X; inversion X; subst; cbn; auto].

Lemma u_step_Cb s t th u b s1 ou o' :
  CbInv s -> thr s t = Some th -> (forall pc, th <> TCon pc) ->
  (forall k, o' = Some (TCls k) -> k_prev k = Connected -> hreg s = true) ->
  match o' with Some (TAtt _) | Some (TCon _) => False | _ => True end ->
  u_step s t u b = Some (s1, ou) ->
  forall s', trace s' = trace s1 -> thr s' = upd (thr s1) t o' -> hreg s' = hreg s1 ->
             kstarted s' = kstarted s1 -> status s' = status s1 -> CbInv s'.
Proof.
  intros CI ET NTC OK NO H s' TR TH HR KS ST.
  assert (NN : thr s t <> None) by congruence.
  assert (OC2 : forall pc0, thr s t = Some (TCon pc0) -> False) by (intros pc0 X; rewrite ET in X; inversion X; eapply NTC; eauto).
  unfold u_step in H.
  destruct (hr_tr (u_ch u) (u_rm u) s) as (H1 & H2 & H3 & H4 & H5).
  destruct (u_pc u);
    repeat match type of H with
    | (if ?c then _ else _) = _ => destruct c eqn:?
    | match ?o with Some _ => _ | None => _ end = _ => destruct o eqn:?
    end; try discriminate; inv H;
    repeat (match goal with H : context [if ?x then _ else _] |- _ => destruct x eqn:? end).
  all: try (eapply Cb_step0 with (t := t) (nt := 0); [exact CI|exact NN
            |rewrite TR; corec; rewrite ?H1, ?cgT; reflexivity|rewrite HR; corec; rewrite ?H3, ?cgH; reflexivity
            |rewrite KS; corec; rewrite ?H4, ?cgK; reflexivity|rewrite ST; corec; rewrite ?H5, ?cgS; auto
            |rewrite TH; corec; rewrite ?H2, ?cgTh; apply oth_plain
            |rewrite TH; corec; rewrite ?H2, ?cgTh; apply upd_same
            |intros ? X; subst; destruct NO|intros ? X; subst; destruct NO|first [exact OK|intros; assumption|intros k0 X0 P0; pose proof (OK k0 X0 P0) as Q0; discriminate Q0]
            |intros pc0 X0 _; destruct (OC2 pc0 X0)]; fail).
  all: try (eapply Cb_step1 with (t := t) (nt := 0); [exact CI|exact NN
            |rewrite TR; corec; rewrite ?cgT; reflexivity|rewrite HR; corec; rewrite ?cgH; reflexivity
            |rewrite KS; corec; rewrite ?cgK; reflexivity|rewrite ST; corec; rewrite ?cgS; auto
            |cbn; intros X; first [discriminate X | split; [discriminate|]];
             repeat match goal with H : _ && _ = true |- _ => apply andb_true_iff in H; destruct H end; auto
            |rewrite TH; corec; rewrite ?cgTh; apply oth_plain
            |rewrite TH; corec; rewrite ?cgTh; apply upd_same
            |intros ? X; subst; destruct NO|intros ? X; subst; destruct NO|first [exact OK|intros; assumption|intros k0 X0 P0; pose proof (OK k0 X0 P0) as Q0; discriminate Q0]
            |intros pc0 X0 _; destruct (OC2 pc0 X0)]; fail).
Qed.

Lemma Cb_enter s t :
  CbInv s -> LInv s -> thr s t = Some (TCon KEnter) ->
  CbInv (thr_set t (TCon KHandler) (set_hreg true (log EvConnectCb s))).
Proof.
  intros CI LI ET. pose proof CI as [C1 C2 C3 C4 C8 C5 C6 C7]. destruct (C4 _ _ ET) as [KS _].
  assert (SC : status s = Connecting) by (apply (l_conn _ LI t); rewrite ET; reflexivity).
  (* connectMu is held and the status is still Connecting: no other connect command ran the handler *)
  assert (HF : hreg s = false).
  { destruct (hreg s) eqn:H; auto. exfalso. destruct (C5 eq_refl) as [N|(t1 & pc1 & E1 & P1)]; [congruence|].
    assert (t1 = t).
    { eapply (l_cmu1 _ LI); [rewrite E1|rewrite ET; reflexivity]. destruct pc1; try discriminate; reflexivity. }
    subst. rewrite ET in E1. inv E1. discriminate. }
  constructor; corec.
  - discriminate.
  - intros _. exists []. rewrite cbs_app, (C1 HF). cbn. auto.
  - auto.
  - intros t0 pc. unfold upd. destruct (N.eqb_spec t0 t).
    + intros [= <-]. cbn. auto.
    + intros E. destruct (C4 _ _ E). auto.
  - auto.
  - intros _. right. exists t, KHandler. rewrite upd_same. auto.
  - auto.
  - auto.
Qed.

Ltac cbplain_s CI NN FR NT ET s0 :=
  repeat (match goal with |- context [if ?x then _ else _] => destruct x eqn:? end);
  first
  [ eapply Cb_step0 with (nt := 2 * next_int s0 + 1); [exact CI|exact NN
      |corec; reflexivity|corec; reflexivity|corec; reflexivity|corec; auto
      |corec; first [apply oth_plain | apply oth_spawn; [exact FR|exact NT|reflexivity]]
      |corec; apply upd_same
      |intros ? X; discriminate X
      |intros ? X; inversion X; subst; rewrite ET; eauto
      |intros ? X; inversion X; subst; cbn; intros; first [eapply (cb_prev _ CI); eauto; fail | auto]
      |oc2 ET]
  | eapply Cb_step1 with (nt := 2 * next_int s0 + 1); [exact CI|exact NN
      |corec; reflexivity|corec; reflexivity|corec; reflexivity|corec; auto
      |cbn; intros X; first [discriminate X | split; [discriminate|auto]]
      |corec; apply oth_plain|corec; apply upd_same
      |intros ? X; discriminate X
      |intros ? X; inversion X; subst; rewrite ET; eauto
      |intros ? X; inversion X; subst; cbn; intros; first [eapply (cb_prev _ CI); eauto; fail | auto]
      |oc2 ET] ].

Lemma step_thread_Cb s t b s' : CbInv s -> InvBS s -> LInv s -> step_thread s t b = Some s' -> CbInv s'.
Proof.
  intros CI I LI H. unfold step_thread in H.
  destruct (thr s t) as [[a|u|k|k|pc|c]|] eqn:ET; try discriminate.
  all: assert (NN : thr s t <> None) by congruence.
  all: assert (FR : thr s (2 * next_int s + 1) = None) by (eapply fresh_int_b; eauto).
  all: assert (NT : t <> 2 * next_int s + 1) by (intros E; rewrite <- E in FR; congruence).
  - eapply att_step_Cb; eauto.
  - destruct (u_step s t u b) as [[s1 [u'|]]|] eqn:EU; inv H.
    + eapply (u_step_Cb s t _ u b s1 _ (Some (TUns u')) CI ET); [intros ? X; discriminate X|intros ? X; discriminate X|exact Logic.I|exact EU
        |corec; reflexivity|corec; reflexivity|corec; reflexivity|corec; reflexivity|corec; reflexivity].
    + eapply (u_step_Cb s t _ u b s1 _ None CI ET); [intros ? X; discriminate X|intros ? X; discriminate X|exact Logic.I|exact EU
        |corec; reflexivity|corec; reflexivity|corec; reflexivity|corec; reflexivity|corec; reflexivity].
  - (* close *)
    unfold cls_step in H. destruct (k_pc k) eqn:EPC.
    8:{ destruct (k_cur k) as [u|] eqn:EC.
        - destruct (u_step s t u b) as [[s1 ou]|] eqn:EU; [|discriminate]. inv H.
          eapply (u_step_Cb s t _ u b s1 ou (Some (TCls (mkC CLoop (k_prev k) (k_rest k) ou))) CI ET);
            [intros ? X; discriminate X
            |intros k0 X P; inversion X; subst; cbn in P; eapply (cb_prev _ CI); eauto
            |exact Logic.I|exact EU|corec; reflexivity|corec; reflexivity|corec; reflexivity|corec; reflexivity|corec; reflexivity].
        - destruct (k_rest k); [|destruct b]; inv H; cbplain_s CI NN FR NT ET s;
            intros; eapply (cb_prev _ CI); eauto. }
    3:{ (* CFlip *)
        destruct (is_closed (status s)) eqn:CL; inv H; [cbplain_s CI NN FR NT ET s|].
        eapply Cb_step0 with (nt := 0); [exact CI|exact NN|corec; reflexivity|corec; reflexivity|corec; reflexivity
          |corec; right; left; reflexivity|corec; apply oth_plain|corec; apply upd_same
          |intros ? X; discriminate X|intros ? X; discriminate X
          |intros k0 X P; inversion X; subst; cbn in P; apply (cb_conn _ CI); auto|oc2 ET]. }
    7:{ (* CDisc *)
        inv H. destruct (is_connected (k_prev k)) eqn:PK.
        - assert (HR : hreg s = true) by (eapply (cb_prev _ CI); eauto; destruct (k_prev k); try discriminate; auto).
          eapply Cb_step1 with (nt := 0); [exact CI|exact NN|corec; reflexivity|corec; reflexivity|corec; reflexivity
            |corec; auto|cbn; intros _; split; [discriminate|exact HR]|corec; apply oth_plain|corec; apply upd_same
            |intros ? X; discriminate X|intros ? X; discriminate X|intros; exact HR|oc2 ET].
        - cbplain_s CI NN FR NT ET s. }
    all: repeat match type of H with (if ?c then _ else _) = _ => destruct c eqn:? end;
         try discriminate; inv H; cbplain_s CI NN FR NT ET s;
         try (intros; eapply (cb_prev _ CI); eauto).
  - (* tick *)
    unfold tck_step in H. destruct b.
    all: destruct (t_pc k);
      repeat match type of H with
      | (if ?c then _ else _) = _ => destruct c eqn:?
      | match ?l with [] => _ | _ :: _ => _ end = _ => destruct l
      | match ?o with Some _ => _ | None => _ end = _ => destruct o
      end; try discriminate; inv H; cbplain_s CI NN FR NT ET s.
  - (* connect *)
    unfold con_step in H. destruct pc.
    7:{ inv H. apply Cb_enter; auto. }
    all: repeat match type of H with (if ?c then _ else _) = _ => destruct c eqn:? end;
         try discriminate; inv H.
    all: try (cbplain_s CI NN FR NT ET s; fail).
    (* KSet: status becomes Connected; the handlers are registered *)
    destruct (cb_con _ CI _ _ ET) as [KS HR]. specialize (HR eq_refl).
    eapply Cb_step0 with (nt := 0); [exact CI|exact NN|corec; reflexivity|corec; reflexivity|corec; reflexivity
      |corec; right; right; split; [reflexivity|exact HR]|corec; apply oth_plain|corec; apply upd_same
      |intros ? X; discriminate X|intros ? X; discriminate X|intros ? X; discriminate X
      |intros ? ? ?; right; corec; reflexivity].
  - unfold job_step in H. destruct b; inv H; cbplain_s CI NN FR NT ET s.
Qed.

(* a fresh thread, nothing else changes *)
Lemma Cb_spawn s s' tn x :
  CbInv s -> thr s tn = None ->
  trace s' = trace s -> hreg s' = hreg s -> status s' = status s ->
  thr s' = upd (thr s) tn (Some x) ->
  match x with
  | TAtt a => a_kind a = Cli -> hreg s = true
  | TCon pc => pre_enter pc = true /\ kstarted s' = true
  | TCls k => k_prev k = Connecting
  | _ => True
  end ->
  (match x with TCon _ => True | _ => kstarted s' = kstarted s end) ->
  CbInv s'.
Proof.
  intros [C1 C2 C3 C4 C8 C5 C6 C7] FR TR HR ST TH X KS.
  assert (KM : kstarted s = true -> kstarted s' = true).
  { intros K. destruct x; try (rewrite KS; auto). destruct X; auto. }
  constructor; rewrite ?TR, ?HR, ?ST; auto.
  - intros t0 a. rewrite TH. unfold upd. destruct (N.eqb_spec t0 tn); [intros [= ->]; auto|eauto].
  - intros t0 pc. rewrite TH. unfold upd. destruct (N.eqb_spec t0 tn).
    + intros [= ->]. destruct X as (P & K'). split; auto. rewrite P. discriminate.
    + intros E. destruct (C4 _ _ E) as [A B]. split; auto.
  - intros T. specialize (C5 T). destruct C5 as [N|(t1 & pc1 & E1 & P1)]; auto.
    right. exists t1, pc1. split; auto. rewrite TH, upd_other; auto. intros ->. congruence.
  - intros t0 k. rewrite TH. unfold upd. destruct (N.eqb_spec t0 tn); [intros [= ->] P; rewrite X in P; discriminate|eauto].
Qed.

Lemma astep_Cb s l s' : CbInv s -> InvBS s -> LInv s -> astep s l = Some s' -> CbInv s'.
Proof.
  intros CI I LI H. destruct l; cbn in H.
  - (* spawn *)
    unfold spawn in H.
    assert (FR : thr s (2 * next_ext s) = None) by (eapply fresh_ext_b; eauto).
    assert (FRI : thr s (2 * next_int s + 1) = None) by (eapply fresh_int_b; eauto).
    destruct o;
      repeat match type of H with (if ?c then _ else _) = _ => destruct c eqn:? end;
      try discriminate; inv H.
    all: try (eapply Cb_spawn with (tn := 2 * next_ext s); [exact CI|exact FR|corec; reflexivity|corec; reflexivity
             |corec; reflexivity|corec; reflexivity
             |cbn; first [intros K; discriminate K
                         |intros _; repeat match goal with H : _ && _ = true |- _ => apply andb_true_iff in H; destruct H end; assumption
                         |auto]
             |cbn; corec; auto]; fail).
    + (* OShutdown *)
      destruct (reg s).
      * eapply Cb_spawn with (tn := 2 * next_int s + 1); [exact CI|exact FRI|corec; reflexivity|corec; reflexivity
             |corec; reflexivity|corec; reflexivity|cbn; auto|cbn; corec; auto].
      * destruct CI as [C1 C2 C3 C4 C8 C5 C6 C7]. constructor; corec; auto.
  - eapply step_thread_Cb; eauto.
  - (* timeout *)
    unfold timeout_thread in H. destruct (thr s t) as [[a|u|k|k|pc|c]|] eqn:ET; try discriminate.
    all: assert (NN : thr s t <> None) by congruence.
    all: assert (FR : thr s (2 * next_int s + 1) = None) by (eapply fresh_int_b; eauto).
    all: assert (NT : t <> 2 * next_int s + 1) by (intros E; rewrite <- E in FR; congruence).
    + destruct (u_timeout s u) as [s1|] eqn:EU; inv H. unfold u_timeout in EU.
      destruct (u_pc u); try discriminate. inv EU.
      destruct (lookup (u_ch u) (chans s)) as [x|]; [destruct (c_gate x)|];
        try (destruct (cg_tr (c_gen x) s) as (K1 & K2 & K3 & K4 & K5));
        (eapply Cb_step0 with (t := t) (nt := 2 * next_int s + 1); [exact CI|exact NN
          |corec; rewrite ?K1; reflexivity|corec; rewrite ?K3; reflexivity|corec; rewrite ?K4; reflexivity
          |corec; rewrite ?K5; auto
          |corec; rewrite ?K2, ?cg_ni'; apply oth_spawn; [exact FR|exact NT|reflexivity]
          |corec; rewrite ?K2, ?cg_ni'; apply upd_same
          |intros ? X; discriminate X|intros ? X; discriminate X|intros ? X; discriminate X|oc2 ET]).
    + destruct (k_pc k); try discriminate. destruct (k_cur k) as [u|]; try discriminate.
      destruct (u_timeout s u) as [s1|] eqn:EU; inv H. unfold u_timeout in EU.
      destruct (u_pc u); try discriminate. inv EU.
      destruct (lookup (u_ch u) (chans s)) as [x|]; [destruct (c_gate x)|];
        try (destruct (cg_tr (c_gen x) s) as (K1 & K2 & K3 & K4 & K5));
        (eapply Cb_step0 with (t := t) (nt := 2 * next_int s + 1); [exact CI|exact NN
          |corec; rewrite ?K1; reflexivity|corec; rewrite ?K3; reflexivity|corec; rewrite ?K4; reflexivity
          |corec; rewrite ?K5; auto
          |corec; rewrite ?K2, ?cg_ni'; apply oth_spawn; [exact FR|exact NT|reflexivity]
          |corec; rewrite ?K2, ?cg_ni'; apply upd_same
          |intros ? X; discriminate X|intros ? X; discriminate X
          |intros k0 X P; inversion X; subst; cbn in P; eapply (cb_prev _ CI); eauto|oc2 ET]).
  - (* job start *)
    unfold job_start in H. destruct (mem c (jobs s) && negb (slock s c)); [|discriminate].
    assert (FRI : thr s (2 * next_int s + 1) = None) by (eapply fresh_int_b; eauto).
    destruct (subscribers s c); inv H.
    + destruct CI as [C1 C2 C3 C4 C8 C5 C6 C7]. constructor; corec; auto.
    + eapply Cb_spawn with (tn := 2 * next_int s + 1); [exact CI|exact FRI|corec; reflexivity|corec; reflexivity
             |corec; reflexivity|corec; reflexivity|cbn; auto|cbn; corec; auto].
  - unfold other_add in H. destruct (slock s c); [discriminate|].
    destruct CI as [C1 C2 C3 C4 C8 C5 C6 C7].
    destruct (subscribers s c); [|destruct b]; inv H; constructor; corec; auto.
  - unfold other_rem in H. destruct (slock s c || (others s c =? 0)); [discriminate|].
    destruct CI as [C1 C2 C3 C4 C8 C5 C6 C7].
    destruct ((others s c =? 1) && match hub s c with None => true | Some _ => false end); inv H;
      constructor; corec; auto.
Qed.

Theorem exec_Cb l : forall s s', CbInv s -> InvBS s -> LInv s -> exec l s = Some s' -> CbInv s'.
Proof.
  induction l as [|x l IH]; cbn; intros s s' CI I LI H.
  - inv H. auto.
  - destruct (astep s x) as [s1|] eqn:E; [|discriminate].
    apply (IH s1 s'); auto; [eapply astep_Cb|eapply astep_B|eapply astep_L]; eauto.
Qed.

(* ---- C08 statements ---- *)
(* the callback log starts with the connect callback and contains it exactly once *)
Theorem connect_first_once sched s :
  exec sched init = Some s ->
  cbs (trace s) = [] \/ exists l, cbs (trace s) = EvConnectCb :: l /\ ~ In EvConnectCb l.
Proof.
  intros E. assert (CI : CbInv s) by (eapply exec_Cb; eauto; [apply CbInv_init|apply InvBS_init|apply LInv_init]).
  destruct (hreg s) eqn:H; [right; apply (cb_first _ CI H)|left; apply (cb_none _ CI H)].
Qed.

(* a disconnect callback (like any other) is only ever preceded by the connect callback *)
Theorem callback_needs_connect sched s e :
  exec sched init = Some s -> In e (trace s) -> is_cb e = true -> In EvConnectCb (trace s).
Proof.
  intros E HI CB. destruct (connect_first_once _ _ E) as [N|(l & EQ & _)].
  - assert (X : In e (cbs (trace s))) by (apply filter_In; auto). rewrite N in X. destruct X.
  - assert (X : In EvConnectCb (cbs (trace s))) by (rewrite EQ; left; auto).
    apply filter_In in X. tauto.
Qed.
