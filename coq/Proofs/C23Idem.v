(* C23 core domain, extension: idempotency keys (result cache) in map_broker_add.lua. *)
From Coq Require Import List NArith ZArith Bool String Ascii Lia.
From Cfg Require Import Model.RStr Model.LuaNum Model.Redis Model.RedisScripts Model.MapApi23 Model.MemMap23
                        Model.RedisMapBroker Model.RedisMapScripts
                        Proofs.C18Lib Proofs.C18Redis Proofs.C23Redis Proofs.C23Lib Proofs.C23Add Proofs.C23Read Proofs.C23Add2
                        Proofs.C23Add3 Proofs.C23Add4.
From Cfg Require Proofs.C18Stream Proofs.C18StreamP Proofs.C18StreamH.
Import ListNotations.
Open Scope string_scope.

Definition idem_cond (rk rexp : string) : bool := (negb (String.eqb rexp "") && negb (String.eqb rk ""))%bool.

Definition idem_check (rk rexp : string) : M (option (reply * string)) :=
  if idem_cond rk rexp then
    dom e <- rc ["hget"; rk; "e"] ;;
    match e with
    | RBulk ep => dom o <- rc ["hget"; rk; "s"] ;; ret (Some (o, ep))
    | RNil => ret None
    | _ => unreachable
    end
  else ret None.

Definition idem_store (rk rexp epoch : string) (top : Z) : M unit :=
  if idem_cond rk rexp then
    dom tops <- num_arg top ;;
    dom _ <- rc ["hset"; rk; "e"; epoch; "s"; tops] ;;
    dom _ <- rc ["pexpire"; rk; rexp] ;; ret tt
  else ret tt.

Definition core_keyed3_i (ch key payload size sttl nonce now_s km eo ee vs vf vef vep rk rexp : string) (delta : bool) : M reply :=
  dom now <- num_of now_s ;;
  dom hit <- idem_check rk rexp ;;
  match hit with
  | Some (o, ep) => finish (RArr [o; RBulk ep; RBulk "idempotency"])
  | None =>
  dom et <- (dom epoch <- current_epoch (k_meta ch) nonce ;;
             dom wipe <- wipe_check ch epoch ;;
             dom _ <- wipe_do ch wipe ;;
             dom _ <- version_block ch vs vf vef vep epoch ;;
             dom _ <- keymode_block ch key km epoch ;;
             dom _ <- cas_block ch key eo ee epoch ;;
             incr_top_v ch epoch vs vf vef vep) ;;
  let '(epoch, top) := et in
  dom prev <- prev_block ch key delta ;;
  dom _ <- state_block ch key epoch payload top now ;;
  dom _ <- stream_block ch epoch payload size sttl top ;;
  dom _ <- when_ true (rc ["PUBLISH"; m_channel ch; pub_msg prev top epoch payload]) ;;
  dom _ <- idem_store rk rexp epoch top ;;
  finish (RArr [RInt top; RBulk epoch; RBulk ""])
  end.

Lemma core_keyed3_i_eq ch c key payload size sttl nonce now_s (delta refresh : bool) vep score km eo ee vs vf vef idem rexp :
  sh_map_add [k_stream ch; k_meta ch; k_result ch idem; k_state ch; ""; k_expire ch; k_smeta ch; ""]
             [String c key; payload; size; sttl; m_channel ch; "0"; nonce; "PUBLISH"; rexp; if delta then "1" else "0";
              vs; vep; "0"; score; "0"; "0"; ch; km; if refresh then "1" else "0"; eo; ee; ""; ""; vf; vef; now_s]
  = core_keyed3_i ch (String c key) payload size sttl nonce now_s km eo ee vs vf vef vep (k_result ch idem) rexp delta.
Proof. destruct delta; destruct refresh; reflexivity. Qed.

Definition core_unkeyed_i (ch payload size sttl nonce now_s rk rexp : string) : M reply :=
  dom now <- num_of now_s ;;
  dom hit <- idem_check rk rexp ;;
  match hit with
  | Some (o, ep) => finish (RArr [o; RBulk ep; RBulk "idempotency"])
  | None =>
  dom et <- (dom epoch <- current_epoch (k_meta ch) nonce ;; incr_top ch epoch) ;;
  let '(epoch, top) := et in
  dom _ <- stream_block ch epoch payload size sttl top ;;
  dom _ <- when_ true (rc ["PUBLISH"; m_channel ch; pub_msg None top epoch payload]) ;;
  dom _ <- idem_store rk rexp epoch top ;;
  finish (RArr [RInt top; RBulk epoch; RBulk ""])
  end.

Lemma core_unkeyed_i_eq ch payload size sttl nonce now_s (delta : bool) vep score refresh idem rexp :
  sh_map_add [k_stream ch; k_meta ch; k_result ch idem; ""; ""; ""; ""; ""]
             [""; payload; size; sttl; m_channel ch; "0"; nonce; "PUBLISH"; rexp; if delta then "1" else "0"; "0"; vep; "0"; score; "0";
              "0"; ch; ""; refresh; ""; ""; ""; ""; ""; ""; now_s]
  = core_unkeyed_i ch payload size sttl nonce now_s (k_result ch idem) rexp.
Proof. destruct delta; reflexivity. Qed.

Definition core_remove2_i (ch key payload size sttl nonce now_s eo ee rk rexp : string) : M reply :=
  dom now <- num_of now_s ;;
  dom hit <- idem_check rk rexp ;;
  match hit with
  | Some (o, ep) => finish (RArr [o; RBulk ep; RBulk "idempotency"])
  | None =>
  dom et <- (dom epoch <- current_epoch (k_meta ch) nonce ;;
             dom wipe <- wipe_check ch epoch ;;
             dom _ <- wipe_do ch wipe ;;
             dom _ <- cas_block ch key eo ee epoch ;;
             dom _ <- leave_check ch key epoch ;;
             incr_top ch epoch) ;;
  let '(epoch, top) := et in
  dom _ <- leave_block ch key ;;
  dom _ <- stream_block ch epoch payload size sttl top ;;
  dom _ <- when_ true (rc ["PUBLISH"; m_channel ch; pub_msg None top epoch payload]) ;;
  dom _ <- idem_store rk rexp epoch top ;;
  finish (RArr [RInt top; RBulk epoch; RBulk ""])
  end.

Lemma core_remove2_i_eq ch c key payload size sttl nonce now_s eo ee idem rexp :
  sh_map_add [k_stream ch; k_meta ch; k_result ch idem; k_state ch; ""; k_expire ch; k_smeta ch; ""]
             [String c key; payload; size; sttl; m_channel ch; "0"; nonce; "PUBLISH"; rexp; "0"; "0"; ""; "1"; "0"; "0"; "0";
              ""; ""; "0"; eo; ee; ""; ""; "v:" ++ String c key; "ve:" ++ String c key; now_s]
  = core_remove2_i ch (String c key) payload size sttl nonce now_s eo ee (k_result ch idem) rexp.
Proof. reflexivity. Qed.

(* ---------- the result key ---------- *)
Definition res_view (st : rstate) (rk : string) (o : option (N * string)) : Prop :=
  match o with
  | None => getk st rk = None
  | Some (off, ep) => exists h x, getk st rk = Some (mkKey (VHash h) x) /\ sfind "e" h = Some ep /\ sfind "s" h = Some (dec off)
  end.

Lemma idem_check_miss st rk rexp : res_view st rk None -> idem_check rk rexp st = (st, inl None).
Proof.
  intros H. unfold idem_check. destruct (idem_cond rk rexp); [|reflexivity].
  rewrite bind_rc, (hget_none _ _ _ H). reflexivity.
Qed.

Lemma idem_check_hit st rk rexp off ep : idem_cond rk rexp = true -> res_view st rk (Some (off, ep)) ->
  idem_check rk rexp st = (st, inl (Some (RBulk (dec off), ep))).
Proof.
  intros Hc (h & x & Hk & He & Hs). unfold idem_check. rewrite Hc.
  rewrite bind_rc, (hget_some _ _ _ _ _ Hk), He. cbn [bulk_opt]. cbn iota beta.
  rewrite bind_rc, (hget_some _ _ _ _ _ Hk), Hs. reflexivity.
Qed.

Lemma idem_store_spec st rk rz epoch top :
  (0 < rz < 2147483648)%Z -> rk <> "" -> (top < BOUND)%N -> res_view st rk None ->
  exists st', idem_store rk (millis rz) epoch (Z.of_N top) st = (st', inl tt) /\ res_view st' rk (Some (top, epoch)) /\ frame [rk] st st'.
Proof.
  intros Hrz Hrk Ht Hv. unfold idem_store, idem_cond. unfold C18Stream.BOUND in Ht.
  rewrite millis_pos by lia. rewrite dec_eqb_empty. apply String.eqb_neq in Hrk. rewrite Hrk. cbn [negb andb].
  unfold bindM at 1. rewrite num_arg_small by lia.
  destruct (hset2_none st rk "e" epoch "s" (dec top) Hv) as [n Hs]. rewrite bind_rc, Hs. cbn iota beta.
  set (st1 := setval st rk _).
  rewrite bind_rc. rewrite (pexpire_some st1 rk _ rz _ (getk_setval_same _ _ _)); [| rewrite parse_ll_dec by lia; f_equal; lia | lia].
  cbn iota beta. eexists. split; [reflexivity|]. split.
  - cbn [res_view k_val]. eexists. eexists. split.
    + rewrite getk_putk_same. unfold live. cbn [k_exp]. replace (now st1 <? now st1 + Z.to_N rz)%N with true by (symmetry; apply N.ltb_lt; lia). reflexivity.
    + split; [reflexivity | reflexivity].
  - eapply frame_trans; [apply frame_setval | apply frame_putk].
Qed.

Lemma core_keyed3_i_spec st ch c key payload size sttl nonce now_ delta v epoch top es0 state km exp ver vep rk rz :
  let K := String c key in
  views st ch v -> meta_cond v nonce epoch top -> stream_cond v top es0 -> wipe_cond v epoch ->
  rv_state v = state_view epoch state -> (forall kv, In kv state -> entry_ok (snd kv)) ->
  ver_rel (hash_or_empty (rv_smeta v)) state ->
  (forall kv, In kv state -> (me_ver (snd kv) < 9007199254740992)%N) -> (ver < 9007199254740992)%N ->
  (top + 1 < BOUND)%N -> (size < 9223372036854775808)%N -> C18Stream.small sttl = true -> exp_ok exp ->
  res_view st rk None -> ~ In rk (chan_keys ch) -> rk <> "" -> (0 < rz < 2147483648)%Z ->
  let run := runM (core_keyed3_i ch K payload (dec size) (millis sttl) nonce (dec now_) km (exp_off exp) (exp_epoch exp)
                               (vstr ver) (vfld ver K) (vefld ver K) vep rk (millis rz) delta) st in
  let supp (r : reply) := exists st1 h1, run = (st1, r) /\ hview st1 (k_meta ch) (Some h1) /\ hash_ok h1 epoch top 0 "" /\
                                         frame [k_meta ch] st st1 in
  if ver_dec ver vep (sfind K state) then supp (RArr [RInt (Z.of_N top); RBulk epoch; RBulk "version"]) else
  match km_decision km (is_some (sfind K state)) with
  | Some r => supp (RArr [RInt (Z.of_N top); RBulk epoch; RBulk r])
  | None =>
      match cas_dec epoch exp (sfind K state) with
      | Some _ => supp (RArr [RInt (Z.of_N top); RBulk epoch; RBulk "position_mismatch"; RBulk (cur_val epoch K (sfind K state))])
      | None =>
          exists st' mh',
            run = (st', RArr [RInt (Z.of_N (top + 1)); RBulk epoch; RBulk ""]) /\
            views st' ch (mkRV (Some mh')
                               (Some (sput K (state_value (Z.of_N (top + 1)) epoch payload) (hash_or_empty (rv_state v))))
                               (Some (smeta_after_state (round53 (Z.of_N now_)) epoch
                                        (smeta_after_ver ver vep K (hash_or_empty (rv_smeta v)))))
                               (Some (trim_approx (es0 ++ [sentry_of (top + 1) epoch payload]) (Z.of_N size), ((top + 1)%N, 0%N)))) /\
            hash_ok mh' epoch (top + 1) 0 "" /\ res_view st' rk (Some ((top + 1)%N, epoch)) /\ frame (rk :: chan_keys ch) st st'
      end
  end.
Proof.
  intros K (Vm & Vs & Vsm & Vst & Ve) Hm Hsc Hw Est Hent Hvr Hvb Hver Ht Hsz Httl Hexp Hres Hrk Hrk0 Hrz run supp. subst run supp. unfold K. clear K.
  assert (Htop : (top < BOUND)%N) by (unfold C18Stream.BOUND in *; lia).
  destruct (epoch_spec st ch nonce _ epoch top Vm Hm) as (st1 & h1 & Hc1 & Vm1 & Hh1 & F1).
  assert (Vs1 : hview st1 (k_state ch) (rv_state v)) by (apply (hview_frame _ _ _ _ _ F1); [notin | exact Vs]).
  assert (Vsm1 : hview st1 (k_smeta ch) (rv_smeta v)) by (apply (hview_frame _ _ _ _ _ F1); [notin | exact Vsm]).
  assert (Ecur : match sfind (String c key) (hash_or_empty (rv_state v)) with Some _ => true | None => false end
                 = is_some (sfind (String c key) state)).
  { rewrite Est, state_view_hash, sfind_enc_s. destruct (sfind (String c key) state); reflexivity. }
  assert (Vs1' : hview st1 (k_state ch) (state_view epoch state)) by (rewrite <- Est; exact Vs1).
  assert (Hcas : cas_block ch (String c key) (exp_off exp) (exp_epoch exp) epoch st1 =
                 match cas_dec epoch exp (sfind (String c key) state) with
                 | Some _ => (st1, inr (RArr [RInt (Z.of_N top); RBulk epoch; RBulk "position_mismatch";
                                            RBulk (cur_val epoch (String c key) (sfind (String c key) state))]))
                 | None => (st1, inl tt)
                 end).
  { destruct exp as [[eo ee]|]; [|reflexivity]. destruct Hexp as [He1 He2]. cbn [exp_off exp_epoch cas_dec]. unfold utoa.
    apply (cas_block_spec st1 ch c key eo ee epoch state h1 top); assumption. }
  pose proof (keymode_block_spec st1 ch c key km epoch _ h1 top Vs1 Vm1 Hh1 Htop) as Hkm. rewrite Ecur in Hkm.
  pose proof (version_block_spec st1 ch (String c key) ver vep epoch _ state h1 top Vsm1 Hvr Hvb Hver Vm1 Hh1 Htop) as Hvb1.
  assert (Hpre : forall (k : string -> M (string * Z)) (k2 : Z -> string * Z -> M reply),
            runM (dom now <- num_of (dec now_) ;;
                  dom hit <- idem_check rk (millis rz) ;;
                  match hit with
                  | Some (o, ep) => finish (RArr [o; RBulk ep; RBulk "idempotency"])
                  | None =>
                  dom et <- (dom epoch0 <- current_epoch (k_meta ch) nonce ;;
                             dom wipe <- wipe_check ch epoch0 ;;
                             dom _ <- wipe_do ch wipe ;; k epoch0) ;; k2 now et
                  end) st
            = match k epoch st1 with
              | (st', inl et) => runM (k2 (round53 (Z.of_N now_)) et) st'
              | (st', inr r) => (st', r)
              end).
  { intros k k2. unfold runM. unfold bindM at 1. rewrite num_of_dec_any.
    unfold bindM at 1. rewrite (idem_check_miss _ _ _ Hres).
    rewrite bind_assoc. unfold bindM at 1. rewrite Hc1.
    rewrite bind_assoc. unfold bindM at 1. rewrite (wipe_spec st1 ch epoch _ _ Vs1 Vsm1 Hw).
    rewrite bind_assoc. unfold bindM at 1. unfold wipe_do at 1. unfold ret at 1.
    unfold bindM at 1. destruct (k epoch st1) as [st' [et|r]]; reflexivity. }
  set (K := String c key) in *.
  assert (Hblk : (dom _ <- version_block ch (vstr ver) (vfld ver K) (vefld ver K) vep epoch ;;
                  dom _ <- keymode_block ch K km epoch ;;
                  dom _ <- cas_block ch K (exp_off exp) (exp_epoch exp) epoch ;;
                  incr_top_v ch epoch (vstr ver) (vfld ver K) (vefld ver K) vep) st1 =
                 if ver_dec ver vep (sfind K state) then (st1, inr (RArr [RInt (Z.of_N top); RBulk epoch; RBulk "version"])) else
                 match km_decision km (is_some (sfind K state)) with
                 | Some r => (st1, inr (RArr [RInt (Z.of_N top); RBulk epoch; RBulk r]))
                 | None =>
                     match cas_dec epoch exp (sfind K state) with
                     | Some _ => (st1, inr (RArr [RInt (Z.of_N top); RBulk epoch; RBulk "position_mismatch";
                                                 RBulk (cur_val epoch K (sfind K state))]))
                     | None => incr_top_v ch epoch (vstr ver) (vfld ver K) (vefld ver K) vep st1
                     end
                 end).
  { unfold bindM at 1. rewrite Hvb1. destruct (ver_dec ver vep (sfind K state)); [reflexivity|].
    unfold bindM at 1. rewrite Hkm. destruct (km_decision km (is_some (sfind K state))); [reflexivity|].
    unfold bindM at 1. rewrite Hcas. destruct (cas_dec epoch exp (sfind K state)); reflexivity. }
  unfold core_keyed3_i.
  rewrite (Hpre (fun e0 => dom _ <- version_block ch (vstr ver) (vfld ver K) (vefld ver K) vep e0 ;;
                           dom _ <- keymode_block ch K km e0 ;;
                           dom _ <- cas_block ch K (exp_off exp) (exp_epoch exp) e0 ;;
                           incr_top_v ch e0 (vstr ver) (vfld ver K) (vefld ver K) vep)).
  cbv beta. rewrite Hblk.
  destruct (ver_dec ver vep (sfind K state)).
  { exists st1, h1. split; [reflexivity|]. split; [assumption|]. split; assumption. }
  destruct (km_decision km (is_some (sfind K state))) as [r|].
  { exists st1, h1. split; [reflexivity|]. split; [assumption|]. split; assumption. }
  destruct (cas_dec epoch exp (sfind K state)) as [cp|].
  { exists st1, h1. split; [reflexivity|]. split; [assumption|]. split; assumption. }
  subst K.
  (* accepted *)
  destruct (incr_top_v_spec st1 ch epoch h1 top ver vep (String c key) _ Vm1 Hh1 Ht Vsm1) as (st2 & h2 & Hc2 & Vm2 & Hh2 & Vsm2 & F12).
  rewrite Hc2. cbn iota beta. unfold runM.
  assert (F2 : frame [k_meta ch; k_smeta ch] st st2).
  { eapply frame_trans; [eapply frame_weaken; [|exact F1]; inclt | exact F12]. }
  assert (Vs2 : hview st2 (k_state ch) (rv_state v)) by (apply (hview_frame _ _ _ _ _ F2); [notin | exact Vs]).
  destruct (prev_block_spec st2 ch (String c key) delta _ Vs2) as [prev Hp].
  unfold bindM at 1. rewrite Hp.
  destruct (state_block_spec2 st2 ch (String c key) epoch payload (Z.of_N (top + 1)) (round53 (Z.of_N now_)) _ _ Vs2 Vsm2)
    as (st3 & Hc3 & Vs3 & Vsm3 & F3).
  unfold bindM at 1. rewrite Hc3.
  assert (Esm : hash_or_empty (if (0 <? ver)%N then Some (smeta_after_ver ver vep (String c key) (hash_or_empty (rv_smeta v))) else rv_smeta v)
                = smeta_after_ver ver vep (String c key) (hash_or_empty (rv_smeta v))).
  { unfold smeta_after_ver. destruct (0 <? ver)%N; reflexivity. }
  rewrite Esm in Vsm3.
  assert (F03 : frame [k_meta ch; k_state ch; k_smeta ch] st st3).
  { eapply frame_trans; [eapply frame_weaken; [|exact F2]; inclt | eapply frame_weaken; [|exact F3]; inclt]. }
  assert (Vst3 : sview st3 (k_stream ch) (rv_stream v)) by (apply (sview_frame _ _ _ _ _ F03); [notin | exact Vst]).
  assert (Hsc2 : (top = 0%N /\ es0 = []) \/ ((0 < top)%N /\ rv_stream v = Some (es0, (top, 0%N)))) by exact Hsc.
  destruct (stream_block_spec st3 ch epoch payload size sttl top _ es0 Vst3 Hsc2 Ht Hsz Httl) as (st4 & Hc4 & Vst4 & F4).
  unfold bindM at 1. rewrite Hc4. unfold bindM at 1. rewrite publish_spec.
  set (st5 := mkR (store st4) (now st4) _).
  assert (F35 : frame [k_stream ch] st3 st5) by (eapply frame_trans; [exact F4 | apply frame_publish]).
  assert (F05 : frame (chan_keys ch) st st5).
  { eapply frame_trans; [eapply frame_weaken; [|exact F03]; ck | eapply frame_weaken; [|exact F35]; ck]. }
  assert (Hres5 : res_view st5 rk None) by (cbn [res_view]; destruct F05 as [F05 _]; rewrite F05 by exact Hrk; exact Hres).
  destruct (idem_store_spec st5 rk rz epoch (top + 1) Hrz Hrk0 Ht Hres5) as (st6 & Hc6 & Hres6 & F6).
  unfold bindM at 1. rewrite Hc6. unfold finish.
  assert (Hnk : forall k, In k (chan_keys ch) -> ~ In k [rk]) by (intros k0 Hk0 [<-|[]]; contradiction).
  exists st6, h2. split; [reflexivity|].
  split; [|split; [exact Hh2 | split; [exact Hres6|]]].
  2:{ eapply frame_trans; [eapply frame_weaken; [|exact F05]; intros y0 Hy0; right; exact Hy0 | eapply frame_weaken; [|exact F6]; intros y0 [<-|[]]; left; reflexivity]. }
  unfold views. cbn [rv_meta rv_state rv_smeta rv_stream].
  split; [apply (hview_frame _ _ _ _ _ F6); [apply Hnk; unfold chan_keys; cbn [In]; auto 10|]; apply (hview_frame _ _ _ _ _ F35); [notin|]; apply (hview_frame _ _ _ _ _ F3); [notin | exact Vm2]|].
  split; [apply (hview_frame _ _ _ _ _ F6); [apply Hnk; unfold chan_keys; cbn [In]; auto 10|]; apply (hview_frame _ _ _ _ _ F35); [notin | exact Vs3]|].
  split; [apply (hview_frame _ _ _ _ _ F6); [apply Hnk; unfold chan_keys; cbn [In]; auto 10|]; apply (hview_frame _ _ _ _ _ F35); [notin | exact Vsm3]|].
  split; [apply (sview_frame _ _ _ _ _ F6); [apply Hnk; unfold chan_keys; cbn [In]; auto 10 | exact Vst4]|].
  destruct F6 as [F6 _]. rewrite F6 by (apply Hnk; unfold chan_keys; cbn [In]; auto 10).
  destruct F35 as [F35 _]. destruct F03 as [F03 _]. rewrite F35 by notin. rewrite F03 by notin. exact Ve.
Qed.

Lemma views_frame ks st st' ch v : frame ks st st' -> (forall k, In k (chan_keys ch) -> ~ In k ks) -> views st ch v -> views st' ch v.
Proof.
  intros F Hn (Vm & Vs & Vsm & Vst & Ve). unfold chan_keys in Hn. cbn [In] in Hn.
  split; [apply (hview_frame _ _ _ _ _ F); [apply Hn; auto 10 | exact Vm]|].
  split; [apply (hview_frame _ _ _ _ _ F); [apply Hn; auto 10 | exact Vs]|].
  split; [apply (hview_frame _ _ _ _ _ F); [apply Hn; auto 10 | exact Vsm]|].
  split; [apply (sview_frame _ _ _ _ _ F); [apply Hn; auto 10 | exact Vst]|].
  destruct F as [F _]. rewrite F by (apply Hn; auto 10). exact Ve.
Qed.

Lemma core_unkeyed_i_spec st ch payload size sttl nonce now_ v epoch top es0 rk rz :
  views st ch v -> meta_cond v nonce epoch top -> stream_cond v top es0 ->
  (top + 1 < BOUND)%N -> (size < 9223372036854775808)%N -> C18Stream.small sttl = true ->
  res_view st rk None -> ~ In rk (chan_keys ch) -> rk <> "" -> (0 < rz < 2147483648)%Z ->
  exists st' mh',
    runM (core_unkeyed_i ch payload (dec size) (millis sttl) nonce (dec now_) rk (millis rz)) st
      = (st', RArr [RInt (Z.of_N (top + 1)); RBulk epoch; RBulk ""]) /\
    views st' ch (mkRV (Some mh') (rv_state v) (rv_smeta v)
                       (Some (trim_approx (es0 ++ [sentry_of (top + 1) epoch payload]) (Z.of_N size), ((top + 1)%N, 0%N)))) /\
    hash_ok mh' epoch (top + 1) 0 "" /\ res_view st' rk (Some ((top + 1)%N, epoch)) /\ frame (rk :: chan_keys ch) st st'.
Proof.
  intros (Vm & Vs & Vsm & Vst & Ve) Hm Hsc Ht Hsz Httl Hres Hrk Hrk0 Hrz.
  unfold runM, core_unkeyed_i. unfold bindM at 1. rewrite num_of_dec_any.
  unfold bindM at 1. rewrite (idem_check_miss _ _ _ Hres).
  destruct (epoch_spec st ch nonce _ epoch top Vm Hm) as (st1 & h1 & Hc1 & Vm1 & Hh1 & F1).
  rewrite bind_assoc. unfold bindM at 1. rewrite Hc1.
  destruct (incr_spec st1 ch epoch h1 top Vm1 Hh1 Ht) as (h2 & Hc2 & Hh2).
  unfold bindM at 1. rewrite Hc2. cbn iota beta.
  set (st2 := setval st1 (k_meta ch) (VHash h2)).
  assert (F2 : frame [k_meta ch] st st2) by (eapply frame_trans; [exact F1 | apply frame_setval]).
  assert (Vst2 : sview st2 (k_stream ch) (rv_stream v)) by (apply (sview_frame _ _ _ _ _ F2); [notin | exact Vst]).
  assert (Hsc2 : (top = 0%N /\ es0 = []) \/ ((0 < top)%N /\ rv_stream v = Some (es0, (top, 0%N)))) by exact Hsc.
  destruct (stream_block_spec st2 ch epoch payload size sttl top _ es0 Vst2 Hsc2 Ht Hsz Httl) as (st3 & Hc3 & Vst3 & F3).
  unfold bindM at 1. rewrite Hc3. unfold bindM at 1. rewrite publish_spec.
  set (st4 := mkR (store st3) (now st3) _).
  assert (F24 : frame [k_stream ch] st2 st4) by (eapply frame_trans; [exact F3 | apply frame_publish]).
  assert (F04 : frame (chan_keys ch) st st4).
  { eapply frame_trans; [eapply frame_weaken; [|exact F2]; ck | eapply frame_weaken; [|exact F24]; ck]. }
  assert (Hres4 : res_view st4 rk None) by (cbn [res_view]; destruct F04 as [F04' _]; rewrite F04' by exact Hrk; exact Hres).
  destruct (idem_store_spec st4 rk rz epoch (top + 1) Hrz Hrk0 Ht Hres4) as (st6 & Hc6 & Hres6 & F6).
  unfold bindM at 1. rewrite Hc6. unfold finish.
  assert (Hnk : forall k, In k (chan_keys ch) -> ~ In k [rk]) by (intros k0 Hk0 [<-|[]]; contradiction).
  exists st6, h2. split; [reflexivity|].
  split; [|split; [exact Hh2 | split; [exact Hres6|]]].
  2:{ eapply frame_trans; [eapply frame_weaken; [|exact F04]; intros y0 Hy0; right; exact Hy0 | eapply frame_weaken; [|exact F6]; intros y0 [<-|[]]; left; reflexivity]. }
  apply (views_frame _ _ _ _ _ F6 Hnk).
  unfold views. cbn [rv_meta rv_state rv_smeta rv_stream].
  split; [apply (hview_frame _ _ _ _ _ F24); [notin | apply hview_setval]|].
  split; [apply (hview_frame _ _ _ _ _ F24); [notin|]; apply (hview_frame _ _ _ _ _ F2); [notin | exact Vs]|].
  split; [apply (hview_frame _ _ _ _ _ F24); [notin|]; apply (hview_frame _ _ _ _ _ F2); [notin | exact Vsm]|].
  split; [exact Vst3|].
  destruct F24 as [F24 _]. destruct F2 as [F2 _]. rewrite F24 by notin. rewrite F2 by notin. exact Ve.
Qed.

Lemma core_remove2_i_present st ch key payload size sttl nonce now_ v h hst hs epoch top es0 eo ee rk rz :
  views st ch v -> rv_meta v = Some h -> hash_ok h epoch top 0 "" ->
  rv_state v = Some hst -> sfind key hst <> None ->
  rv_smeta v = Some hs -> sfind "epoch" hs = Some epoch ->
  stream_cond v top es0 ->
  (top + 1 < BOUND)%N -> (size < 9223372036854775808)%N -> C18Stream.small sttl = true ->
  cas_block ch key eo ee epoch st = (st, inl tt) ->
  res_view st rk None -> ~ In rk (chan_keys ch) -> rk <> "" -> (0 < rz < 2147483648)%Z ->
  exists st' mh',
    runM (core_remove2_i ch key payload (dec size) (millis sttl) nonce (dec now_) eo ee rk (millis rz)) st
      = (st', RArr [RInt (Z.of_N (top + 1)); RBulk epoch; RBulk ""]) /\
    views st' ch (mkRV (Some mh') (match sdel key hst with [] => None | h' => Some h' end) (Some (smeta_after_leave key hs))
                       (Some (trim_approx (es0 ++ [sentry_of (top + 1) epoch payload]) (Z.of_N size), ((top + 1)%N, 0%N)))) /\
    hash_ok mh' epoch (top + 1) 0 "" /\ res_view st' rk (Some ((top + 1)%N, epoch)) /\ frame (rk :: chan_keys ch) st st'.
Proof.
  intros (Vm & Vs & Vsm & Vst & Ve) Em Hh Es Hk Esm Hep Hsc Ht Hsz Httl Hcas Hres Hrk Hrk0 Hrz. rewrite Em in Vm. rewrite Es in Vs. rewrite Esm in Vsm.
  unfold runM, core_remove2_i. unfold bindM at 1. rewrite num_of_dec_any.
  unfold bindM at 1. rewrite (idem_check_miss _ _ _ Hres).
  pose proof Vm as [x Vmx].
  rewrite bind_assoc. unfold bindM at 1.
  rewrite (C18StreamP.cur_epoch_some _ _ _ _ _ _ Vmx (proj1 Hh)).
  rewrite bind_assoc. unfold bindM at 1.
  rewrite (wipe_spec st ch epoch _ _ Vs Vsm (or_intror (ex_intro _ hs (conj eq_refl Hep)))).
  rewrite bind_assoc. unfold bindM at 1. unfold wipe_do at 1. unfold ret at 1.
  rewrite bind_assoc. unfold bindM at 1. rewrite Hcas.
  rewrite bind_assoc. unfold bindM at 1.
  rewrite (leave_check_present st ch key epoch _ Vs Hk).
  destruct (incr_spec st ch epoch h top Vm Hh Ht) as (h2 & Hc2 & Hh2).
  unfold bindM at 1. rewrite Hc2. cbn iota beta.
  set (st2 := setval st (k_meta ch) (VHash h2)).
  assert (F2 : frame [k_meta ch] st st2) by apply frame_setval.
  assert (Vs2 : hview st2 (k_state ch) (Some hst)) by (apply (hview_frame _ _ _ _ _ F2); [notin | exact Vs]).
  assert (Vsm2 : hview st2 (k_smeta ch) (Some hs)) by (apply (hview_frame _ _ _ _ _ F2); [notin | exact Vsm]).
  assert (Ve2 : getk st2 (k_expire ch) = None) by (destruct F2 as [F2 _]; rewrite F2 by notin; exact Ve).
  destruct (leave_block_spec2 st2 ch key hst hs epoch Vs2 Ve2 Vsm2 Hep) as (st3 & Hc3 & Vs3 & Vsm3 & F3).
  unfold bindM at 1. rewrite Hc3.
  assert (F03 : frame [k_meta ch; k_state ch; k_smeta ch] st st3).
  { eapply frame_trans; [eapply frame_weaken; [|exact F2]; inclt | eapply frame_weaken; [|exact F3]; inclt]. }
  assert (Vst3 : sview st3 (k_stream ch) (rv_stream v)) by (apply (sview_frame _ _ _ _ _ F03); [notin | exact Vst]).
  assert (Hsc2 : (top = 0%N /\ es0 = []) \/ ((0 < top)%N /\ rv_stream v = Some (es0, (top, 0%N)))) by exact Hsc.
  destruct (stream_block_spec st3 ch epoch payload size sttl top _ es0 Vst3 Hsc2 Ht Hsz Httl) as (st4 & Hc4 & Vst4 & F4).
  unfold bindM at 1. rewrite Hc4. unfold bindM at 1. rewrite publish_spec.
  set (st5 := mkR (store st4) (now st4) _).
  assert (F35 : frame [k_stream ch] st3 st5) by (eapply frame_trans; [exact F4 | apply frame_publish]).
  assert (F05 : frame (chan_keys ch) st st5).
  { eapply frame_trans; [eapply frame_weaken; [|exact F03]; ck | eapply frame_weaken; [|exact F35]; ck]. }
  assert (Hres5 : res_view st5 rk None) by (cbn [res_view]; destruct F05 as [F05' _]; rewrite F05' by exact Hrk; exact Hres).
  destruct (idem_store_spec st5 rk rz epoch (top + 1) Hrz Hrk0 Ht Hres5) as (st6 & Hc6 & Hres6 & F6).
  unfold bindM at 1. rewrite Hc6. unfold finish.
  assert (Hnk : forall k, In k (chan_keys ch) -> ~ In k [rk]) by (intros k0 Hk0 [<-|[]]; contradiction).
  exists st6, h2. split; [reflexivity|].
  split; [|split; [exact Hh2 | split; [exact Hres6|]]].
  2:{ eapply frame_trans; [eapply frame_weaken; [|exact F05]; intros y0 Hy0; right; exact Hy0 | eapply frame_weaken; [|exact F6]; intros y0 [<-|[]]; left; reflexivity]. }
  apply (views_frame _ _ _ _ _ F6 Hnk).
  unfold views. cbn [rv_meta rv_state rv_smeta rv_stream].
  split; [apply (hview_frame _ _ _ _ _ F35); [notin|]; apply (hview_frame _ _ _ _ _ F3); [notin | apply hview_setval]|].
  split; [apply (hview_frame _ _ _ _ _ F35); [notin | exact Vs3]|].
  split; [apply (hview_frame _ _ _ _ _ F35); [notin | exact Vsm3]|].
  split; [exact Vst4|].
  destruct F35 as [F35 _]. destruct F03 as [F03 _]. rewrite F35 by notin. rewrite F03 by notin. exact Ve.
Qed.

(* the miss path up to the first early exit: idempotency check, epoch lookup, dead-epoch check *)
Lemma remove_i_prefix st ch nonce now_ v h epoch top rk rexp (k : string -> M (string * Z)) (k2 : Z -> string * Z -> M reply) :
  views st ch v -> rv_meta v = Some h -> hash_ok h epoch top 0 "" -> wipe_cond v epoch -> res_view st rk None ->
  runM (dom now <- num_of (dec now_) ;;
        dom hit <- idem_check rk rexp ;;
        match hit with
        | Some (o, ep) => finish (RArr [o; RBulk ep; RBulk "idempotency"])
        | None =>
        dom et <- (dom epoch0 <- current_epoch (k_meta ch) nonce ;;
                   dom wipe <- wipe_check ch epoch0 ;;
                   dom _ <- wipe_do ch wipe ;; k epoch0) ;; k2 now et
        end) st
  = runM (dom et <- k epoch ;; k2 (round53 (Z.of_N now_)) et) st.
Proof.
  intros (Vm & Vs & Vsm & Vst & Ve) Em Hh Hw Hres. rewrite Em in Vm. destruct Vm as [x Vm].
  unfold runM. unfold bindM at 1. rewrite num_of_dec_any.
  unfold bindM at 1. rewrite (idem_check_miss _ _ _ Hres).
  rewrite bind_assoc. unfold bindM at 1. rewrite (C18StreamP.cur_epoch_some _ _ _ _ _ _ Vm (proj1 Hh)).
  rewrite bind_assoc. unfold bindM at 1. rewrite (wipe_spec st ch epoch _ _ Vs Vsm Hw).
  rewrite bind_assoc. unfold bindM at 1. unfold wipe_do at 1. unfold ret at 1. reflexivity.
Qed.

Lemma core_remove2_i_fail st ch key payload size sttl nonce now_ eo ee v h epoch top r rk rexp :
  views st ch v -> rv_meta v = Some h -> hash_ok h epoch top 0 "" -> wipe_cond v epoch -> res_view st rk None ->
  cas_block ch key eo ee epoch st = (st, inr r) ->
  runM (core_remove2_i ch key payload size sttl nonce (dec now_) eo ee rk rexp) st = (st, r).
Proof.
  intros Hv Em Hh Hw Hres Hcas. unfold core_remove2_i.
  rewrite (remove_i_prefix st ch nonce now_ v h epoch top rk rexp
             (fun e0 => dom _ <- cas_block ch key eo ee e0 ;; dom _ <- leave_check ch key e0 ;; incr_top ch e0) _ Hv Em Hh Hw Hres).
  unfold runM. rewrite bind_assoc. unfold bindM at 1. rewrite Hcas. reflexivity.
Qed.

Lemma core_remove2_i_absent st ch key payload size sttl nonce now_ eo ee v h epoch top rk rexp :
  views st ch v -> rv_meta v = Some h -> hash_ok h epoch top 0 "" -> wipe_cond v epoch -> res_view st rk None ->
  cas_block ch key eo ee epoch st = (st, inl tt) ->
  sfind key (hash_or_empty (rv_state v)) = None -> (top < BOUND)%N ->
  runM (core_remove2_i ch key payload size sttl nonce (dec now_) eo ee rk rexp) st
  = (st, RArr [RInt (Z.of_N top); RBulk epoch; RBulk "key_not_found"]).
Proof.
  intros Hv Em Hh Hw Hres Hcas Hk Ht. unfold core_remove2_i.
  rewrite (remove_i_prefix st ch nonce now_ v h epoch top rk rexp
             (fun e0 => dom _ <- cas_block ch key eo ee e0 ;; dom _ <- leave_check ch key e0 ;; incr_top ch e0) _ Hv Em Hh Hw Hres).
  destruct Hv as (Vm & Vs & Vsm & Vst & Ve). rewrite Em in Vm.
  unfold runM. rewrite bind_assoc. unfold bindM at 1. rewrite Hcas.
  rewrite bind_assoc. unfold bindM at 1. rewrite (leave_check_absent st ch key epoch _ h top Vs Hk Vm Hh Ht). reflexivity.
Qed.

Lemma idem_hit_run (P : M reply) st rk rexp now_s off ep (rest : Z -> M reply) :
  idem_cond rk rexp = true -> res_view st rk (Some (off, ep)) -> (exists z, num_of now_s st = (st, inl z)) ->
  runM (dom now <- num_of now_s ;;
        dom hit <- idem_check rk rexp ;;
        match hit with
        | Some (o, ep0) => finish (RArr [o; RBulk ep0; RBulk "idempotency"])
        | None => rest now
        end) st = (st, RArr [RBulk (dec off); RBulk ep; RBulk "idempotency"]).
Proof.
  intros Hc Hv [z Hz]. unfold runM. unfold bindM at 1. rewrite Hz. unfold bindM at 1.
  rewrite (idem_check_hit _ _ _ _ _ Hc Hv). reflexivity.
Qed.
