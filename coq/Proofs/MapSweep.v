(* C20 refinement, part 3: the uninterrupted expiry sweep simulates the
   reference map's "expired keys leave in (deadline, channel, key) order". *)
From Coq Require Import List NArith ZArith Bool Lia Permutation Sorting.Sorted.
From Cfg Require Import Model.MapHub Model.MapSpec Proofs.MapBase Proofs.MapRefine Proofs.MapRefine2
  Proofs.MapReads Proofs.MapExpiry Proofs.MapExpiry2.
Import ListNotations.
Open Scope N_scope.

(* ------------------------------------------------------- entries of a state *)
Definition chan_items (i : N) (m : list (key * entry)) : list (ck * N) :=
  map (fun ke => ((i, fst ke), e_exp (snd ke))) m.

Lemma s_entries_unfold : forall s,
  s_entries s = flat_map (fun ic => chan_items (fst ic) (sc_map (snd ic))) (ss_chans s).
Proof. reflexivity. Qed.

Definition s_entry (s : sstate) (i : N) (k : key) : option entry :=
  match s_get s i with Some sc => aget key_eqb (sc_map sc) k | None => None end.

Lemma s_entries_complete : forall s i k e,
  s_entry s i k = Some e -> In ((i, k), e_exp e) (s_entries s).
Proof.
  intros s i k e H. unfold s_entry, s_get in H.
  destruct (aget N.eqb (ss_chans s) i) as [sc|] eqn:G; [|discriminate].
  apply (aget_In N.eqb N_eqb_eq') in G. apply (aget_In key_eqb key_eqb_eq) in H.
  rewrite s_entries_unfold. apply in_flat_map. exists (i, sc). split; auto.
  unfold chan_items. simpl. apply in_map_iff. exists (k, e). auto.
Qed.

Lemma s_entries_sound : forall s i k d, WFs s ->
  In ((i, k), d) (s_entries s) -> exists e, s_entry s i k = Some e /\ e_exp e = d.
Proof.
  intros s i k d (W1 & W2) H. rewrite s_entries_unfold in H.
  apply in_flat_map in H as ([i' sc] & HI & HM). unfold chan_items in HM. simpl in HM.
  apply in_map_iff in HM as ([k' e] & E & HK). simpl in E. inversion E; subst.
  exists e. split; auto. unfold s_entry, s_get.
  rewrite (In_aget_nodup N.eqb N_eqb_eq' _ _ _ W1 HI).
  destruct (W2 _ _ HI) as (ND & _). apply (In_aget_nodup key_eqb key_eqb_eq); auto.
Qed.

(* removing a key of one channel filters the entry list *)
Lemma chan_items_adel : forall i m k,
  chan_items i (adel key_eqb m k) = filter (fun it => negb (ck_eqb (fst it) (i, k))) (chan_items i m).
Proof.
  unfold chan_items. induction m as [|[k0 e0] m IH]; intros k; simpl; auto.
  unfold ck_eqb at 1. simpl. rewrite N.eqb_refl. simpl.
  rewrite (key_eqb_sym k0 k). destruct (key_eqb k k0); simpl; [apply IH | f_equal; apply IH].
Qed.

Lemma chan_items_other : forall i m ch k, i <> ch ->
  filter (fun it => negb (ck_eqb (fst it) (ch, k))) (chan_items i m) = chan_items i m.
Proof.
  unfold chan_items. induction m as [|[k0 e0] m IH]; intros ch k NE; simpl; auto.
  unfold ck_eqb at 1. simpl. assert (i =? ch = false) as -> by (apply N.eqb_neq; auto). simpl. f_equal. apply IH. auto.
Qed.

Lemma entries_aset_adel : forall (chans : list (N * schan)) ch c k ep log kp sd md,
  NoDup (map fst chans) -> aget N.eqb chans ch = Some c ->
  flat_map (fun ic => chan_items (fst ic) (sc_map (snd ic)))
           (aset N.eqb chans ch (mkSC ep (adel key_eqb (sc_map c) k) log kp sd md)) =
  filter (fun it => negb (ck_eqb (fst it) (ch, k)))
         (flat_map (fun ic => chan_items (fst ic) (sc_map (snd ic))) chans).
Proof.
  induction chans as [|[i sc] chans IH]; intros ch c k ep log kp sd md ND G; simpl in *; [discriminate|].
  inversion ND; subst. rewrite filter_app.
  destruct (ch =? i) eqn:E.
  - apply N.eqb_eq in E; subst i. inversion G; subst. simpl. rewrite chan_items_adel. f_equal.
    (* the tail has no channel ch *)
    clear IH G ND. induction chans as [|[j sc'] chans IH']; simpl; auto.
    rewrite filter_app. rewrite chan_items_other.
    + f_equal. apply IH'. * intro C. apply H1. right; auto. * inversion H2; auto.
    + intro C; subst. apply H1. left; reflexivity.
  - simpl. rewrite chan_items_other by (apply N.eqb_neq in E; congruence). f_equal. eapply IH; eauto.
Qed.

Lemma filter_len_le : forall {A} (f : A -> bool) (l : list A), (length (filter f l) <= length l)%nat.
Proof. induction l; simpl; auto. destruct (f a); simpl; lia. Qed.

Lemma filter_length_lt : forall {A} (f : A -> bool) (l : list A) x, In x l -> f x = false ->
  (length (filter f l) < length l)%nat.
Proof.
  induction l as [|y l IH]; intros x HI HF; [contradiction|]. simpl.
  destruct HI as [->|HI].
  - rewrite HF. pose proof (filter_len_le f l). lia.
  - specialize (IH _ HI HF). destruct (f y); simpl; lia.
Qed.

Lemma filter_comm : forall {A} (f g : A -> bool) l, filter f (filter g l) = filter g (filter f l).
Proof.
  induction l as [|x l IH]; simpl; auto.
  destruct (g x) eqn:G, (f x) eqn:F; simpl; rewrite ?G, ?F, IH; reflexivity.
Qed.

Lemma entry_hubR : forall cfgs h s i k, hubR cfgs h s -> entry_at h i k = s_entry s i k.
Proof.
  intros cfgs h s i k (HC & _). unfold entry_at, s_entry, s_get, get_chan.
  destruct (aget N.eqb (h_chans h) i) as [c|] eqn:G.
  - destruct (arel_get_some _ _ _ _ _ HC G) as (sc & G' & (_ & EM & _)). rewrite G', EM. reflexivity.
  - rewrite (arel_get_none _ _ _ _ HC G). reflexivity.
Qed.

Lemma ev_size_of_eq : forall cfgs ch, ev_size_of cfgs ch = size_of cfgs ch.
Proof. reflexivity. Qed.

Lemma hubR_set_pend : forall cfgs h s p t, hubR cfgs h s -> hubR cfgs (set_pend h p t) s.
Proof. intros cfgs h s p t (HC & HI & HN & HE & HB). unfold hubR; simpl. auto. Qed.
Lemma hubR_set_kexp : forall cfgs h s m, hubR cfgs h s -> hubR cfgs (set_kexp h m) s.
Proof. intros cfgs h s m (HC & HI & HN & HE & HB). unfold hubR; simpl. auto. Qed.

Lemma WFs_bcast_ : forall s b, WFs s -> WFs (s_bcast s b).
Proof. intros s b (W1 & W2). split; auto. Qed.

Lemma expire_one_sim : forall cfgs h s ev e,
  hubR cfgs h s -> WFs s ->
  entry_at h (ev_ch ev) (ev_key ev) = Some e -> e_exp e = ev_exp ev ->
  ev_tags ev = p_tags (e_pub e) -> ev_size ev = size_of cfgs (ev_ch ev) ->
  hubR cfgs (phase2_one h ev) (expire_one cfgs s (ev_ch ev, ev_key ev)) /\
  WFs (expire_one cfgs s (ev_ch ev, ev_key ev)) /\
  s_entries (expire_one cfgs s (ev_ch ev, ev_key ev)) =
    filter (fun it => negb (ck_eqb (fst it) (ev_ch ev, ev_key ev))) (s_entries s) /\
  ss_now (expire_one cfgs s (ev_ch ev, ev_key ev)) = ss_now s.
Proof.
  intros cfgs h s ev e HR WF HE EE ET ES.
  pose proof HR as (HC & HI & HN & HEP & HB).
  unfold entry_at in HE. unfold phase2_one, expire_one, s_get.
  destruct (get_chan h (ev_ch ev)) as [c|] eqn:G; [|discriminate]. unfold get_chan in G.
  destruct (arel_get_some _ _ _ _ _ HC G) as (sc & G' & HCR). rewrite G'.
  pose proof HCR as (ESt & EM & EL & (EO1 & EO2) & EK).
  rewrite HE. rewrite <- EM, HE. rewrite EE, N.eqb_refl. rewrite ES, <- ET.
  assert (NN : c_state c <> []) by (eapply aget_some_nonnil; eauto).
  specialize (EO2 NN).
  destruct (WFs_get _ _ _ WF G') as (NDM & OFM).
  assert (OF1 : forall tg, offs_from 0 (sc_log sc ++ [mkPub (ev_key ev) (N.of_nat (length (sc_log sc)) + 1) 0 tg true 0%Z])).
  { intro tg. apply offs_from_app; auto. }
  assert (WF' : forall log kp b, offs_from 0 log ->
            WFs (s_bcast (s_set s (ev_ch ev) (mkSC (sc_epoch sc) (adel key_eqb (c_state c) (ev_key ev)) log kp (sc_sdead sc) (sc_mdead sc))) b)).
  { intros log kp b OL. apply WFs_bcast_. apply WFs_set; auto. simpl. rewrite EM. apply adel_nodup. assumption. }
  assert (ENT : forall log kp b, s_entries (s_bcast (s_set s (ev_ch ev) (mkSC (sc_epoch sc) (adel key_eqb (c_state c) (ev_key ev)) log kp (sc_sdead sc) (sc_mdead sc))) b) =
                      filter (fun it => negb (ck_eqb (fst it) (ev_ch ev, ev_key ev))) (s_entries s)).
  { intros log kp b. rewrite !s_entries_unfold. simpl. rewrite EM. destruct WF as (W1 & _). apply entries_aset_adel; auto. }
  destruct (0 <? size_of cfgs (ev_ch ev)) eqn:SZ.
  - unfold retained in ESt.
    assert (ES' : c_stream (set_state c (adel key_eqb (c_state c) (ev_key ev))) =
                  mkStream (N.of_nat (length (sc_log sc))) (sc_epoch sc) (window (size_of cfgs (ev_ch ev)) (lastk (sc_keep sc) (sc_log sc)))) by exact ESt.
    rewrite (stream_add_R _ _ _ _ _ _ ES').
    splits; auto.
    unfold s_pos; simpl. rewrite app_length; simpl.
    replace (N.of_nat (length (sc_log sc) + 1)) with (N.of_nat (length (sc_log sc)) + 1) by lia.
    apply hubR_bcast. apply hubR_set_both; [apply hubR_set_kexp; assumption|].
    unfold chanR, retained, set_stream, set_state, ord_ok, cache_ok in *; simpl.
    rewrite app_length; simpl.
    replace (N.of_nat (length (sc_log sc) + 1)) with (N.of_nat (length (sc_log sc)) + 1) by lia.
    splits; auto; try tauto; try discriminate.
    intro Z0. apply N.ltb_lt in SZ. lia.
  - splits; auto.
    assert (chan_pos (set_state c (adel key_eqb (c_state c) (ev_key ev))) =
            s_pos (mkSC (sc_epoch sc) (adel key_eqb (c_state c) (ev_key ev)) (sc_log sc) (sc_keep sc) (sc_sdead sc) (sc_mdead sc))) as ->.
    { unfold chan_pos, s_pos; simpl. rewrite ESt. reflexivity. }
    apply hubR_bcast. apply hubR_set_both; [apply hubR_set_kexp; assumption|].
    unfold chanR, retained, set_stream, set_state, ord_ok, cache_ok in *; simpl.
    splits; auto; try tauto; try discriminate.
Qed.

(* phase2_one that does not find its candidate (same deadline) leaves the
   reference-visible state alone *)
Lemma phase2_one_noop : forall cfgs h s ev,
  hubR cfgs h s ->
  (forall e, entry_at h (ev_ch ev) (ev_key ev) = Some e -> e_exp e <> ev_exp ev) ->
  hubR cfgs (phase2_one h ev) s /\ (forall i k, entry_at (phase2_one h ev) i k = entry_at h i k) /\
  h_pend (phase2_one h ev) = h_pend h /\ h_pnow (phase2_one h ev) = h_pnow h /\ h_now (phase2_one h ev) = h_now h.
Proof.
  intros cfgs h s ev HR NW. unfold phase2_one.
  destruct (get_chan h (ev_ch ev)) as [c|] eqn:G; [|splits; auto].
  destruct (aget key_eqb (c_state c) (ev_key ev)) as [e|] eqn:GE; [|splits; auto].
  assert (ENT : entry_at h (ev_ch ev) (ev_key ev) = Some e) by (unfold entry_at; rewrite G; exact GE).
  destruct (e_exp e =? ev_exp ev) eqn:EE.
  - apply N.eqb_eq in EE. exfalso. eapply NW; eauto.
  - pose proof HR as (HC & HI & HN & HEP & HB).
    destruct (h_pnow h <? e_exp e); splits; auto.
Qed.

Lemma phase2_one_removes : forall h ev e,
  entry_at h (ev_ch ev) (ev_key ev) = Some e -> e_exp e = ev_exp ev ->
  (forall i k, entry_at (phase2_one h ev) i k =
               if ck_eqb (i, k) (ev_ch ev, ev_key ev) then None else entry_at h i k) /\
  h_pend (phase2_one h ev) = h_pend h /\ h_now (phase2_one h ev) = h_now h.
Proof.
  intros h ev e HE EE. unfold entry_at in HE. unfold phase2_one.
  destruct (get_chan h (ev_ch ev)) as [c|] eqn:G; [|discriminate].
  rewrite HE, EE, N.eqb_refl.
  assert (FIN : forall c2 b, c_state c2 = adel key_eqb (c_state c) (ev_key ev) ->
     forall i k, entry_at (add_bcast (set_chan (set_kexp h (adel ck_eqb (h_kexp h) (ev_ch ev, ev_key ev))) (ev_ch ev) c2) b) i k =
                 if ck_eqb (i, k) (ev_ch ev, ev_key ev) then None else entry_at h i k).
  { intros c2 b ST i k.
    apply (upd_set_chan_adel (set_kexp h (adel ck_eqb (h_kexp h) (ev_ch ev, ev_key ev))) (ev_ch ev) c c2); auto. }
  destruct (0 <? ev_size ev).
  - destruct (stream_add (c_stream (set_state c (adel key_eqb (c_state c) (ev_key ev))))
               (fun off => mkPub (ev_key ev) off 0 (ev_tags ev) true 0%Z) (ev_size ev)) as [s' off].
    splits; auto.
  - splits; auto.
Qed.

Lemma pop_min_is_min : forall q m r, pop_min q = Some (m, r) -> In m q /\ forall it, In it q -> item_le m it.
Proof.
  intros q m r H. pose proof (pop_min_perm _ _ _ H) as P. split.
  - apply (Permutation_in _ (Permutation_sym P)). left; reflexivity.
  - intros it HI. apply (Permutation_in _ P) in HI. destruct HI as [<-|HI]; [apply item_le_refl|].
    eapply pop_min_le; eauto.
Qed.

Lemma ss_head_le : forall x l, StronglySorted item_le (x :: l) -> forall y, In y l -> item_le x y.
Proof. intros x l S y HI. inversion S; subst. rewrite Forall_forall in H2. auto. Qed.

Lemma sweep_sim : forall cfgs evs h s fuel,
  hubR cfgs h s -> WFs s -> h_pend h = evs ->
  (forall ev, In ev evs -> 0 < ev_exp ev /\ ev_exp ev <= h_now h /\ ev_size ev = size_of cfgs (ev_ch ev)) ->
  (forall ev e, In ev evs -> entry_at h (ev_ch ev) (ev_key ev) = Some e -> e_exp e = ev_exp ev -> ev_tags ev = p_tags (e_pub e)) ->
  StronglySorted item_le (map ev_item evs) ->
  (forall it, In it (s_expired s) -> In it (map ev_item evs)) ->
  (length (s_expired s) <= fuel)%nat ->
  hubR cfgs (phase2_all (length evs) h) (spec_sweep cfgs fuel s) /\
  WFs (spec_sweep cfgs fuel s) /\ h_pend (phase2_all (length evs) h) = [].
Proof.
  intros cfgs. induction evs as [|ev rest IH]; intros h s fuel HR WF PE EV TG SS CV FU.
  - simpl. assert (s_expired s = []) as EX.
    { destruct (s_expired s) as [|x l]; auto. exfalso. apply (CV x). left; reflexivity. }
    destruct fuel; simpl; [auto|]. rewrite EX. simpl. auto.
  - simpl. unfold phase2. rewrite PE.
    set (h0 := set_pend h rest (h_pnow h)).
    assert (HR0 : hubR cfgs h0 s) by (apply hubR_set_pend; exact HR).
    pose proof HR as (_ & _ & HN & _ & _).
    destruct (EV ev (or_introl eq_refl)) as (EP & EN & ESZ).
    destruct (entry_at h (ev_ch ev) (ev_key ev)) as [e|] eqn:ENT.
    + destruct (N.eq_dec (e_exp e) (ev_exp ev)) as [EE|NE].
      * (* the candidate is still there: both sides remove it *)
        assert (ET : ev_tags ev = p_tags (e_pub e)) by (eapply TG; eauto; left; reflexivity).
        assert (IN0 : In (ev_item ev) (s_expired s)).
        { unfold s_expired. apply filter_In. split.
          - unfold ev_item. rewrite <- EE. apply s_entries_complete. rewrite <- (entry_hubR cfgs h); auto.
          - unfold is_expired, ev_item; simpl. rewrite <- HN.
            apply andb_true_iff. split; [apply N.ltb_lt | apply N.leb_le]; lia. }
        destruct fuel as [|f]. { destruct (s_expired s); [contradiction | simpl in FU; lia]. }
        simpl. destruct (pop_min (s_expired s)) as [[m r]|] eqn:PM.
        2:{ apply pop_min_none in PM. rewrite PM in IN0. contradiction. }
        destruct (pop_min_is_min _ _ _ PM) as (MI & MLE).
        assert (m = ev_item ev) as ->.
        { apply item_le_antisym; [apply MLE; exact IN0|].
          apply CV in MI. simpl in MI. destruct MI as [<-|MI]; [apply item_le_refl|].
          eapply ss_head_le; eauto. }
        simpl.
        destruct (expire_one_sim cfgs h0 s ev e HR0 WF ENT EE ET ESZ) as (HR1 & WF1 & EN1 & NW1).
        assert (XP : s_expired (expire_one cfgs s (ev_ch ev, ev_key ev)) =
                     filter (fun it => negb (ck_eqb (fst it) (ev_ch ev, ev_key ev))) (s_expired s)).
        { unfold s_expired. rewrite EN1, NW1. apply filter_comm. }
        destruct (phase2_one_removes h0 ev e ENT EE) as (U & PE1 & NW0).
        inversion SS as [|? ? SS' FA]; subst.
        apply (IH (phase2_one h0 ev) (expire_one cfgs s (ev_ch ev, ev_key ev)) f); auto.
        -- intros ev' HI. rewrite NW0. apply EV. right; auto.
        -- intros ev' e' HI HE'. rewrite U in HE'.
           destruct (ck_eqb (ev_ch ev', ev_key ev') (ev_ch ev, ev_key ev)); [discriminate|].
           apply TG; auto. right; auto.
        -- intros it HI. rewrite XP in HI. apply filter_In in HI as (HI & F).
           apply CV in HI. simpl in HI. destruct HI as [<-|HI]; auto.
           unfold ev_item in F. simpl in F. rewrite ck_eqb_refl in F. discriminate.
        -- rewrite XP.
           assert ((length (filter (fun it => negb (ck_eqb (fst it) (ev_ch ev, ev_key ev))) (s_expired s)) < length (s_expired s))%nat).
           { apply (filter_length_lt _ _ (ev_item ev)); auto. unfold ev_item; simpl. rewrite ck_eqb_refl. reflexivity. }
           lia.
      * (* the deadline changed: nothing to do for the reference map *)
        destruct (phase2_one_noop cfgs h0 s ev HR0) as (HR1 & U & PE1 & _ & NW0).
        { intros e0 HE0. change (entry_at h (ev_ch ev) (ev_key ev) = Some e0) in HE0. rewrite ENT in HE0. inversion HE0; subst. exact NE. }
        inversion SS as [|? ? SS' FA]; subst.
        apply (IH (phase2_one h0 ev) s fuel); auto.
        -- intros ev' HI. rewrite NW0. apply EV. right; auto.
        -- intros ev' e' HI HE'. rewrite U in HE'. apply TG; auto. right; auto.
        -- intros it HI. pose proof (CV _ HI) as C. simpl in C. destruct C as [<-|C]; auto. exfalso.
           unfold s_expired in HI. apply filter_In in HI as (HI & _). unfold ev_item in HI.
           apply (s_entries_sound _ _ _ _ WF) in HI as (e0 & SE & EX).
           rewrite <- (entry_hubR cfgs h) in SE; auto. rewrite ENT in SE. inversion SE; subst. contradiction.
    + destruct (phase2_one_noop cfgs h0 s ev HR0) as (HR1 & U & PE1 & _ & NW0).
      { intros e0 HE0. change (entry_at h (ev_ch ev) (ev_key ev) = Some e0) in HE0. rewrite ENT in HE0. discriminate. }
      inversion SS as [|? ? SS' FA]; subst.
      apply (IH (phase2_one h0 ev) s fuel); auto.
      * intros ev' HI. rewrite NW0. apply EV. right; auto.
      * intros ev' e' HI HE'. rewrite U in HE'. apply TG; auto. right; auto.
      * intros it HI. pose proof (CV _ HI) as C. simpl in C. destruct C as [<-|C]; auto. exfalso.
        unfold s_expired in HI. apply filter_In in HI as (HI & _). unfold ev_item in HI.
        apply (s_entries_sound _ _ _ _ WF) in HI as (e0 & SE & EX).
        rewrite <- (entry_hubR cfgs h) in SE; auto. rewrite ENT in SE. discriminate.
Qed.

(* --------------------------------------------------- WFs is preserved by ops *)
Lemma WFs_chans_eq : forall s s', ss_chans s' = ss_chans s -> WFs s -> WFs s'.
Proof. intros s s' E (W1 & W2). unfold WFs. rewrite E. auto. Qed.

Lemma WFs_ensure : forall s ch s1 c, WFs s -> s_ensure s ch = (s1, c) ->
  WFs s1 /\ NoDup (map fst (sc_map c)) /\ offs_from 0 (sc_log c) /\ s_get s1 ch = Some c.
Proof.
  intros s ch s1 c WF H. unfold s_ensure in H. destruct (s_get s ch) as [c0|] eqn:G.
  - inversion H; subst. destruct (WFs_get _ _ _ WF G). splits; auto.
  - inversion H; subst. splits.
    + apply (WFs_set s ch (mkSC (ss_nep s) [] [] 0 0 0)) in WF; [|simpl; constructor|simpl; exact I].
      eapply WFs_chans_eq; [|exact WF]. reflexivity.
    + simpl. constructor.
    + simpl. exact I.
    + unfold s_get; simpl. apply (aget_aset_same N.eqb N_eqb_eq').
Qed.

Lemma WFs_idem_save : forall s ch ik p t, WFs s -> WFs (s_idem_save s ch ik p t).
Proof. intros. unfold s_idem_save. destruct (ik =? 0); auto. Qed.
Lemma WFs_bcast : forall s b, WFs s -> WFs (s_bcast s b).
Proof. intros. eapply WFs_chans_eq; [|exact H]. reflexivity. Qed.

Lemma WFs_set_touch : forall s ch m n c, WFs s -> NoDup (map fst (sc_map c)) -> offs_from 0 (sc_log c) ->
  WFs (s_set s ch (touch_mdead m n c)).
Proof.
  intros. destruct (touch_mdead_fields m n c) as (_ & F2 & F3 & _). apply WFs_set; auto; rewrite ?F2, ?F3; auto.
Qed.

Lemma spec_publish_WFs : forall cfgs s ch k o s' u, WFs s -> spec_publish cfgs s ch k o = (s', u) -> WFs s'.
Proof.
  intros cfgs s ch k o s' u WF H. unfold spec_publish in H.
  destruct (cfg_of cfgs ch) as [cf|e]; [|inversion H; subst; auto].
  destruct (is_ephemeral (cf_mode cf) && match po_exp o with Some _ => true | None => false end); [inversion H; subst; auto|].
  destruct (is_ephemeral (cf_mode cf) && (0 <? po_ver o)); [inversion H; subst; auto|].
  destruct (s_idem_get s ch (po_idem o)); [inversion H; subst; auto|].
  destruct (s_ensure s ch) as [s1 c] eqn:EN.
  destruct (WFs_ensure _ _ _ _ WF EN) as (WF1 & ND & OF & G1).
  destruct (decide_publish cf (sc_epoch c) k o (aget key_eqb (sc_map c) k)) as [r|].
  - inversion H; subst; clear H.
    destruct r; auto. destruct (aget key_eqb (sc_map c) k); auto.
    destruct (po_refresh o && (0 <? cf_keyttl cf)); auto.
    apply WFs_set_touch; auto. simpl. apply (aset_nodup key_eqb key_eqb_eq); auto.
  - destruct (if po_ver o =? 0 then match aget key_eqb (sc_map c) k with Some e => (e_ver e, e_vep e) | None => (0, po_vep o) end
              else (po_ver o, po_vep o)) as [ver vep].
    inversion H; subst; clear H. apply WFs_bcast, WFs_idem_save.
    assert (NDM : NoDup (map fst (if is_empty k then sc_map c else aset key_eqb (sc_map c) k
               (mkEntry (mkPub k (if has_stream (cf_mode cf) then N.of_nat (length (sc_log c)) + 1 else if is_empty k then 0 else N.of_nat (length (sc_log c))) (po_data o) (po_tags o) false (po_score o))
                        (deadline cf (ss_now s)) ver vep)))).
    { destruct (is_empty k); auto. apply (aset_nodup key_eqb key_eqb_eq); auto. }
    destruct (has_stream (cf_mode cf)).
    + apply WFs_set_touch; auto. simpl. apply offs_from_app; auto.
    + apply WFs_set; auto.
Qed.

Lemma spec_remove_WFs : forall cfgs s ch k o s' u, WFs s -> spec_remove cfgs s ch k o = (s', u) -> WFs s'.
Proof.
  intros cfgs s ch k o s' u WF H. unfold spec_remove in H.
  destruct (cfg_of cfgs ch) as [cf|e]; [|inversion H; subst; auto].
  destruct (is_ephemeral (cf_mode cf) && match ro_exp o with Some _ => true | None => false end); [inversion H; subst; auto|].
  destruct (s_idem_get s ch (ro_idem o)); [inversion H; subst; auto|].
  destruct (s_get s ch) as [c|] eqn:G; [|inversion H; subst; auto].
  destruct (decide_remove (sc_epoch c) o (aget key_eqb (sc_map c) k)); [inversion H; subst; auto|].
  destruct (WFs_get _ _ _ WF G) as (ND & OF).
  destruct (aget key_eqb (sc_map c) k); inversion H; subst; auto.
  apply WFs_bcast, WFs_idem_save.
  destruct (has_stream (cf_mode cf)).
  - apply WFs_set_touch; auto; simpl; [apply adel_nodup; exact ND | apply offs_from_app; auto].
  - apply WFs_set; auto. simpl. apply adel_nodup. exact ND.
Qed.

Lemma spec_clear_WFs : forall s ch, WFs s -> WFs (spec_clear s ch).
Proof.
  intros s ch (W1 & W2). unfold WFs, spec_clear; simpl. split.
  - apply adel_nodup. auto.
  - intros i sc HI. apply (adel_In N.eqb N_eqb_eq') in HI as [HI _]. eauto.
Qed.

Lemma spec_read_stream_WFs : forall cfgs s ch since lim rv s' r,
  WFs s -> spec_read_stream cfgs s ch since lim rv = (s', r) -> WFs s'.
Proof.
  intros cfgs s ch since lim rv s' r WF H. unfold spec_read_stream in H.
  destruct (s_ensure s ch) as [s1 c] eqn:EN.
  destruct (WFs_ensure _ _ _ _ WF EN) as (WF1 & ND & OF & G1).
  assert (WFs (s_set s1 ch (touch_mdead (mttl_of cfgs ch) (ss_now s) c))) by (apply WFs_set_touch; auto).
  destruct (s_get s ch); [|inversion H; subst; auto].
  destruct since as [[so se]|].
  - destruct (negb (se =? 0) && negb (se =? sc_epoch (touch_mdead (mttl_of cfgs ch) (ss_now s) c))); inversion H; subst; auto.
  - inversion H; subst; auto.
Qed.

Lemma spec_read_state_WFs : forall cfgs s ch rev cur lim k asc s' r,
  WFs s -> spec_read_state cfgs s ch rev cur lim k asc = (s', r) -> WFs s'.
Proof.
  intros cfgs s ch rev cur lim k asc s' r WF H. unfold spec_read_state in H.
  destruct (cfg_of cfgs ch) as [cf|e]; [|inversion H; subst; auto].
  destruct (s_ensure s ch) as [s1 c] eqn:EN.
  destruct (WFs_ensure _ _ _ _ WF EN) as (WF1 & ND & OF & G1).
  assert (WFs (s_set s1 ch (touch_mdead (cf_mttl cf) (ss_now s) c))) by (apply WFs_set_touch; auto).
  destruct (s_get s ch); [inversion H; subst; auto|].
  destruct rev as [[ro re]|]; [destruct (negb (re =? 0))|]; inversion H; subst; auto.
Qed.

(* ------------------------------------------- operations leave [h_pend] alone *)
Ltac dmatch H :=
  repeat match type of H with
         | context [match ?x with _ => _ end] =>
             match x with
             | context [match _ with _ => _ end] => fail 1
             | _ => destruct x eqn:?
             end
         end.

Lemma pend_touch_meta : forall h ch t, h_pend (touch_meta h ch t) = h_pend h /\ h_pnow (touch_meta h ch t) = h_pnow h.
Proof. intros. unfold touch_meta. destruct (0 <? t); split; reflexivity. Qed.
Lemma pend_ret_touch : forall cf h ch, h_pend (ret_touch cf h ch) = h_pend h /\ h_pnow (ret_touch cf h ch) = h_pnow h.
Proof.
  intros. unfold ret_touch. destruct (has_stream (cf_mode cf)); [|split; reflexivity].
  destruct (pend_touch_meta (touch_stream h ch (cf_sttl cf)) ch (cf_mttl cf)) as (A & B). rewrite A, B. split; reflexivity.
Qed.
Ltac pend_tac :=
  repeat match goal with
         | |- context [h_pend (ret_touch ?cf ?h ?ch)] => rewrite (proj1 (pend_ret_touch cf h ch))
         | |- context [h_pnow (ret_touch ?cf ?h ?ch)] => rewrite (proj2 (pend_ret_touch cf h ch))
         | |- context [h_pend (touch_meta ?h ?ch ?t)] => rewrite (proj1 (pend_touch_meta h ch t))
         | |- context [h_pnow (touch_meta ?h ?ch ?t)] => rewrite (proj2 (pend_touch_meta h ch t))
         end.

Lemma add_pend : forall cf h ch k o h' p pp r tp,
  add cf h ch k o = (h', p, pp, r, tp) -> h_pend h' = h_pend h /\ h_pnow h' = h_pnow h.
Proof.
  intros cf h ch k o h' p pp r tp H.
  unfold add, add_ensure, add_keymode, add_commit, stream_add in H.
  dmatch H; inversion H; subst; pend_tac; split; reflexivity.
Qed.

Lemma hremove_pend : forall cf h ch k o h' p pp r,
  hremove cf h ch k o = (h', p, pp, r) -> h_pend h' = h_pend h /\ h_pnow h' = h_pnow h.
Proof.
  intros cf h ch k o h' p pp r H. unfold hremove, stream_add in H.
  dmatch H; inversion H; subst; pend_tac; split; reflexivity.
Qed.

Lemma step_pend : forall cfgs h o h' r,
  step cfgs h o = (h', r) ->
  match o with OPhase1 | OPhase2 | OSweep | OExpireStreams | ORemoveChannels => True | _ => h_pend h' = h_pend h /\ h_pnow h' = h_pnow h end.
Proof.
  intros cfgs h o h' r H. destruct o; simpl in H; auto.
  - unfold publish in H.
    destruct (cfg_of cfgs ch) as [cf|e]; [|inversion H; subst; auto].
    destruct (is_ephemeral (cf_mode cf) && match po_exp o with Some _ => true | None => false end); [inversion H; subst; auto|].
    destruct (is_ephemeral (cf_mode cf) && (0 <? po_ver o)); [inversion H; subst; auto|].
    destruct (if po_idem o =? 0 then None else idem_get h ch (po_idem o)); [inversion H; subst; auto|].
    destruct (add cf h ch k o) as [[[[h1 p] pp] r1] tp] eqn:AD. apply add_pend in AD as (A1 & A2).
    destruct r1; try (inversion H; subst; auto; fail).
    destruct tp; inversion H; subst; auto. simpl. destruct (po_idem o =? 0); simpl; auto.
  - unfold remove in H.
    destruct (cfg_of cfgs ch) as [cf|e]; [|inversion H; subst; auto].
    destruct (is_ephemeral (cf_mode cf) && match ro_exp o with Some _ => true | None => false end); [inversion H; subst; auto|].
    destruct (if ro_idem o =? 0 then None else idem_get h ch (ro_idem o)); [inversion H; subst; auto|].
    destruct (hremove cf h ch k o) as [[[h1 p] pp] r1] eqn:RM. apply hremove_pend in RM as (A1 & A2).
    destruct r1; try (inversion H; subst; auto; fail).
    destruct pp; inversion H; subst; auto. simpl. destruct (ro_idem o =? 0); simpl; auto.
  - inversion H; subst. unfold clear. destruct (get_chan h ch); simpl; auto.
  - unfold read_state, create_chan in H. dmatch H; inversion H; subst; simpl; pend_tac; auto.
  - unfold read_stream, create_chan in H. dmatch H; inversion H; subst; simpl; pend_tac; auto.
  - inversion H; subst; simpl; auto.
Qed.

(* ------------------------------------------------------ the refinement proof *)
Lemma sweep_step_sim : forall cfgs h s,
  hubR cfgs h s -> Inv h -> WFs s -> h_pend h = [] ->
  exists h', step cfgs h OSweep = (h', RUnit) /\
    hubR cfgs h' (spec_sweep cfgs (length (s_expired s)) s) /\
    WFs (spec_sweep cfgs (length (s_expired s)) s) /\ h_pend h' = [].
Proof.
  intros cfgs h s HR IV WF PE. simpl. rewrite PE.
  destruct (phase1 cfgs h) as [h1 ok] eqn:P1.
  destruct (phase1_spec _ _ _ _ IV PE P1) as (OK & IV1 & EC & EI & EN & EP & EB & SND & SS & COV & PN).
  subst ok. eexists. split; [reflexivity|].
  assert (HR1 : hubR cfgs h1 s).
  { destruct HR as (HC & HI & HN & HE & HB). unfold hubR. rewrite EC, EI, EN, EP, EB. auto. }
  apply sweep_sim; auto.
  - intros ev HI. destruct (SND _ HI) as (A & B & C & e & D & E & F & G). rewrite EN. splits; auto.
  - intros ev e HI HE EE. destruct (SND _ HI) as (A & B & C & e0 & D & E & F & G).
    assert (entry_at h1 (ev_ch ev) (ev_key ev) = entry_at h (ev_ch ev) (ev_key ev)) as X.
    { unfold entry_at, get_chan. rewrite EC. reflexivity. }
    rewrite X in HE. rewrite D in HE. inversion HE; subst. exact F.
  - intros it HI. unfold s_expired in HI. apply filter_In in HI as (HI & EX).
    destruct it as [[i k] d]. apply (s_entries_sound _ _ _ _ WF) in HI as (e & SE & ED). subst d.
    unfold is_expired in EX. simpl in EX. apply andb_true_iff in EX as (E1 & E2).
    apply N.ltb_lt in E1. apply N.leb_le in E2.
    destruct HR as (_ & _ & HN & _ & _).
    apply COV; auto. { rewrite (entry_hubR cfgs h s); auto. unfold hubR. destruct HR1 as (A & B & C & D & E).
      rewrite EC in A. rewrite EI in B. rewrite EN in C. rewrite EP in D. rewrite EB in E. auto. }
    lia.
Qed.

Definition Rel (cfgs : list rawcfg) (h : hub) (s : sstate) : Prop :=
  hubR cfgs h s /\ Inv h /\ WFs s /\ h_pend h = [].

Lemma Rel0 : forall cfgs, Rel cfgs hub0 sstate0.
Proof. intros. unfold Rel. splits; auto using hubR0, Inv0, WFs0. Qed.

Lemma step_sim : forall cfgs h s o h' r s' r',
  Rel cfgs h s -> ref_op o = true ->
  step cfgs h o = (h', r) -> spec_step cfgs s o = (s', r') ->
  r = r' /\ Rel cfgs h' s'.
Proof.
  intros cfgs h s o h' r s' r' (HR & IV & WF & PE) SQ H1 H2.
  pose proof (step_Inv _ _ _ _ _ IV H1) as IV'.
  pose proof (step_pend _ _ _ _ _ H1) as PD.
  unfold Rel. destruct o; simpl in SQ; try discriminate; simpl in H1, H2.
  - destruct (publish cfgs h ch k o) as [hx u] eqn:E1. destruct (spec_publish cfgs s ch k o) as [sx u'] eqn:E2.
    inversion H1; inversion H2; subst.
    destruct (publish_sim _ _ _ _ _ _ _ _ _ _ HR E1 E2) as (-> & HR').
    splits; auto. eapply spec_publish_WFs; eauto. destruct PD; congruence.
  - destruct (remove cfgs h ch k o) as [hx u] eqn:E1. destruct (spec_remove cfgs s ch k o) as [sx u'] eqn:E2.
    inversion H1; inversion H2; subst.
    destruct (remove_sim _ _ _ _ _ _ _ _ _ _ HR E1 E2) as (-> & HR').
    splits; auto. eapply spec_remove_WFs; eauto. destruct PD; congruence.
  - inversion H1; inversion H2; subst. splits; auto using clear_sim, spec_clear_WFs. destruct PD; congruence.
  - destruct (read_state cfgs h ch rev cursor limit k asc) as [hx u] eqn:E1.
    destruct (spec_read_state cfgs s ch rev cursor limit k asc) as [sx u'] eqn:E2.
    inversion H1; inversion H2; subst.
    destruct (read_state_sim _ _ _ _ _ _ _ _ _ _ _ _ _ HR E1 E2) as (-> & HR').
    splits; auto. eapply spec_read_state_WFs; eauto. destruct PD; congruence.
  - destruct (read_stream cfgs h ch since limit reverse) as [hx u] eqn:E1.
    destruct (spec_read_stream cfgs s ch since limit reverse) as [sx u'] eqn:E2.
    inversion H1; inversion H2; subst.
    destruct (read_stream_sim _ _ _ _ _ _ _ _ _ _ _ HR WF E1 E2) as (-> & HR').
    splits; auto. eapply spec_read_stream_WFs; eauto. destruct PD; congruence.
  - inversion H1; inversion H2; subst. splits; auto using advance_sim.
  - destruct (sweep_step_sim cfgs h s HR IV WF PE) as (hx & SX & HR' & WF' & PE').
    simpl in SX. rewrite SX in H1. inversion H1; inversion H2; subst. splits; auto.
Qed.

Theorem refines_from : forall cfgs ops h s,
  Rel cfgs h s -> forallb ref_op ops = true -> run_obs cfgs h ops = spec_obs cfgs s ops.
Proof.
  intros cfgs. induction ops as [|o ops IH]; intros h s RL SQ; simpl; auto.
  simpl in SQ. apply andb_true_iff in SQ as (SQ1 & SQ2).
  destruct (step cfgs h o) as [h1 r] eqn:E1. destruct (spec_step cfgs s o) as [s1 r'] eqn:E2.
  destruct (step_sim _ _ _ _ _ _ _ _ RL SQ1 E1 E2) as (-> & RL1).
  pose proof RL as ((_ & _ & _ & _ & HB) & _). pose proof RL1 as ((_ & _ & _ & _ & HB1) & _).
  rewrite HB, HB1. f_equal. apply IH; auto.
Qed.

Theorem refines : forall cfgs ops,
  forallb ref_op ops = true -> run_obs cfgs hub0 ops = spec_obs cfgs sstate0 ops.
Proof. intros. apply refines_from; auto. apply Rel0. Qed.
