(* C18, LIST storage (RedisBrokerConfig.UseLists): simulation between the
   Redis-side model and the memory-broker model.  Same method as for streams
   (Proofs/C18Stream*.v); the domain additionally excludes what the list scripts
   do not implement (versions, delta, reverse iteration). *)
From Coq Require Import List NArith ZArith Bool String Ascii Lia.
From Cfg Require Import Model.RStr Model.LuaNum Model.Redis Model.RedisScripts Model.BrokerApi18
                        Model.RedisBroker Model.MemBroker18 Proofs.C18Lib Proofs.C18Redis Proofs.C18Stream
                        Proofs.C18StreamH Proofs.C18StreamP Proofs.C18StreamQ.
Import ListNotations.
Open Scope string_scope.

(* ================= domain ================= *)
Definition cfg_okL (cfg : bcfg) : bool := (c_lists cfg && small (c_meta_ttl cfg))%bool.

Definition popts_okL (o : popts) : bool :=
  ((po_size o <? 2147483648)%Z && (po_ttl o <? 2147483648)%Z && small (po_meta_ttl o) && small (po_idem_ttl o)
   && (po_version o =? 0)%N && negb (po_delta o)
   && (String.eqb (po_idem o) "" || history_on o))%bool.

Definition op_okL (m : mstate) (o : op) : bool :=
  match o with
  | OpPublish ch data po nonce =>
      (negb (String.eqb ch "") && popts_okL po && nonce_ok nonce
       && (N.of_nat (String.length data) <? 2147483647)%N
       && (top_of m ch + 1 <? BOUND)%N)%bool
  | OpHistory ch f mttl nonce =>
      (nonce_ok nonce && small mttl && (hf_limit f <? 2147483648)%Z && negb (hf_reverse f)
       && match hf_since f with Some (so, _) => (so + 1 <? two64)%N | None => true end)%bool
  | OpRemove _ => true
  | OpTick _ => false
  end.

Fixpoint run_okL (cfg : bcfg) (m : mstate) (ops : list op) : bool :=
  match ops with
  | [] => true
  | o :: r => op_okL m o && run_okL cfg (fst (mb_step cfg m o)) r
  end.

Definition keys_okbL (U : list string) (P : list (string * string)) : bool :=
  (forallb (fun a => forallb (fun b => negb (String.eqb (list_key a) (meta_key true b))) U) U
   && forallb (fun p => forallb (fun q =>
        (pair_eqb p q || (negb (String.eqb (result_key (fst p) (snd p)) (result_key (fst q) (snd q)))
                          && negb (String.eqb (cache_key (fst p) (snd p)) (cache_key (fst q) (snd q))))))%bool P) P)%bool.

(* ================= keys ================= *)
Lemma list_key_inj a b : list_key a = list_key b -> a = b.
Proof. unfold list_key. intros H. apply append_inj_l in H. apply append_inj_l in H. exact H. Qed.
Lemma metaL_key_inj a b : meta_key true a = meta_key true b -> a = b.
Proof. unfold meta_key. intros H. apply append_inj_l in H. apply append_inj_l in H. exact H. Qed.
Lemma result_list_neq ch k ch' : result_key ch k <> list_key ch'.
Proof. unfold result_key, list_key, prefix. cbn. intros H. discriminate H. Qed.
Lemma result_metaL_neq ch k ch' : result_key ch k <> meta_key true ch'.
Proof. unfold result_key, meta_key, prefix. cbn. intros H. discriminate H. Qed.

(* ================= relation ================= *)
Definition enc_l (e : string) (it : N * string) : string := p1_payload (Z.of_N (fst it)) e (marshal (snd it) false).

Definition list_rel (rs : rstate) (ch e : string) (items : list (N * string)) : Prop :=
  match items with
  | [] => getk rs (list_key ch) = None
  | _ => exists x, getk rs (list_key ch) = Some (mkKey (VList (map (enc_l e) (rev items))) x)
  end.

Definition metaL_rel (rs : rstate) (ch : string) (s : mstream) : Prop :=
  exists h x, getk rs (meta_key true ch) = Some (mkKey (VHash h) x) /\
              hash_ok h (ms_epoch s) (ms_top s) 0 "".

Definition chan_relL (rs : rstate) (ch : string) (os : option mstream) : Prop :=
  match os with
  | None => getk rs (meta_key true ch) = None /\ getk rs (list_key ch) = None
  | Some s => metaL_rel rs ch s /\ list_rel rs ch (ms_epoch s) (ms_items s)
  end.

Record RL (U : list string) (P : list (string * string)) (rs : rstate) (ms : mstate) : Prop := mkRelL {
  RL_now : now rs = 0%N;
  RL_mnow : m_now ms = 0%N;
  RL_chan : forall ch, In ch U -> chan_relL rs ch (sfind ch (m_streams ms));
  RL_inv : forall ch s, sfind ch (m_streams ms) = Some s -> stream_inv s;
  RL_cache : forall ch k, In (ch, k) P -> cache_rel rs ms ch k
}.

Lemma chan_relL_frame rs rs' ch os :
  getk rs' (meta_key true ch) = getk rs (meta_key true ch) ->
  getk rs' (list_key ch) = getk rs (list_key ch) ->
  chan_relL rs ch os -> chan_relL rs' ch os.
Proof.
  intros Hm Hs. unfold chan_relL, metaL_rel, list_rel. destruct os as [s|]; rewrite ?Hm, ?Hs; [|auto].
  intros [H1 H2]. split; [assumption|]. destruct (ms_items s); rewrite ?Hs; assumption.
Qed.

Record keys_okL (U : list string) (P : list (string * string)) : Prop := mkKeysOkL {
  KL_sm : forall a b, In a U -> In b U -> list_key a <> meta_key true b;
  KL_res : forall p q, In p P -> In q P -> result_key (fst p) (snd p) = result_key (fst q) (snd q) -> p = q;
  KL_cache : forall p q, In p P -> In q P -> cache_key (fst p) (snd p) = cache_key (fst q) (snd q) -> p = q
}.

Lemma keys_okbL_sound U P : keys_okbL U P = true -> keys_okL U P.
Proof.
  unfold keys_okbL. intros H. apply andb_true_iff in H as [H1 H2].
  rewrite forallb_forall in H1. rewrite forallb_forall in H2.
  assert (Hp : forall p q, In p P -> In q P ->
           p = q \/ (result_key (fst p) (snd p) <> result_key (fst q) (snd q)
                     /\ cache_key (fst p) (snd p) <> cache_key (fst q) (snd q))).
  { intros p q Hp Hq. specialize (H2 p Hp). rewrite forallb_forall in H2. specialize (H2 q Hq).
    apply orb_true_iff in H2 as [H2|H2].
    - left. unfold pair_eqb in H2. apply andb_true_iff in H2 as [A B].
      apply String.eqb_eq in A, B. destruct p, q; cbn in *; congruence.
    - right. apply andb_true_iff in H2 as [A B]. apply negb_true_iff in A, B.
      apply String.eqb_neq in A, B. split; assumption. }
  constructor.
  - intros a b Ha Hb. specialize (H1 a Ha). rewrite forallb_forall in H1. specialize (H1 b Hb).
    apply negb_true_iff in H1. apply String.eqb_neq in H1. exact H1.
  - intros p q Hp' Hq E. destruct (Hp p q Hp' Hq) as [|[A _]]; [assumption|contradiction].
  - intros p q Hp' Hq E. destruct (Hp p q Hp' Hq) as [|[_ B]]; [assumption|contradiction].
Qed.

Lemma RL_update U P rs ms rs' ms' c k os' :
  keys_okL U P -> In c U -> (k = "" \/ In (c, k) P) ->
  RL U P rs ms ->
  now rs' = 0%N -> m_now ms' = 0%N ->
  (forall key, key <> meta_key true c -> key <> list_key c -> (k = "" \/ key <> result_key c k) ->
               getk rs' key = getk rs key) ->
  (forall ch, sfind ch (m_streams ms') = if String.eqb ch c then os' else sfind ch (m_streams ms)) ->
  (forall ch' k', (k = "" \/ (ch', k') <> (c, k)) -> In (ch', k') P -> cache_get ms' ch' k' = cache_get ms ch' k') ->
  chan_relL rs' c os' -> (forall s, os' = Some s -> stream_inv s) ->
  (k <> "" -> In (c, k) P -> cache_rel rs' ms' c k) ->
  RL U P rs' ms'.
Proof.
  intros HK Hc Hk HR Hnow Hmnow Hframe Hstreams Hcache Hchan Hinv Hcr.
  constructor; try assumption.
  - intros ch Hch. rewrite Hstreams. destruct (String.eqb ch c) eqn:E.
    + apply String.eqb_eq in E. subst ch. exact Hchan.
    + apply String.eqb_neq in E.
      apply (chan_relL_frame rs); [| |apply (RL_chan _ _ _ _ HR); assumption].
      * apply Hframe.
        -- intros X. apply metaL_key_inj in X. contradiction.
        -- intros X. symmetry in X. exact (KL_sm _ _ HK c ch Hc Hch X).
        -- right. intros X. symmetry in X. exact (result_metaL_neq _ _ _ X).
      * apply Hframe.
        -- exact (KL_sm _ _ HK ch c Hch Hc).
        -- intros X. apply list_key_inj in X. contradiction.
        -- right. intros X. symmetry in X. exact (result_list_neq _ _ _ X).
  - intros ch s. rewrite Hstreams. destruct (String.eqb ch c) eqn:E.
    + apply Hinv.
    + apply (RL_inv _ _ _ _ HR).
  - intros ch' k' Hin.
    destruct (String.eqb k "") eqn:Ek.
    { apply String.eqb_eq in Ek.
      apply (cache_rel_frame rs _ ms); [| apply Hcache; [left|]; assumption | apply (RL_cache _ _ _ _ HR); assumption].
      apply Hframe; [apply result_metaL_neq | apply result_list_neq | left; assumption]. }
    apply String.eqb_neq in Ek.
    destruct (String.eqb ch' c && String.eqb k' k)%bool eqn:E.
    + apply andb_true_iff in E as [E1 E2]. apply String.eqb_eq in E1, E2. subst. apply Hcr; assumption.
    + assert (Hne : (ch', k') <> (c, k)).
      { intros X. injection X as -> ->. rewrite !String.eqb_refl in E. discriminate. }
      apply (cache_rel_frame rs _ ms); [| apply Hcache; [right|]; assumption | apply (RL_cache _ _ _ _ HR); assumption].
      apply Hframe.
      * apply result_metaL_neq.
      * apply result_list_neq.
      * right. intros X. destruct Hk as [->|Hk]; [congruence|].
        apply (KL_res _ _ HK (ch', k') (c, k) Hin Hk) in X. contradiction.
Qed.

Definition step_goalL U P cfg rs ms o : Prop :=
  let '(rs', o1) := rb_step shallow cfg rs o in
  let '(ms', o2) := mb_step cfg ms o in
  o1 = o2 /\ RL U P rs' ms'.

Lemma cfg_okL_lists cfg : cfg_okL cfg = true -> c_lists cfg = true.
Proof. unfold cfg_okL. intros H. apply andb_true_iff in H as [H _]. exact H. Qed.

(* ================= remove / publish without history ================= *)
Lemma step_removeL U P cfg rs ms c :
  cfg_okL cfg = true -> keys_okL U P -> In c U -> RL U P rs ms -> step_goalL U P cfg rs ms (OpRemove c).
Proof.
  intros Hcfg HK Hc HR. unfold step_goalL, rb_step, rb_remove. rewrite (cfg_okL_lists _ Hcfg).
  destruct (del1 (clear_outbox rs) (list_key c)) as [n Hd]. rewrite Hd. cbn [outbox delk clear_outbox deliveries mb_step].
  split; [reflexivity|].
  apply (RL_update U P rs ms _ _ c "" (match sfind c (m_streams ms) with Some s => Some (stream_clear s) | None => None end));
    try assumption.
  - left; reflexivity.
  - apply (RL_now _ _ _ _ HR).
  - destruct (sfind c (m_streams ms)); apply (RL_mnow _ _ _ _ HR).
  - intros key _ Hs _.
    change (getk (delk rs (list_key c)) key = getk rs key). apply getk_delk_other. assumption.
  - intros ch. destruct (sfind c (m_streams ms)) as [s|] eqn:E; cbn.
    + destruct (String.eqb ch c) eqn:E2.
      * apply String.eqb_eq in E2. subst. apply sfind_sput_same.
      * apply String.eqb_neq in E2. apply sfind_sput_other. assumption.
    + destruct (String.eqb ch c) eqn:E2; [|reflexivity]. apply String.eqb_eq in E2. subst. assumption.
  - intros ch' k' _ _. destruct (sfind c (m_streams ms)); reflexivity.
  - pose proof (RL_chan _ _ _ _ HR c Hc) as Hrel.
    assert (Hsk : getk (clear_outbox (delk (clear_outbox rs) (list_key c))) (list_key c) = None).
    { change (getk (delk rs (list_key c)) (list_key c) = None). apply getk_delk_same. }
    assert (Hmk : getk (clear_outbox (delk (clear_outbox rs) (list_key c))) (meta_key true c) = getk rs (meta_key true c)).
    { change (getk (delk rs (list_key c)) (meta_key true c) = getk rs (meta_key true c)).
      apply getk_delk_other. intros X. symmetry in X. exact (KL_sm _ _ HK c c Hc Hc X). }
    destruct (sfind c (m_streams ms)) as [s|]; cbn [chan_relL] in *.
    + destruct Hrel as [Hm _]. split.
      * unfold metaL_rel in *. rewrite Hmk. exact Hm.
      * unfold list_rel. cbn. exact Hsk.
    + destruct Hrel as [Hm _]. split; [rewrite Hmk; assumption | exact Hsk].
  - intros s Hs. destruct (sfind c (m_streams ms)) as [s0|] eqn:E; [|discriminate].
    injection Hs as <-. apply stream_inv_clear. apply (RL_inv _ _ _ _ HR c). assumption.
  - intros X. congruence.
Qed.

Lemma popts_okL_idem o : popts_okL o = true -> history_on o = false -> po_idem o = "".
Proof.
  unfold popts_okL. intros H Hh. repeat (apply andb_true_iff in H as [H ?]).
  rewrite Hh, orb_false_r in H0. apply String.eqb_eq in H0. exact H0.
Qed.

Lemma step_publish_nohistL U P cfg rs ms c data o nonce :
  cfg_okL cfg = true -> keys_okL U P -> In c U -> RL U P rs ms ->
  op_okL ms (OpPublish c data o nonce) = true -> history_on o = false ->
  step_goalL U P cfg rs ms (OpPublish c data o nonce).
Proof.
  intros Hcfg HK Hc HR Hok Hh. unfold step_goalL, rb_step, rb_publish.
  cbn [op_okL] in Hok. repeat (apply andb_true_iff in Hok as [Hok ?]).
  apply negb_true_iff in Hok. apply String.eqb_neq in Hok.
  pose proof (popts_okL_idem _ H2 Hh) as Hidem.
  rewrite Hh. cbn [negb]. unfold result_expire. rewrite Hidem. cbn [String.eqb].
  rewrite publish_call. cbn [outbox clear_outbox app deliveries].
  rewrite handle_raw by assumption.
  cbn [mb_step]. unfold mb_publish. rewrite Hidem. cbn [String.eqb].
  unfold history_on in Hh. rewrite Hh. unfold cache_save. rewrite Hidem. cbn [String.eqb].
  split; [reflexivity|].
  destruct HR as [H1' H2' H3' H4' H5']. constructor; try assumption.
Qed.

(* ================= history ================= *)
Lemma parse_list_value_enc e it :
  nonce_ok e = true -> (fst it < BOUND)%N -> parse_list_value (RBulk (enc_l e it)) = Some it.
Proof.
  intros He Hb. unfold parse_list_value, enc_l. cbn [to_string]. rewrite extract_p1 by assumption.
  rewrite unmarshal_marshal. destruct it; reflexivity.
Qed.

Lemma parse_list_values e items :
  nonce_ok e = true -> (forall it, In it items -> (fst it < BOUND)%N) ->
  parse_all parse_list_value (rev (map RBulk (map (enc_l e) (rev items)))) = Some items.
Proof.
  intros He Hb. rewrite <- !map_rev, rev_involutive.
  induction items as [|it items IH]; [reflexivity|]. cbn [map parse_all].
  rewrite parse_list_value_enc by (try assumption; apply Hb; left; reflexivity).
  rewrite IH by (intros; apply Hb; right; assumption). reflexivity.
Qed.

Lemma list_position_contig items : forall lo top so i, contig items lo top ->
  list_position items so (so + 1)%N i =
    if ((lo <=? so) && (so <=? top))%N then Some (i + N.to_nat (so - lo) + 1)%nat
    else if ((so + 1 =? lo)%N && negb (match items with [] => true | _ => false end))%bool then Some i
    else None.
Proof.
  induction items as [|[a d] items IH]; intros lo top so i Hc.
  - destruct Hc as [_ H]. cbn in H. cbn [list_position negb andb].
    destruct (lo <=? so)%N eqn:E1; destruct (so <=? top)%N eqn:E2; cbn [andb]; rewrite ?andb_false_r; try reflexivity.
    apply N.leb_le in E1, E2. lia.
  - pose proof Hc as Hc0. apply contig_tail in Hc as [-> Hc]. cbn [list_position negb andb].
    destruct Hc0 as [_ Hlen]. cbn [List.length] in Hlen.
    destruct (lo =? so)%N eqn:E.
    + apply N.eqb_eq in E. subst so.
      replace (lo <=? lo)%N with true by (symmetry; apply N.leb_le; lia).
      replace (lo <=? top)%N with true by (symmetry; apply N.leb_le; lia). cbn [andb]. f_equal. lia.
    + apply N.eqb_neq in E. destruct (lo =? so + 1)%N eqn:E'.
      * apply N.eqb_eq in E'. replace (lo <=? so)%N with false by (symmetry; apply N.leb_gt; lia). cbn [andb].
        replace (so + 1 =? lo)%N with true by (symmetry; apply N.eqb_eq; lia). reflexivity.
      * apply N.eqb_neq in E'. rewrite (IH (lo + 1)%N top so (S i) Hc).
        replace (so + 1 =? lo + 1)%N with false by (symmetry; apply N.eqb_neq; lia).
        replace (so + 1 =? lo)%N with false by (symmetry; apply N.eqb_neq; lia). cbn [andb].
        destruct (lo + 1 <=? so)%N eqn:E1; destruct (lo <=? so)%N eqn:E3;
          try apply N.leb_le in E1; try apply N.leb_le in E3; try apply N.leb_gt in E1; try apply N.leb_gt in E3; try lia;
          cbn [andb]; [|reflexivity].
        destruct (so <=? top)%N; [|reflexivity]. f_equal. lia.
Qed.

Lemma take_limit_lim {A} z (l : list A) : take_limit z l = take_lim z l.
Proof.
  unfold take_limit, take_lim. destruct (0 <=? z)%Z eqn:E.
  - apply Z.leb_le in E. replace (z <? 0)%Z with false by (symmetry; apply Z.ltb_ge; lia). reflexivity.
  - apply Z.leb_gt in E. replace (z <? 0)%Z with true by (symmetry; apply Z.ltb_lt; lia). reflexivity.
Qed.

(* historyList's post-processing of the whole list = the memory broker's Get *)
Lemma list_post items lo top ep since lim :
  contig items lo top -> (1 <= lo)%N -> (lim =? 0)%Z = false ->
  match since with Some (so, _) => (so + 1 < two64)%N | None => True end ->
  (match since with
   | None => ResHistory (take_limit lim items) top ep
   | Some (so, se) =>
       if ((top =? so)%N && String.eqb se ep)%bool then ResHistory [] top ep
       else if (top <? so)%N then ResHistory [] top ep
       else match list_position items so (wrap64 (Z.of_N so + 1)) 0 with
            | Some p => ResHistory (take_limit lim (skipn p items)) top ep
            | None => ResHistory (take_limit lim items) top ep
            end
   end) = ResHistory (hist_sel items (mkHF since lim false)) top ep.
Proof.
  intros Hc Hlo Hl Hso. unfold hist_sel. cbn [hf_limit hf_since hf_reverse]. rewrite Hl.
  destruct since as [[so se]|]; [|rewrite take_limit_lim; reflexivity].
  rewrite wrap64_succ by assumption.
  rewrite (filter_ge_contig _ _ _ (so + 1)%N Hc).
  pose proof (contig_length _ _ _ Hc) as Hlen.
  assert (Hnil : (top < so + 1)%N -> skipn (N.to_nat (so + 1 - lo)) items = []) by (intros; apply skipn_all2; lia).
  destruct ((top =? so)%N && String.eqb se ep)%bool eqn:E1.
  { apply andb_true_iff in E1 as [E1 _]. apply N.eqb_eq in E1. rewrite Hnil by lia. rewrite take_lim_nil. reflexivity. }
  destruct (top <? so)%N eqn:E2.
  { apply N.ltb_lt in E2. rewrite Hnil by lia. rewrite take_lim_nil. reflexivity. }
  apply N.ltb_ge in E2. rewrite (list_position_contig _ _ _ so 0 Hc).
  replace (so <=? top)%N with true by (symmetry; apply N.leb_le; lia). rewrite andb_true_r.
  destruct (lo <=? so)%N eqn:E3.
  - apply N.leb_le in E3. rewrite take_limit_lim. do 2 f_equal. f_equal. lia.
  - apply N.leb_gt in E3. replace (N.to_nat (so + 1 - lo)) with O by lia. cbn [skipn].
    destruct ((so + 1 =? lo)%N && negb match items with [] => true | _ :: _ => false end)%bool;
      rewrite take_limit_lim; reflexivity.
Qed.

Lemma topr_of_hash (h : list (string * string)) (e : string) top :
  sfind "s" h = (if (top =? 0)%N then None else Some (dec top)) ->
  match sfind "s" h with Some s => RBulk s | None => RInt 0 end = topr top.
Proof. intros ->. unfold topr. destruct (top =? 0)%N; reflexivity. Qed.

Lemma hist_preL U P rs ms c nonce z :
  keys_okL U P -> In c U -> RL U P rs ms -> nonce_ok nonce = true -> small z = true ->
  let s1 := s1_of ms c nonce in
  exists st1,
    history_meta (meta_key true c) (itoa z) nonce (clear_outbox rs) = (st1, inl (topr (ms_top s1), ms_epoch s1)) /\
    chan_relL st1 c (Some s1) /\
    (forall k, k <> meta_key true c -> getk st1 k = getk rs k) /\
    now st1 = now rs /\ outbox st1 = [] /\ stream_inv s1.
Proof.
  intros HK Hc HR Hn Hz. cbn zeta. unfold s1_of.
  pose proof (RL_chan _ _ _ _ HR c Hc) as Hrel.
  assert (Hsm : list_key c <> meta_key true c) by (apply (KL_sm _ _ HK); assumption).
  destruct (sfind c (m_streams ms)) as [s|] eqn:Es.
  - destruct Hrel as [(h & x & Hg & He & Hs & Hv) Hl].
    destruct (history_meta_some (clear_outbox rs) (meta_key true c) _ nonce h x _ Hz Hg He) as (st1 & Hm & (x1 & Hg1) & Hf & Hnw & Ho).
    exists st1. rewrite Hm, (topr_of_hash h (ms_epoch s) _ Hs).
    split; [reflexivity|]. split.
    + split; [exists h, x1; split; [exact Hg1 | destruct Hv as [Hv1 Hv2]; split; [exact He|split; [exact Hs|split; [exact Hv1|exact Hv2]]]]|].
      unfold list_rel in *. rewrite (Hf _ Hsm). exact Hl.
    + split; [exact Hf|]. split; [exact Hnw|]. split; [exact Ho|]. apply (RL_inv _ _ _ _ HR c). assumption.
  - destruct Hrel as [Hgm Hgl].
    destruct (history_meta_none (clear_outbox rs) (meta_key true c) _ nonce Hz Hgm) as (st1 & Hm & (x1 & Hg1) & Hf & Hnw & Ho).
    exists st1. rewrite Hm. split; [reflexivity|]. split.
    + split; [exists [("e", nonce)], x1; split; [exact Hg1 | apply hash_ok_new]|].
      unfold list_rel. cbn [ms_items stream_new]. rewrite (Hf _ Hsm). exact Hgl.
    + split; [exact Hf|]. split; [exact Hnw|]. split; [exact Ho|]. apply stream_inv_new. assumption.
Qed.

Lemma hub_get_s1 cfg m c f mttl nonce :
  exists m', hub_get cfg m c f mttl nonce = (m', (hist_pubs (s1_of m c nonce) f, position (s1_of m c nonce))) /\
    m_cache m' = m_cache m /\ m_now m' = m_now m /\
    (forall ch, sfind ch (m_streams m') = if String.eqb ch c then Some (s1_of m c nonce) else sfind ch (m_streams m)).
Proof.
  rewrite hub_get_eq. cbn zeta. unfold s1_of. destruct (sfind c (m_streams m)) as [s|] eqn:Es.
  - eexists. split; [reflexivity|]. rewrite set_removes_cache, set_removes_now, set_removes_streams.
    split; [reflexivity|]. split; [reflexivity|]. intros ch.
    destruct (String.eqb ch c) eqn:E; [apply String.eqb_eq in E; subst; assumption|reflexivity].
  - eexists. rewrite hist_pubs_new. split; [reflexivity|]. unfold set_stream. cbn [m_cache m_now m_streams].
    rewrite set_removes_cache, set_removes_now, set_removes_streams.
    split; [reflexivity|]. split; [reflexivity|]. intros ch.
    destruct (String.eqb ch c) eqn:E;
      [apply String.eqb_eq in E; subst; apply sfind_sput_same | apply String.eqb_neq in E; apply sfind_sput_other; assumption].
Qed.

Lemma cfg_okL_small cfg : cfg_okL cfg = true -> small (c_meta_ttl cfg) = true.
Proof. unfold cfg_okL. intros H. apply andb_true_iff in H as [_ H]. exact H. Qed.

Lemma step_historyL U P cfg rs ms c f mttl nonce :
  cfg_okL cfg = true -> keys_okL U P -> In c U -> RL U P rs ms ->
  op_okL ms (OpHistory c f mttl nonce) = true -> step_goalL U P cfg rs ms (OpHistory c f mttl nonce).
Proof.
  intros Hcfg HK Hc HR Hok. destruct f as [since lim rv].
  cbn [op_okL hf_since hf_limit hf_reverse] in Hok.
  repeat (apply andb_true_iff in Hok as [Hok ?]). rename H into Hsince, H0 into Hrv, H1 into Hlim, H2 into Hmttl.
  apply negb_true_iff in Hrv. subst rv. apply Z.ltb_lt in Hlim.
  assert (Hnonce : nonce_ok nonce = true) by (unfold nonce_ok; rewrite Hok, H3; reflexivity). clear Hok H3. rename Hnonce into Hok.
  pose proof (cfg_okL_small _ Hcfg) as Hmz.
  destruct (hist_preL U P rs ms c nonce _ HK Hc HR Hok Hmz) as (st1 & Hm & Hrel1 & Hf1 & Hn1 & Ho1 & Hinv1).
  cbn zeta in Hm. set (s1 := s1_of ms c nonce) in *.
  assert (Hsok : since_ok (ms_top s1) (mkHF since lim false)).
  { unfold since_ok. cbn [hf_since hf_reverse]. destruct since as [[so se]|]; [|exact I].
    apply N.ltb_lt in Hsince. split; [lia|]. intros X; discriminate X. }
  assert (Ht1 : (ms_top s1 < BOUND)%N) by (destruct Hinv1 as (_ & H & _); exact H).
  destruct (hub_get_s1 cfg ms c (mkHF since lim false) mttl nonce) as (m' & Hget & Hmc & Hmn & Hstr). fold s1 in Hget, Hstr.
  unfold step_goalL, rb_step. rewrite (cfg_okL_lists _ Hcfg). unfold rb_history_list, history_list_args.
  cbn [hf_limit hf_since hf_reverse mb_step]. rewrite Hget.
  rewrite (hist_pubs_sel _ _ Hinv1 Hsok). cbn [position fst snd].
  change (s_history_list shallow) with (fun K A => runM (sh_history_list K A)). cbn beta.
  destruct Hrel1 as [Hmeta1 Hlist1].
  assert (HR' : RL U P (clear_outbox st1) m').
  { apply (RL_update U P rs ms _ _ c "" (Some s1)); try assumption.
    - left; reflexivity.
    - cbn. rewrite Hn1. apply (RL_now _ _ _ _ HR).
    - rewrite Hmn. apply (RL_mnow _ _ _ _ HR).
    - intros key H1 _ _. change (getk st1 key = getk rs key). apply Hf1. assumption.
    - intros ch' k' _ _. unfold cache_get. rewrite Hmc, Hmn. reflexivity.
    - split; assumption.
    - intros s0 E0. injection E0 as <-. assumption.
    - intros X. congruence. }
  destruct (lim =? 0)%Z eqn:El.
  - (* position only *)
    cbn [nth]. unfold sh_history_list. cbn [arg nth]. unfold runM, bindM. rewrite Hm. cbn [String.eqb Ascii.eqb Bool.eqb].
    unfold finish. cbn [as_array List.length Nat.ltb Nat.leb].
    rewrite parse_position_topr by assumption. cbn [String.eqb Ascii.eqb Bool.eqb orb].
    rewrite Ho1. cbn [clear_outbox outbox deliveries].
    unfold hist_sel. cbn [hf_limit]. rewrite El. split; [reflexivity|exact HR'].
  - cbn [nth]. unfold sh_history_list. cbn [arg nth]. unfold runM, bindM at 1. rewrite Hm. cbn [String.eqb Ascii.eqb Bool.eqb].
    destruct Hinv1 as (Hne1 & _ & _ & _ & lo & Hlo & Hcontig).
    assert (Hib : forall it, In it (ms_items s1) -> (fst it < BOUND)%N).
    { intros it Hin. pose proof (contig_bounds _ _ _ Hcontig it Hin). lia. }
    assert (Hso' : match since with Some (so, _) => (so + 1 < two64)%N | None => True end).
    { destruct since as [[so se]|]; [apply N.ltb_lt in Hsince; exact Hsince|exact I]. }
    rewrite bind_rc. unfold list_rel in Hlist1.
    destruct (ms_items s1) as [|it0 items0] eqn:Eit.
    + rewrite (lrange_none _ _ Hlist1). cbn iota beta. unfold finish.
      cbn [as_array List.length Nat.ltb Nat.leb]. rewrite parse_position_topr by assumption.
      cbn [String.eqb Ascii.eqb Bool.eqb orb Nat.eqb nth as_array rev parse_all].
      rewrite Ho1. cbn [clear_outbox outbox deliveries].
      split; [|exact HR']. unfold hist_sel. cbn [hf_limit hf_since hf_reverse]. rewrite El.
      assert (T : forall z, @take_limit (N * string) z [] = []).
      { intros z. unfold take_limit. destruct (0 <=? z)%Z; [apply firstn_nil|reflexivity]. }
      destruct since as [[so se]|]; cbn [filter]; rewrite take_lim_nil.
      * destruct ((ms_top s1 =? so)%N && String.eqb se (ms_epoch s1))%bool; [reflexivity|].
        destruct (ms_top s1 <? so)%N; [reflexivity|]. cbn [list_position]. rewrite T. reflexivity.
      * rewrite T. reflexivity.
    + destruct Hlist1 as [xl Hgl]. rewrite (lrange_all _ _ _ _ Hgl). cbn iota beta. unfold finish.
      cbn [as_array List.length Nat.ltb Nat.leb]. rewrite parse_position_topr by assumption.
      cbn [String.eqb Ascii.eqb Bool.eqb orb Nat.eqb nth as_array].
      rewrite <- Eit in *. rewrite (parse_list_values _ _ Hne1 Hib).
      rewrite Ho1. cbn [clear_outbox outbox deliveries hf_since hf_limit].
      rewrite <- (list_post (ms_items s1) lo (ms_top s1) (ms_epoch s1) since lim Hcontig Hlo El Hso').
      split; [|exact HR']. destruct since as [[so se]|]; reflexivity.
Qed.

(* ================= publish with history ================= *)
Definition add_tail_list (list_key meta_key result_key msg rbound ttl channel meta_expire pubcmd rexp use_delta epoch : string)
                         (topr : reply) : M reply :=
  match topr with
  | RInt topz =>
      let top := round53 topz in
      dom _ <- when_ (negb (String.eqb meta_expire "0")) (rc ["expire"; meta_key; meta_expire]) ;;
      dom prev <- (if String.eqb use_delta "1" then
                 dom p <- rc ["lindex"; list_key; "0"] ;;
                 match p with RBulk s => ret s | RNil => ret "" | _ => unreachable end
               else ret "") ;;
      let payload := p1_payload top epoch msg in
      dom _ <- rc ["lpush"; list_key; payload] ;;
      dom _ <- rc ["ltrim"; list_key; "0"; rbound] ;;
      dom _ <- rc ["expire"; list_key; ttl] ;;
      dom _ <- when_ (negb (String.eqb channel ""))
             (rc [pubcmd; channel;
                  if String.eqb use_delta "1" then d1_payload top epoch prev msg else payload]) ;;
      dom _ <- save_result result_key rexp epoch top ;;
      finish (RArr [RInt top; RBulk epoch; RBulk "0"])
  | _ => unreachable
  end.

Lemma sh_add_list_eq lk mk rk msg rbound ttl channel meta_expire nonce pubcmd rexp use_delta version vepoch :
  sh_add_list [lk; mk; rk] [msg; rbound; ttl; channel; meta_expire; nonce; pubcmd; rexp; use_delta; version; vepoch] =
  (dom c <- cached_result rk rexp ;;
   match c with
   | Some (ro, re) => finish (RArr [ro; RBulk re; RBulk "1"])
   | None =>
       dom epoch <- current_epoch mk nonce ;;
       dom topr <- rc ["hincrby"; mk; "s"; "1"] ;;
       add_tail_list lk mk rk msg rbound ttl channel meta_expire pubcmd rexp use_delta epoch topr
   end).
Proof. reflexivity. Qed.

Lemma add_tail_list_spec st c h xm items0 top0 e data sz ttl mz (rzo : option Z) rk :
  let mk := meta_key true c in let lk := list_key c in
  let rexp := match rzo with Some rz => itoa rz | None => "" end in
  getk st mk = Some (mkKey (VHash h) xm) ->
  list_rel st c e items0 ->
  (top0 + 1 < BOUND)%N ->
  (0 < sz < 2147483648)%Z -> (0 < ttl < 2147483648)%Z -> small mz = true ->
  (forall rz, rzo = Some rz -> (0 < rz < 2147483648)%Z /\
                               (getk st rk = None \/ exists hr x, getk st rk = Some (mkKey (VHash hr) x))) ->
  lk <> mk -> rk <> mk -> rk <> lk ->
  exists st',
    add_tail_list lk mk rk (marshal data false) (itoa (sz - 1)) (itoa ttl) (message_channel c) (itoa mz) "publish" rexp
             "" e (RInt (Z.of_N (top0 + 1))) st
      = (st', inr (RArr [RInt (Z.of_N (top0 + 1)); RBulk e; RBulk "0"])) /\
    (exists x, getk st' mk = Some (mkKey (VHash h) x)) /\
    (exists x, getk st' lk = Some (mkKey (VList (map (enc_l e) (rev (items_after items0 (top0 + 1) data sz)))) x)) /\
    (rzo = None -> getk st' rk = getk st rk) /\
    (rzo <> None -> exists hr x, getk st' rk = Some (mkKey (VHash hr) x) /\ sfind "e" hr = Some e
                                 /\ sfind "s" hr = Some (dec (top0 + 1))) /\
    (forall k, k <> mk -> k <> lk -> k <> rk -> getk st' k = getk st k) /\
    now st' = now st /\
    outbox st' = (outbox st ++ [(message_channel c, p1_payload (Z.of_N (top0 + 1)) e (marshal data false))])%list.
Proof.
  intros mk lk rexp Hmk Hl Ht Hsz Httl Hmz Hrk Hlm Hrm Hrl.
  assert (Htb : (top0 + 1 < 9007199254740992)%N) by (unfold BOUND in Ht; lia).
  unfold add_tail_list. rewrite round53_small by lia.
  destruct (when_expire st mk mz _ _ Hmz Hmk) as (st1 & Hw1 & (Hg1 & Hf1 & Hn1 & Ho1)).
  unfold bindM at 1. rewrite Hw1. cbn [String.eqb]. rewrite bind_ret. cbn zeta.
  (* lpush *)
  assert (Hl1 : get_list st1 lk = Some (match items0 with [] => None | _ => Some (map (enc_l e) (rev items0)) end)).
  { unfold list_rel in Hl. fold lk in Hl. destruct items0.
    - apply get_list_none. rewrite (Hf1 lk Hlm). exact Hl.
    - destruct Hl as [x Hx]. apply (get_list_some _ _ _ x). rewrite (Hf1 lk Hlm). exact Hx. }
  rewrite bind_rc, lpush1_call, Hl1. cbn zeta iota beta.
  set (newl := p1_payload (Z.of_N (top0 + 1)) e (marshal data false)
               :: match match items0 with [] => None | _ :: _ => Some (map (enc_l e) (rev items0)) end with
                  | Some l => l | None => [] end).
  assert (Hnewl : newl = map (enc_l e) (rev (items0 ++ [((top0 + 1)%N, data)]))).
  { unfold newl. rewrite rev_app_distr. cbn [rev app map]. unfold enc_l at 2. cbn [fst snd].
    destruct items0; reflexivity. }
  pose proof (getk_setval_same st1 lk (VList newl)) as Hg2.
  set (st2 := setval st1 lk (VList newl)) in *.
  (* ltrim *)
  rewrite bind_rc. rewrite itoa_nonneg by lia.
  rewrite (ltrim_keep st2 lk newl _ (Z.to_N (sz - 1)) Hg2) by (first [unfold newl; discriminate | lia]).
  cbn iota beta.
  replace (S (N.to_nat (Z.to_N (sz - 1)))) with (Z.to_nat sz) by lia.
  assert (Htrim : firstn (Z.to_nat sz) newl = map (enc_l e) (rev (items_after items0 (top0 + 1) data sz))).
  { rewrite Hnewl. unfold items_after. cbn zeta. rewrite firstn_map, firstn_rev. reflexivity. }
  rewrite Htrim.
  set (V := VList (map (enc_l e) (rev (items_after items0 (top0 + 1) data sz)))).
  pose proof (getk_setval_same st2 lk V) as Hg3.
  destruct (expire_pos _ lk ttl _ _ Httl Hg3) as (st4 & Hex4 & (Hg4 & Hf4 & Hn4 & Ho4)).
  rewrite bind_rc, Hex4. cbn iota beta.
  rewrite message_channel_nonempty. cbn [negb when_].
  rewrite bind_assoc, bind_rc, publish_call. cbn iota beta. rewrite bind_ret.
  set (st5 := mkR (store st4) (now st4)
                  (outbox st4 ++ [(message_channel c, p1_payload (Z.of_N (top0 + 1)) e (marshal data false))])%list).
  assert (Hg5 : forall k, getk st5 k = getk st4 k) by reflexivity.
  assert (Hfr5 : forall k, k <> mk -> k <> lk -> getk st5 k = getk st k).
  { intros k H1 H2. rewrite Hg5, (Hf4 k H2). rewrite getk_setval_other by exact H2.
    unfold st2. rewrite getk_setval_other by exact H2. apply Hf1. exact H1. }
  assert (Hmk5 : exists x, getk st5 mk = Some (mkKey (VHash h) x)).
  { destruct Hg1 as [x1 Hg1]. exists x1. rewrite Hg5, (Hf4 mk (not_eq_sym Hlm)).
    rewrite getk_setval_other by exact (not_eq_sym Hlm). unfold st2. rewrite getk_setval_other by exact (not_eq_sym Hlm). exact Hg1. }
  assert (Hlk5 : exists x, getk st5 lk = Some (mkKey V x)).
  { destruct Hg4 as [x4 Hg4]. exists x4. rewrite Hg5. exact Hg4. }
  assert (Hnow5 : now st5 = now st).
  { unfold st5. cbn [now]. rewrite Hn4. unfold st2. cbn [now setval putk]. congruence. }
  assert (Hout5 : outbox st5 = (outbox st ++ [(message_channel c, p1_payload (Z.of_N (top0 + 1)) e (marshal data false))])%list).
  { unfold st5. cbn [outbox]. rewrite Ho4. unfold st2. cbn [outbox setval putk]. rewrite Ho1. reflexivity. }
  destruct rzo as [rz|].
  - destruct (Hrk rz eq_refl) as [Hrz Hrkst].
    assert (Hrk5 : getk st5 rk = None \/ exists hr x, getk st5 rk = Some (mkKey (VHash hr) x)).
    { rewrite (Hfr5 rk Hrm Hrl). exact Hrkst. }
    destruct (save_result_some rk rz e (top0 + 1) st5 Hrz Ht Hrk5) as (st6 & hr & Hsv & ((x6 & Hg6) & Hf6 & Hn6 & Ho6) & He6 & Hs6).
    exists st6. unfold rexp. unfold bindM at 1. rewrite Hsv. cbn iota beta.
    split; [reflexivity|].
    split; [destruct Hmk5 as [x Hx]; exists x; rewrite (Hf6 mk (not_eq_sym Hrm)); exact Hx|].
    split; [destruct Hlk5 as [x Hx]; exists x; rewrite (Hf6 lk (not_eq_sym Hrl)); exact Hx|].
    split; [intros X; discriminate X|].
    split; [intros _; exists hr, x6; repeat split; assumption|].
    split; [intros k H1 H2 H3; rewrite (Hf6 k H3); apply Hfr5; assumption|].
    split; [congruence|]. congruence.
  - exists st5. subst rexp. cbn iota.
    split; [reflexivity|].
    split; [exact Hmk5|]. split; [exact Hlk5|].
    split; [intros _; apply Hfr5; assumption|].
    split; [intros X; congruence|].
    split; [intros k H1 H2 _; apply Hfr5; assumption|].
    split; assumption.
Qed.

Lemma list_rel_nonempty st c e items :
  items <> [] ->
  (exists x, getk st (list_key c) = Some (mkKey (VList (map (enc_l e) (rev items))) x)) ->
  list_rel st c e items.
Proof. intros Hne H. unfold list_rel. destruct items; [congruence|exact H]. Qed.

Lemma pre_stateL U P rs ms c nonce :
  keys_okL U P -> In c U -> RL U P rs ms -> nonce_ok nonce = true ->
  let s1 := s1_of ms c nonce in
  let st0 := clear_outbox rs in
  exists st1 h1 x1,
    current_epoch (meta_key true c) nonce st0 = (st1, inl (ms_epoch s1)) /\
    getk st1 (meta_key true c) = Some (mkKey (VHash h1) x1) /\
    hash_ok h1 (ms_epoch s1) (ms_top s1) 0 "" /\
    list_rel st1 c (ms_epoch s1) (ms_items s1) /\
    (forall k, k <> meta_key true c -> getk st1 k = getk rs k) /\
    now st1 = now rs /\ outbox st1 = [] /\ stream_inv s1.
Proof.
  intros HK Hc HR Hn. cbn zeta. unfold s1_of.
  pose proof (RL_chan _ _ _ _ HR c Hc) as Hrel.
  assert (Hsm : list_key c <> meta_key true c) by (apply (KL_sm _ _ HK); assumption).
  destruct (sfind c (m_streams ms)) as [s|] eqn:Es.
  - destruct Hrel as [(h & x & Hg & Hh) Hs].
    exists (clear_outbox rs), h, x.
    split; [destruct Hh as (He & _); apply (cur_epoch_some (meta_key true c) nonce (clear_outbox rs) h x _ Hg He)|].
    split; [exact Hg|]. split; [exact Hh|]. split; [exact Hs|]. split; [reflexivity|].
    split; [reflexivity|]. split; [reflexivity|]. apply (RL_inv _ _ _ _ HR c). assumption.
  - destruct Hrel as [Hm Hs].
    exists (setval (clear_outbox rs) (meta_key true c) (VHash [("e", nonce)])), [("e", nonce)], None.
    split; [apply cur_epoch_none; assumption|].
    split; [rewrite getk_setval_same; change (getk (clear_outbox rs) (meta_key true c)) with (getk rs (meta_key true c)); rewrite Hm; reflexivity|].
    split; [apply hash_ok_new|].
    split; [unfold list_rel; cbn [ms_items stream_new]; rewrite getk_setval_other by assumption; exact Hs|].
    split; [intros k Hk; rewrite getk_setval_other by assumption; reflexivity|].
    split; [reflexivity|]. split; [reflexivity|]. apply stream_inv_new. assumption.
Qed.

Lemma parse_pub_ok3 top e : (top < BOUND)%N ->
  parse_publish_reply (RArr [RInt (Z.of_N top); RBulk e; RBulk "0"]) = ResPublish top e false 0.
Proof. intros H. unfold parse_publish_reply. cbn. rewrite wrap64_small by (unfold BOUND, two64 in *; lia). reflexivity. Qed.
Lemma parse_pub_cached3 off ep : (off < BOUND)%N ->
  parse_publish_reply (RArr [RBulk (dec off); RBulk ep; RBulk "1"]) = ResPublish off ep true 1.
Proof.
  intros H. unfold parse_publish_reply. cbn [as_array List.length Nat.eqb orb negb nth as_int64 to_string Nat.leb].
  unfold parse_int64. rewrite parse_goint_dec. unfold int64_ok, BOUND in *.
  replace (-9223372036854775808 <=? Z.of_N off)%Z with true by (symmetry; apply Z.leb_le; lia).
  replace (Z.of_N off <=? 9223372036854775807)%Z with true by (symmetry; apply Z.leb_le; lia).
  cbn. rewrite wrap64_small by (unfold two64; lia). reflexivity.
Qed.

Lemma publish_args_eqL cfg c data o nonce :
  c_lists cfg = true ->
  publish_args cfg c data o nonce =
    [marshal data false; itoa (po_size o - 1); itoa (po_ttl o); message_channel c;
     itoa (meta_ttl_of cfg (po_meta_ttl o)); nonce; "publish"; result_expire o;
     if po_delta o then "1" else ""; vstr (po_version o); po_vepoch o].
Proof. intros H. unfold publish_args. rewrite H. reflexivity. Qed.

Lemma small_metaL cfg mttl : cfg_okL cfg = true -> small mttl = true -> small (meta_ttl_of cfg mttl) = true.
Proof.
  unfold cfg_okL, meta_ttl_of. intros H1 H2. apply andb_true_iff in H1 as [_ H1]. destruct (mttl =? 0)%Z; assumption.
Qed.

Lemma step_publish_histL U P cfg rs ms c data o nonce :
  cfg_okL cfg = true -> keys_okL U P -> In c U -> (po_idem o = "" \/ In (c, po_idem o) P) -> RL U P rs ms ->
  op_okL ms (OpPublish c data o nonce) = true -> history_on o = true ->
  step_goalL U P cfg rs ms (OpPublish c data o nonce).
Proof.
  intros Hcfg HK Hc Hidem HR Hok Hh.
  cbn [op_okL] in Hok. apply andb_true_iff in Hok as [Hok Htop]. apply andb_true_iff in Hok as [Hok Hdata].
  apply andb_true_iff in Hok as [Hok Hnonce]. apply andb_true_iff in Hok as [Hcne Hpo].
  apply negb_true_iff in Hcne. apply String.eqb_neq in Hcne.
  apply N.ltb_lt in Htop, Hdata.
  unfold popts_okL in Hpo. repeat (apply andb_true_iff in Hpo as [Hpo ?]).
  rename H into Hidh, H0 into Hdelta, H1 into Hver, H2 into Hidttl, H3 into Hmttl, H4 into Httl.
  apply Z.ltb_lt in Hpo, Httl. apply N.eqb_eq in Hver. apply negb_true_iff in Hdelta.
  unfold history_on in Hh. apply andb_true_iff in Hh as [Hsz0 Httl0]. apply Z.ltb_lt in Hsz0, Httl0.
  pose proof (small_metaL _ _ Hcfg Hmttl) as Hmz.
  pose proof (cfg_okL_lists _ Hcfg) as Hl.
  assert (Hnow : now rs = 0%N) by apply (RL_now _ _ _ _ HR).
  assert (Hmnow : m_now ms = 0%N) by apply (RL_mnow _ _ _ _ HR).
  assert (Hsm : list_key c <> meta_key true c) by (apply (KL_sm _ _ HK); assumption).
  set (k := po_idem o) in *.
  unfold step_goalL, rb_step, rb_publish.
  unfold history_on. replace ((0 <? po_size o)%Z && (0 <? po_ttl o)%Z)%bool with true
    by (symmetry; apply andb_true_iff; split; apply Z.ltb_lt; assumption).
  cbn [negb]. rewrite Hl. unfold publish_keys. rewrite Hl. rewrite publish_args_eqL by assumption.
  change (s_add_list shallow) with (fun K A => runM (sh_add_list K A)). cbn beta.
  rewrite sh_add_list_eq. rewrite result_expire_rzo. fold k. rewrite Hdelta.
  cbn [mb_step]. unfold mb_publish. fold k.
  replace ((0 <? po_size o)%Z && (0 <? po_ttl o)%Z)%bool with true
    by (symmetry; apply andb_true_iff; split; apply Z.ltb_lt; assumption).
  assert (Hcache :
    (exists off ep, k <> "" /\ cache_get ms c k = Some (off, ep) /\ (off < BOUND)%N /\
       cached_result (result_key c k) (match rzo_of o with Some rz => itoa rz | None => "" end) (clear_outbox rs)
         = (clear_outbox rs, inl (Some (RBulk (dec off), ep)))) \/
    ((if String.eqb k "" then None else cache_get ms c k) = None /\
     cached_result (result_key c k) (match rzo_of o with Some rz => itoa rz | None => "" end) (clear_outbox rs)
       = (clear_outbox rs, inl None) /\
     (forall rz, rzo_of o = Some rz ->
        getk rs (result_key c k) = None \/ exists hr x, getk rs (result_key c k) = Some (mkKey (VHash hr) x)))).
  { unfold rzo_of. fold k. destruct (String.eqb k "") eqn:Ek.
    - right. split; [reflexivity|]. split; [reflexivity|]. intros rz X. discriminate X.
    - apply String.eqb_neq in Ek. destruct Hidem as [Hidem|Hidem]; [contradiction|].
      pose proof (RL_cache _ _ _ _ HR c k Hidem) as Hcr. unfold cache_rel in Hcr.
      assert (Hrne : itoa (if (po_idem_ttl o =? 0)%Z then default_idem_ttl else po_idem_ttl o) <> "").
      { apply small_range in Hidttl. rewrite itoa_nonneg by (destruct (po_idem_ttl o =? 0)%Z; unfold default_idem_ttl; lia).
        apply dec_nonempty. }
      destruct (cache_get ms c k) as [[off ep]|] eqn:Ecg.
      + left. destruct Hcr as (hr & x & Hg & He & Hs & Hb). exists off, ep.
        split; [assumption|]. split; [reflexivity|]. split; [assumption|].
        rewrite (cached_hit _ _ (clear_outbox rs) hr x ep Hrne Hg He). rewrite Hs. reflexivity.
      + right. split; [reflexivity|]. split; [apply cached_miss; assumption|].
        intros rz _. left. exact Hcr. }
  destruct Hcache as [(off & ep & Hkne & Hcg & Hoff & Hcr) | (Hcg & Hcr & Hrkst)].
  { unfold runM, bindM at 1. rewrite Hcr. cbn iota beta. unfold finish.
    apply String.eqb_neq in Hkne. rewrite Hkne, Hcg.
    rewrite parse_pub_cached3 by assumption. cbn [clear_outbox outbox deliveries].
    split; [reflexivity|]. destruct HR. constructor; assumption. }
  rewrite Hcg. unfold runM, bindM at 1. rewrite Hcr. cbn iota beta.
  destruct (pre_stateL U P rs ms c nonce HK Hc HR Hnonce) as (st1 & h1 & x1 & Hce & Hg1 & Hh1 & Hs1 & Hf1 & Hn1 & Ho1 & Hinv1).
  cbn zeta in Hce. unfold bindM at 1. rewrite Hce. cbn iota beta.
  set (s1 := s1_of ms c nonce) in *.
  assert (Ht1 : (ms_top s1 < BOUND)%N) by (destruct Hinv1 as (_ & H & _); exact H).
  assert (Htop' : (ms_top s1 + 1 < BOUND)%N).
  { unfold top_of in Htop. unfold s1, s1_of. destruct (sfind c (m_streams ms)); exact Htop. }
  destruct (hub_add_spec cfg ms c data o nonce) as (m' & Hmc & Hmn & Hadd). cbn zeta in Hadd. fold s1 in Hadd.
  rewrite Hver in Hadd. cbn [N.ltb N.compare andb] in Hadd. destruct Hadd as [Hadd Hstr]. rewrite Hadd. cbn iota beta.
  rewrite Hdelta.
  set (s' := fst (stream_add s1 data (po_size o) 0 (po_vepoch o))) in *.
  destruct (hincrby_spec st1 (meta_key true c) h1 x1 _ _ _ _ Hg1 Hh1 Htop') as (h3 & Hinc & Hh3).
  rewrite bind_rc, Hinc. cbn iota beta.
  pose proof (getk_setval_same st1 (meta_key true c) (VHash h3)) as Hg3.
  set (st3 := setval st1 (meta_key true c) (VHash h3)) in *.
  assert (Hs3 : list_rel st3 c (ms_epoch s1) (ms_items s1)).
  { unfold list_rel in *. unfold st3. rewrite getk_setval_other by assumption. exact Hs1. }
  assert (Hrm : result_key c k <> meta_key true c) by apply result_metaL_neq.
  assert (Hrs : result_key c k <> list_key c) by apply result_list_neq.
  assert (Hrk3 : forall rz, rzo_of o = Some rz -> (0 < rz < 2147483648)%Z /\
            (getk st3 (result_key c k) = None \/ exists hr x, getk st3 (result_key c k) = Some (mkKey (VHash hr) x))).
  { intros rz Hrz. split; [apply (rzo_range o rz Hidttl Hrz)|].
    unfold st3. rewrite getk_setval_other by assumption. rewrite (Hf1 _ Hrm). apply (Hrkst rz Hrz). }
  destruct (add_tail_list_spec st3 c h3 _ (ms_items s1) (ms_top s1) (ms_epoch s1) data (po_size o) (po_ttl o)
              (meta_ttl_of cfg (po_meta_ttl o)) (rzo_of o) (result_key c k)
              Hg3 Hs3 Htop' (conj Hsz0 Hpo) (conj Httl0 Httl) Hmz Hrk3 Hsm Hrm Hrs)
    as (st' & Hat & Hmk' & Hsk' & Hrk0 & Hrk1 & Hfr' & Hnow' & Hout').
  rewrite Hat. cbn iota beta.
  rewrite parse_pub_ok3 by assumption.
  assert (Hout3 : outbox st3 = []) by (unfold st3; cbn [outbox setval putk]; congruence).
  rewrite Hout', Hout3. cbn [clear_outbox outbox app deliveries].
  assert (Hne : nonce_ok (ms_epoch s1) = true) by (destruct Hinv1 as (H & _); exact H).
  rewrite handle_p1 by assumption. cbn [fst snd].
  split; [reflexivity|].
  apply (RL_update U P rs ms _ _ c k (Some s')); try assumption.
  + cbn. rewrite Hnow'. unfold st3. cbn [now setval putk]. congruence.
  + rewrite cache_save_now. congruence.
  + intros key H1 H2 H3. change (getk st' key = getk rs key).
    destruct H3 as [H3|H3].
    * destruct (String.eqb key (result_key c k)) eqn:Ekey.
      -- apply String.eqb_eq in Ekey. subst key.
         assert (Hnone : rzo_of o = None) by (unfold rzo_of; fold k; rewrite H3; reflexivity).
         rewrite (Hrk0 Hnone). unfold st3. rewrite getk_setval_other by assumption. apply Hf1. assumption.
      -- apply String.eqb_neq in Ekey. rewrite (Hfr' key H1 H2 Ekey).
         unfold st3. rewrite getk_setval_other by assumption. apply Hf1. assumption.
    * rewrite (Hfr' key H1 H2 H3). unfold st3. rewrite getk_setval_other by assumption. apply Hf1. assumption.
  + intros ch. rewrite cache_save_streams. apply Hstr.
  + intros ch' k' Hne' Hin.
    destruct Hne' as [Hk0|Hne'].
    * rewrite cache_save_none by assumption. unfold cache_get. rewrite Hmc, Hmn. reflexivity.
    * destruct Hidem as [Hk0|Hin0].
      -- rewrite cache_save_none by assumption. unfold cache_get. rewrite Hmc, Hmn. reflexivity.
      -- rewrite cache_get_save_other.
         ++ unfold cache_get. rewrite Hmc, Hmn. reflexivity.
         ++ intros X. apply Hne'. apply (KL_cache _ _ HK (ch', k') (c, k) Hin Hin0 X).
  + split.
    * destruct Hmk' as [x Hx]. exists h3, x. split; [exact Hx|].
      unfold s'. cbn [stream_add fst ms_epoch ms_top ms_ver ms_vepoch]. exact Hh3.
    * unfold s'. rewrite stream_add_items. cbn [stream_add fst ms_epoch]. apply list_rel_nonempty.
      -- apply items_after_nonempty. assumption.
      -- exact Hsk'.
  + intros s0 E0. injection E0 as <-. unfold s'. apply stream_inv_after; try assumption. lia.
  + intros Hkne Hin0.
    assert (Hsome : exists rz, rzo_of o = Some rz).
    { unfold rzo_of. fold k. apply String.eqb_neq in Hkne. rewrite Hkne. eexists. reflexivity. }
    destruct Hsome as [rz Hrz].
    unfold cache_rel.
    assert (Hm'now : m_now m' = 0%N) by congruence.
    rewrite (cache_get_save_same m' c o _ rz Hm'now Hrz) by (apply (rzo_range o rz Hidttl Hrz)).
    destruct Hrk1 as (hr & x & Hgr & Her & Hsr); [congruence|].
    exists hr, x. repeat split; assumption.
Qed.

(* ================= the theorem ================= *)
Lemma step_simL U P cfg rs ms o :
  cfg_okL cfg = true -> keys_okL U P -> incl (op_chan o) U -> incl (op_idem o) P -> RL U P rs ms ->
  op_okL ms o = true -> step_goalL U P cfg rs ms o.
Proof.
  intros Hcfg HK HU HP HR Hok. destruct o as [c data po nonce | c f mttl nonce | c | ms'].
  - assert (Hc : In c U) by (apply HU; left; reflexivity).
    destruct (history_on po) eqn:Hh.
    + apply step_publish_histL; try assumption.
      cbn [op_idem] in HP. destruct (String.eqb (po_idem po) "") eqn:E.
      * left. apply String.eqb_eq. assumption.
      * right. apply HP. left. reflexivity.
    + apply step_publish_nohistL; assumption.
  - apply step_historyL; try assumption. apply HU. left. reflexivity.
  - apply step_removeL; try assumption. apply HU. left. reflexivity.
  - discriminate Hok.
Qed.

Lemma RL_init U P : RL U P rinit minit.
Proof.
  constructor.
  - reflexivity.
  - reflexivity.
  - intros ch _. cbn. split; reflexivity.
  - intros ch s H. discriminate H.
  - intros ch k _. unfold cache_rel. cbn. reflexivity.
Qed.

Lemma run_simL U P cfg ops : forall rs ms,
  cfg_okL cfg = true -> keys_okL U P -> incl (chans ops) U -> incl (idems ops) P -> RL U P rs ms ->
  run_okL cfg ms ops = true -> rb_run shallow cfg rs ops = mb_run cfg ms ops.
Proof.
  induction ops as [|o ops IH]; intros rs ms Hcfg HK HU HP HR Hok; [reflexivity|].
  cbn [run_okL] in Hok. apply andb_true_iff in Hok as [Hok1 Hok2].
  cbn [chans idems flat_map] in HU, HP.
  assert (HU1 : incl (op_chan o) U) by (intros x Hx; apply HU; apply in_or_app; left; assumption).
  assert (HU2 : incl (chans ops) U) by (intros x Hx; apply HU; apply in_or_app; right; assumption).
  assert (HP1 : incl (op_idem o) P) by (intros x Hx; apply HP; apply in_or_app; left; assumption).
  assert (HP2 : incl (idems ops) P) by (intros x Hx; apply HP; apply in_or_app; right; assumption).
  pose proof (step_simL U P cfg rs ms o Hcfg HK HU1 HP1 HR Hok1) as Hs. unfold step_goalL in Hs.
  cbn [rb_run mb_run].
  destruct (rb_step shallow cfg rs o) as [rs' o1]. destruct (mb_step cfg ms o) as [ms' o2].
  destruct Hs as [-> HR']. f_equal. apply IH; assumption.
Qed.

Theorem agree_list cfg ops :
  cfg_okL cfg = true -> keys_okbL (chans ops) (idems ops) = true -> run_okL cfg minit ops = true ->
  redis_run cfg ops = mem_run cfg ops.
Proof.
  intros Hcfg HK Hok. unfold redis_run, mem_run.
  apply (run_simL (chans ops) (idems ops)); try assumption.
  - apply keys_okbL_sound. assumption.
  - apply incl_refl.
  - apply incl_refl.
  - apply RL_init.
Qed.
