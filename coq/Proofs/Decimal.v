(* The model of udecimal.Parse / Decimal.Cmp (Model/Decimal.v) agrees with the
   numeral grammar and the exact rational comparison of the specification
   (Model/FilterSpec.v):

     dec_parse_numeral : dec_parse s = option_map norm (numeral s)
     dec_cmp_norm      : dec_cmp (norm a) (norm b) = num_cmp a b            *)
From Coq Require Import List NArith ZArith Bool Lia ZifyBool.
From Cfg Require Import Model.Decimal Model.Filter Model.FilterSpec.
Import ListNotations.
Open Scope N_scope.

(* canonical engine value of the number z / 10^p *)
Definition norm (v : Z * nat) : dec :=
  let '(z, p) := v in
  if (z =? 0)%Z then dec_zero else mkDec (z <? 0)%Z (Z.abs_N z) p.

(* ---------- digit strings ---------- *)

Lemma digits_acc_app : forall a b x,
  digits_acc (a ++ b) x = digits_acc b (digits_acc a x).
Proof. induction a; intros; cbn [app digits_acc]; auto. Qed.

Lemma digits_acc_lin : forall s x,
  digits_acc s x = x * pow10 (length s) + digits_acc s 0.
Proof.
  induction s as [|c s IH]; intros x; cbn [digits_acc length].
  - unfold pow10. cbn. lia.
  - rewrite IH. rewrite (IH (0 * 10 + (c - 48))).
    unfold pow10. rewrite Nat2N.inj_succ, N.pow_succ_r by lia.
    generalize (c - 48) (10 ^ N.of_nat (length s)) (digits_acc s 0). intros k P D. ring.
Qed.

Lemma digits_val_app : forall a b,
  digits_val (a ++ b) = digits_val a * pow10 (length b) + digits_val b.
Proof.
  intros. unfold digits_val. rewrite digits_acc_app.
  rewrite digits_acc_lin. reflexivity.
Qed.

Lemma all_digits_app : forall a b, all_digits (a ++ b) = all_digits a && all_digits b.
Proof. intros. unfold all_digits. apply forallb_app. Qed.

Lemma is_digit_not_dot : forall c, is_digit c = true -> (c =? 46) = false.
Proof. intros c H. unfold is_digit in H. apply N.eqb_neq. lia. Qed.

Lemma is_digit_not_sign : forall c, is_digit c = true -> (c =? 45) = false /\ (c =? 43) = false.
Proof. intros c H. unfold is_digit in H. split; apply N.eqb_neq; lia. Qed.

Lemma pow10_pos : forall p, 0 < pow10 p.
Proof. intros. unfold pow10. apply N.neq_0_lt_0. apply N.pow_nonzero. lia. Qed.

Lemma pow10_add : forall a b, pow10 (a + b) = pow10 a * pow10 b.
Proof. intros. unfold pow10. rewrite Nat2N.inj_add. apply N.pow_add_r. Qed.

(* ---------- split_dot ---------- *)

Lemma split_dot_none : forall s i, split_dot s = (i, None) -> i = s.
Proof.
  induction s as [|c s IH]; intros i H; cbn [split_dot] in H.
  - now inversion H.
  - destruct (c =? 46); [discriminate|].
    destruct (split_dot s) as [a [f|]]; inversion H; subst.
    f_equal. now apply IH.
Qed.

Lemma split_dot_cons : forall c s, (c =? 46) = false ->
  split_dot (c :: s) = (c :: fst (split_dot s), snd (split_dot s)).
Proof. intros c s H. cbn [split_dot]. rewrite H. now destruct (split_dot s). Qed.

Lemma split_dot_length : forall s i f, split_dot s = (i, Some f) ->
  length s = S (length i + length f).
Proof.
  induction s as [|c s IH]; intros i f H; cbn [split_dot] in H; [discriminate|].
  destruct (c =? 46).
  - inversion H; subst. reflexivity.
  - destruct (split_dot s) as [a [g|]] eqn:E; inversion H; subst.
    cbn [length]. now rewrite (IH a f eq_refl).
Qed.

(* ---------- parseSmallToU128 ---------- *)

Lemma small_loop_prec : forall s coef p, p <> O ->
  small_loop s coef p = if all_digits s then UOk (digits_acc s coef) p else UErr.
Proof.
  induction s as [|c s IH]; intros coef p Hp; cbn [small_loop all_digits forallb digits_acc].
  - reflexivity.
  - destruct (c =? 46) eqn:E.
    + apply N.eqb_eq in E; subst c. cbn [is_digit N.leb N.compare].
      destruct p; [congruence|]. reflexivity.
    + destruct (is_digit c); cbn [andb]; [now apply IH | reflexivity].
Qed.

Lemma small_loop_spec : forall s coef,
  small_loop s coef 0 =
  match split_dot s with
  | (i, None) => if all_digits i then UOk (digits_acc i coef) 0 else UErr
  | (i, Some f) =>
      if all_digits i && nonempty f && all_digits f && Nat.leb (length f) 19
      then UOk (digits_acc (i ++ f) coef) (length f) else UErr
  end.
Proof.
  induction s as [|c s IH]; intros coef; cbn [small_loop split_dot].
  - reflexivity.
  - destruct (c =? 46) eqn:E.
    + cbn [Nat.eqb negb all_digits forallb andb app].
      destruct s as [|d s]; [reflexivity|].
      cbn [length Nat.eqb nonempty].
      destruct (Nat.ltb 19 (S (length s))) eqn:L.
      * replace (Nat.leb (S (length s)) 19) with false.
        2:{ symmetry. apply Nat.leb_gt. apply Nat.ltb_lt in L. lia. }
        now rewrite andb_false_r.
      * replace (Nat.leb (S (length s)) 19) with true.
        2:{ symmetry. apply Nat.leb_le. apply Nat.ltb_ge in L. lia. }
        rewrite andb_true_r. rewrite small_loop_prec by discriminate. reflexivity.
    + destruct (split_dot s) as [a [f|]] eqn:S.
      * cbn [all_digits forallb app digits_acc].
        destruct (is_digit c); cbn [andb]; [|reflexivity].
        rewrite IH. reflexivity.
      * cbn [all_digits forallb digits_acc].
        destruct (is_digit c); cbn [andb]; [|reflexivity].
        rewrite IH. reflexivity.
Qed.

Lemma all_digits_head : forall c a, all_digits (c :: a) = true -> is_digit c = true.
Proof. intros c a H. cbn [all_digits forallb] in H. now apply andb_true_iff in H. Qed.

(* what the fast path tells about an unsigned body [rest] (first byte not '.') *)
Definition u128_ok (rest : bytes) (r : ures) : Prop :=
  match r with
  | UOk c p => exists c' p', unsigned_num rest = Some (c', p') /\
                             forall n, new_decimal n c p = new_decimal n c' p'
  | UErr => unsigned_num rest = None
  | UOverflow => exists d t, rest = d :: t /\ is_digit d = true
  end.

Lemma unsigned_num_cons : forall c t, (c =? 46) = false ->
  unsigned_num (c :: t) =
  match split_dot t with
  | (a, None) => if all_digits (c :: a) then Some (digits_val (c :: a), O) else None
  | (a, Some f) =>
      if all_digits (c :: a) && nonempty f && all_digits f && Nat.leb (length f) 19
      then Some (digits_val ((c :: a) ++ f), length f) else None
  end.
Proof.
  intros c t Hc. unfold unsigned_num. rewrite (split_dot_cons c t Hc).
  destruct (split_dot t) as [a [f|]]; reflexivity.
Qed.

Lemma parse_small_ok : forall c t, (c =? 46) = false ->
  u128_ok (c :: t) (parse_small (c :: t)).
Proof.
  intros c t Hc. unfold parse_small. rewrite small_loop_spec.
  unfold u128_ok. rewrite (unsigned_num_cons c t Hc). rewrite (split_dot_cons c t Hc).
  destruct (split_dot t) as [a [f|]]; cbn [fst snd].
  - fold (digits_val (((c :: a) ++ f))).
    destruct (all_digits (c :: a) && nonempty f && all_digits f && Nat.leb (length f) 19); [|reflexivity].
    destruct (digits_val ((c :: a) ++ f)) eqn:V.
    + eexists _, _. split; [reflexivity|]. intros n. reflexivity.
    + eexists _, _. split; [reflexivity|]. intros n. reflexivity.
  - fold (digits_val (c :: a)).
    destruct (all_digits (c :: a)); [|reflexivity].
    destruct (digits_val (c :: a)) eqn:V.
    + eexists _, _. split; [reflexivity|]. intros n. reflexivity.
    + eexists _, _. split; [reflexivity|]. intros n. reflexivity.
Qed.

Lemma leb_ltb_19 : forall n, Nat.leb n 19 = negb (Nat.ltb 19 n).
Proof.
  intros n. destruct (Nat.ltb 19 n) eqn:L.
  - apply Nat.ltb_lt in L. apply Nat.leb_gt. lia.
  - apply Nat.ltb_ge in L. apply Nat.leb_le. lia.
Qed.

Lemma parse_large_ok : forall c t, (c =? 46) = false ->
  u128_ok (c :: t) (parse_large (c :: t)).
Proof.
  intros c t Hc. unfold parse_large, u128_ok.
  rewrite (unsigned_num_cons c t Hc). rewrite (split_dot_cons c t Hc).
  destruct (split_dot t) as [a [f|]] eqn:S; cbn [fst snd is_nil orb].
  - rewrite leb_ltb_19.
    destruct f as [|d f'].
    + cbn [is_nil nonempty]. rewrite andb_false_r. reflexivity.
    + cbn [is_nil nonempty]. rewrite andb_true_r.
      set (f := d :: f').
      destruct (Nat.ltb 19 (length f)) eqn:L; cbn [negb].
      * rewrite andb_false_r. reflexivity.
      * rewrite andb_true_r. unfold digits_u128.
        destruct (all_digits (c :: a)) eqn:Da; cbn [andb]; [|reflexivity].
        pose proof (all_digits_head _ _ Da) as Hd.
        destruct (digits_val (c :: a) <? U128); [|eauto].
        destruct (all_digits f) eqn:Df; [|reflexivity].
        destruct (digits_val f <? U128); [|eauto].
        destruct (_ <? U128); [|eauto].
        eexists _, _. split; [reflexivity|].
        intros n. now rewrite digits_val_app.
  - apply split_dot_none in S. subst a. unfold digits_u128.
    destruct (all_digits (c :: t)) eqn:Da; [|reflexivity].
    pose proof (all_digits_head _ _ Da) as Hd.
    destruct (_ <? U128); eauto.
Qed.

(* ---------- big.Int fallback ---------- *)

Lemma big_core_plain : forall v,
  match v with [] => True | c :: _ => (c =? 43) = false /\ (c =? 45) = false end ->
  big_core v = pos_num (unsigned_num v).
Proof.
  intros v Hv. unfold big_core, unsigned_num.
  destruct v as [|c t].
  - reflexivity.
  - destruct Hv as [H43 H45].
    destruct (c =? 46) eqn:Hc.
    + cbn [split_dot]. rewrite Hc. reflexivity.
    + rewrite (split_dot_cons c t Hc).
      destruct (split_dot t) as [a [f|]] eqn:S; cbn [fst snd nonempty andb is_nil orb].
      * destruct f as [|d f']; cbn [is_nil nonempty].
        { rewrite andb_false_r. reflexivity. }
        rewrite andb_true_r. set (f := d :: f').
        destruct (Nat.ltb 19 (length f)) eqn:L.
        { replace (Nat.leb (length f) 19) with false.
          2:{ symmetry. apply Nat.leb_gt. apply Nat.ltb_lt in L. lia. }
          rewrite andb_false_r. reflexivity. }
        replace (Nat.leb (length f) 19) with true.
        2:{ symmetry. apply Nat.leb_le. apply Nat.ltb_ge in L. lia. }
        rewrite andb_true_r.
        unfold set_string. cbn [app]. rewrite H43, H45. cbn [is_nil].
        change (c :: a ++ f) with ((c :: a) ++ f). rewrite all_digits_app.
        destruct (all_digits (c :: a) && all_digits f); reflexivity.
      * apply split_dot_none in S. subst a.
        unfold set_string. rewrite H43, H45. cbn [is_nil].
        destruct (all_digits (c :: t)); reflexivity.
Qed.

(* [value] begins with a sign that SetString will consume *)
Lemma big_core_signed : forall c u, (c =? 43) = true \/ (c =? 45) = true ->
  match u with [] => True | d :: _ => (d =? 46) = false end ->
  big_core (c :: u) =
  if c =? 43 then pos_num (unsigned_num u) else neg_num (unsigned_num u).
Proof.
  intros c u Hc Hu.
  assert (Hdot : (c =? 46) = false).
  { destruct Hc as [H|H]; apply N.eqb_eq in H; subst; reflexivity. }
  assert (Hset : forall ds, set_string (c :: ds) =
            if is_nil ds then None
            else if all_digits ds
                 then Some (if c =? 43 then Z.of_N (digits_val ds) else (- Z.of_N (digits_val ds))%Z)
                 else None).
  { intros ds. unfold set_string. destruct Hc as [H|H].
    - rewrite H. reflexivity.
    - rewrite H. apply N.eqb_eq in H. subst c. reflexivity. }
  unfold big_core, unsigned_num. rewrite (split_dot_cons c u Hdot).
  destruct u as [|d t].
  - cbn [split_dot fst snd]. rewrite Hset. cbn. now destruct (c =? 43).
  - rewrite (split_dot_cons d t Hu).
    destruct (split_dot t) as [a [f|]] eqn:S; cbn [fst snd nonempty andb is_nil orb].
    + destruct f as [|e f']; cbn [is_nil nonempty].
      { rewrite andb_false_r. now destruct (c =? 43). }
      rewrite andb_true_r. set (f := e :: f').
      destruct (Nat.ltb 19 (length f)) eqn:L.
      { replace (Nat.leb (length f) 19) with false.
        2:{ symmetry. apply Nat.leb_gt. apply Nat.ltb_lt in L. lia. }
        rewrite andb_false_r. now destruct (c =? 43). }
      replace (Nat.leb (length f) 19) with true.
      2:{ symmetry. apply Nat.leb_le. apply Nat.ltb_ge in L. lia. }
      rewrite andb_true_r.
      change ((c :: d :: a) ++ f) with (c :: ((d :: a) ++ f)). rewrite Hset.
      cbn [app is_nil]. change (d :: a ++ f) with ((d :: a) ++ f).
      rewrite all_digits_app.
      destruct (all_digits (d :: a) && all_digits f); now destruct (c =? 43).
    + apply split_dot_none in S. subst a. rewrite Hset. cbn [is_nil].
      destruct (all_digits (d :: t)); now destruct (c =? 43).
Qed.

(* a '.' directly after the sign inside [value]: only short strings get through *)
Lemma big_core_signed_dot : forall c f z p, (c =? 46) = false ->
  big_core (c :: 46 :: f) = Some (z, p) -> (length f <= 19)%nat.
Proof.
  intros c f z p Hc H. unfold big_core in H. rewrite (split_dot_cons c _ Hc) in H.
  cbn [split_dot N.eqb Pos.eqb fst snd is_nil orb] in H.
  destruct f as [|e f']; [cbn; lia|]. cbn [is_nil] in H.
  destruct (Nat.ltb 19 (length (e :: f'))) eqn:L; [discriminate|].
  apply Nat.ltb_ge in L. exact L.
Qed.

Definition fin_big (s : bytes) : option dec :=
  match parse_big s with
  | Some (neg, c, p) => Some (new_decimal neg c p)
  | None => None
  end.

Lemma new_decimal_norm_pos : forall n c p,
  n = false \/ c <> 0 -> new_decimal n c p = norm (if n then (- Z.of_N c)%Z else Z.of_N c, p).
Proof.
  intros n c p H. unfold new_decimal, norm.
  destruct c as [|q].
  - destruct n; reflexivity.
  - destruct n; cbn; reflexivity.
Qed.

Lemma new_decimal_neg_zero : forall n p, new_decimal n 0 p = dec_zero.
Proof. reflexivity. Qed.

Lemma norm_neg : forall c p, norm ((- Z.of_N c)%Z, p) = new_decimal true c p.
Proof. intros [|q] p; reflexivity. Qed.

Lemma norm_pos : forall c p, norm (Z.of_N c, p) = new_decimal false c p.
Proof. intros [|q] p; reflexivity. Qed.

(* strings of the documented shape: optional sign, then a digit *)
Definition std_shaped (s : bytes) : Prop :=
  exists d t, is_digit d = true /\
    (s = d :: t \/ s = 45 :: d :: t \/ s = 43 :: d :: t).

Lemma fin_big_std_shaped : forall s, std_shaped s ->
  fin_big s = option_map norm (std_num s).
Proof.
  intros s (d & t & Hd & Hs).
  pose proof (is_digit_not_dot _ Hd) as Hdot.
  pose proof (is_digit_not_sign _ Hd) as [H45 H43].
  unfold fin_big, parse_big, std_num.
  destruct Hs as [Hs|[Hs|Hs]]; subst s.
  - rewrite Hdot, H45, H43. cbn [orb]. rewrite Hdot.
    rewrite big_core_plain by (split; assumption).
    destruct (unsigned_num (d :: t)) as [[c p]|]; cbn [pos_num option_map]; [|reflexivity].
    replace (Z.of_N c <? 0)%Z with false by (symmetry; apply Z.ltb_ge; lia).
    rewrite N2Z.id. now rewrite norm_pos.
  - cbn [N.eqb Pos.eqb orb]. rewrite Hdot.
    rewrite big_core_plain by (split; assumption).
    destruct (unsigned_num (d :: t)) as [[c p]|]; cbn [pos_num neg_num option_map]; [|reflexivity].
    replace (Z.of_N c <? 0)%Z with false by (symmetry; apply Z.ltb_ge; lia).
    rewrite N2Z.id. now rewrite norm_neg.
  - cbn [N.eqb Pos.eqb orb]. rewrite Hdot.
    rewrite big_core_signed by (try (left; reflexivity); exact Hdot).
    cbn [N.eqb Pos.eqb].
    destruct (unsigned_num (d :: t)) as [[c p]|]; cbn [pos_num option_map]; [|reflexivity].
    replace (Z.of_N c <? 0)%Z with false by (symmetry; apply Z.ltb_ge; lia).
    rewrite N2Z.id. now rewrite norm_pos.
Qed.

Lemma unsigned_num_shape : forall u v, unsigned_num u = Some v ->
  exists d t, u = d :: t /\ is_digit d = true.
Proof.
  intros u v H. unfold unsigned_num in H.
  destruct u as [|c t]; [discriminate|].
  exists c, t. split; [reflexivity|].
  cbn [split_dot] in H. destruct (c =? 46) eqn:E.
  - cbn in H. discriminate.
  - destruct (split_dot t) as [a [f|]]; cbn [nonempty andb] in H.
    + destruct (all_digits (c :: a)) eqn:D; [|discriminate]. eapply all_digits_head; eauto.
    + destruct (all_digits (c :: a)) eqn:D; [|discriminate]. eapply all_digits_head; eauto.
Qed.

Lemma std_num_shaped : forall s v, std_num s = Some v -> std_shaped s.
Proof.
  intros s v H. unfold std_num in H. destruct s as [|c u]; [discriminate|].
  destruct (c =? 45) eqn:E45.
  - apply N.eqb_eq in E45. subst c.
    destruct (unsigned_num u) as [w|] eqn:U; [|discriminate].
    destruct (unsigned_num_shape _ _ U) as (d & t & -> & Hd).
    exists d, t. auto.
  - destruct (c =? 43) eqn:E43.
    + apply N.eqb_eq in E43. subst c.
      destruct (unsigned_num u) as [w|] eqn:U; [|discriminate].
      destruct (unsigned_num_shape _ _ U) as (d & t & -> & Hd).
      exists d, t. auto.
    + destruct (unsigned_num (c :: u)) as [w|] eqn:U; [|discriminate].
      destruct (unsigned_num_shape _ _ U) as (d & t & Heq & Hd).
      inversion Heq; subst. exists d, t. auto.
Qed.

Lemma unsigned_num_dot : forall f, unsigned_num (46 :: f) = None.
Proof. reflexivity. Qed.

(* inputs that are not of the documented shape and too long for the fast path *)
Lemma fin_big_long : forall s, std_num s = None -> (22 < length s)%nat ->
  fin_big s = option_map norm (long_num s).
Proof.
  intros s Hstd Hlen. unfold fin_big, parse_big, long_num.
  destruct s as [|c0 s1]; [reflexivity|].
  unfold std_num in Hstd.
  destruct (c0 =? 46) eqn:E46.
  { apply N.eqb_eq in E46. subst c0. cbn [N.eqb Pos.eqb andb].
    destruct s1; reflexivity. }
  destruct (c0 =? 45) eqn:E45.
  - (* "-" value *)
    cbn [orb andb].
    destruct s1 as [|c1 u]; [reflexivity|].
    destruct (c1 =? 46) eqn:F46.
    { apply N.eqb_eq in F46. subst c1. reflexivity. }
    destruct (c1 =? 43) eqn:F43.
    + (* "-+" *)
      apply N.eqb_eq in F43. subst c1.
      destruct u as [|d t].
      * reflexivity.
      * destruct (d =? 46) eqn:G46.
        { apply N.eqb_eq in G46. subst d.
          destruct (big_core (43 :: 46 :: t)) as [[z p]|] eqn:B.
          - apply big_core_signed_dot in B; [|reflexivity].
            cbn [length] in Hlen. lia.
          - reflexivity. }
        rewrite big_core_signed by (try (left; reflexivity); exact G46).
        cbn [N.eqb Pos.eqb].
        destruct (unsigned_num (d :: t)) as [[c p]|]; cbn [pos_num neg_num option_map]; [|reflexivity].
        replace (Z.of_N c <? 0)%Z with false by (symmetry; apply Z.ltb_ge; lia).
        rewrite N2Z.id. now rewrite norm_neg.
    + destruct (c1 =? 45) eqn:F45.
      * (* "--" *)
        apply N.eqb_eq in F45. subst c1.
        destruct u as [|d t].
        { reflexivity. }
        destruct (d =? 46) eqn:G46.
        { apply N.eqb_eq in G46. subst d.
          destruct (big_core (45 :: 46 :: t)) as [[z p]|] eqn:B.
          - apply big_core_signed_dot in B; [|reflexivity].
            cbn [length] in Hlen. lia.
          - reflexivity. }
        rewrite big_core_signed by (try (right; reflexivity); exact G46).
        cbn [N.eqb Pos.eqb].
        destruct (unsigned_num (d :: t)) as [[c p]|]; cbn [neg_num option_map]; [|reflexivity].
        destruct c as [|q]; cbn; reflexivity.
      * (* "-x": plain value, but then std_num would have accepted it *)
        cbn [andb].
        rewrite big_core_plain by (split; assumption).
        destruct (unsigned_num (c1 :: u)) as [[cc pp]|]; [cbn in Hstd; discriminate|reflexivity].
  - destruct (c0 =? 43) eqn:E43.
    + (* "+..." : value keeps the '+' *)
      cbn [orb andb].
      destruct s1 as [|c1 u]; [reflexivity|].
      destruct (c1 =? 46) eqn:F46; [reflexivity|].
      rewrite big_core_signed by (try (left; exact E43); exact F46).
      rewrite E43.
      destruct (unsigned_num (c1 :: u)) as [[cc pp]|]; [cbn in Hstd; discriminate|reflexivity].
    + cbn [orb andb]. rewrite E46.
      rewrite big_core_plain by (split; assumption).
      destruct (unsigned_num (c0 :: s1)) as [[cc pp]|]; [cbn in Hstd; discriminate|].
      destruct s1; reflexivity.
Qed.

(* ---------- the fast path, with its sign handling ---------- *)

Lemma dec_parse_short : forall s, s <> [] ->
  match parse_u128 s with
  | (neg, UOk c p) => Some (new_decimal neg c p)
  | (_, UErr) => None
  | (_, UOverflow) => fin_big s
  end = option_map norm (std_num s).
Proof.
  intros s Hne. destruct s as [|c0 s1]; [congruence|].
  unfold parse_u128.
  destruct (c0 =? 46) eqn:E46.
  { apply N.eqb_eq in E46. subst c0. reflexivity. }
  (* generic step: the unsigned body [rest] *)
  assert (Hrest : forall (neg : bool) rest,
            std_num (c0 :: s1) = (if neg then neg_num (unsigned_num rest) else pos_num (unsigned_num rest)) ->
            (forall d t, rest = d :: t -> is_digit d = true -> std_shaped (c0 :: s1)) ->
            match
              match rest with
              | [] => (neg, UErr)
              | c :: _ => if c =? 46 then (neg, UErr)
                          else if Nat.leb (length rest) 19 then (neg, parse_small rest)
                          else (neg, parse_large rest)
              end
            with
            | (neg, UOk c p) => Some (new_decimal neg c p)
            | (_, UErr) => None
            | (_, UOverflow) => fin_big (c0 :: s1)
            end = option_map norm (std_num (c0 :: s1))).
  { intros neg rest Hstd Hshape. rewrite Hstd.
    destruct rest as [|c t].
    - destruct neg; reflexivity.
    - destruct (c =? 46) eqn:C46.
      { apply N.eqb_eq in C46. subst c. rewrite unsigned_num_dot. destruct neg; reflexivity. }
      assert (Hok : u128_ok (c :: t)
                 (if Nat.leb (length (c :: t)) 19 then parse_small (c :: t) else parse_large (c :: t))).
      { destruct (Nat.leb (length (c :: t)) 19);
          [now apply parse_small_ok | now apply parse_large_ok]. }
      destruct (Nat.leb (length (c :: t)) 19);
        [destruct (parse_small (c :: t)) as [cc pp| |] | destruct (parse_large (c :: t)) as [cc pp| |]];
        cbn [u128_ok] in Hok.
      all: try (destruct Hok as (c' & p' & -> & Hn); rewrite Hn;
                destruct neg; cbn [neg_num pos_num option_map];
                [now rewrite norm_neg | now rewrite norm_pos]).
      all: try (rewrite Hok; destruct neg; reflexivity).
      all: destruct Hok as (d & t' & Heq & Hd);
           rewrite <- Hstd; apply fin_big_std_shaped; eapply Hshape; eauto. }
  destruct (c0 =? 45) eqn:E45.
  - apply N.eqb_eq in E45. subst c0. cbn [orb].
    apply (Hrest true s1).
    + reflexivity.
    + intros d t -> Hd. exists d, t. auto.
  - destruct (c0 =? 43) eqn:E43.
    + apply N.eqb_eq in E43. subst c0. cbn [orb].
      apply (Hrest false s1).
      * reflexivity.
      * intros d t -> Hd. exists d, t. auto.
    + cbn [orb].
      apply (Hrest false (c0 :: s1)).
      * unfold std_num. rewrite E45, E43. reflexivity.
      * intros d t Heq Hd. inversion Heq; subst. exists d, t. auto.
Qed.

(* ---------- main results ---------- *)

Theorem dec_parse_numeral : forall s, dec_parse s = option_map norm (numeral s).
Proof.
  intros s. unfold dec_parse, numeral. fold (fin_big s).
  destruct s as [|c0 s1]; [reflexivity|].
  set (s := c0 :: s1).
  destruct (Nat.ltb 200 (length s)); [reflexivity|].
  destruct (Nat.leb (length s) 41) eqn:L41.
  - replace (Nat.ltb 41 (length s)) with false.
    2:{ symmetry. apply Nat.ltb_ge. now apply Nat.leb_le. }
    pose proof (dec_parse_short s ltac:(discriminate)) as H.
    destruct (parse_u128 s) as [neg [c p| |]]; rewrite H; destruct (std_num s); reflexivity.
  - apply Nat.leb_gt in L41.
    replace (Nat.ltb 41 (length s)) with true by (symmetry; now apply Nat.ltb_lt).
    destruct (std_num s) as [v|] eqn:Hstd.
    + rewrite fin_big_std_shaped by (eapply std_num_shaped; eauto).
      now rewrite Hstd.
    + apply fin_big_long; [assumption|lia].
Qed.

Corollary dec_parse_accepts : forall s,
  (match dec_parse s with Some _ => true | None => false end) = numeral_ok s.
Proof.
  intros s. rewrite dec_parse_numeral. unfold numeral_ok. now destruct (numeral s).
Qed.

(* comparison *)

Lemma norm_unfold : forall z p,
  norm (z, p) = mkDec (z <? 0)%Z (Z.abs_N z) (if (z =? 0)%Z then O else p).
Proof.
  intros z p. unfold norm. destruct z; reflexivity.
Qed.

Lemma pow10_split : forall a b, (a <= b)%nat -> pow10 b = pow10 (b - a) * pow10 a.
Proof. intros a b H. rewrite <- pow10_add. f_equal. lia. Qed.

Lemma Nmul_compare_mono_r : forall p n m : N, 0 < p -> (n * p ?= m * p) = (n ?= m).
Proof.
  intros p n m Hp. rewrite <- !N2Z.inj_compare, !N2Z.inj_mul.
  symmetry. apply Zmult_compare_compat_r. lia.
Qed.

Lemma cmp_same_sign_spec : forall n1 c1 p1 n2 c2 p2,
  cmp_same_sign (mkDec n1 c1 p1) (mkDec n2 c2 p2) = (c1 * pow10 p2 ?= c2 * pow10 p1).
Proof.
  intros. unfold cmp_same_sign. cbn [d_prec d_coef].
  destruct (Nat.eqb p1 p2) eqn:E.
  - apply Nat.eqb_eq in E. subst p2.
    symmetry. apply Nmul_compare_mono_r. apply pow10_pos.
  - destruct (Nat.ltb p1 p2) eqn:L.
    + apply Nat.ltb_lt in L.
      rewrite (pow10_split p1 p2) by lia. rewrite N.mul_assoc.
      symmetry. apply Nmul_compare_mono_r. apply pow10_pos.
    + apply Nat.ltb_ge in L. apply Nat.eqb_neq in E.
      rewrite (pow10_split p2 p1) by lia. rewrite N.mul_assoc.
      symmetry. apply Nmul_compare_mono_r. apply pow10_pos.
Qed.

Lemma Zpow10_pos : forall p, (0 < Z.of_N (pow10 p))%Z.
Proof. intros. pose proof (pow10_pos p). lia. Qed.

(* the sign of  a*P - b*Q  does not depend on positive P when a = 0 *)
Lemma cmp_zero_l : forall (b P Q : Z), (0 < Q)%Z -> (0 * P ?= b * Q)%Z = (0 ?= b)%Z.
Proof.
  intros b P Q HQ. rewrite Z.mul_0_l.
  destruct (Z.compare_spec 0 b) as [H|H|H].
  - subst. now rewrite Z.mul_0_l.
  - apply Z.compare_lt_iff. nia.
  - apply Z.compare_gt_iff. nia.
Qed.

Lemma cmp_zero_r : forall (a P Q : Z), (0 < P)%Z -> (a * P ?= 0 * Q)%Z = (a ?= 0)%Z.
Proof.
  intros a P Q HP. rewrite Z.mul_0_l.
  destruct (Z.compare_spec a 0) as [H|H|H].
  - subst. now rewrite Z.mul_0_l.
  - apply Z.compare_lt_iff. nia.
  - apply Z.compare_gt_iff. nia.
Qed.

Theorem dec_cmp_norm : forall a b, dec_cmp (norm a) (norm b) = num_cmp a b.
Proof.
  intros [z1 p1] [z2 p2]. rewrite !norm_unfold. unfold dec_cmp, num_cmp.
  cbn [d_neg fst snd]. rewrite cmp_same_sign_spec.
  rewrite <- N2Z.inj_compare, !N2Z.inj_mul, !N2Z.inj_abs_N.
  pose proof (Zpow10_pos p1) as P1. pose proof (Zpow10_pos p2) as P2.
  set (Q1 := Z.of_N (pow10 p1)) in *. set (Q2 := Z.of_N (pow10 p2)) in *.
  destruct z1 as [|a|a]; destruct z2 as [|b|b]; cbn [Z.ltb Z.compare Z.eqb andb negb Z.abs].
  - (* 0, 0 *) now rewrite !Z.mul_0_l.
  - (* 0, + *) rewrite !cmp_zero_l by (auto using Zpow10_pos). reflexivity.
  - (* 0, - *) symmetry. apply Z.compare_gt_iff. nia.
  - (* +, 0 *) rewrite !cmp_zero_r by (auto using Zpow10_pos). reflexivity.
  - (* +, + *) reflexivity.
  - (* +, - *) symmetry. apply Z.compare_gt_iff. nia.
  - (* -, 0 *) symmetry. apply Z.compare_lt_iff. nia.
  - (* -, + *) symmetry. apply Z.compare_lt_iff. nia.
  - (* -, - *)
    rewrite <- Z.compare_antisym.
    change (Z.neg a) with (- Z.pos a)%Z. change (Z.neg b) with (- Z.pos b)%Z.
    rewrite !Z.mul_opp_l. now rewrite Z.compare_opp.
Qed.
