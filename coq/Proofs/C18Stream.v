(* C18, stream storage: simulation between the Redis-side model (shallow
   scripts + Go glue, Model/RedisBroker.v) and the memory-broker model
   (Model/MemBroker18.v). *)
From Coq Require Import List NArith ZArith Bool String Ascii Lia.
From Cfg Require Import Model.RStr Model.LuaNum Model.Redis Model.RedisScripts Model.BrokerApi18
                        Model.RedisBroker Model.MemBroker18 Proofs.C18Lib Proofs.C18Redis.
Import ListNotations.
Open Scope string_scope.

(* ================= the domain of agreement ================= *)
Definition BOUND : N := 100000000000000.          (* 10^14: Lua prints larger offsets as 1e+14 *)
Definition small (z : Z) : bool := ((0 <=? z) && (z <? 2147483648))%Z.

Definition nonce_ok (e : string) : bool := (negb (has_char ":" e) && negb (has_char "_" e))%bool.

Definition cfg_ok (cfg : bcfg) : bool := (negb (c_lists cfg) && small (c_meta_ttl cfg))%bool.

Definition popts_ok (o : popts) : bool :=
  ((po_size o <? 2147483648)%Z && (po_ttl o <? 2147483648)%Z && small (po_meta_ttl o) && small (po_idem_ttl o)
   && (po_version o <? 9007199254740992)%N
   && (String.eqb (po_idem o) "" || history_on o))%bool.

Definition top_of (m : mstate) (ch : string) : N :=
  match sfind ch (m_streams m) with Some s => ms_top s | None => 0%N end.

(* conditions on one operation, given the memory broker's state when it is issued *)
Definition op_ok (m : mstate) (o : op) : bool :=
  match o with
  | OpPublish ch data po nonce =>
      (negb (String.eqb ch "") && popts_ok po && nonce_ok nonce
       && (N.of_nat (String.length data) <? 2147483647)%N
       && (top_of m ch + 1 <? BOUND)%N)%bool
  | OpHistory ch f mttl nonce =>
      (nonce_ok nonce && small mttl && (hf_limit f <? 2147483648)%Z
       && match hf_since f with
          | Some (so, _) =>
              ((so <? two64)%N &&
               (negb (hf_reverse f) || ((1 <=? so)%N && (so - 1 <=? top_of m ch)%N)))%bool
          | None => true
          end)%bool
  | OpRemove _ => true
  | OpTick _ => false
  end.

Fixpoint run_ok (cfg : bcfg) (m : mstate) (ops : list op) : bool :=
  match ops with
  | [] => true
  | o :: r => op_ok m o && run_ok cfg (fst (mb_step cfg m o)) r
  end.

(* channels / idempotency pairs used by a sequence *)
Definition op_chan (o : op) : list string :=
  match o with OpPublish ch _ _ _ | OpHistory ch _ _ _ | OpRemove ch => [ch] | OpTick _ => [] end.
Definition op_idem (o : op) : list (string * string) :=
  match o with
  | OpPublish ch _ po _ => if String.eqb (po_idem po) "" then [] else [(ch, po_idem po)]
  | _ => []
  end.
Definition chans (ops : list op) : list string := flat_map op_chan ops.
Definition idems (ops : list op) : list (string * string) := flat_map op_idem ops.

Definition pair_eqb (a b : string * string) : bool := (String.eqb (fst a) (fst b) && String.eqb (snd a) (snd b))%bool.

(* no two different channels / idempotency pairs share a Redis key (or a memory cache key) *)
Definition keys_okb (U : list string) (P : list (string * string)) : bool :=
  (forallb (fun a => forallb (fun b => negb (String.eqb (stream_key a) (meta_key false b))) U) U
   && forallb (fun p => forallb (fun q =>
        (pair_eqb p q || (negb (String.eqb (result_key (fst p) (snd p)) (result_key (fst q) (snd q)))
                          && negb (String.eqb (cache_key (fst p) (snd p)) (cache_key (fst q) (snd q))))))%bool P) P)%bool.

(* ================= keys ================= *)
Lemma stream_key_inj a b : stream_key a = stream_key b -> a = b.
Proof. unfold stream_key. intros H. apply append_inj_l in H. apply append_inj_l in H. exact H. Qed.
Lemma meta_key_inj a b : meta_key false a = meta_key false b -> a = b.
Proof. unfold meta_key. intros H. apply append_inj_l in H. apply append_inj_l in H. exact H. Qed.
Lemma result_stream_neq ch k ch' : result_key ch k <> stream_key ch'.
Proof. unfold result_key, stream_key, prefix. cbn. intros H. discriminate H. Qed.
Lemma result_meta_neq ch k ch' : result_key ch k <> meta_key false ch'.
Proof. unfold result_key, meta_key, prefix. cbn. intros H. discriminate H. Qed.

(* ================= contiguous offset lists ================= *)
Fixpoint nseq (lo : N) (n : nat) : list N :=
  match n with O => [] | S n' => lo :: nseq (lo + 1) n' end.

Definition contig (items : list (N * string)) (lo top : N) : Prop :=
  map fst items = nseq lo (List.length items) /\ (lo + N.of_nat (List.length items) = top + 1)%N.

Lemma contig_tail a d items lo top : contig ((a, d) :: items) lo top -> a = lo /\ contig items (lo + 1) top.
Proof.
  intros [H1 H2]. cbn in H1. injection H1 as Ha Hr. split; [assumption|]. split; [assumption|].
  cbn [List.length] in H2. lia.
Qed.

Lemma index_of_contig items : forall lo top off k, contig items lo top ->
  index_of off items k = if ((lo <=? off) && (off <=? top))%N then Some (k + N.to_nat (off - lo))%nat else None.
Proof.
  induction items as [|[a d] items IH]; intros lo top off k Hc.
  - destruct Hc as [_ H]. cbn in H. cbn.
    destruct (lo <=? off)%N eqn:E1; destruct (off <=? top)%N eqn:E2; cbn; try reflexivity.
    apply N.leb_le in E1, E2. lia.
  - apply contig_tail in Hc as [-> Hc]. cbn [index_of].
    destruct (lo =? off)%N eqn:E.
    + apply N.eqb_eq in E. subst off.
      destruct Hc as [_ H2].
      replace (lo <=? lo)%N with true by (symmetry; apply N.leb_le; lia).
      replace (lo <=? top)%N with true by (symmetry; apply N.leb_le; lia).
      cbn. f_equal. lia.
    + rewrite (IH (lo + 1)%N top off (S k) Hc). apply N.eqb_neq in E.
      destruct (lo + 1 <=? off)%N eqn:E1; destruct (lo <=? off)%N eqn:E3;
        try apply N.leb_le in E1; try apply N.leb_le in E3; try apply N.leb_gt in E1; try apply N.leb_gt in E3; try lia;
        cbn [andb]; [|reflexivity].
      destruct (off <=? top)%N; [|reflexivity]. f_equal. lia.
Qed.

Lemma filter_ge_contig items : forall lo top off, contig items lo top ->
  filter (fun it => (off <=? fst it)%N) items = skipn (N.to_nat (off - lo)) items.
Proof.
  induction items as [|[a d] items IH]; intros lo top off Hc.
  - destruct (N.to_nat (off - lo)); reflexivity.
  - apply contig_tail in Hc as [-> Hc]. cbn [filter fst].
    destruct (off <=? lo)%N eqn:E.
    + apply N.leb_le in E. replace (N.to_nat (off - lo)) with O by lia. cbn [skipn].
      f_equal. rewrite (IH _ _ _ Hc). replace (N.to_nat (off - (lo + 1))) with O by lia. reflexivity.
    + apply N.leb_gt in E. rewrite (IH _ _ _ Hc).
      replace (N.to_nat (off - lo)) with (S (N.to_nat (off - (lo + 1)))) by lia. reflexivity.
Qed.

Lemma filter_le_contig items : forall lo top off, contig items lo top ->
  filter (fun it => (fst it <=? off)%N) items = firstn (N.to_nat (off + 1 - lo)) items.
Proof.
  induction items as [|[a d] items IH]; intros lo top off Hc.
  - destruct (N.to_nat (off + 1 - lo)); reflexivity.
  - apply contig_tail in Hc as [-> Hc]. cbn [filter fst].
    destruct (lo <=? off)%N eqn:E.
    + apply N.leb_le in E. replace (N.to_nat (off + 1 - lo)) with (S (N.to_nat (off + 1 - (lo + 1)))) by lia.
      cbn [firstn]. f_equal. apply (IH _ _ _ Hc).
    + apply N.leb_gt in E. replace (N.to_nat (off + 1 - lo)) with O by lia. cbn [firstn].
      rewrite (IH _ _ _ Hc). replace (N.to_nat (off + 1 - (lo + 1))) with O by lia. reflexivity.
Qed.

Lemma contig_length items lo top : contig items lo top -> N.of_nat (List.length items) = (top + 1 - lo)%N.
Proof. intros [_ H]. lia. Qed.

Lemma contig_bounds items lo top : contig items lo top -> forall it, In it items -> (lo <= fst it <= top)%N.
Proof.
  revert lo. induction items as [|[a d] items IH]; intros lo Hc it Hin; [destruct Hin|].
  pose proof Hc as Hc0. apply contig_tail in Hc as [-> Hc].
  destruct Hin as [<-|Hin].
  - cbn. destruct Hc0 as [_ H]. cbn [List.length] in H. lia.
  - specialize (IH _ Hc _ Hin). lia.
Qed.

Lemma contig_snoc items lo top d : contig items lo top -> contig (items ++ [((top + 1)%N, d)]) lo (top + 1).
Proof.
  revert lo. induction items as [|[a x] items IH]; intros lo [H1 H2].
  - cbn in H2. split; cbn; [f_equal; lia | lia].
  - assert (Hc : contig ((a, x) :: items) lo top) by (split; assumption).
    apply contig_tail in Hc as [-> Hc]. specialize (IH _ Hc). destruct IH as [I1 I2].
    split.
    + cbn [app map fst List.length nseq]. f_equal. rewrite app_length in I1. cbn in I1.
      rewrite app_length. cbn [List.length]. exact I1.
    + rewrite app_length in *. cbn [List.length] in *. lia.
Qed.

Lemma contig_skipn items : forall lo top n, contig items lo top -> (n <= List.length items)%nat ->
  contig (skipn n items) (lo + N.of_nat n) top.
Proof.
  induction items as [|[a x] items IH]; intros lo top n Hc Hn.
  - cbn in Hn. replace n with O by lia. cbn. replace (lo + 0)%N with lo by lia. exact Hc.
  - destruct n as [|n]; [cbn; replace (lo + 0)%N with lo by lia; exact Hc|].
    apply contig_tail in Hc as [-> Hc]. cbn [skipn]. cbn [List.length] in Hn.
    replace (lo + N.of_nat (S n))%N with (lo + 1 + N.of_nat n)%N by lia. apply IH; [assumption|lia].
Qed.

(* ================= the simulation relation ================= *)
Definition enc_item (it : N * string) : sentry := mkEntry (fst it, 0%N) ["d"; marshal (snd it) false].

Definition meta_rel (rs : rstate) (ch epoch : string) (top ver : N) (vep : string) : Prop :=
  exists h x, getk rs (meta_key false ch) = Some (mkKey (VHash h) x) /\
    sfind "e" h = Some epoch /\
    sfind "s" h = (if (top =? 0)%N then None else Some (dec top)) /\
    sfind "v" h = (if (ver =? 0)%N then None else Some (dec ver)) /\
    sfind "ve" h = (if (ver =? 0)%N then None else Some vep).

Definition strm_rel (rs : rstate) (ch : string) (items : list (N * string)) (top : N) : Prop :=
  match items with
  | [] => getk rs (stream_key ch) = None
  | _ => exists x, getk rs (stream_key ch) = Some (mkKey (VStream (map enc_item items) (top, 0%N)) x)
  end.

Definition chan_rel (rs : rstate) (ch : string) (os : option mstream) : Prop :=
  match os with
  | None => getk rs (meta_key false ch) = None /\ getk rs (stream_key ch) = None
  | Some s => meta_rel rs ch (ms_epoch s) (ms_top s) (ms_ver s) (ms_vepoch s)
              /\ strm_rel rs ch (ms_items s) (ms_top s)
  end.

Definition stream_inv (s : mstream) : Prop :=
  nonce_ok (ms_epoch s) = true /\ (ms_top s < BOUND)%N /\ (ms_ver s < 9007199254740992)%N /\
  (forall it, In it (ms_items s) -> (N.of_nat (String.length (snd it)) < 2147483647)%N) /\
  exists lo, (1 <= lo)%N /\ contig (ms_items s) lo (ms_top s).

Definition cache_rel (rs : rstate) (ms : mstate) (ch k : string) : Prop :=
  match cache_get ms ch k with
  | None => getk rs (result_key ch k) = None
  | Some (off, ep) =>
      exists h x, getk rs (result_key ch k) = Some (mkKey (VHash h) x) /\
                  sfind "e" h = Some ep /\ sfind "s" h = Some (dec off) /\ (off < BOUND)%N
  end.

Record R (U : list string) (P : list (string * string)) (rs : rstate) (ms : mstate) : Prop := mkRel {
  R_now : now rs = 0%N;
  R_mnow : m_now ms = 0%N;
  R_chan : forall ch, In ch U -> chan_rel rs ch (sfind ch (m_streams ms));
  R_inv : forall ch s, sfind ch (m_streams ms) = Some s -> stream_inv s;
  R_cache : forall ch k, In (ch, k) P -> cache_rel rs ms ch k
}.

Lemma chan_rel_frame rs rs' ch os :
  getk rs' (meta_key false ch) = getk rs (meta_key false ch) ->
  getk rs' (stream_key ch) = getk rs (stream_key ch) ->
  chan_rel rs ch os -> chan_rel rs' ch os.
Proof.
  intros Hm Hs. unfold chan_rel, meta_rel, strm_rel. destruct os as [s|]; rewrite ?Hm, ?Hs; [|auto].
  intros [H1 H2]. split; [assumption|]. destruct (ms_items s); rewrite ?Hs; assumption.
Qed.

Lemma cache_rel_frame rs rs' ms ms' ch k :
  getk rs' (result_key ch k) = getk rs (result_key ch k) ->
  cache_get ms' ch k = cache_get ms ch k ->
  cache_rel rs ms ch k -> cache_rel rs' ms' ch k.
Proof. intros H1 H2. unfold cache_rel. rewrite H1, H2. auto. Qed.

(* key separation derived from keys_okb *)
Record keys_ok (U : list string) (P : list (string * string)) : Prop := mkKeysOk {
  K_sm : forall a b, In a U -> In b U -> stream_key a <> meta_key false b;
  K_res : forall p q, In p P -> In q P -> result_key (fst p) (snd p) = result_key (fst q) (snd q) -> p = q;
  K_cache : forall p q, In p P -> In q P -> cache_key (fst p) (snd p) = cache_key (fst q) (snd q) -> p = q
}.

Lemma keys_okb_sound U P : keys_okb U P = true -> keys_ok U P.
Proof.
  unfold keys_okb. intros H. apply andb_true_iff in H as [H1 H2].
  rewrite forallb_forall in H1. rewrite forallb_forall in H2.
  assert (Hp : forall p q, In p P -> In q P ->
           p = q \/ (result_key (fst p) (snd p) <> result_key (fst q) (snd q)
                     /\ cache_key (fst p) (snd p) <> cache_key (fst q) (snd q))).
  { intros p q Hp Hq. specialize (H2 p Hp). rewrite forallb_forall in H2. specialize (H2 q Hq).
    apply orb_true_iff in H2 as [H2|H2].
    - left. unfold pair_eqb in H2. apply andb_true_iff in H2 as [A B].
      apply String.eqb_eq in A, B. destruct p, q; cbn in *; congruence.
    - right. apply andb_true_iff in H2 as [A B]. apply negb_true_iff in A, B.
      apply String.eqb_neq in A, B. split; assumption. }
  constructor.
  - intros a b Ha Hb. specialize (H1 a Ha). rewrite forallb_forall in H1. specialize (H1 b Hb).
    apply negb_true_iff in H1. apply String.eqb_neq in H1. exact H1.
  - intros p q Hp' Hq E. destruct (Hp p q Hp' Hq) as [|[A _]]; [assumption|contradiction].
  - intros p q Hp' Hq E. destruct (Hp p q Hp' Hq) as [|[_ B]]; [assumption|contradiction].
Qed.

(* ================= lifting a one-channel update to the whole relation ================= *)
Lemma R_update U P rs ms rs' ms' c k os' :
  keys_ok U P -> In c U -> (k = "" \/ In (c, k) P) ->
  R U P rs ms ->
  now rs' = 0%N -> m_now ms' = 0%N ->
  (forall key, key <> meta_key false c -> key <> stream_key c -> (k = "" \/ key <> result_key c k) ->
               getk rs' key = getk rs key) ->
  (forall ch, sfind ch (m_streams ms') = if String.eqb ch c then os' else sfind ch (m_streams ms)) ->
  (forall ch' k', (k = "" \/ (ch', k') <> (c, k)) -> In (ch', k') P -> cache_get ms' ch' k' = cache_get ms ch' k') ->
  chan_rel rs' c os' -> (forall s, os' = Some s -> stream_inv s) ->
  (k <> "" -> In (c, k) P -> cache_rel rs' ms' c k) ->
  R U P rs' ms'.
Proof.
  intros HK Hc Hk HR Hnow Hmnow Hframe Hstreams Hcache Hchan Hinv Hcr.
  constructor; try assumption.
  - intros ch Hch. rewrite Hstreams. destruct (String.eqb ch c) eqn:E.
    + apply String.eqb_eq in E. subst ch. exact Hchan.
    + apply String.eqb_neq in E.
      apply (chan_rel_frame rs); [| |apply (R_chan _ _ _ _ HR); assumption].
      * apply Hframe.
        -- intros X. apply meta_key_inj in X. contradiction.
        -- intros X. symmetry in X. exact (K_sm _ _ HK c ch Hc Hch X).
        -- right. intros X. symmetry in X. exact (result_meta_neq _ _ _ X).
      * apply Hframe.
        -- exact (K_sm _ _ HK ch c Hch Hc).
        -- intros X. apply stream_key_inj in X. contradiction.
        -- right. intros X. symmetry in X. exact (result_stream_neq _ _ _ X).
  - intros ch s. rewrite Hstreams. destruct (String.eqb ch c) eqn:E.
    + apply Hinv.
    + apply (R_inv _ _ _ _ HR).
  - intros ch' k' Hin.
    destruct (String.eqb k "") eqn:Ek.
    { apply String.eqb_eq in Ek.
      apply (cache_rel_frame rs _ ms); [| apply Hcache; [left|]; assumption | apply (R_cache _ _ _ _ HR); assumption].
      apply Hframe; [apply result_meta_neq | apply result_stream_neq | left; assumption]. }
    apply String.eqb_neq in Ek.
    destruct (String.eqb ch' c && String.eqb k' k)%bool eqn:E.
    + apply andb_true_iff in E as [E1 E2]. apply String.eqb_eq in E1, E2. subst. apply Hcr; assumption.
    + assert (Hne : (ch', k') <> (c, k)).
      { intros X. injection X as -> ->. rewrite !String.eqb_refl in E. discriminate. }
      apply (cache_rel_frame rs _ ms); [| apply Hcache; [right|]; assumption | apply (R_cache _ _ _ _ HR); assumption].
      apply Hframe.
      * apply result_meta_neq.
      * apply result_stream_neq.
      * destruct Hk as [->|Hk]; [left; reflexivity|]. right. intros X.
        apply (K_res _ _ HK (ch', k') (c, k) Hin Hk) in X. contradiction.
Qed.

Lemma cfg_ok_lists cfg : cfg_ok cfg = true -> c_lists cfg = false.
Proof. unfold cfg_ok. intros H. apply andb_true_iff in H as [H _]. apply negb_true_iff in H. exact H. Qed.

Lemma contig_nil lo top : (lo = top + 1)%N -> contig [] lo top.
Proof. intros ->. split; cbn; [reflexivity|lia]. Qed.

Lemma stream_inv_clear s : stream_inv s -> stream_inv (stream_clear s).
Proof.
  intros (H1 & H2 & H3 & Hd & lo & H4 & H5). unfold stream_inv, stream_clear. cbn.
  repeat split; try assumption; [intros it []|]. exists (ms_top s + 1)%N. split; [lia|]. apply contig_nil. reflexivity.
Qed.

Definition step_goal U P cfg rs ms o : Prop :=
  let '(rs', o1) := rb_step shallow cfg rs o in
  let '(ms', o2) := mb_step cfg ms o in
  o1 = o2 /\ R U P rs' ms'.

Lemma step_remove U P cfg rs ms c :
  cfg_ok cfg = true -> keys_ok U P -> In c U -> R U P rs ms -> step_goal U P cfg rs ms (OpRemove c).
Proof.
  intros Hcfg HK Hc HR. unfold step_goal, rb_step, rb_remove. rewrite (cfg_ok_lists _ Hcfg).
  destruct (del1 (clear_outbox rs) (stream_key c)) as [n Hd]. rewrite Hd. cbn [outbox delk clear_outbox deliveries mb_step].
  split; [reflexivity|].
  apply (R_update U P rs ms _ _ c "" (match sfind c (m_streams ms) with Some s => Some (stream_clear s) | None => None end));
    try assumption.
  - left; reflexivity.
  - apply (R_now _ _ _ _ HR).
  - destruct (sfind c (m_streams ms)); apply (R_mnow _ _ _ _ HR).
  - intros key _ Hs _. unfold clear_outbox. cbn.
    change (getk (mkR (sdel (stream_key c) (store rs)) (now rs) []) key) with (getk (delk rs (stream_key c)) key).
    apply getk_delk_other. assumption.
  - intros ch. destruct (sfind c (m_streams ms)) as [s|] eqn:E; cbn.
    + destruct (String.eqb ch c) eqn:E2.
      * apply String.eqb_eq in E2. subst. apply sfind_sput_same.
      * apply String.eqb_neq in E2. apply sfind_sput_other. assumption.
    + destruct (String.eqb ch c) eqn:E2; [|reflexivity]. apply String.eqb_eq in E2. subst. assumption.
  - intros ch' k' _ _. destruct (sfind c (m_streams ms)); reflexivity.
  - pose proof (R_chan _ _ _ _ HR c Hc) as Hrel.
    assert (Hsk : getk (clear_outbox (delk (clear_outbox rs) (stream_key c))) (stream_key c) = None).
    { change (getk (delk rs (stream_key c)) (stream_key c) = None). apply getk_delk_same. }
    assert (Hmk : getk (clear_outbox (delk (clear_outbox rs) (stream_key c))) (meta_key false c) = getk rs (meta_key false c)).
    { change (getk (delk rs (stream_key c)) (meta_key false c) = getk rs (meta_key false c)).
      apply getk_delk_other. intros X. symmetry in X. exact (K_sm _ _ HK c c Hc Hc X). }
    destruct (sfind c (m_streams ms)) as [s|]; cbn [chan_rel] in *.
    + destruct Hrel as [Hm _]. split.
      * unfold meta_rel in *. rewrite Hmk. exact Hm.
      * unfold strm_rel. cbn. exact Hsk.
    + destruct Hrel as [Hm _]. split; [rewrite Hmk; assumption | exact Hsk].
  - intros s Hs. destruct (sfind c (m_streams ms)) as [s0|] eqn:E; [|discriminate].
    injection Hs as <-. apply stream_inv_clear. apply (R_inv _ _ _ _ HR c). assumption.
  - intros X. congruence.
Qed.

(* ================= PUB/SUB message decoding ================= *)
Lemma unmarshal_marshal data delta : unmarshal (marshal data delta) = Some (data, delta).
Proof. destruct delta; reflexivity. Qed.

Lemma channel_of_message c :
  (if is_prefix message_prefix (message_channel c) then sdrop (String.length message_prefix) (message_channel c)
   else message_channel c) = c.
Proof. unfold message_channel. rewrite is_prefix_app, sdrop_app. reflexivity. Qed.

Lemma handle_raw c data delta :
  c <> "" -> handle_message (message_channel c) (marshal data delta) = Some (mkDel c data 0 "" delta None).
Proof.
  intros Hc. unfold handle_message.
  assert (E : extract_push_data (marshal data delta) = PushPub (marshal data delta) 0 "" false "").
  { destruct delta; reflexivity. }
  rewrite E, channel_of_message.
  apply String.eqb_neq in Hc. rewrite Hc, unmarshal_marshal. destruct delta; reflexivity.
Qed.

Lemma popts_ok_idem o : popts_ok o = true -> history_on o = false -> po_idem o = "".
Proof.
  unfold popts_ok. intros H Hh. repeat (apply andb_true_iff in H as [H ?]).
  rewrite Hh, orb_false_r in H0. apply String.eqb_eq in H0. exact H0.
Qed.

Lemma step_publish_nohist U P cfg rs ms c data o nonce :
  cfg_ok cfg = true -> keys_ok U P -> In c U -> R U P rs ms ->
  op_ok ms (OpPublish c data o nonce) = true -> history_on o = false ->
  step_goal U P cfg rs ms (OpPublish c data o nonce).
Proof.
  intros Hcfg HK Hc HR Hok Hh. unfold step_goal, rb_step, rb_publish.
  cbn [op_ok] in Hok. repeat (apply andb_true_iff in Hok as [Hok ?]).
  apply negb_true_iff in Hok. apply String.eqb_neq in Hok.
  pose proof (popts_ok_idem _ H2 Hh) as Hidem.
  rewrite Hh. cbn [negb]. unfold result_expire. rewrite Hidem. cbn [String.eqb].
  rewrite publish_call. cbn [outbox clear_outbox app deliveries].
  rewrite handle_raw by assumption.
  cbn [mb_step]. unfold mb_publish. rewrite Hidem. cbn [String.eqb].
  unfold history_on in Hh. rewrite Hh. unfold cache_save. rewrite Hidem. cbn [String.eqb].
  split; [reflexivity|].
  destruct HR as [H1' H2' H3' H4' H5']. constructor; try assumption.
Qed.

(* ================= script fragments ================= *)
Lemma small_range z : small z = true -> (0 <= z < 2147483648)%Z.
Proof. unfold small. intros H. apply andb_true_iff in H as [A B]. apply Z.leb_le in A. apply Z.ltb_lt in B. lia. Qed.

Lemma itoa_nonneg z : (0 <= z)%Z -> itoa z = dec (Z.to_N z).
Proof. intros H. unfold itoa. rewrite <- (Z2N.id z) at 1 by assumption. apply zdec_of_N. Qed.

Lemma itoa_eqb_0 z : (0 <= z)%Z -> String.eqb (itoa z) "0" = (z =? 0)%Z.
Proof.
  intros H. rewrite itoa_nonneg by assumption.
  destruct (z =? 0)%Z eqn:E.
  - apply Z.eqb_eq in E. subst. reflexivity.
  - apply String.eqb_neq. intros X. change "0" with (dec 0) in X. apply dec_inj in X. apply Z.eqb_neq in E. lia.
Qed.

Lemma parse_ll_itoa z : (0 <= z < 9223372036854775808)%Z -> parse_ll (itoa z) = Some z.
Proof. intros H. unfold itoa. apply parse_ll_zdec_nonneg. assumption. Qed.

(* post-state of a fragment that only rewrites key [k] to a value [v] (TTL unspecified) *)
Definition upd1 (st st' : rstate) (k : string) (v : rval) : Prop :=
  (exists x, getk st' k = Some (mkKey v x)) /\
  (forall k', k' <> k -> getk st' k' = getk st k') /\
  now st' = now st /\ outbox st' = outbox st.

Lemma upd1_refl st k v x : getk st k = Some (mkKey v x) -> upd1 st st k v.
Proof. intros H. split; [eexists; eassumption|]. split; [reflexivity|]. split; reflexivity. Qed.

Lemma upd1_trans st st1 st2 k v1 v2 : upd1 st st1 k v1 -> upd1 st1 st2 k v2 -> upd1 st st2 k v2.
Proof.
  intros (A1 & A2 & A3 & A4) (B1 & B2 & B3 & B4). split; [assumption|].
  split; [intros k' Hk; rewrite B2, A2 by assumption; reflexivity|]. split; congruence.
Qed.

Lemma expire_pos st k z v x :
  (0 < z < 2147483648)%Z -> getk st k = Some (mkKey v x) ->
  exists st', redis_call st ["expire"; k; itoa z] = (st', RInt 1) /\ upd1 st st' k v.
Proof.
  intros Hz Hk. eexists. split.
  - apply (expire_some st k (itoa z) z _ Hk); [apply parse_ll_itoa; lia | lia].
  - cbn [k_val]. split; [|split; [|split; reflexivity]].
    + eexists. rewrite getk_putk_same. unfold live. cbn [k_exp].
      replace (now st <? now st + Z.to_N z * 1000)%N with true by (symmetry; apply N.ltb_lt; lia). reflexivity.
    + intros k' Hne. apply getk_putk_other. assumption.
Qed.

Lemma when_expire st k z v x :
  small z = true -> getk st k = Some (mkKey v x) ->
  exists st', when_ (negb (String.eqb (itoa z) "0")) (rc ["expire"; k; itoa z]) st = (st', inl tt) /\ upd1 st st' k v.
Proof.
  intros Hz Hk. apply small_range in Hz. rewrite itoa_eqb_0 by lia.
  destruct (z =? 0)%Z eqn:E; cbn [negb when_].
  - exists st. split; [reflexivity|]. eapply upd1_refl; eassumption.
  - apply Z.eqb_neq in E. destruct (expire_pos st k z v x) as (st' & He & Hu); [lia|assumption|].
    exists st'. split; [|assumption]. rewrite bind_rc, He. reflexivity.
Qed.

(* history_meta *)
Lemma history_meta_none st mk z nonce :
  small z = true -> getk st mk = None ->
  exists st', history_meta mk (itoa z) nonce st = (st', inl (RInt 0, nonce)) /\ upd1 st st' mk (VHash [("e", nonce)]).
Proof.
  intros Hz Hk. unfold history_meta.
  rewrite bind_rc, (hmget2_none _ _ _ _ Hk). cbn iota beta.
  rewrite bind_assoc, bind_rc, (hset1_none _ _ _ _ Hk). cbn iota beta. rewrite bind_ret.
  pose proof (getk_setval_same st mk (VHash [("e", nonce)])) as Hs.
  destruct (when_expire _ mk z _ _ Hz Hs) as (st' & Hw & Hu).
  exists st'. split.
  - unfold bindM at 1. rewrite Hw. reflexivity.
  - eapply upd1_trans; [|exact Hu].
    split; [eexists; exact Hs|]. split; [intros k' Hne; apply getk_setval_other; assumption|]. split; reflexivity.
Qed.

Lemma history_meta_some st mk z nonce h x ep :
  small z = true -> getk st mk = Some (mkKey (VHash h) x) -> sfind "e" h = Some ep ->
  exists st', history_meta mk (itoa z) nonce st =
                (st', inl (match sfind "s" h with Some s => RBulk s | None => RInt 0 end, ep))
              /\ upd1 st st' mk (VHash h).
Proof.
  intros Hz Hk He. unfold history_meta.
  rewrite bind_rc, (hmget2_some _ _ _ _ _ _ Hk), He. cbn iota beta. cbn [bulk_opt].
  rewrite bind_ret.
  destruct (when_expire _ mk z _ _ Hz Hk) as (st' & Hw & Hu).
  exists st'. split; [|assumption].
  unfold bindM at 1. rewrite Hw. destruct (sfind "s" h); reflexivity.
Qed.

(* ================= stream ranges ================= *)
Lemma filter_map_swap {A B} (f : B -> bool) (g : A -> B) (l : list A) :
  filter f (map g l) = map g (filter (fun a => f (g a)) l).
Proof. induction l as [|a l IH]; cbn; [reflexivity|]. destruct (f (g a)); cbn; rewrite IH; reflexivity. Qed.

Lemma sid_le_lo a o : sid_le (a, 0%N) (o, 0%N) = (a <=? o)%N.
Proof.
  unfold sid_le, sid_lt. cbn [fst snd]. rewrite N.ltb_irrefl, andb_false_r, orb_false_r, N.eqb_refl, andb_true_r.
  destruct (a <=? o)%N eqn:E.
  - apply N.leb_le in E. destruct (a <? o)%N eqn:E1; [reflexivity|]. apply N.ltb_ge in E1. cbn.
    apply N.eqb_eq. lia.
  - apply N.leb_gt in E. replace (a <? o)%N with false by (symmetry; apply N.ltb_ge; lia).
    replace (a =? o)%N with false by (symmetry; apply N.eqb_neq; lia). reflexivity.
Qed.

Lemma sid_le_hi o b : sid_le (o, 0%N) (b, u64max) = (o <=? b)%N.
Proof.
  unfold sid_le, sid_lt. cbn [fst snd]. change (0 <? u64max)%N with true. change (0 =? u64max)%N with false.
  rewrite andb_true_r, andb_false_r, orb_false_r.
  destruct (o <=? b)%N eqn:E.
  - apply N.leb_le in E. destruct (o <? b)%N eqn:E1; [reflexivity|]. apply N.ltb_ge in E1. cbn. apply N.eqb_eq. lia.
  - apply N.leb_gt in E. replace (o <? b)%N with false by (symmetry; apply N.ltb_ge; lia).
    replace (o =? b)%N with false by (symmetry; apply N.eqb_neq; lia). reflexivity.
Qed.

Lemma sel_fwd items a :
  (forall it, In it items -> (fst it <= u64max)%N) ->
  filter (fun e => sid_le (a, 0%N) (e_id e) && sid_le (e_id e) (u64max, u64max)) (map enc_item items)
  = map enc_item (filter (fun it => (a <=? fst it)%N) items).
Proof.
  intros Hb. rewrite filter_map_swap. f_equal. apply filter_ext_in. intros it Hin. unfold enc_item. cbn [e_id].
  rewrite sid_le_lo, sid_le_hi. specialize (Hb it Hin). apply N.leb_le in Hb. rewrite Hb, andb_true_r. reflexivity.
Qed.

Lemma sel_rev items b :
  filter (fun e => sid_le (0, 0)%N (e_id e) && sid_le (e_id e) (b, u64max)) (map enc_item items)
  = map enc_item (filter (fun it => (fst it <=? b)%N) items).
Proof.
  rewrite filter_map_swap. f_equal. apply filter_ext_in. intros it Hin. unfold enc_item. cbn [e_id].
  rewrite sid_le_lo, sid_le_hi. replace (0 <=? fst it)%N with true by (symmetry; apply N.leb_le; lia). reflexivity.
Qed.

Lemma limit_list_map {A B} (g : A -> B) c l : limit_list c (map g l) = map g (limit_list c l).
Proof. unfold limit_list. destruct c as [z|]; [|reflexivity]. destruct (z <=? 0)%Z; [reflexivity|]. apply firstn_map. Qed.

Lemma limit_list_nil {A} c : @limit_list A c [] = [].
Proof. destruct c as [z|]; [|reflexivity]. cbn. destruct (z <=? 0)%Z; [reflexivity|]. apply firstn_nil. Qed.

Lemma strm_rel_get st c items top :
  strm_rel st c items top ->
  get_stream st (stream_key c) = Some (match items with [] => None | _ => Some (map enc_item items, (top, 0%N)) end).
Proof.
  unfold strm_rel. destruct items.
  - intros H. apply get_stream_none. assumption.
  - intros [x H]. eapply get_stream_some. eassumption.
Qed.

Lemma xr_fwd st c items top off rest cnt :
  strm_rel st c items top -> (forall it, In it items -> (fst it <= u64max)%N) ->
  (off <= u64max)%N -> parse_count rest = Some (Some cnt) ->
  redis_call st ("xrange" :: stream_key c :: dec off :: "+" :: rest) =
    (st, RArr (map entry_reply (map enc_item (limit_list cnt (filter (fun it => (off <=? fst it)%N) items))))).
Proof.
  intros Hs Hb Ho Hc. rewrite xrange_call.
  rewrite (xrange_gen false st _ _ _ _ (off, 0%N) (u64max, u64max) cnt); [| apply parse_bound_dec; assumption | reflexivity | assumption].
  rewrite (strm_rel_get _ _ _ _ Hs). destruct items as [|it items]; [cbn [filter]; rewrite limit_list_nil; reflexivity|].
  unfold xrange_sel. rewrite sel_fwd by assumption. rewrite limit_list_map. reflexivity.
Qed.

Lemma xr_rev st c items top b rest cnt :
  strm_rel st c items top -> (b <= u64max)%N -> parse_count rest = Some (Some cnt) ->
  redis_call st ("xrevrange" :: stream_key c :: dec b :: "-" :: rest) =
    (st, RArr (map entry_reply (map enc_item (limit_list cnt (rev (filter (fun it => (fst it <=? b)%N) items)))))).
Proof.
  intros Hs Ho Hc. rewrite xrevrange_call.
  rewrite (xrange_gen true st _ _ _ _ (0, 0)%N (b, u64max) cnt); [| reflexivity | apply parse_bound_dec; assumption | assumption].
  rewrite (strm_rel_get _ _ _ _ Hs). destruct items as [|it items]; [cbn [filter rev]; rewrite limit_list_nil; reflexivity|].
  unfold xrange_sel. rewrite sel_rev. rewrite <- map_rev, limit_list_map. reflexivity.
Qed.

(* ---- Go side: parsing the entries back ---- *)
Lemma sindex1_char c s : sindex (String c "") s = sindex_char c s.
Proof.
  induction s as [|x s IH]; cbn; [reflexivity|].
  rewrite (Ascii.eqb_sym c x). destruct (Ascii.eqb x c); [reflexivity|]. rewrite IH. reflexivity.
Qed.

Lemma parse_u64go_dec n : (n < two64)%N -> parse_u64go (dec n) = Some n.
Proof.
  intros H. unfold parse_u64go. destruct (dec_first_digit n) as (c & r & E & Hc). rewrite E.
  destruct c as [[] [] [] [] [] [] [] []]; try discriminate Hc; rewrite <- E, parse_dec_dec;
    apply N.ltb_lt in H; rewrite H; reflexivity.
Qed.

Lemma parse_entry_enc it : (fst it < two64)%N -> parse_stream_entry (entry_reply (enc_item it)) = Some it.
Proof.
  intros H. destruct it as [o d]. cbn [fst] in H. unfold enc_item, entry_reply, parse_stream_entry. cbn [fst snd e_id e_fv map].
  cbn [as_array to_string find_d_field]. change (String.eqb "d" "d") with true. cbn iota.
  unfold sid_str. cbn [fst snd]. rewrite sindex1_char.
  change ("-" ++ dec 0) with (String "-" (dec 0)).
  rewrite (sindex_char_app "-" (dec o) (dec 0)) by (apply dec_no_char; reflexivity).
  pose proof (dec_nonempty o) as Hne. destruct (String.length (dec o)) as [|h'] eqn:El.
  { destruct (dec o); [congruence|discriminate]. }
  rewrite <- El, stake_app, parse_u64go_dec by assumption. rewrite unmarshal_marshal. reflexivity.
Qed.

Lemma parse_entries l :
  (forall it, In it l -> (fst it < two64)%N) ->
  parse_all parse_stream_entry (map entry_reply (map enc_item l)) = Some l.
Proof.
  induction l as [|it l IH]; intros H; [reflexivity|]. cbn [map parse_all].
  rewrite parse_entry_enc by (apply H; left; reflexivity). rewrite IH by (intros; apply H; right; assumption). reflexivity.
Qed.

(* ---- memory side: Stream.Get in terms of filters ---- *)
Lemma take_lim_nil {A} z : @take_lim A z [] = [].
Proof. unfold take_lim. destruct (z <? 0)%Z; [reflexivity|]. apply firstn_nil. Qed.

Lemma filter_all {A} (f : A -> bool) l : (forall a, In a l -> f a = true) -> filter f l = l.
Proof.
  induction l as [|a l IH]; intros H; [reflexivity|]. cbn. rewrite (H a) by (left; reflexivity).
  f_equal. apply IH. intros; apply H; right; assumption.
Qed.

Lemma get_fwd_off s off lim lo :
  contig (ms_items s) lo (ms_top s) -> (1 <= lo)%N ->
  stream_get s off true lim false =
    if (lim =? 0)%Z then [] else take_lim lim (filter (fun it => (off <=? fst it)%N) (ms_items s)).
Proof.
  intros Hc Hlo. unfold stream_get. cbn [andb].
  rewrite (filter_ge_contig _ _ _ off Hc). rewrite (index_of_contig _ _ _ off 0 Hc).
  pose proof (contig_length _ _ _ Hc) as Hlen.
  destruct (ms_top s + 1 <=? off)%N eqn:E1.
  - apply N.leb_le in E1. cbn iota. rewrite skipn_all2 by lia. destruct (lim =? 0)%Z; [reflexivity|]. symmetry. apply take_lim_nil.
  - apply N.leb_gt in E1.
    destruct (lo <=? off)%N eqn:E2.
    + replace (off <=? ms_top s)%N with true by (symmetry; apply N.leb_le; lia). cbn [andb Nat.add]. reflexivity.
    + apply N.leb_gt in E2. cbn [andb]. replace (N.to_nat (off - lo)) with O by lia.
      destruct (ms_items s); [|reflexivity]. destruct (lim =? 0)%Z; [reflexivity|]. symmetry. apply take_lim_nil.
Qed.

Lemma get_rev_off s off lim lo :
  contig (ms_items s) lo (ms_top s) -> (1 <= lo)%N -> (off <= ms_top s)%N ->
  stream_get s off true lim true =
    if (lim =? 0)%Z then [] else take_lim lim (rev (filter (fun it => (fst it <=? off)%N) (ms_items s))).
Proof.
  intros Hc Hlo Ho. unfold stream_get. cbn [andb].
  replace (ms_top s + 1 <=? off)%N with false by (symmetry; apply N.leb_gt; lia).
  rewrite (filter_le_contig _ _ _ off Hc). rewrite (index_of_contig _ _ _ off 0 Hc).
  replace (off <=? ms_top s)%N with true by (symmetry; apply N.leb_le; lia). rewrite andb_true_r.
  destruct (lo <=? off)%N eqn:E2.
  - apply N.leb_le in E2. cbn [Nat.add]. replace (N.to_nat (off + 1 - lo)) with (S (N.to_nat (off - lo))) by lia. reflexivity.
  - apply N.leb_gt in E2. replace (N.to_nat (off + 1 - lo)) with O by lia. cbn [firstn rev].
    destruct (lim =? 0)%Z; [reflexivity|]. symmetry. apply take_lim_nil.
Qed.

Lemma get_all s lim (rev_ : bool) :
  (lim =? 0)%Z = false ->
  stream_get s 0 false lim rev_ = take_lim lim (if rev_ then rev (ms_items s) else ms_items s).
Proof.
  intros Hl. unfold stream_get. cbn [andb].
  destruct (ms_items s) as [|it items] eqn:E.
  - destruct rev_; cbn [rev]; symmetry; apply take_lim_nil.
  - rewrite Hl. destruct rev_.
    + replace (S (List.length (it :: items) - 1)) with (List.length (it :: items)) by (cbn; lia).
      rewrite firstn_all. reflexivity.
    + reflexivity.
Qed.

Lemma take_lim_limit_list {A} (z : Z) (l : list A) :
  (z =? 0)%Z = false ->
  limit_list (if (0 <? z)%Z then Some z else None) l = take_lim z l.
Proof.
  intros Hz. unfold limit_list, take_lim. apply Z.eqb_neq in Hz.
  destruct (0 <? z)%Z eqn:E.
  - apply Z.ltb_lt in E. replace (z <=? 0)%Z with false by (symmetry; apply Z.leb_gt; lia).
    replace (z <? 0)%Z with false by (symmetry; apply Z.ltb_ge; lia). reflexivity.
  - apply Z.ltb_ge in E. replace (z <? 0)%Z with true by (symmetry; apply Z.ltb_lt; lia). reflexivity.
Qed.
