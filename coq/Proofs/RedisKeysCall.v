(* C34, script-call level: any call whose KEYS are drawn from a component's
   key universe (what Harness.C34.corr_call checks on real calls) has all its
   keys and its PUB/SUB channel under one hash tag. *)
From Coq Require Import String List NArith Bool.
From Cfg Require Import Model.Crc16 Model.Partition Model.RedisKeys Proofs.RedisKeys Harness.C34.
Import ListNotations.
Open Scope N_scope.

Definition comp_safe (cf : cfg) (comp : N) (tag ch : list N) : bool :=
  if comp =? 0 then tag_safe cf tag ch
  else if comp =? 1 then lacks LB (c_prefix cf) && ch_safe ch
  else (0 <? c_parts cf) && lacks LB (c_prefix cf) && tag_ok tag.

Definition comp_tag (cf : cfg) (comp : N) (tag ch : list N) : list N :=
  if comp =? 0 then the_tag cf tag ch else if comp =? 1 then tw ch else tag.

Lemma universe_tag : forall cf comp tag ch ik k,
  c_cluster cf = true -> comp_safe cf comp tag ch = true ->
  In k (universe cf comp tag ch ik) -> hash_tag k = comp_tag cf comp tag ch.
Proof.
  intros cf comp tag ch ik k Hc Hs Hin. unfold universe in Hin. rewrite Hc in Hin. cbn [app] in Hin.
  unfold comp_safe, comp_tag in *.
  destruct (comp =? 0).
  - apply in_app_or in Hin. destruct Hin as [Hin|[<-|[]]].
    + eapply broker_keys_tag; eauto.
    + apply (broker_keys_tag cf tag ch [] _ Hc Hs). unfold broker_keys. cbn [In]. tauto.
  - destruct (comp =? 1).
    + apply andb_prop in Hs. destruct Hs. eapply presence_keys_tag; eauto.
    + apply andb_prop in Hs. destruct Hs as [Hs H3]. apply andb_prop in Hs. destruct Hs as [H1 H2].
      eapply map_keys_tag; eauto.
Qed.

Lemma model_chan_tag : forall cf comp tag ch,
  c_cluster cf = true -> comp <> 1 -> comp_safe cf comp tag ch = true ->
  hash_tag (model_chan cf comp tag ch) = comp_tag cf comp tag ch.
Proof.
  intros cf comp tag ch Hc H1 Hs.
  apply (universe_tag cf comp tag ch [] _ Hc Hs).
  unfold universe, model_chan. rewrite Hc. cbn [app].
  destruct (comp =? 0); [cbn; left; reflexivity|].
  destruct (N.eqb_spec comp 1); [contradiction|]. cbn. left. reflexivity.
Qed.

(* one script call: keys from the universe + the component's PUB/SUB channel => one slot *)
Theorem call_same_slot : forall cf comp tag ch ik keys k1 k2,
  c_cluster cf = true -> comp_safe cf comp tag ch = true ->
  (forall k, In k keys -> In k (universe cf comp tag ch ik)) ->
  In k1 (keys ++ (if comp =? 1 then [] else [model_chan cf comp tag ch])) ->
  In k2 (keys ++ (if comp =? 1 then [] else [model_chan cf comp tag ch])) ->
  redis_slot_spec k1 = redis_slot_spec k2.
Proof.
  intros cf comp tag ch ik keys k1 k2 Hc Hs Hk I1 I2.
  assert (T : forall k, In k (keys ++ (if comp =? 1 then [] else [model_chan cf comp tag ch])) ->
              hash_tag k = comp_tag cf comp tag ch).
  { intros k I. apply in_app_or in I. destruct I as [I|I].
    - eapply universe_tag; eauto.
    - destruct (N.eqb_spec comp 1); [contradiction|]. destruct I as [<-|[]].
      apply model_chan_tag; assumption. }
  apply same_tag_same_slot. rewrite (T k1 I1), (T k2 I2). reflexivity.
Qed.
