(* C05: once the connection is closed every committed context is covered by the remaining
   work of the close() that won the status flip, and the hub registration is gone once that
   close has passed removeClient.  For ALL schedules. *)
From Coq Require Import List NArith ZArith Bool Lia.
From Cfg Require Import Model.SubLifecycle Proofs.SubLifecycleLib Proofs.SubBroker Proofs.SubBrokerStep Proofs.SubLocks.
Import ListNotations.
Open Scope N_scope.

(* channel c carries a committed context of generation g *)
Definition committed (s : st) (c : ch) (g : gen) : Prop :=
  exists x, lookup c (chans s) = Some x /\ c_sub x = true /\ c_gen x = g.

Definition won (pc : cpc) : bool :=
  match pc with CRemove | CWriter | CTransport | CPresLock | CLoop => true | _ => false end.

(* the inline unsubscribe of the close loop is about to take care of channel c *)
Definition cur_on (s : st) (k : crec) (c : ch) : Prop :=
  k_pc k = CLoop /\
  exists u, k_cur k = Some u /\ u_ch u = c /\
    match u_pc u with
    | USnap => True
    | UWait | UDelete => forall g, committed s c g -> g = u_tgt u
    | _ => False
    end.

Definition covers (s : st) (k : crec) (c : ch) : Prop :=
  won (k_pc k) = true /\ (In c (k_rest k) \/ cur_on s k c).

Record KInv (s : st) : Prop := {
  k_cov : status s = Closed -> forall c g, committed s c g ->
          exists t k, thr s t = Some (TCls k) /\ covers s k c;
  k_reg : status s = Closed -> reg s = true ->
          exists t k, thr s t = Some (TCls k) /\ (k_pc k = CRemove);
  k_auth : reg s = true -> authed s = true
}.

Lemma KInv_init : KInv init.
Proof. constructor; cbn; intros; discriminate. Qed.

Ltac corek :=
  unfold spawn_int, submit_job, thr_set, thr_del, log, set_gst1 in *;
  cbn [chans thr status reg authed next_int next_ext
       set_status set_authed set_closing set_chans set_genctr set_gclosed set_cmu set_pmu set_pinfl
       set_kstarted set_slock set_hub set_others set_reg set_pres set_bsub set_jobs set_gconn set_gsub
       set_trace set_thr set_next_ext set_next_int set_panicked set_wclosed set_hreg set_shut set_gst] in *.

Lemma covers_mono s s' k c :
  (forall c0 g, committed s' c0 g -> committed s c0 g) -> covers s k c -> covers s' k c.
Proof.
  intros M [W [I|(P & u & E & C & X)]]; split; auto. right. split; auto. exists u. repeat split; auto.
  destruct (u_pc u); auto; intros g G; apply X; auto.
Qed.

(* a step of a thread that is not a close thread (or of a close thread that has not won) *)
Lemma K_other s s' t o' nt x :
  KInv s ->
  (thr s' = upd (thr s) t o' \/ (thr s' = upd (upd (thr s) nt (Some x)) t o' /\ thr s nt = None)) ->
  (forall k, thr s t = Some (TCls k) -> won (k_pc k) = false) ->
  (forall k, o' = Some (TCls k) -> won (k_pc k) = false) ->
  status s' = status s ->
  (status s = Closed -> forall c g, committed s' c g -> committed s c g) ->
  (status s = Closed -> reg s' = reg s) ->
  (reg s' = true -> authed s' = true) ->
  KInv s'.
Proof.
  intros [K1 K2 K3] TH NW NW' ST CM RG AU.
  assert (KEEP : forall t0 k, thr s t0 = Some (TCls k) -> won (k_pc k) = true \/ k_pc k = CRemove ->
                 thr s' t0 = Some (TCls k)).
  { intros t0 k E W. assert (t0 <> t).
    { intros ->. specialize (NW _ E). destruct W as [W|W]; [congruence|rewrite W in NW; discriminate]. }
    destruct TH as [-> |[-> FR]].
    - rewrite upd_other; auto.
    - rewrite upd_other; auto. rewrite upd_other; auto. intros E0. rewrite E0 in E. congruence. }
  constructor.
  - rewrite ST. intros CL c g G. destruct (K1 CL c g (CM CL _ _ G)) as (t0 & k & E & CV).
    exists t0, k. split; [apply KEEP; auto; left; apply CV|]. eapply covers_mono; [exact (CM CL)|exact CV].
  - rewrite ST. intros CL R. rewrite (RG CL) in R. destruct (K2 CL R) as (t0 & k & E & P).
    exists t0, k. split; auto.
  - exact AU.
Qed.

(* ---- how the set of committed contexts can change ---- *)
Lemma cm_same s s' : chans s' = chans s -> forall c g, committed s' c g -> committed s c g.
Proof. intros E c g (x & L & S & G). rewrite E in L. exists x. auto. Qed.

Lemma cm_remove s s' c0 : chans s' = remove c0 (chans s) -> forall c g, committed s' c g -> committed s c g.
Proof.
  intros E c g (x & L & S & G). rewrite E, lookup_remove in L.
  destruct (N.eqb_spec c c0); [discriminate|]. exists x. auto.
Qed.

Lemma cm_insert_res s s' c0 x0 :
  chans s' = insert c0 x0 (chans s) -> c_sub x0 = false -> forall c g, committed s' c g -> committed s c g.
Proof.
  intros E S0 c g (x & L & S & G). rewrite E, lookup_insert in L.
  destruct (N.eqb_spec c c0); [inv L; congruence|]. exists x. auto.
Qed.

Lemma not_committed_none s c : lookup c (chans s) = None -> forall g, ~ committed s c g.
Proof. intros E g (x & L & _). congruence. Qed.

(* a step of the close thread that has won the flip *)
Record KInvW (s : st) : Prop := {
  kw_inv : KInv s;
  kw_closed : forall t k, thr s t = Some (TCls k) -> won (k_pc k) = true -> status s = Closed
}.

Lemma K_winner s s' t k o' :
  KInv s -> thr s t = Some (TCls k) -> won (k_pc k) = true ->
  status s' = status s -> authed s' = authed s ->
  thr s' = upd (thr s) t o' ->
  (forall c g, committed s' c g -> committed s c g) ->
  (forall c g, committed s' c g -> covers s k c ->
     exists k', o' = Some (TCls k') /\ covers s' k' c) ->
  (if match k_pc k with CRemove => true | _ => false end then reg s' = false else reg s' = reg s) ->
  KInv s'.
Proof.
  intros [K1 K2 K3] ET W ST AU TH CM TR RG. constructor.
  - rewrite ST. intros CL c g G. destruct (K1 CL c g (CM _ _ G)) as (t0 & k0 & E & CV).
    destruct (N.eqb_spec t0 t).
    + subst t0. rewrite ET in E. inv E. destruct (TR _ _ G CV) as (k' & -> & CV').
      exists t, k'. rewrite TH, upd_same. auto.
    + exists t0, k0. rewrite TH, upd_other; auto. split; auto. eapply covers_mono; eauto.
  - rewrite ST. intros CL R. destruct (k_pc k) eqn:EPC; try (rewrite RG in R;
      destruct (K2 CL R) as (t0 & k0 & E & P); exists t0, k0; rewrite TH;
      destruct (N.eqb_spec t0 t); [subst t0; rewrite ET in E; inv E; congruence|rewrite upd_other; auto]; fail).
    rewrite RG in R. discriminate.
  - intros R. rewrite AU. apply K3. destruct (k_pc k); try (rewrite RG in R; auto; fail). rewrite RG in R. discriminate.
Qed.

Lemma cg_k g s : chans (close_gate g s) = chans s /\ thr (close_gate g s) = thr s /\
  status (close_gate g s) = status s /\ reg (close_gate g s) = reg s /\ authed (close_gate g s) = authed s /\
  next_int (close_gate g s) = next_int s.
Proof. unfold close_gate. destruct (gclosed s g); cbn; auto 10. Qed.
Lemma cgk1 g s : chans (close_gate g s) = chans s. Proof. apply cg_k. Qed.
Lemma cgk2 g s : thr (close_gate g s) = thr s. Proof. apply cg_k. Qed.
Lemma cgk3 g s : status (close_gate g s) = status s. Proof. apply cg_k. Qed.
Lemma cgk4 g s : reg (close_gate g s) = reg s. Proof. apply cg_k. Qed.
Lemma cgk5 g s : authed (close_gate g s) = authed s. Proof. apply cg_k. Qed.
Lemma cgk6 g s : next_int (close_gate g s) = next_int s. Proof. apply cg_k. Qed.
Lemma cck1 c s : chans (close_cap c s) = chans s. Proof. destruct c; cbn; auto. apply cgk1. Qed.
Lemma cck2 c s : thr (close_cap c s) = thr s. Proof. destruct c; cbn; auto. apply cgk2. Qed.
Lemma cck3 c s : status (close_cap c s) = status s. Proof. destruct c; cbn; auto. apply cgk3. Qed.
Lemma cck4 c s : reg (close_cap c s) = reg s. Proof. destruct c; cbn; auto. apply cgk4. Qed.
Lemma cck5 c s : authed (close_cap c s) = authed s. Proof. destruct c; cbn; auto. apply cgk5. Qed.
Lemma cck6 c s : next_int (close_cap c s) = next_int s. Proof. destruct c; cbn; auto. apply cgk6. Qed.
Lemma hrk c g s : chans (hubrem c g s) = chans s /\ thr (hubrem c g s) = thr s /\
  status (hubrem c g s) = status s /\ reg (hubrem c g s) = reg s /\ authed (hubrem c g s) = authed s /\
  next_int (hubrem c g s) = next_int s.
Proof.
  unfold hubrem. destruct (hub s c); [destruct (_ =? g); [destruct (others s c =? 0)|]|]; cbn; auto 10.
Qed.
Lemma hrk1 c g s : chans (hubrem c g s) = chans s. Proof. apply hrk. Qed.
Lemma hrk2 c g s : thr (hubrem c g s) = thr s. Proof. apply hrk. Qed.
Lemma hrk3 c g s : status (hubrem c g s) = status s. Proof. apply hrk. Qed.
Lemma hrk4 c g s : reg (hubrem c g s) = reg s. Proof. apply hrk. Qed.
Lemma hrk5 c g s : authed (hubrem c g s) = authed s. Proof. apply hrk. Qed.
Lemma hrk6 c g s : next_int (hubrem c g s) = next_int s. Proof. apply hrk. Qed.

Ltac krw := rewrite ?cgk1, ?cgk2, ?cgk3, ?cgk4, ?cgk5, ?cgk6, ?cck1, ?cck2, ?cck3, ?cck4, ?cck5, ?cck6,
                    ?hrk1, ?hrk2, ?hrk3, ?hrk4, ?hrk5, ?hrk6.

Ltac k_cm :=
  let CL := fresh "CL" in
  intros CL;
  first [ apply cm_same; corek; krw; reflexivity
        | eapply cm_remove; corek; krw; reflexivity
        | eapply cm_insert_res; [corek; krw; reflexivity|reflexivity]
        | exfalso; rewrite CL in *; discriminate ].

(* thread t is not a winning close thread before or after the step *)
Ltac kother KI ET FR s0 :=
  eapply K_other with (nt := 2 * next_int s0 + 1) (x := new_close);
  [ exact KI
  | first [ left; corek; krw; reflexivity | right; split; [corek; krw; reflexivity | exact FR] ]
  | let k0 := fresh in let X := fresh in intros k0 X; rewrite ET in X; first [discriminate X | inversion X; subst; first [assumption | match goal with E : k_pc _ = _ |- _ => rewrite E; reflexivity end]]
  | let k0 := fresh in let X := fresh in intros k0 X; first [discriminate X | inversion X; subst; reflexivity]
  | corek; krw; reflexivity
  | k_cm
  | intros _; corek; krw; reflexivity
  | corek; krw; exact (k_auth _ KI) ].

Lemma att_step_K s t a b s' :
  KInv s -> InvBS s -> thr s t = Some (TAtt a) -> att_step s t a b = Some s' -> KInv s'.
Proof.
  intros KI I ET H. unfold att_step in H.
  assert (FR : thr s (2 * next_int s + 1) = None) by (eapply fresh_int_b; eauto).
  destruct (a_pc a) eqn:EPC;
    repeat match type of H with
    | (if ?c then _ else _) = _ => destruct c eqn:?
    | match ?o with Some _ => _ | None => _ end = _ => destruct o eqn:?
    | match ?k with Cli => _ | Srv => _ end = _ => destruct k eqn:?
    end; try discriminate; inv H; cbv zeta;
    repeat (match goal with |- context [if ?x then _ else _] => destruct x eqn:? end);
    repeat (match goal with |- context [match hub ?s0 ?c with Some _ => _ | None => _ end] => destruct (hub s0 c) eqn:? end);
    repeat (match goal with |- context [if ?x then _ else _] => destruct x eqn:? end).
  all: kother KI ET FR s.
Qed.

(* unsubscribe run by an unsubscribe thread *)
Lemma uns_step_K s t u b s1 ou :
  KInv s -> thr s t = Some (TUns u) -> u_step s t u b = Some (s1, ou) ->
  forall s', chans s' = chans s1 -> status s' = status s1 -> reg s' = reg s1 -> authed s' = authed s1 ->
             thr s' = upd (thr s1) t (match ou with Some u' => Some (TUns u') | None => None end) ->
             KInv s'.
Proof.
  intros KI ET H s' EC ES ER EA TH. unfold u_step in H.
  destruct (u_pc u);
    repeat match type of H with
    | (if ?c then _ else _) = _ => destruct c eqn:?
    | match ?o with Some _ => _ | None => _ end = _ => destruct o eqn:?
    end; try discriminate; inv H;
    repeat (match goal with H : context [if ?x then _ else _] |- _ => destruct x eqn:? end).
  all: eapply K_other with (t := t) (nt := 0) (x := new_close);
    [ exact KI
    | left; rewrite TH; corek; krw; reflexivity
    | intros k0 X; rewrite ET in X; discriminate X
    | intros k0 X; discriminate X
    | rewrite ES; corek; krw; reflexivity
    | intros CL; first [ apply cm_same; rewrite EC; corek; krw; reflexivity
                       | eapply cm_remove; rewrite EC; corek; krw; reflexivity ]
    | intros _; rewrite ER; corek; krw; reflexivity
    | rewrite ER, EA; corek; krw; exact (k_auth _ KI) ].
Qed.

(* unsubscribe run inline by the winning close thread *)
Lemma cls_u_step_K s t k u b s1 ou :
  KInv s -> thr s t = Some (TCls k) -> k_pc k = CLoop -> k_cur k = Some u ->
  u_step s t u b = Some (s1, ou) ->
  KInv (thr_set t (TCls (mkC CLoop (k_prev k) (k_rest k) ou)) s1).
Proof.
  intros KI ET EPC EC H. unfold u_step in H.
  assert (W : won (k_pc k) = true) by (rewrite EPC; reflexivity).
  destruct (u_pc u) eqn:EU;
    repeat match type of H with
    | (if ?c then _ else _) = _ => destruct c eqn:?
    | match ?o with Some _ => _ | None => _ end = _ => destruct o eqn:?
    end; try discriminate; inv H;
    repeat (match goal with |- context [if ?x then _ else _] => destruct x eqn:? end).
  all: eapply K_winner with (t := t) (k := k);
    [ exact KI | exact ET | exact W
    | corek; krw; reflexivity | corek; krw; reflexivity | corek; krw; reflexivity
    | first [ apply cm_same; corek; krw; reflexivity | eapply cm_remove; corek; krw; reflexivity ]
    | idtac
    | rewrite EPC; corek; krw; reflexivity ].
  all: intros c0 g0 G [_ [IN|(_ & u0 & E0 & CH & X)]];
    [ eexists; split; [reflexivity|]; split; [reflexivity|left; exact IN]
    | rewrite EC in E0; inv E0; rewrite EU in X ].
  all: try (destruct X; fail).
  all: try (exfalso; destruct G as (x0 & L0 & _); corek; krw;
            first [ congruence
                  | rewrite lookup_remove, N.eqb_refl in L0; discriminate L0 ]; fail).
  (* USnap with a context present: the target generation is fixed now *)
  all: try (eexists; split; [reflexivity|]; split; [reflexivity|right; split; [reflexivity|]];
            eexists; split; [reflexivity|]; split; [reflexivity|]; cbn;
            first [ intros g1 (x1 & L1 & _ & G1); corek; congruence
                  | exact X ]; fail).
  (* UDelete with a different generation: by the target clause nothing committed is left *)
  all: try (exfalso; destruct G as (x0 & L0 & S0 & G0); corek;
            assert (g0 = u_tgt u0) by (apply X; exists x0; auto);
            repeat match goal with H : (_ =? _) = false |- _ => apply N.eqb_neq in H end; congruence).
Qed.

Ltac kother_x KI ET FR s0 x0 :=
  eapply K_other with (nt := 2 * next_int s0 + 1) (x := x0);
  [ exact KI
  | first [ left; corek; krw; reflexivity | right; split; [corek; krw; reflexivity | exact FR] ]
  | let k0 := fresh in let X := fresh in intros k0 X; rewrite ET in X; first [discriminate X | inversion X; subst; first [assumption | match goal with E : k_pc _ = _ |- _ => rewrite E; reflexivity end]]
  | let k0 := fresh in let X := fresh in intros k0 X; first [discriminate X | inversion X; subst; reflexivity]
  | corek; krw; reflexivity
  | k_cm
  | intros _; corek; krw; reflexivity
  | corek; krw; exact (k_auth _ KI) ].

Lemma in_keys {V} c (m : amap V) x : lookup c m = Some x -> In c (keys m).
Proof. intros E. apply in_keys_lookup. congruence. Qed.

Lemma step_thread_K s t b s' : KInv s -> InvBS s -> LInv s -> step_thread s t b = Some s' -> KInv s'.
Proof.
  intros KI I LI H. unfold step_thread in H.
  destruct (thr s t) as [[a|u|k|k|pc|c]|] eqn:ET; try discriminate.
  all: assert (FR : thr s (2 * next_int s + 1) = None) by (eapply fresh_int_b; eauto).
  - eapply att_step_K; eauto.
  - destruct (u_step s t u b) as [[s1 ou]|] eqn:EU; [|discriminate].
    eapply (uns_step_K s t u b s1 ou KI ET EU); destruct ou; inv H; corek; reflexivity.
  - (* close *)
    unfold cls_step in H. destruct (k_pc k) eqn:EPC.
    + inv H. kother KI ET FR s.
    + destruct (cmu s); inv H. kother KI ET FR s.
    + (* CFlip *)
      destruct (is_closed (status s)) eqn:CL; inv H; [kother KI ET FR s|].
      destruct KI as [K1 K2 K3]. constructor; corek.
      * intros _ c g (x & L & _). exists t. eexists. rewrite upd_same. split; [reflexivity|].
        split; [reflexivity|left; cbn; eapply in_keys; eauto].
      * intros _ R. exists t. eexists. rewrite upd_same. split; reflexivity.
      * exact K3.
    + (* CRemove *)
      assert (RA : reg s = true -> authed s = true) by apply (k_auth _ KI).
      destruct (authed s) eqn:EA; [destruct (reg s) eqn:ER|]; inv H;
        (eapply K_winner with (t := t) (k := k); [exact KI|exact ET|rewrite EPC; reflexivity
          |corek; reflexivity|corek; rewrite ?EA; reflexivity|corek; reflexivity|apply cm_same; corek; reflexivity
          | intros c0 g0 G [W CV]; eexists; split; [reflexivity|]; split; [reflexivity|];
            destruct CV as [IN|(P & _)]; [left; exact IN|rewrite EPC in P; discriminate]
          | rewrite EPC; corek; try reflexivity ]).
      destruct (reg s); auto. specialize (RA eq_refl). discriminate.
    + inv H. eapply K_winner with (t := t) (k := k); [exact KI|exact ET|rewrite EPC; reflexivity
        |corek; reflexivity|corek; reflexivity|corek; reflexivity|apply cm_same; corek; reflexivity
        | intros c0 g0 G [W CV]; eexists; split; [reflexivity|]; split; [reflexivity|];
          destruct CV as [IN|(P & _)]; [left; exact IN|rewrite EPC in P; discriminate]
        | rewrite EPC; corek; reflexivity ].
    + inv H. eapply K_winner with (t := t) (k := k); [exact KI|exact ET|rewrite EPC; reflexivity
        |corek; reflexivity|corek; reflexivity|corek; reflexivity|apply cm_same; corek; reflexivity
        | intros c0 g0 G [W CV]; eexists; split; [reflexivity|]; split; [reflexivity|];
          destruct CV as [IN|(P & _)]; [left; exact IN|rewrite EPC in P; discriminate]
        | rewrite EPC; corek; reflexivity ].
    + destruct (pmu s); inv H. eapply K_winner with (t := t) (k := k); [exact KI|exact ET|rewrite EPC; reflexivity
        |corek; reflexivity|corek; reflexivity|corek; reflexivity|apply cm_same; corek; reflexivity
        | intros c0 g0 G [W CV]; eexists; split; [reflexivity|]; split; [reflexivity|];
          destruct CV as [IN|(P & _)]; [left; exact IN|rewrite EPC in P; discriminate]
        | rewrite EPC; corek; reflexivity ].
    + (* CLoop *)
      destruct (k_cur k) as [u|] eqn:EC.
      * destruct (u_step s t u b) as [[s1 ou]|] eqn:EU; [|discriminate]. inv H.
        eapply cls_u_step_K; eauto.
      * destruct (k_rest k) as [|c0 r] eqn:ER; [|destruct b]; inv H;
          (eapply K_winner with (t := t) (k := k); [exact KI|exact ET|rewrite EPC; reflexivity
            |corek; reflexivity|corek; reflexivity|corek; reflexivity|apply cm_same; corek; reflexivity
            | | rewrite EPC; corek; reflexivity ]);
          intros c1 g1 G [W [IN|(_ & u0 & E0 & _)]]; try (rewrite EC in E0; discriminate E0);
          rewrite ER in IN.
        -- destruct IN.
        -- eexists; split; [reflexivity|]; split; [reflexivity|]. destruct IN as [<-|IN]; [right|left; exact IN].
           split; [reflexivity|]. eexists. split; [reflexivity|]. split; reflexivity.
        -- eexists; split; [reflexivity|]; split; [reflexivity|left]. cbn.
           apply in_or_app. destruct IN as [<-|IN]; [right; left; auto|left; auto].
    + inv H. destruct (is_connected (k_prev k)); kother KI ET FR s.
    + inv H. kother KI ET FR s.
  - (* tick *)
    unfold tck_step in H. destruct b.
    all: destruct (t_pc k);
      repeat match type of H with
      | (if ?c then _ else _) = _ => destruct c eqn:?
      | match ?l with [] => _ | _ :: _ => _ end = _ => destruct l
      | match ?o with Some _ => _ | None => _ end = _ => destruct o
      end; try discriminate; inv H;
      repeat (match goal with |- context [if ?x then _ else _] => destruct x eqn:? end);
      kother KI ET FR s.
  - (* connect *)
    unfold con_step in H. destruct pc;
      repeat match type of H with (if ?c then _ else _) = _ => destruct c eqn:? end;
      try discriminate; inv H;
      repeat (match goal with |- context [if ?x then _ else _] => destruct x eqn:? end).
    all: try (kother KI ET FR s; fail).
    (* KSet: the handler section runs with status = Connecting *)
    all: try (assert (SC : status s = Connecting) by (eapply (l_conn _ LI); rewrite ET; reflexivity);
              destruct KI as [K1 K2 K3]; constructor; corek; try discriminate; auto; fail).
    (* KAuth: registration while not closed *)
    all: eapply K_other with (nt := 0) (x := new_close);
      [ exact KI | left; corek; reflexivity
      | intros k0 X; rewrite ET in X; discriminate X | intros k0 X; discriminate X
      | corek; reflexivity
      | intros CL; exfalso; rewrite CL in *; discriminate
      | intros CL; exfalso; rewrite CL in *; discriminate
      | corek; reflexivity ].
  - unfold job_step in H. destruct b; inv H; kother KI ET FR s.
Qed.

Lemma K_spawn s s' tn x :
  KInv s -> thr s tn = None -> thr s' = upd (thr s) tn (Some x) ->
  chans s' = chans s -> status s' = status s -> reg s' = reg s -> authed s' = authed s ->
  KInv s'.
Proof.
  intros [K1 K2 K3] FR TH EC ES ER EA.
  assert (KEEP : forall t0 th, thr s t0 = Some th -> thr s' t0 = Some th).
  { intros t0 th E. rewrite TH, upd_other; auto. intros ->. congruence. }
  constructor.
  - rewrite ES. intros CL c g G. destruct (K1 CL c g (cm_same _ _ EC _ _ G)) as (t0 & k & E & CV).
    exists t0, k. split; auto. eapply covers_mono; [apply cm_same; exact EC|exact CV].
  - rewrite ES, ER. intros CL R. destruct (K2 CL R) as (t0 & k & E & P). exists t0, k. auto.
  - rewrite ER, EA. exact K3.
Qed.

Lemma astep_K s l s' : KInv s -> InvBS s -> LInv s -> is_timeout l = false -> astep s l = Some s' -> KInv s'.
Proof.
  intros KI I LI NT H. destruct l; cbn in H; try discriminate.
  - unfold spawn in H.
    assert (FRE : thr s (2 * next_ext s) = None) by (eapply fresh_ext_b; eauto).
    assert (FR : thr s (2 * next_int s + 1) = None) by (eapply fresh_int_b; eauto).
    destruct o;
      repeat match type of H with (if ?c then _ else _) = _ => destruct c eqn:? end;
      try discriminate; inv H;
      try (eapply K_spawn with (tn := 2 * next_ext s); [exact KI|exact FRE|corek; reflexivity|corek; reflexivity
             |corek; reflexivity|corek; reflexivity|corek; reflexivity]; fail).
    destruct (reg s) eqn:ER.
    + eapply K_spawn with (tn := 2 * next_int s + 1); [exact KI|exact FR|corek; reflexivity|corek; reflexivity
             |corek; reflexivity|corek; reflexivity|corek; reflexivity].
    + destruct KI as [K1 K2 K3]. constructor; corek; auto.
  - eapply step_thread_K; eauto.
  - unfold job_start in H. destruct (mem c (jobs s) && negb (slock s c)); [|discriminate].
    assert (FR : thr s (2 * next_int s + 1) = None) by (eapply fresh_int_b; eauto).
    destruct (subscribers s c); inv H.
    + destruct KI as [K1 K2 K3]. constructor; corek; auto.
    + eapply K_spawn with (tn := 2 * next_int s + 1); [exact KI|exact FR|corek; reflexivity|corek; reflexivity
             |corek; reflexivity|corek; reflexivity|corek; reflexivity].
  - unfold other_add in H. destruct (slock s c); [discriminate|]. destruct KI as [K1 K2 K3].
    destruct (subscribers s c); [|destruct b]; inv H; constructor; corek; auto.
  - unfold other_rem in H. destruct (slock s c || (others s c =? 0)); [discriminate|]. destruct KI as [K1 K2 K3].
    destruct ((others s c =? 1) && match hub s c with None => true | Some _ => false end); inv H;
      constructor; corek; auto.
Qed.

Theorem exec_K l : forall s s', KInv s -> InvBS s -> LInv s -> no_timeout l = true -> exec l s = Some s' -> KInv s'.
Proof.
  induction l as [|x l IH]; cbn; intros s s' KI I LI NT H.
  - inv H. auto.
  - apply andb_true_iff in NT. destruct NT as [N1 N2].
    destruct (astep s x) as [s1|] eqn:E; [|discriminate].
    apply (IH s1 s'); auto; [eapply astep_K; eauto; destruct (is_timeout x); auto; discriminate
                            |eapply astep_B; eauto|eapply astep_L; eauto].
Qed.

(* ---- C05 consequences ---- *)
Theorem closed_settled_nothing_committed sched s :
  no_timeout sched = true -> exec sched init = Some s -> settled s -> status s = Closed ->
  (forall c g, ~ committed s c g) /\ reg s = false.
Proof.
  intros NT E ST CL.
  assert (KI : KInv s) by (eapply exec_K; eauto; [apply KInv_init|apply InvBS_init|apply LInv_init]).
  split.
  - intros c g G. destruct (k_cov _ KI CL c g G) as (t & k & ET & _). rewrite (ST t) in ET. discriminate.
  - destruct (reg s) eqn:R; auto. destruct (k_reg _ KI CL R) as (t & k & ET & _). rewrite (ST t) in ET. discriminate.
Qed.
