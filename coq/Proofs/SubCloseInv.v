(* C05: once the connection is closed every committed context is covered by the remaining
   work of the close() that won the status flip, and the hub registration is gone once that
   close has passed removeClient.  For ALL schedules. *)
From Coq Require Import List NArith ZArith Bool Lia.
From Cfg Require Import Model.SubLifecycle Proofs.SubLifecycleLib Proofs.SubBroker Proofs.SubBrokerStep.
Import ListNotations.
Open Scope N_scope.

(* channel c carries a committed context of generation g *)
Definition committed (s : st) (c : ch) (g : gen) : Prop :=
  exists x, lookup c (chans s) = Some x /\ c_sub x = true /\ c_gen x = g.

Definition won (pc : cpc) : bool :=
  match pc with CRemove | CWriter | CTransport | CPresLock | CLoop => true | _ => false end.

(* the inline unsubscribe of the close loop is about to take care of channel c *)
Definition cur_on (s : st) (k : crec) (c : ch) : Prop :=
  k_pc k = CLoop /\
  exists u, k_cur k = Some u /\ u_ch u = c /\
    match u_pc u with
    | USnap => True
    | UWait | UDelete => forall g, committed s c g -> g = u_tgt u
    | _ => False
    end.

Definition covers (s : st) (k : crec) (c : ch) : Prop :=
  won (k_pc k) = true /\ (In c (k_rest k) \/ cur_on s k c).

Record KInv (s : st) : Prop := {
  k_cov : status s = Closed -> forall c g, committed s c g ->
          exists t k, thr s t = Some (TCls k) /\ covers s k c;
  k_reg : status s = Closed -> reg s = true ->
          exists t k, thr s t = Some (TCls k) /\ (k_pc k = CRemove);
  k_auth : reg s = true -> authed s = true
}.

Lemma KInv_init : KInv init.
Proof. constructor; cbn; intros; discriminate. Qed.

Ltac corek :=
  unfold spawn_int, submit_job, thr_set, thr_del, log, set_gst1 in *;
  cbn [chans thr status reg authed next_int next_ext
       set_status set_authed set_closing set_chans set_genctr set_gclosed set_cmu set_pmu set_pinfl
       set_kstarted set_slock set_hub set_others set_reg set_pres set_bsub set_jobs set_gconn set_gsub
       set_trace set_thr set_next_ext set_next_int set_panicked set_wclosed set_hreg set_shut set_gst] in *.

Lemma covers_mono s s' k c :
  (forall c0 g, committed s' c0 g -> committed s c0 g) -> covers s k c -> covers s' k c.
Proof.
  intros M [W [I|(P & u & E & C & X)]]; split; auto. right. split; auto. exists u. repeat split; auto.
  destruct (u_pc u); auto; intros g G; apply X; auto.
Qed.

(* a step of a thread that is not a close thread (or of a close thread that has not won) *)
Lemma K_other s s' t o' nt x :
  KInv s ->
  (forall k, thr s t = Some (TCls k) -> won (k_pc k) = false) ->
  (forall k, o' = Some (TCls k) -> won (k_pc k) = false) ->
  status s' = status s ->
  (status s = Closed -> forall c g, committed s' c g -> committed s c g) ->
  (status s = Closed -> reg s' = reg s) ->
  (reg s' = true -> authed s' = true) ->
  (thr s' = upd (thr s) t o' \/ (thr s' = upd (upd (thr s) nt (Some x)) t o' /\ thr s nt = None)) ->
  KInv s'.
Proof.
  intros [K1 K2 K3] NW NW' ST CM RG AU TH.
  assert (KEEP : forall t0 k, thr s t0 = Some (TCls k) -> won (k_pc k) = true \/ k_pc k = CRemove ->
                 thr s' t0 = Some (TCls k)).
  { intros t0 k E W. assert (t0 <> t).
    { intros ->. specialize (NW _ E). destruct W as [W|W]; [congruence|rewrite W in NW; discriminate]. }
    destruct TH as [-> |[-> FR]].
    - rewrite upd_other; auto.
    - rewrite upd_other; auto. rewrite upd_other; auto. intros E0. rewrite E0 in E. congruence. }
  constructor.
  - rewrite ST. intros CL c g G. destruct (K1 CL c g (CM CL _ _ G)) as (t0 & k & E & CV).
    exists t0, k. split; [apply KEEP; auto; left; apply CV|]. eapply covers_mono; [exact (CM CL)|exact CV].
  - rewrite ST. intros CL R. rewrite (RG CL) in R. destruct (K2 CL R) as (t0 & k & E & P).
    exists t0, k. split; auto.
  - exact AU.
Qed.
