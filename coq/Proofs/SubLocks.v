(* connectMu / presenceMu: holders are unique, for ALL schedules; consequences: the connect
   handler section runs with status = Connecting, and Closed is absorbing. *)
From Coq Require Import List NArith ZArith Bool Lia.
From Cfg Require Import Model.SubLifecycle Proofs.SubLifecycleLib Proofs.SubBroker Proofs.SubBrokerStep.
Import ListNotations.
Open Scope N_scope.

Definition holds_cmu (o : option thread) : bool :=
  match o with
  | Some (TCon pc) => match pc with KTrigCheck | KEnter | KHandler | KSet => true | _ => false end
  | Some (TCls k) => match k_pc k with CStart | CLock => false | _ => true end
  | _ => false
  end.
Definition holds_pmu (o : option thread) : bool :=
  match o with
  | Some (TCls k) => match k_pc k with CLoop | CDisc | CEnd => true | _ => false end
  | Some (TTck k) => match t_pc k with TCas | TLock => false | _ => true end
  | _ => false
  end.
Definition in_handler (o : option thread) : bool :=
  match o with Some (TCon pc) => match pc with KEnter | KHandler | KSet => true | _ => false end | _ => false end.

Record LInv (s : st) : Prop := {
  l_cmu : forall t, holds_cmu (thr s t) = true -> cmu s = true;
  l_cmu1 : forall t t', holds_cmu (thr s t) = true -> holds_cmu (thr s t') = true -> t = t';
  l_pmu : forall t, holds_pmu (thr s t) = true -> pmu s = true;
  l_pmu1 : forall t t', holds_pmu (thr s t) = true -> holds_pmu (thr s t') = true -> t = t';
  l_conn : forall t, in_handler (thr s t) = true -> status s = Connecting
}.

Lemma LInv_init : LInv init.
Proof. constructor; cbn; intros; discriminate. Qed.

Ltac corel :=
  unfold spawn_int, submit_job, thr_set, thr_del, log, set_gst1 in *;
  cbn [thr status cmu pmu next_int next_ext
       set_status set_authed set_closing set_chans set_genctr set_gclosed set_cmu set_pmu set_pinfl
       set_kstarted set_slock set_hub set_others set_reg set_pres set_bsub set_jobs set_gconn set_gsub
       set_trace set_thr set_next_ext set_next_int set_panicked set_wclosed set_hreg set_shut set_gst] in *.

(* generic step: thread t becomes o'; possibly a fresh non-holder thread; locks/status change as the
   holder flags of t before/after say *)
Lemma L_step s s' t o' nt x :
  LInv s ->
  (thr s' = upd (thr s) t o' \/ (thr s' = upd (upd (thr s) nt (Some x)) t o' /\ thr s nt = None /\
                                 holds_cmu (Some x) = false /\ holds_pmu (Some x) = false /\ in_handler (Some x) = false)) ->
  (* connectMu *)
  (if holds_cmu o' then (if holds_cmu (thr s t) then cmu s' = cmu s else cmu s = false /\ cmu s' = true)
   else (if holds_cmu (thr s t) then True else cmu s' = cmu s)) ->
  (* presenceMu *)
  (if holds_pmu o' then (if holds_pmu (thr s t) then pmu s' = pmu s else pmu s = false /\ pmu s' = true)
   else (if holds_pmu (thr s t) then True else pmu s' = pmu s)) ->
  (* status: changes only by a connectMu holder; the handler section starts with Connecting *)
  (status s' = status s \/ holds_cmu (thr s t) = true) ->
  (in_handler o' = true -> status s' = Connecting) ->
  LInv s'.
Proof.
  intros [L1 L2 L3 L4 L5] TH CM PM ST IH.
  assert (OTH : forall t0, t0 <> t -> thr s' t0 = thr s t0 \/
                 (holds_cmu (thr s' t0) = false /\ holds_pmu (thr s' t0) = false /\ in_handler (thr s' t0) = false)).
  { intros t0 NE. destruct TH as [-> |(-> & FR & A & B & C)].
    - left. apply upd_other. auto.
    - rewrite upd_other; auto. unfold upd. destruct (N.eqb_spec t0 nt); auto. }
  assert (THT : thr s' t = o').
  { destruct TH as [-> |(-> & _)]; apply upd_same. }
  assert (HC : forall t0, t0 <> t -> holds_cmu (thr s' t0) = true -> holds_cmu (thr s t0) = true).
  { intros t0 NE H. destruct (OTH t0 NE) as [E|(A & _)]; [rewrite <- E; auto|congruence]. }
  assert (HP : forall t0, t0 <> t -> holds_pmu (thr s' t0) = true -> holds_pmu (thr s t0) = true).
  { intros t0 NE H. destruct (OTH t0 NE) as [E|(_ & A & _)]; [rewrite <- E; auto|congruence]. }
  constructor.
  - intros t0 H. destruct (N.eqb_spec t0 t).
    + subst t0. rewrite THT in H. rewrite H in CM. destruct (holds_cmu (thr s t)) eqn:E; [rewrite CM; eauto|tauto].
    + pose proof (HC _ n H) as H0. pose proof (L1 _ H0) as C.
      destruct (holds_cmu o') eqn:E1; destruct (holds_cmu (thr s t)) eqn:E2; try congruence.
      * destruct CM; congruence.
      * exfalso. apply n. eapply L2; eauto.
  - intros t0 t1 H0 H1. destruct (N.eqb_spec t0 t) as [->|]; destruct (N.eqb_spec t1 t) as [->|]; auto;
      try (first [eapply L2 | eapply L4]; eauto; fail).
    + rewrite THT in H0. rewrite H0 in CM. pose proof (HC _ n H1) as X.
      destruct (holds_cmu (thr s t)) eqn:E; [symmetry; eapply L2; eauto|].
      destruct CM as [C _]. rewrite (L1 _ X) in C. discriminate.
    + rewrite THT in H1. rewrite H1 in CM. pose proof (HC _ n H0) as X.
      destruct (holds_cmu (thr s t)) eqn:E; [eapply L2; eauto|].
      destruct CM as [C _]. rewrite (L1 _ X) in C. discriminate.
  - intros t0 H. destruct (N.eqb_spec t0 t).
    + subst t0. rewrite THT in H. rewrite H in PM. destruct (holds_pmu (thr s t)) eqn:E; [rewrite PM; eauto|tauto].
    + pose proof (HP _ n H) as H0. pose proof (L3 _ H0) as C.
      destruct (holds_pmu o') eqn:E1; destruct (holds_pmu (thr s t)) eqn:E2; try congruence.
      * destruct PM; congruence.
      * exfalso. apply n. eapply L4; eauto.
  - intros t0 t1 H0 H1. destruct (N.eqb_spec t0 t) as [->|]; destruct (N.eqb_spec t1 t) as [->|]; auto;
      try (first [eapply L2 | eapply L4]; eauto; fail).
    + rewrite THT in H0. rewrite H0 in PM. pose proof (HP _ n H1) as X.
      destruct (holds_pmu (thr s t)) eqn:E; [symmetry; eapply L4; eauto|].
      destruct PM as [C _]. rewrite (L3 _ X) in C. discriminate.
    + rewrite THT in H1. rewrite H1 in PM. pose proof (HP _ n H0) as X.
      destruct (holds_pmu (thr s t)) eqn:E; [eapply L4; eauto|].
      destruct PM as [C _]. rewrite (L3 _ X) in C. discriminate.
  - intros t0 H. destruct (N.eqb_spec t0 t); [subst t0; rewrite THT in H; auto|].
    destruct (OTH t0 n) as [E|(_ & _ & A)]; [|congruence]. rewrite E in H.
    destruct ST as [-> |HT]; [eauto|].
    exfalso. apply n. eapply L2; eauto.
    destruct (thr s t0) as [[| | | |pc|]|]; cbn in *; try discriminate. destruct pc; auto; discriminate.
Qed.

Lemma cgl g s : thr (close_gate g s) = thr s /\ cmu (close_gate g s) = cmu s /\ pmu (close_gate g s) = pmu s /\
  status (close_gate g s) = status s /\ next_int (close_gate g s) = next_int s.
Proof. unfold close_gate. destruct (gclosed s g); cbn; auto. Qed.
Lemma cgl1 g s : thr (close_gate g s) = thr s. Proof. apply cgl. Qed.
Lemma cgl2 g s : cmu (close_gate g s) = cmu s. Proof. apply cgl. Qed.
Lemma cgl3 g s : pmu (close_gate g s) = pmu s. Proof. apply cgl. Qed.
Lemma cgl4 g s : status (close_gate g s) = status s. Proof. apply cgl. Qed.
Lemma cgl5 g s : next_int (close_gate g s) = next_int s. Proof. apply cgl. Qed.
Lemma ccl1 c s : thr (close_cap c s) = thr s. Proof. destruct c; cbn; auto. apply cgl1. Qed.
Lemma ccl2 c s : cmu (close_cap c s) = cmu s. Proof. destruct c; cbn; auto. apply cgl2. Qed.
Lemma ccl3 c s : pmu (close_cap c s) = pmu s. Proof. destruct c; cbn; auto. apply cgl3. Qed.
Lemma ccl4 c s : status (close_cap c s) = status s. Proof. destruct c; cbn; auto. apply cgl4. Qed.
Lemma ccl5 c s : next_int (close_cap c s) = next_int s. Proof. destruct c; cbn; auto. apply cgl5. Qed.
Lemma hrl c g s : thr (hubrem c g s) = thr s /\ cmu (hubrem c g s) = cmu s /\ pmu (hubrem c g s) = pmu s /\
  status (hubrem c g s) = status s /\ next_int (hubrem c g s) = next_int s.
Proof. unfold hubrem. destruct (hub s c); [destruct (_ =? g); [destruct (others s c =? 0)|]|]; cbn; auto. Qed.
Lemma hrl1 c g s : thr (hubrem c g s) = thr s. Proof. apply hrl. Qed.
Lemma hrl2 c g s : cmu (hubrem c g s) = cmu s. Proof. apply hrl. Qed.
Lemma hrl3 c g s : pmu (hubrem c g s) = pmu s. Proof. apply hrl. Qed.
Lemma hrl4 c g s : status (hubrem c g s) = status s. Proof. apply hrl. Qed.
Lemma hrl5 c g s : next_int (hubrem c g s) = next_int s. Proof. apply hrl. Qed.
Ltac lrw := rewrite ?cgl1, ?cgl2, ?cgl3, ?cgl4, ?cgl5, ?ccl1, ?ccl2, ?ccl3, ?ccl4, ?ccl5, ?hrl1, ?hrl2, ?hrl3, ?hrl4, ?hrl5.

Ltac lfin :=
  cbn; repeat match goal with E : _ = _ |- context [match ?p with _ => _ end] => rewrite E; cbn end;
  corel; lrw; try reflexivity; try (split; [assumption|reflexivity]); auto.

Ltac lstep LI ET FR s0 x0 :=
  eapply L_step with (nt := 2 * next_int s0 + 1) (x := x0);
  [ exact LI
  | first [ left; corel; lrw; reflexivity
          | right; split; [corel; lrw; reflexivity|split; [exact FR|repeat split; reflexivity]] ]
  | rewrite ET; lfin
  | rewrite ET; lfin
  | first [ left; corel; lrw; reflexivity | right; rewrite ET; lfin ]
  | lfin; try discriminate;
    try (intros _; first [ eapply (l_conn _ LI); rewrite ET; reflexivity
                         | match goal with |- status ?s1 = _ => destruct (status s1); try discriminate; reflexivity end ]) ].

Lemma astep_L s l s' : LInv s -> InvBS s -> astep s l = Some s' -> LInv s'.
Proof.
  intros LI I H.
  assert (FR : thr s (2 * next_int s + 1) = None) by (eapply fresh_int_b; eauto).
  assert (FRE : thr s (2 * next_ext s) = None) by (eapply fresh_ext_b; eauto).
  destruct l; cbn in H.
  - (* spawn: a new thread that holds nothing *)
    destruct LI as [L1 L2 L3 L4 L5]. unfold spawn in H.
    assert (G : forall x s1 tn, thr s1 = upd (thr s) tn (Some x) ->
                holds_cmu (Some x) = false -> holds_pmu (Some x) = false -> in_handler (Some x) = false ->
                cmu s1 = cmu s -> pmu s1 = pmu s -> status s1 = status s -> thr s tn = None -> LInv s1).
    { intros x s1 tn TH A B C E1 E2 E3 FN.
      assert (K : forall t0, thr s1 t0 = thr s t0 \/ (holds_cmu (thr s1 t0) = false /\ holds_pmu (thr s1 t0) = false /\ in_handler (thr s1 t0) = false)).
      { intros t0. rewrite TH. unfold upd. destruct (N.eqb_spec t0 tn); auto. }
      constructor; rewrite ?E1, ?E2, ?E3.
      - intros t0 H0. destruct (K t0) as [E|(X & _)]; [rewrite E in H0; eauto|congruence].
      - intros t0 t1 H0 H1. destruct (K t0) as [E|(X & _)]; [rewrite E in H0|congruence].
        destruct (K t1) as [E'|(X & _)]; [rewrite E' in H1; eauto|congruence].
      - intros t0 H0. destruct (K t0) as [E|(_ & X & _)]; [rewrite E in H0; eauto|congruence].
      - intros t0 t1 H0 H1. destruct (K t0) as [E|(_ & X & _)]; [rewrite E in H0|congruence].
        destruct (K t1) as [E'|(_ & X & _)]; [rewrite E' in H1; eauto|congruence].
      - intros t0 H0. destruct (K t0) as [E|(_ & _ & X)]; [rewrite E in H0; eauto|congruence]. }
    destruct o;
      repeat match type of H with (if ?c then _ else _) = _ => destruct c eqn:? end;
      try discriminate; inv H;
      try (eapply G with (tn := 2 * next_ext s); [corel; reflexivity|reflexivity|reflexivity|reflexivity|corel; reflexivity
             |corel; reflexivity|corel; reflexivity|exact FRE]; fail).
    destruct (reg s).
    + eapply G with (tn := 2 * next_int s + 1); [corel; reflexivity|reflexivity|reflexivity|reflexivity|corel; reflexivity
             |corel; reflexivity|corel; reflexivity|exact FR].
    + constructor; corel; auto.
  - (* step *)
    unfold step_thread in H. destruct (thr s t) as [[a|u|k|k|pc|c]|] eqn:ET; try discriminate.
    + unfold att_step in H.
      destruct (a_pc a) eqn:EPC;
        repeat match type of H with
        | (if ?c then _ else _) = _ => destruct c eqn:?
        | match ?o with Some _ => _ | None => _ end = _ => destruct o eqn:?
        | match ?k with Cli => _ | Srv => _ end = _ => destruct k eqn:?
        end; try discriminate; inv H; cbv zeta;
        repeat (match goal with |- context [if ?x then _ else _] => destruct x eqn:? end);
        repeat (match goal with |- context [match hub ?s0 ?c with Some _ => _ | None => _ end] => destruct (hub s0 c) eqn:? end);
        repeat (match goal with |- context [if ?x then _ else _] => destruct x eqn:? end);
        lstep LI ET FR s new_close.
    + destruct (u_step s t u b) as [[s1 ou]|] eqn:EU; [|discriminate]. unfold u_step in EU.
      destruct (u_pc u);
        repeat match type of EU with
        | (if ?c then _ else _) = _ => destruct c eqn:?
        | match ?o with Some _ => _ | None => _ end = _ => destruct o eqn:?
        end; try discriminate; injection EU as EU1 EU2; subst s1 ou; inv H;
        repeat (match goal with |- context [if ?x then _ else _] => destruct x eqn:? end);
        lstep LI ET FR s new_close.
    + (* close *)
      unfold cls_step in H. destruct (k_pc k) eqn:EPC.
      8:{ destruct (k_cur k) as [u|] eqn:EC.
          - destruct (u_step s t u b) as [[s1 ou]|] eqn:EU; [|discriminate]. unfold u_step in EU.
            destruct (u_pc u);
              repeat match type of EU with
              | (if ?c then _ else _) = _ => destruct c eqn:?
              | match ?o with Some _ => _ | None => _ end = _ => destruct o eqn:?
              end; try discriminate; injection EU as EU1 EU2; subst s1 ou; inv H;
              repeat (match goal with |- context [if ?x then _ else _] => destruct x eqn:? end);
              lstep LI ET FR s new_close.
          - destruct (k_rest k); [|destruct b]; inv H; lstep LI ET FR s new_close. }
      all: repeat match type of H with (if ?c then _ else _) = _ => destruct c eqn:? end;
           try discriminate; inv H;
           repeat (match goal with |- context [if ?x then _ else _] => destruct x eqn:? end);
           lstep LI ET FR s new_close.
    + unfold tck_step in H. destruct b.
      all: destruct (t_pc k) eqn:EPC;
        repeat match type of H with
        | (if ?c then _ else _) = _ => destruct c eqn:?
        | match ?l with [] => _ | _ :: _ => _ end = _ => destruct l
        | match ?o with Some _ => _ | None => _ end = _ => destruct o
        end; try discriminate; inv H;
        repeat (match goal with |- context [if ?x then _ else _] => destruct x eqn:? end);
        lstep LI ET FR s new_close.
    + unfold con_step in H. destruct pc;
        repeat match type of H with (if ?c then _ else _) = _ => destruct c eqn:? end;
        try discriminate; inv H;
        repeat (match goal with |- context [if ?x then _ else _] => destruct x eqn:? end);
        lstep LI ET FR s new_close.
    + unfold job_step in H. destruct b; inv H; lstep LI ET FR s new_close.
  - (* timeout *)
    unfold timeout_thread in H. destruct (thr s t) as [[a|u|k|k|pc|c]|] eqn:ET; try discriminate.
    + destruct (u_timeout s u) as [s1|] eqn:EU; inv H. unfold u_timeout in EU.
      destruct (u_pc u); try discriminate. inv EU.
      destruct (lookup (u_ch u) (chans s)) as [x|]; [destruct (c_gate x)|]; lstep LI ET FR s new_close.
    + destruct (k_pc k) eqn:EPC; try discriminate. destruct (k_cur k) as [u|]; try discriminate.
      destruct (u_timeout s u) as [s1|] eqn:EU; inv H. unfold u_timeout in EU.
      destruct (u_pc u); try discriminate. inv EU.
      destruct (lookup (u_ch u) (chans s)) as [x|]; [destruct (c_gate x)|]; lstep LI ET FR s new_close.
  - (* job start *)
    unfold job_start in H. destruct (mem c (jobs s) && negb (slock s c)); [|discriminate].
    destruct LI as [L1 L2 L3 L4 L5].
    destruct (subscribers s c); inv H; [constructor; corel; auto|].
    assert (K : forall t0, upd (thr s) (2 * next_int s + 1) (Some (TJob c)) t0 = thr s t0 \/
                (holds_cmu (upd (thr s) (2 * next_int s + 1) (Some (TJob c)) t0) = false /\
                 holds_pmu (upd (thr s) (2 * next_int s + 1) (Some (TJob c)) t0) = false /\
                 in_handler (upd (thr s) (2 * next_int s + 1) (Some (TJob c)) t0) = false)).
    { intros t0. unfold upd. destruct (N.eqb_spec t0 (2 * next_int s + 1)); auto. }
    constructor; corel.
    + intros t0 H0. destruct (K t0) as [E|(X & _)]; [rewrite E in H0; eauto|congruence].
    + intros t0 t1 H0 H1. destruct (K t0) as [E|(X & _)]; [rewrite E in H0|congruence].
      destruct (K t1) as [E'|(X & _)]; [rewrite E' in H1; eauto|congruence].
    + intros t0 H0. destruct (K t0) as [E|(_ & X & _)]; [rewrite E in H0; eauto|congruence].
    + intros t0 t1 H0 H1. destruct (K t0) as [E|(_ & X & _)]; [rewrite E in H0|congruence].
      destruct (K t1) as [E'|(_ & X & _)]; [rewrite E' in H1; eauto|congruence].
    + intros t0 H0. destruct (K t0) as [E|(_ & _ & X)]; [rewrite E in H0; eauto|congruence].
  - unfold other_add in H. destruct (slock s c); [discriminate|]. destruct LI as [L1 L2 L3 L4 L5].
    destruct (subscribers s c); [|destruct b]; inv H; constructor; corel; auto.
  - unfold other_rem in H. destruct (slock s c || (others s c =? 0)); [discriminate|]. destruct LI as [L1 L2 L3 L4 L5].
    destruct ((others s c =? 1) && match hub s c with None => true | Some _ => false end); inv H;
      constructor; corel; auto.
Qed.

Theorem exec_L l : forall s s', LInv s -> InvBS s -> exec l s = Some s' -> LInv s'.
Proof.
  induction l as [|x l IH]; cbn; intros s s' LI I H.
  - inv H. auto.
  - destruct (astep s x) as [s1|] eqn:E; [|discriminate].
    apply (IH s1 s'); auto; [eapply astep_L|eapply astep_B]; eauto.
Qed.

Lemma LInv_reach sched s : exec sched init = Some s -> LInv s.
Proof. intros E. eapply exec_L; eauto; [apply LInv_init|apply InvBS_init]. Qed.

