(* Proofs for C02 / C03: recovery decisions on subscribe over the memory
   broker model. *)
From Coq Require Import List NArith ZArith Bool Lia ZifyN ZifyNat ZifyBool Sorting.Sorted.
From Cfg Require Import Model.MemStream Model.StreamSpec Model.Merge Model.HistoryCmd Model.Recover
     Proofs.MemStreamLib Proofs.MemStream Proofs.HistoryCmd Proofs.Merge.
Import ListNotations.
Open Scope N_scope.

(* ------------------------------------------------ numbered lists, again *)

Lemma number_filter_gt : forall ids lo off,
  lo <= off -> off <= lo + N.of_nat (length ids) ->
  filter (fun it => off <? i_off it) (number lo ids) = number off (skipn (N.to_nat (off - lo)) ids).
Proof.
  induction ids as [|x r IH]; intros lo off H1 H2.
  - cbn [number filter length] in *. assert (off = lo) by lia. subst. rewrite skipn_nil. reflexivity.
  - destruct (off =? lo) eqn:E.
    + assert (off = lo) by lia. subst off. replace (lo - lo) with 0 by lia. cbn [N.to_nat skipn].
      apply filter_gt_all. lia.
    + cbn [number filter i_off length] in *. replace (off <? lo + 1) with false by lia.
      rewrite IH by lia. f_equal.
      replace (N.to_nat (off - lo)) with (S (N.to_nat (off - (lo + 1)))) by lia. reflexivity.
Qed.

Lemma number_firstn : forall n ids lo, firstn n (number lo ids) = number lo (firstn n ids).
Proof.
  induction n; intros; cbn [firstn]; auto.
  destruct ids; cbn [number firstn]; auto. f_equal. apply IHn.
Qed.

Lemma number_last : forall ids lo d, ids <> [] ->
  i_off (last (number lo ids) d) = lo + N.of_nat (length ids).
Proof.
  induction ids as [|x r IH]; intros lo d H; [congruence|].
  destruct r as [|y r'].
  - cbn. lia.
  - change (number lo (x :: y :: r')) with (mkItem (lo + 1) x :: number (lo + 1) (y :: r')).
    change (last (mkItem (lo + 1) x :: number (lo + 1) (y :: r')) d) with
           (last (number (lo + 1) (y :: r')) d).
    rewrite IH by congruence. cbn [length]. lia.
Qed.

Lemma take_number : forall L lo ids, (L <> 0)%Z ->
  take L (number lo ids) =
  number lo (if (L <? 0)%Z then ids else firstn (Z.to_nat L) ids).
Proof.
  intros. unfold take. destruct (L <? 0)%Z; auto.
  rewrite number_length.
  destruct (Z.of_nat (length ids) <=? L)%Z eqn:E.
  - rewrite firstn_all2 by lia. reflexivity.
  - apply number_firstn.
Qed.

(* ------------------------- MergePublications on a sorted list, no buffer *)

Definition lt_off (p q : pub) : Prop := p_off p < p_off q.

Lemma isort_sorted_id : forall l, StronglySorted lt_off l -> isort l = l.
Proof.
  induction 1 as [|p l Hs IH Hall]; cbn [isort]; auto.
  rewrite IH. destruct l as [|q l']; cbn [insert]; auto.
  inversion Hall; subst. unfold lt_off in *. replace (p_off p <=? p_off q) with true by lia. reflexivity.
Qed.

Lemma uniq_go_sorted : forall l keys maxo sk,
  StronglySorted lt_off l -> (forall k p, In k keys -> In p l -> k < p_off p) ->
  fst (fst (uniq_go l keys maxo sk)) = filter (fun p => negb (p_filt p)) l.
Proof.
  induction l as [|e l IH]; intros keys maxo sk Hs Hk; cbn [uniq_go filter]; auto.
  inversion Hs; subst.
  destruct (p_filt e) eqn:EF; cbn [negb].
  - apply IH; auto. intros; apply Hk; auto. right; auto.
  - assert (memN (p_off e) keys = false) as ->.
    { apply memN_false. intros HIn. specialize (Hk _ e HIn (or_introl eq_refl)). lia. }
    specialize (IH (p_off e :: keys) (if maxo <? p_off e then p_off e else maxo) sk H1).
    destruct (uniq_go l (p_off e :: keys) (if maxo <? p_off e then p_off e else maxo) sk) as [[l0 m] s0].
    cbn [fst] in *. f_equal. apply IH.
    intros k p [<-|HIn] Hp.
    + rewrite Forall_forall in H2. apply (H2 p Hp).
    + apply Hk; auto. right; auto.
Qed.

Lemma merge_sorted_nil : forall l, StronglySorted lt_off l ->
  exists m, merge l [] = (filter (fun p => negb (p_filt p)) l, m, true).
Proof.
  intros l Hs. unfold merge, uniq. rewrite isort_sorted_id by auto.
  pose proof (uniq_go_sorted l [] 0 [] Hs) as H.
  destruct (uniq_go l [] 0 []) as [[l0 m] s0]. cbn [fst] in H.
  exists m. rewrite H; auto. intros k p [].
Qed.

Lemma to_pub_sorted : forall filt ids lo,
  StronglySorted lt_off (map (to_pub filt) (number lo ids)).
Proof.
  induction ids as [|x r IH]; intros lo; cbn [number map]; constructor.
  - apply IH.
  - rewrite Forall_forall. intros p Hp. apply in_map_iff in Hp. destruct Hp as (it & <- & Hit).
    apply number_off_bounds in Hit. unfold lt_off, to_pub. cbn [p_off i_off]. lia.
Qed.

Lemma strip_map : forall filt l,
  map of_pub (filter (fun p => negb (p_filt p)) (map (to_pub filt) l)) =
  filter (fun it => negb (filt (i_id it))) l.
Proof.
  induction l as [|[o i] l IH]; cbn [map filter to_pub p_filt i_id]; auto.
  destruct (filt i); cbn [negb map of_pub p_off p_id]; rewrite IH; reflexivity.
Qed.

(* ---------------------------------------------------- C02: stream mode *)

(* the result of the whole stream-mode decision, by cases *)
Definition stream_cond (s : stream) (lim : Z) (off ep : N) : bool :=
  ((ep =? 0) || (ep =? s_epoch s)) &&
  (s_top s - N.of_nat (length (s_items s)) <=? off) && (off <=? s_top s) &&
  ((lim <=? 0)%Z || (Z.of_N (s_top s - off) <=? lim)%Z).

Definition visible_after (filt : N -> bool) (s : stream) (off : N) : list item :=
  filter (fun it => negb (filt (i_id it))) (filter (fun it => off <? i_off it) (s_items s)).

Lemma finish_not_recovered : forall top ep off,
  finish false false [] [] top ep off = ROk false [] top ep.
Proof.
  intros. unfold finish. cbn. destruct top; reflexivity.
Qed.

Lemma rec_limit_cases : forall lim,
  (rec_limit lim <> 0)%Z /\
  ((rec_limit lim <? 0)%Z = (lim <=? 0)%Z) /\ ((0 < lim)%Z -> rec_limit lim = lim).
Proof. intros. unfold rec_limit. destruct (0 <? lim)%Z eqn:E; lia. Qed.

Lemma snd_if : forall (A B : Type) (b : bool) (p q : A * B),
  snd (if b then p else q) = if b then snd p else snd q.
Proof. intros. destruct b; reflexivity. Qed.

Theorem stream_decision : forall lim filt h ch s off ep reject meta,
  h_streams h ch = Some s -> wf_stream s -> off < U64 - 1 ->
  snd (sub_stream lim filt h ch off ep reject meta []) =
  if stream_cond s lim off ep
  then ROk true (visible_after filt s off) off (s_epoch s)
  else if reject then RErr ErrUnrecoverablePosition
       else ROk false [] (s_top s) (s_epoch s).
Proof.
  intros lim filt h ch s off ep reject meta Hs Hwf Hoff.
  destruct (rec_limit_cases lim) as (L0 & Lneg & Lpos).
  set (f := mkFilter (Some (off, ep)) (rec_limit lim) false).
  assert (Hok : filter_ok f = true) by (unfold filter_ok, f; cbn [f_since f_rev]; lia).
  pose proof (srel_get s (achan_of s) f (wf_srel s Hwf) Hok) as G.
  destruct (wf_srel s Hwf) as (_ & _ & _ & _ & _ & EI).
  cbn [achan_of a_top] in G. rewrite <- EI in G.
  pose proof (hub_get_some h ch s f meta Hs) as HG. rewrite G in HG.
  unfold sub_stream, node_history. fold f. cbn [f f_since f_rev andb].
  destruct (hub_get h ch f meta) as [h1 o] eqn:EH. cbn [snd] in HG. subst o.
  cbn [race_pubs].
  (* the items returned *)
  unfold spec_filter in *. cbn [f f_limit f_since f_rev] in *.
  replace (rec_limit lim =? 0)%Z with false in * by lia.
  destruct Hwf as (Hlen & Hnum).
  set (lo := s_top s - N.of_nat (length (s_items s))) in *.
  set (ids := map i_id (s_items s)) in *.
  assert (Hlenids : length ids = length (s_items s)) by (unfold ids; apply map_length).
  unfold stream_cond. fold lo.
  destruct ((ep =? 0) || (ep =? s_epoch s)) eqn:EE; cbn [andb].
  2:{ (* epoch mismatch: UnrecoverablePosition from the node *)
      cbn [snd]. replace (ErrUnrecoverablePosition =? ErrUnrecoverablePosition) with true by reflexivity.
      destruct reject; [reflexivity|].
      cbn [snd]. apply finish_not_recovered. }
  cbn [snd]. rewrite !snd_if. cbn [snd].
  replace (negb (ep =? 0) && negb (s_epoch s =? ep)) with false by lia.
  unfold visible_after. rewrite Hnum. fold ids.
  destruct (lo <=? off) eqn:E1; cbn [andb].
  2:{ (* offset trimmed away: the read falls back to the front *)
      rewrite filter_gt_all by lia. rewrite take_number by auto.
      destruct ids as [|x r] eqn:EI2.
      - replace (if (rec_limit lim <? 0)%Z then [] else firstn (Z.to_nat (rec_limit lim)) []) with (@nil N)
          by (destruct (rec_limit lim <? 0)%Z; [reflexivity|rewrite firstn_nil; reflexivity]).
        cbn [length] in *. cbn [number]. replace (s_top s =? off) with false by lia.
        cbn [negb]. destruct reject; [reflexivity|apply finish_not_recovered].
      - assert (HH : exists y r', (if (rec_limit lim <? 0)%Z then x :: r else firstn (Z.to_nat (rec_limit lim)) (x :: r)) = y :: r').
        { destruct (rec_limit lim <? 0)%Z; [eauto|].
          destruct (Z.to_nat (rec_limit lim)) eqn:EN; [lia|]. cbn [firstn]. eauto. }
        destruct HH as (y & r' & ->). cbn [number i_off].
        replace (lo + 1 =? wadd1 off) with false by (unfold wadd1; destruct (off =? U64 - 1); lia).
        cbn [andb negb]. destruct reject; [reflexivity|apply finish_not_recovered]. }
  destruct (off <=? s_top s) eqn:E2; cbn [andb].
  2:{ rewrite filter_gt_none by lia. rewrite take_nil. replace (s_top s =? off) with false by lia.
      cbn [negb]. destruct reject; [reflexivity|apply finish_not_recovered]. }
  rewrite number_filter_gt by lia. rewrite take_number by auto.
  set (rest := skipn (N.to_nat (off - lo)) ids).
  assert (Hrest : N.of_nat (length rest) = s_top s - off).
  { unfold rest. rewrite skipn_length. lia. }
  set (sel := if (rec_limit lim <? 0)%Z then rest else firstn (Z.to_nat (rec_limit lim)) rest).
  assert (Hrec : (match number off sel with
                  | [] => s_top s =? off
                  | it0 :: _ => (i_off it0 =? wadd1 off) && (i_off (last (number off sel) it0) =? s_top s)
                  end) = ((lim <=? 0)%Z || (Z.of_N (s_top s - off) <=? lim)%Z)).
  { destruct sel as [|y r'] eqn:ES.
    - cbn [number]. unfold sel in ES.
      destruct (rec_limit lim <? 0)%Z eqn:EL.
      + subst rest. rewrite ES in Hrest. cbn [length] in Hrest. lia.
      + destruct rest as [|z rr]; [cbn [length] in Hrest; lia|].
        destruct (Z.to_nat (rec_limit lim)) eqn:EN; [lia|discriminate].
    - change (number off (y :: r')) with (mkItem (off + 1) y :: number (off + 1) r').
      cbn [i_off]. replace (off + 1 =? wadd1 off) with true
        by (unfold wadd1; replace (off =? U64 - 1) with false by lia; lia).
      cbn [andb].
      change (mkItem (off + 1) y :: number (off + 1) r') with (number off (y :: r')).
      rewrite number_last by congruence.
      assert (Hsel : length sel = if (rec_limit lim <? 0)%Z then length rest
                                  else Nat.min (Z.to_nat (rec_limit lim)) (length rest)).
      { unfold sel. destruct (rec_limit lim <? 0)%Z; [reflexivity|apply firstn_length]. }
      rewrite ES in Hsel. destruct (rec_limit lim <? 0)%Z eqn:EL.
      + replace (lim <=? 0)%Z with true by lia. cbn [orb]. lia.
      + assert (0 < lim)%Z by lia. rewrite (Lpos H) in *. replace (lim <=? 0)%Z with false by lia.
        cbn [orb]. lia. }
  rewrite Hrec.
  destruct ((lim <=? 0)%Z || (Z.of_N (s_top s - off) <=? lim)%Z) eqn:E3; cbn [negb].
  2:{ destruct reject; [reflexivity|apply finish_not_recovered]. }
  (* recovered: merge with the empty buffer strips the filtered markers *)
  unfold finish.
  destruct (merge_sorted_nil _ (to_pub_sorted filt sel off)) as (m & ->).
  cbn [negb]. rewrite strip_map.
  assert (sel = rest) as ->.
  { unfold sel. destruct (rec_limit lim <? 0)%Z eqn:EL; auto.
    apply firstn_all2.
    assert (0 < lim)%Z by lia. rewrite (Lpos H). lia. }
  reflexivity.
Qed.

Lemma number_has_off : forall ids lo o,
  lo < o -> o <= lo + N.of_nat (length ids) -> exists id, In (mkItem o id) (number lo ids).
Proof.
  induction ids as [|x r IH]; intros lo o H1 H2; cbn [length number] in *; [lia|].
  destruct (o =? lo + 1) eqn:E.
  - exists x. left. f_equal. lia.
  - destruct (IH (lo + 1) o) as (id & Hid); [lia|lia|]. exists id. right. exact Hid.
Qed.

Definition is_recovered (r : sres) : bool :=
  match r with ROk true _ _ _ => true | _ => false end.

(* recovered=true: exactly the publications after the offset up to the top,
   minus the filtered ones; epoch matches; nothing in (offset, top] is missing;
   the recovery limit did not truncate *)
Theorem stream_exact : forall lim filt h ch s off ep reject meta,
  reachable h -> h_streams h ch = Some s -> off < U64 - 1 ->
  let r := snd (sub_stream lim filt h ch off ep reject meta []) in
  is_recovered r = true ->
  r = ROk true (visible_after filt s off) off (s_epoch s) /\
  (ep = 0 \/ ep = s_epoch s) /\
  (forall o, off < o -> o <= s_top s -> exists id, In (mkItem o id) (s_items s)) /\
  off <= s_top s /\
  ((lim <= 0)%Z \/ (Z.of_N (s_top s - off) <= lim)%Z).
Proof.
  intros lim filt h ch s off ep reject meta Hr Hs Hoff r Hrec.
  pose proof (reachable_wf h Hr ch s Hs) as Hwf.
  unfold r in *. rewrite (stream_decision lim filt h ch s off ep reject meta Hs Hwf Hoff) in *.
  destruct (stream_cond s lim off ep) eqn:EC.
  2:{ destruct reject; discriminate. }
  unfold stream_cond in EC. split; [reflexivity|].
  destruct Hwf as (Hlen & Hnum).
  repeat split; try lia.
  intros o H1 H2. rewrite Hnum.
  destruct (number_has_off (map i_id (s_items s)) (s_top s - N.of_nat (length (s_items s))) o) as (id & Hid);
    [lia|rewrite map_length; lia|]. exists id. exact Hid.
Qed.

(* not recovered: no publications, or the UnrecoverablePosition error exactly
   when the client demanded it *)
Theorem stream_refused : forall lim filt h ch s off ep reject meta,
  reachable h -> h_streams h ch = Some s -> off < U64 - 1 ->
  let r := snd (sub_stream lim filt h ch off ep reject meta []) in
  is_recovered r = false ->
  r = if reject then RErr ErrUnrecoverablePosition else ROk false [] (s_top s) (s_epoch s).
Proof.
  intros lim filt h ch s off ep reject meta Hr Hs Hoff r Hrec.
  pose proof (reachable_wf h Hr ch s Hs) as Hwf.
  unfold r in *. rewrite (stream_decision lim filt h ch s off ep reject meta Hs Hwf Hoff) in *.
  destruct (stream_cond s lim off ep); [discriminate|reflexivity].
Qed.

(* recovered=true is never reported when a publication after the requested
   offset is missing from history, when the epoch differs, or when the
   recovery publication limit truncates the result *)
Theorem stream_never_lies : forall lim filt h ch s off ep reject meta,
  reachable h -> h_streams h ch = Some s -> off < U64 - 1 ->
  (exists o, off < o /\ o <= s_top s /\ forall id, ~ In (mkItem o id) (s_items s)) \/
  (ep <> 0 /\ ep <> s_epoch s) \/
  ((0 < lim)%Z /\ (lim < Z.of_N (s_top s - off))%Z) ->
  is_recovered (snd (sub_stream lim filt h ch off ep reject meta [])) = false.
Proof.
  intros lim filt h ch s off ep reject meta Hr Hs Hoff Hbad.
  pose proof (reachable_wf h Hr ch s Hs) as Hwf.
  rewrite (stream_decision lim filt h ch s off ep reject meta Hs Hwf Hoff).
  destruct (stream_cond s lim off ep) eqn:EC; [|destruct reject; reflexivity].
  exfalso. unfold stream_cond in EC. destruct Hwf as (Hlen & Hnum).
  destruct Hbad as [(o & H1 & H2 & H3) | [(H1 & H2) | (H1 & H2)]]; try lia.
  destruct (number_has_off (map i_id (s_items s)) (s_top s - N.of_nat (length (s_items s))) o) as (id & Hid);
    [lia|rewrite map_length; lia|].
  rewrite <- Hnum in Hid. exact (H3 id Hid).
Qed.

(* and it IS reported whenever none of these holds (the decision is exact) *)
Theorem stream_recovers_when_possible : forall lim filt h ch s off ep reject meta,
  reachable h -> h_streams h ch = Some s -> off < U64 - 1 ->
  (ep = 0 \/ ep = s_epoch s) ->
  s_top s - N.of_nat (length (s_items s)) <= off -> off <= s_top s ->
  ((lim <= 0)%Z \/ (Z.of_N (s_top s - off) <= lim)%Z) ->
  snd (sub_stream lim filt h ch off ep reject meta []) =
  ROk true (visible_after filt s off) off (s_epoch s).
Proof.
  intros lim filt h ch s off ep reject meta Hr Hs Hoff He H1 H2 H3.
  pose proof (reachable_wf h Hr ch s Hs) as Hwf.
  rewrite (stream_decision lim filt h ch s off ep reject meta Hs Hwf Hoff).
  replace (stream_cond s lim off ep) with true; [reflexivity|].
  unfold stream_cond. lia.
Qed.

(* ----------------------------------------------------- C03: cache mode *)

Definition same_position (s : stream) (off ep : N) : bool :=
  (0 <? off) && (off =? s_top s) && (ep =? s_epoch s).

Definition cache_scanned (lim : Z) (uf : bool) (s : stream) : list item :=
  take (if uf then rec_limit lim else 1%Z) (rev (s_items s)).

Definition cache_pick (lim : Z) (uf : bool) (filt : N -> bool) (s : stream) : option item :=
  if uf then find (fun it => negb (filt (i_id it))) (cache_scanned lim uf s)
  else hd_error (cache_scanned lim uf s).

Lemma finish_cache_single : forall o i top ep off,
  finish true true [mkPub o false i] [] top ep off = ROk true [mkItem o i] off ep.
Proof. intros. unfold finish, merge, uniq. cbn. reflexivity. Qed.

Lemma finish_cache_none : forall rc top ep off,
  finish true rc [] [] top ep off = if rc then ROk true [] off ep else ROk false [] top ep.
Proof. intros. unfold finish. cbn. destruct rc; [reflexivity|]. destruct top; reflexivity. Qed.

Lemma hd_take : forall L (l : list item), (L <> 0)%Z -> hd_error (take L l) = hd_error l.
Proof.
  intros. unfold take. destruct (L <? 0)%Z eqn:E1; auto.
  destruct (Z.of_nat (length l) <=? L)%Z; auto.
  destruct (Z.to_nat L) eqn:EN; [lia|]. destruct l; reflexivity.
Qed.

Lemma rev_number_hd : forall ids lo, ids <> [] ->
  exists id, hd_error (rev (number lo ids)) = Some (mkItem (lo + N.of_nat (length ids)) id).
Proof.
  intros ids lo H. destruct (exists_last H) as (r & x & ->).
  rewrite number_app. cbn [number]. rewrite rev_app_distr. cbn [rev app hd_error].
  exists x. f_equal. f_equal. rewrite app_length. cbn [length]. lia.
Qed.

(* the complete cache-mode decision when the cache-empty handler is absent or
   reports "not populated" *)
Theorem cache_decision : forall lim uf filt hnd h ch s off ep meta,
  h_streams h ch = Some s -> wf_stream s -> hnd = HNone \/ hnd = HNo ->
  snd (sub_cache lim uf filt hnd h ch off ep meta []) =
  match cache_pick lim uf filt s with
  | Some p => if same_position s off ep then ROk true [] off (s_epoch s)
              else ROk true [p] off (s_epoch s)
  | None => if same_position s off ep then ROk true [] off (s_epoch s)
            else ROk false [] (s_top s) (s_epoch s)
  end.
Proof.
  intros lim uf filt hnd h ch s off ep meta Hs Hwf Hh.
  destruct (rec_limit_cases lim) as (L0 & _ & _).
  unfold sub_cache, recover_cache, node_history.
  set (f := if uf then mkFilter None (rec_limit lim) true else mkFilter None 1 true).
  assert (Hf : f_since f = None /\ f_rev f = true /\ (f_limit f <> 0)%Z /\
               f_limit f = (if uf then rec_limit lim else 1%Z)).
  { unfold f. destruct uf; cbn [f_since f_rev f_limit]; repeat split; auto; discriminate. }
  destruct Hf as (F1 & F2 & F3 & F4). rewrite F1.
  pose proof (hub_get_some h ch s f meta Hs) as HG.
  assert (GI : get_items s f = cache_scanned lim uf s).
  { unfold get_items, cache_scanned. rewrite F1, F2, <- F4.
    replace (f_limit f =? 0)%Z with false by lia. unfold sget. cbn [andb].
    replace (f_limit f =? 0)%Z with false by lia. reflexivity. }
  rewrite GI in HG.
  destruct (hub_get h ch f meta) as [h1 o]. cbn [snd] in HG. subst o.
  unfold cache_pick. set (sc := cache_scanned lim uf s) in *.
  (* the newest retained item, if any, carries the top offset *)
  assert (HL : forall l, hd_error sc = Some l -> i_off l = s_top s).
  { intros l Hl. unfold sc, cache_scanned in Hl. rewrite hd_take in Hl by (destruct uf; lia).
    destruct Hwf as (Hlen & Hnum). rewrite Hnum in Hl.
    destruct (map i_id (s_items s)) as [|x r] eqn:EI.
    - cbn in Hl. discriminate.
    - destruct (rev_number_hd (x :: r) (s_top s - N.of_nat (length (s_items s)))) as (id & Hid); [congruence|].
      rewrite Hid in Hl. inversion Hl; subst l. cbn [i_off].
      assert (length (x :: r) = length (s_items s)) by (rewrite <- EI; apply map_length).
      cbn [length] in *. lia. }
  unfold is_cache_recovered, same_position.
  assert (FIN : forall hh pubs rc,
     snd (hh : hub, finish true rc (map (to_pub (fun _ => false)) pubs) [] (s_top s) (s_epoch s) off) =
     finish true rc (map (to_pub (fun _ => false)) pubs) [] (s_top s) (s_epoch s) off) by reflexivity.
  destruct uf.
  - (* filters present *)
    destruct (find (fun it => negb (filt (i_id it))) sc) as [p|] eqn:EF.
    + destruct (hd_error sc) as [l|] eqn:EH.
      2:{ destruct sc; [discriminate|discriminate]. }
      rewrite (HL l eq_refl), N.eqb_refl. cbn [andb].
      destruct ((0 <? off) && (off =? s_top s) && (ep =? s_epoch s)); cbn [negb];
        destruct Hh as [-> | ->]; cbn [snd map to_pub];
        try apply finish_cache_none; destruct p; apply finish_cache_single.
    + destruct ((0 <? off) && (off =? s_top s) && (ep =? s_epoch s)); destruct Hh as [-> | ->]; cbn [snd map]; apply finish_cache_none.
  - (* no filters: limit 1 reverse *)
    destruct (hd_error sc) as [l|] eqn:EH.
    + rewrite (HL l eq_refl), N.eqb_refl. cbn [andb].
      destruct ((0 <? off) && (off =? s_top s) && (ep =? s_epoch s)); cbn [negb];
        destruct Hh as [-> | ->]; cbn [snd map to_pub];
        try apply finish_cache_none; destruct l; apply finish_cache_single.
    + destruct ((0 <? off) && (off =? s_top s) && (ep =? s_epoch s)); destruct Hh as [-> | ->]; cbn [snd map]; apply finish_cache_none.
Qed.

Lemma find_take_full : forall (p : item -> bool) L l x,
  find p (take L l) = Some x -> find p l = Some x.
Proof.
  intros p L l x. unfold take. destruct (L <? 0)%Z; auto.
  destruct (Z.of_nat (length l) <=? L)%Z; auto.
  generalize (Z.to_nat L). intros n. revert l.
  induction n; intros l; cbn [firstn]; [discriminate|].
  destruct l as [|y l]; [discriminate|]. cbn [find]. destruct (p y); auto.
Qed.

Definition res_pubs (r : sres) : list item := match r with ROk _ p _ _ => p | RErr _ => [] end.

(* newest retained publication that passes the filters *)
Definition newest_vis (uf : bool) (filt : N -> bool) (s : stream) : option item :=
  if uf then find (fun it => negb (filt (i_id it))) (rev (s_items s)) else hd_error (rev (s_items s)).

(* at most the single newest visible publication is delivered *)
Theorem cache_at_most_newest_visible : forall lim uf filt hnd h ch s off ep meta,
  reachable h -> h_streams h ch = Some s -> hnd = HNone \/ hnd = HNo ->
  let pubs := res_pubs (snd (sub_cache lim uf filt hnd h ch off ep meta [])) in
  pubs = [] \/ exists p, pubs = [p] /\ newest_vis uf filt s = Some p.
Proof.
  intros lim uf filt hnd h ch s off ep meta Hr Hs Hh pubs.
  pose proof (reachable_wf h Hr ch s Hs) as Hwf.
  unfold pubs. rewrite (cache_decision lim uf filt hnd h ch s off ep meta Hs Hwf Hh).
  destruct (cache_pick lim uf filt s) as [p|] eqn:EP; destruct (same_position s off ep); cbn [res_pubs]; auto.
  right. exists p. split; auto.
  unfold cache_pick, newest_vis, cache_scanned in *. destruct uf.
  - eapply find_take_full; eauto.
  - rewrite hd_take in EP by lia. exact EP.
Qed.

(* recovered=true only when the newest publication is present in history or the
   client holds the current position *)
Theorem cache_recovered_implies : forall lim uf filt hnd h ch s off ep meta,
  reachable h -> h_streams h ch = Some s -> hnd = HNone \/ hnd = HNo ->
  is_recovered (snd (sub_cache lim uf filt hnd h ch off ep meta [])) = true ->
  s_items s <> [] \/ same_position s off ep = true.
Proof.
  intros lim uf filt hnd h ch s off ep meta Hr Hs Hh.
  pose proof (reachable_wf h Hr ch s Hs) as Hwf.
  rewrite (cache_decision lim uf filt hnd h ch s off ep meta Hs Hwf Hh).
  destruct (same_position s off ep); [auto|].
  destruct (cache_pick lim uf filt s) as [p|] eqn:EP; [|discriminate].
  intros _. left. intros E. unfold cache_pick, cache_scanned in EP. rewrite E in EP. cbn [rev] in EP.
  rewrite take_nil in EP. destruct uf; discriminate.
Qed.

(* without tags filters the report is exact: recovered=true iff the newest
   publication is present in history or the client holds the position *)
Theorem cache_recovered_iff_unfiltered : forall lim filt hnd h ch s off ep meta,
  reachable h -> h_streams h ch = Some s -> hnd = HNone \/ hnd = HNo ->
  (is_recovered (snd (sub_cache lim false filt hnd h ch off ep meta [])) = true <->
   s_items s <> [] \/ same_position s off ep = true).
Proof.
  intros lim filt hnd h ch s off ep meta Hr Hs Hh. split.
  - apply cache_recovered_implies; auto.
  - pose proof (reachable_wf h Hr ch s Hs) as Hwf.
    rewrite (cache_decision lim false filt hnd h ch s off ep meta Hs Hwf Hh).
    intros [H|H].
    + unfold cache_pick, cache_scanned. rewrite hd_take by lia.
      destruct (rev (s_items s)) as [|x r] eqn:ER.
      * exfalso. apply H. apply (f_equal (@rev item)) in ER. rewrite rev_involutive in ER. exact ER.
      * cbn [hd_error]. destruct (same_position s off ep); reflexivity.
    + rewrite H. destruct (cache_pick lim false filt s); reflexivity.
Qed.

(* with tags filters: recovered=true iff a scanned publication is visible or the
   client holds the position *)
Theorem cache_recovered_iff_filtered : forall lim filt hnd h ch s off ep meta,
  reachable h -> h_streams h ch = Some s -> hnd = HNone \/ hnd = HNo ->
  (is_recovered (snd (sub_cache lim true filt hnd h ch off ep meta [])) = true <->
   (exists p, find (fun it => negb (filt (i_id it))) (cache_scanned lim true s) = Some p) \/
   same_position s off ep = true).
Proof.
  intros lim filt hnd h ch s off ep meta Hr Hs Hh.
  pose proof (reachable_wf h Hr ch s Hs) as Hwf.
  rewrite (cache_decision lim true filt hnd h ch s off ep meta Hs Hwf Hh).
  unfold cache_pick.
  destruct (find (fun it => negb (filt (i_id it))) (cache_scanned lim true s)) as [p|];
    destruct (same_position s off ep); cbn [is_recovered]; split; intros H; auto;
    try (left; eexists; reflexivity); try discriminate.
  destruct H as [(p & X)|X]; discriminate.
Qed.

(* ------------- publications arriving during the subscribe (any buffer) *)

Lemma finish_refused_no_pubs : forall cm rec buf top ep off,
  res_pubs (finish cm false rec buf top ep off) = [].
Proof.
  intros. unfold finish. destruct (merge rec buf) as [[m mx] ok].
  destruct ok; cbn [negb]; reflexivity.
Qed.

Lemma finish_cache_at_most_one : forall rc rec buf top ep off,
  (length (res_pubs (finish true rc rec buf top ep off)) <= 1)%nat.
Proof.
  intros. unfold finish. destruct (merge rec buf) as [[m mx] ok].
  destruct ok; cbn [negb res_pubs length]; [|lia].
  destruct rc; cbn [res_pubs length]; [|lia].
  destruct m as [|a [|b l]]; cbn [map length]; lia.
Qed.

Lemma finish_recovered_shape : forall cm rec buf top ep off,
  is_recovered (finish cm true rec buf top ep off) = false ->
  res_pubs (finish cm true rec buf top ep off) = [].
Proof.
  intros cm rec buf top ep off. unfold finish. destruct (merge rec buf) as [[m mx] ok].
  destruct ok; cbn [negb is_recovered res_pubs]; [discriminate|reflexivity].
Qed.

(* C02, for ANY broker state, request and ANY publications racing the
   subscribe: a reply that is not "recovered" carries no publications *)
Theorem stream_refused_never_delivers : forall lim filt h ch off ep reject meta race,
  let r := snd (sub_stream lim filt h ch off ep reject meta race) in
  is_recovered r = false -> res_pubs r = [].
Proof.
  intros lim filt h ch off ep reject meta race r. unfold r, sub_stream.
  destruct (node_history h ch _ meta) as [h0 cr].
  destruct (race_pubs filt h0 ch race) as [h1 buf].
  destruct cr as [code|items top epc].
  - destruct (code =? ErrUnrecoverablePosition); [|reflexivity].
    destruct reject; [reflexivity|].
    destruct (snd (hub_get h ch _ meta)); cbn [snd]; intros; try reflexivity.
    apply finish_refused_no_pubs.
  - match goal with |- context [if negb ?b then _ else _] => destruct b end; cbn [negb].
    + cbn [snd]. apply finish_recovered_shape.
    + destruct reject; cbn [snd]; intros; [reflexivity|apply finish_refused_no_pubs].
Qed.

(* C03, for ANY broker state, request, cache-empty handler script and ANY
   publications racing the subscribe: at most one publication is delivered *)
Theorem cache_at_most_one : forall lim uf filt hnd h ch off ep meta race,
  (length (res_pubs (snd (sub_cache lim uf filt hnd h ch off ep meta race))) <= 1)%nat.
Proof.
  intros. unfold sub_cache.
  destruct (recover_cache lim uf filt h ch meta) as [h0 r].
  destruct (race_pubs filt h0 ch race) as [h1 rbuf].
  destruct r as [[[[latest recp] top] epc]|]; [|cbn; lia].
  destruct (is_cache_recovered latest recp top epc off ep) as [pubs rc].
  destruct latest as [l|]; [cbn [snd]; apply finish_cache_at_most_one|].
  destruct hnd as [| |ps]; try (cbn [snd]; apply finish_cache_at_most_one).
  destruct (race_pubs filt h1 ch ps) as [h2 hbuf].
  destruct (negb rc); [|cbn [snd]; apply finish_cache_at_most_one].
  destruct (recover_cache lim uf filt h2 ch meta) as [h3 r2].
  destruct r2 as [[[[latest2 recp2] top2] ep2]|]; [|cbn; lia].
  destruct (is_cache_recovered latest2 recp2 top2 ep2 off ep) as [pubs2 rc2].
  cbn [snd]. apply finish_cache_at_most_one.
Qed.

(* -------- C03 over arbitrary cache-empty handler scripts and raced pubs *)

Lemma sub_cache_is_finish : forall lim uf filt hnd h ch off ep meta race,
  snd (sub_cache lim uf filt hnd h ch off ep meta race) =
  match sub_cache_tr lim uf filt hnd h ch off ep meta race with
  | Some t => finish true (ct_rc t) (map (to_pub (fun _ => false)) (ct_pubs t)) (ct_buf t)
                     (ct_top t) (ct_ep t) off
  | None => RErr 100
  end.
Proof.
  intros. unfold sub_cache, sub_cache_tr.
  destruct (recover_cache lim uf filt h ch meta) as [h0 r].
  destruct (race_pubs filt h0 ch race) as [h1 rbuf].
  destruct r as [[[[latest recp] top] epc]|]; [|reflexivity].
  destruct (is_cache_recovered latest recp top epc off ep) as [pubs rc].
  destruct latest as [l|]; [reflexivity|].
  destruct hnd as [| |ps]; try reflexivity.
  destruct (race_pubs filt h1 ch ps) as [h2 hbuf].
  destruct (negb rc); [|reflexivity].
  destruct (recover_cache lim uf filt h2 ch meta) as [h3 r2].
  destruct r2 as [[[[latest2 recp2] top2] ep2]|]; [|reflexivity].
  destruct (is_cache_recovered latest2 recp2 top2 ep2 off ep) as [pubs2 rc2]. reflexivity.
Qed.

(* reachability is closed under steps *)
Lemma run_snoc : forall ops h o, fst (run h (ops ++ [o])) = fst (step (fst (run h ops)) o).
Proof.
  unfold run. induction ops as [|x r IH]; intros h o; cbn [app run_with].
  - cbn [fst]. destruct (step h o) as [h1 y]. reflexivity.
  - destruct (step h x) as [h1 y]. specialize (IH h1 o).
    destruct (run_with step h1 (r ++ [o])) as [h2 ys]. destruct (run_with step h1 r) as [h3 zs].
    cbn [fst] in *. exact IH.
Qed.

Lemma reachable_step : forall h o, reachable h -> reachable (fst (step h o)).
Proof.
  intros h o (now & meta & ops & ->). exists now, meta, (ops ++ [o]). symmetry. apply run_snoc.
Qed.

Lemma race_pubs_reach : forall filt ps h ch,
  reachable h -> reachable (fst (race_pubs filt h ch ps)).
Proof.
  induction ps as [|[id po] r IH]; intros h ch Hr; cbn [race_pubs fst]; auto.
  pose proof (reachable_step h (Publish ch id po) Hr) as H1. cbn [step step_with] in H1.
  destruct (publish h ch id po) as [h1 o]. cbn [fst] in H1.
  specialize (IH h1 ch H1). destruct (race_pubs filt h1 ch r) as [h2 bs]. exact IH.
Qed.

Lemma race_pubs_markers : forall filt ps h ch,
  Forall (fun q => p_filt q = filt (p_id q)) (snd (race_pubs filt h ch ps)).
Proof.
  induction ps as [|[id po] r IH]; intros h ch; cbn [race_pubs snd]; [constructor|].
  destruct (publish h ch id po) as [h1 o]. specialize (IH h1 ch).
  destruct (race_pubs filt h1 ch r) as [h2 bs]. cbn [snd] in *.
  apply Forall_app. split; [|exact IH].
  destruct o as [off e supp dl| | |]; try constructor.
  destruct supp; constructor; [reflexivity|constructor].
Qed.

Lemma race_pubs_keeps_stream : forall filt ps h ch s,
  h_streams h ch = Some s -> exists s', h_streams (fst (race_pubs filt h ch ps)) ch = Some s'.
Proof.
  induction ps as [|[id po] r IH]; intros h ch s Hs; cbn [race_pubs fst]; eauto.
  pose proof (epoch_stable h (Publish ch id po) ch s Hs) as E. cbn [step step_with] in E.
  destruct (publish h ch id po) as [h1 o]. cbn [fst] in E.
  destruct (h_streams h1 ch) as [s1|] eqn:E1; [|destruct E; discriminate].
  destruct (IH h1 ch s1 E1) as (s' & Hs'). destruct (race_pubs filt h1 ch r) as [h2 bs]. eauto.
Qed.

Lemma recover_cache_hub : forall lim uf filt h ch meta,
  exists f, fst (recover_cache lim uf filt h ch meta) = fst (step h (History ch f meta)).
Proof.
  intros. unfold recover_cache, node_history.
  exists (if uf then mkFilter None (rec_limit lim) true else mkFilter None 1 true).
  set (f := if uf then _ else _).
  assert (f_since f = None) as -> by (unfold f; destruct uf; reflexivity).
  cbn [step step_with]. destruct (hub_get h ch f meta) as [h1 o].
  destruct o; cbn [fst]; try reflexivity.
  destruct uf; [destruct (find _ items)|]; reflexivity.
Qed.

(* one cache read + isCacheRecovered on a well-formed stream = the decision table *)
Lemma read_decision : forall lim uf filt hr ch s meta off ep latest recp top epc,
  h_streams hr ch = Some s -> wf_stream s ->
  snd (recover_cache lim uf filt hr ch meta) = Some (latest, recp, top, epc) ->
  top = s_top s /\ epc = s_epoch s /\
  is_cache_recovered latest recp top epc off ep =
  match cache_pick lim uf filt s with
  | Some p => if same_position s off ep then ([], true) else ([p], true)
  | None => ([], same_position s off ep)
  end.
Proof.
  intros lim uf filt hr ch s meta off ep latest recp top epc Hs Hwf HR.
  destruct (rec_limit_cases lim) as (L0 & _ & _).
  unfold recover_cache, node_history in HR.
  set (f := if uf then mkFilter None (rec_limit lim) true else mkFilter None 1 true) in *.
  assert (Hf : f_since f = None /\ f_rev f = true /\ (f_limit f <> 0)%Z /\
               f_limit f = (if uf then rec_limit lim else 1%Z)).
  { unfold f. destruct uf; cbn [f_since f_rev f_limit]; repeat split; auto; discriminate. }
  destruct Hf as (F1 & F2 & F3 & F4). rewrite F1 in HR.
  pose proof (hub_get_some hr ch s f meta Hs) as HG.
  assert (GI : get_items s f = cache_scanned lim uf s).
  { unfold get_items, cache_scanned. rewrite F1, F2, <- F4.
    replace (f_limit f =? 0)%Z with false by lia. unfold sget. cbn [andb].
    replace (f_limit f =? 0)%Z with false by lia. reflexivity. }
  rewrite GI in HG.
  destruct (hub_get hr ch f meta) as [h1 o]. cbn [snd] in HG. subst o.
  unfold cache_pick. set (sc := cache_scanned lim uf s) in *.
  assert (HL : forall l, hd_error sc = Some l -> i_off l = s_top s).
  { intros l Hl. unfold sc, cache_scanned in Hl. rewrite hd_take in Hl by (destruct uf; lia).
    destruct Hwf as (Hlen & Hnum). rewrite Hnum in Hl.
    destruct (map i_id (s_items s)) as [|x r] eqn:EI.
    - cbn in Hl. discriminate.
    - destruct (rev_number_hd (x :: r) (s_top s - N.of_nat (length (s_items s)))) as (id & Hid); [congruence|].
      rewrite Hid in Hl. inversion Hl; subst l. cbn [i_off].
      assert (length (x :: r) = length (s_items s)) by (rewrite <- EI; apply map_length).
      cbn [length] in *. lia. }
  unfold same_position.
  destruct uf.
  - destruct (find (fun it => negb (filt (i_id it))) sc) as [p|] eqn:EF; cbn [snd] in HR; inversion HR; subst.
    + split; [reflexivity|]. split; [reflexivity|].
      unfold is_cache_recovered.
      destruct (hd_error sc) as [l|] eqn:EH; [|destruct sc; discriminate].
      rewrite (HL l eq_refl), N.eqb_refl. cbn [andb].
      destruct ((0 <? off) && (off =? s_top s) && (ep =? s_epoch s)); reflexivity.
    + split; [reflexivity|]. split; [reflexivity|]. reflexivity.
  - cbn [snd] in HR. inversion HR; subst. split; [reflexivity|]. split; [reflexivity|].
    unfold is_cache_recovered.
    destruct (hd_error sc) as [l|] eqn:EH; [|reflexivity].
    rewrite (HL l eq_refl), N.eqb_refl. cbn [andb].
    destruct ((0 <? off) && (off =? s_top s) && (ep =? s_epoch s)); reflexivity.
Qed.

Lemma recover_cache_some : forall lim uf filt hr ch s meta,
  h_streams hr ch = Some s ->
  exists latest recp top epc, snd (recover_cache lim uf filt hr ch meta) = Some (latest, recp, top, epc).
Proof.
  intros. unfold recover_cache, node_history.
  set (f := if uf then _ else _).
  assert (f_since f = None) as -> by (unfold f; destruct uf; reflexivity).
  pose proof (hub_get_some hr ch s f meta H) as HG.
  destruct (hub_get hr ch f meta) as [h1 o]. cbn [snd] in HG. subst o.
  destruct uf; [destruct (find _ _)|]; cbn [snd]; eauto.
Qed.

Lemma recover_cache_keeps_stream : forall lim uf filt h ch s meta,
  h_streams h ch = Some s -> exists s', h_streams (fst (recover_cache lim uf filt h ch meta)) ch = Some s'.
Proof.
  intros lim uf filt h ch s meta Hs.
  destruct (recover_cache_hub lim uf filt h ch meta) as (f & ->).
  pose proof (epoch_stable h (History ch f meta) ch s Hs) as E.
  destruct (h_streams (fst (step h (History ch f meta))) ch); eauto. destruct E; discriminate.
Qed.

(* THE GENERAL DECISION: whatever the cache-empty handler publishes and
   whatever races the read, the reply is [finish] (merge with the PUB/SUB
   buffer, keep the last) applied to the decision table of ONE cache read of a
   reachable broker state [ct_read] - the state before the subscribe, or the
   state after the raced and the handler's publications when the handler
   populated an empty cache and the first attempt had not recovered. *)
Theorem cache_decision_general : forall lim uf filt hnd h ch s off ep meta race,
  reachable h -> h_streams h ch = Some s ->
  exists t sr,
    sub_cache_tr lim uf filt hnd h ch off ep meta race = Some t /\
    snd (sub_cache lim uf filt hnd h ch off ep meta race) =
      finish true (ct_rc t) (map (to_pub (fun _ => false)) (ct_pubs t)) (ct_buf t)
             (s_top sr) (s_epoch sr) off /\
    reachable (ct_read t) /\ h_streams (ct_read t) ch = Some sr /\ wf_stream sr /\
    (ct_pubs t, ct_rc t) =
      match cache_pick lim uf filt sr with
      | Some p => if same_position sr off ep then ([], true) else ([p], true)
      | None => ([], same_position sr off ep)
      end /\
    Forall (fun q => p_filt q = filt (p_id q)) (ct_buf t).
Proof.
  intros lim uf filt hnd h ch s off ep meta race Hr Hs.
  pose proof (sub_cache_is_finish lim uf filt hnd h ch off ep meta race) as EQ.
  unfold sub_cache_tr in *.
  pose proof (reachable_wf h Hr ch s Hs) as Hwf.
  destruct (recover_cache_some lim uf filt h ch s meta Hs) as (latest & recp & top & epc & R1).
  pose proof (read_decision lim uf filt h ch s meta off ep latest recp top epc Hs Hwf R1) as (T1 & E1 & D1).
  destruct (recover_cache_hub lim uf filt h ch meta) as (f1 & HF1).
  pose proof (reachable_step h (History ch f1 meta) Hr) as Hr0. rewrite <- HF1 in Hr0.
  destruct (recover_cache_keeps_stream lim uf filt h ch s meta Hs) as (s0 & Hs0).
  destruct (recover_cache lim uf filt h ch meta) as [h0 r]. cbn [fst snd] in *. subst r.
  pose proof (race_pubs_reach filt race h0 ch Hr0) as Hr1.
  pose proof (race_pubs_markers filt race h0 ch) as M1.
  destruct (race_pubs_keeps_stream filt race h0 ch s0 Hs0) as (s1 & Hs1).
  destruct (race_pubs filt h0 ch race) as [h1 rbuf]. cbn [fst snd] in *.
  destruct (is_cache_recovered latest recp top epc off ep) as [pubs rc] eqn:EI.
  assert (BASE : exists t sr,
     Some (mkCtrace h pubs rc rbuf top epc) = Some t /\
     finish true rc (map (to_pub (fun _ => false)) pubs) rbuf top epc off =
       finish true (ct_rc t) (map (to_pub (fun _ => false)) (ct_pubs t)) (ct_buf t) (s_top sr) (s_epoch sr) off /\
     reachable (ct_read t) /\ h_streams (ct_read t) ch = Some sr /\ wf_stream sr /\
     (ct_pubs t, ct_rc t) = match cache_pick lim uf filt sr with
                            | Some p => if same_position sr off ep then ([], true) else ([p], true)
                            | None => ([], same_position sr off ep) end /\
     Forall (fun q => p_filt q = filt (p_id q)) (ct_buf t)).
  { exists (mkCtrace h pubs rc rbuf top epc), s. cbn [ct_read ct_pubs ct_rc ct_buf].
    subst top epc. repeat split; auto; apply Hwf. }
  destruct latest as [l|].
  { destruct BASE as (t & sr & A & B & C). exists t, sr. split; [exact A|]. split; [|exact C].
    rewrite EQ. inversion A; subst t. exact B. }
  destruct hnd as [| |ps].
  1,2: destruct BASE as (t & sr & A & B & C); exists t, sr; split; [exact A|]; split; [|exact C];
       rewrite EQ; inversion A; subst t; exact B.
  pose proof (race_pubs_reach filt ps h1 ch Hr1) as Hr2.
  pose proof (race_pubs_markers filt ps h1 ch) as M2.
  destruct (race_pubs_keeps_stream filt ps h1 ch s1 Hs1) as (s2 & Hs2).
  destruct (race_pubs filt h1 ch ps) as [h2 hbuf]. cbn [fst snd] in *.
  destruct (negb rc) eqn:ERC.
  - pose proof (reachable_wf h2 Hr2 ch s2 Hs2) as Hwf2.
    destruct (recover_cache_some lim uf filt h2 ch s2 meta Hs2) as (latest2 & recp2 & top2 & ep2 & R2).
    pose proof (read_decision lim uf filt h2 ch s2 meta off ep latest2 recp2 top2 ep2 Hs2 Hwf2 R2) as (T2 & E2 & D2).
    destruct (recover_cache lim uf filt h2 ch meta) as [h3 r2]. cbn [snd] in R2. subst r2.
    destruct (is_cache_recovered latest2 recp2 top2 ep2 off ep) as [pubs2 rc2] eqn:EI2.
    exists (mkCtrace h2 pubs2 rc2 (rbuf ++ hbuf) top2 ep2), s2.
    cbn [ct_read ct_pubs ct_rc ct_buf ct_top ct_ep] in *. subst top2 ep2.
    repeat split; auto; try apply Hwf2. apply Forall_app; auto.
  - exists (mkCtrace h pubs rc (rbuf ++ hbuf) top epc), s.
    cbn [ct_read ct_pubs ct_rc ct_buf ct_top ct_ep] in *. subst top epc.
    repeat split; auto; try apply Hwf. apply Forall_app; auto.
Qed.

Lemma sorted_last_max : forall l d x, StronglySorted N.lt l -> In x l -> x <= last l d.
Proof.
  induction l as [|a l IH]; intros d x Hs Hin; [destruct Hin|].
  inversion Hs; subst. destruct l as [|b l'].
  - destruct Hin as [<-|[]]. cbn. lia.
  - change (last (a :: b :: l') d) with (last (b :: l') d).
    destruct Hin as [<-|Hin].
    + rewrite Forall_forall in H2. specialize (IH d b H1 (or_introl eq_refl)).
      specialize (H2 b (or_introl eq_refl)). lia.
    + apply IH; auto.
Qed.

Lemma last_in : forall (A : Type) (l : list A) d, l <> [] -> In (last l d) l.
Proof.
  induction l as [|a l IH]; intros d H; [congruence|].
  destruct l as [|b l']; [left; reflexivity|]. right. apply IH. congruence.
Qed.

Lemma map_last_off : forall (l : list pub) d, l <> [] -> last (map p_off l) (p_off d) = p_off (last l d).
Proof.
  induction l as [|a l IH]; intros d H; [congruence|].
  destruct l as [|b l']; [reflexivity|].
  change (map p_off (a :: b :: l')) with (p_off a :: map p_off (b :: l')).
  change (last (p_off a :: map p_off (b :: l')) (p_off d)) with (last (map p_off (b :: l')) (p_off d)).
  change (last (a :: b :: l') d) with (last (b :: l') d). apply IH. congruence.
Qed.

(* what [finish] delivers in cache mode: the non-marker publication with the
   largest offset among the recovered one and the buffered ones *)
Lemma finish_cache_delivered : forall rc rec buf top ep off p,
  In p (res_pubs (finish true rc rec buf top ep off)) ->
  exists q, In q (rec ++ buf) /\ p_filt q = false /\ p = of_pub q /\
            forall q', In q' (rec ++ buf) -> p_filt q' = false -> p_off q' <= p_off q.
Proof.
  intros rc rec buf top ep off p. unfold finish.
  pose proof (merge_meets_spec rec buf) as MS.
  destruct (merge rec buf) as [[m mx] ok].
  destruct ok; cbn [negb res_pubs]; [|intros []].
  destruct MS as (_ & MS). specialize (MS eq_refl). destruct MS as (Hss & Hnd & Hin & Hoffs & _).
  destruct rc; cbn [res_pubs]; [|intros []].
  set (d := mkPub 0 false 0).
  assert (HP : forall m', m' = match m with _ :: _ :: _ => [last m d] | _ => m end ->
               In p (map of_pub m') -> m <> [] /\ p = of_pub (last m d)).
  { intros m' -> H. destruct m as [|a [|b l]]; cbn [map In] in H.
    - destruct H.
    - destruct H as [<-|[]]. split; [congruence|reflexivity].
    - destruct H as [<-|[]]. split; [congruence|reflexivity]. }
  intros H. destruct (HP _ eq_refl H) as (Hne & ->).
  pose proof (last_in pub m d Hne) as Hl. destruct (Hin _ Hl) as (Hf & Hall).
  exists (last m d). repeat split; auto.
  intros q' Hq' Hf'.
  assert (In (p_off q') (map p_off m)).
  { apply Hoffs. unfold MergeSpec.real_offs. apply in_map. apply filter_In. split; auto. rewrite Hf'. reflexivity. }
  rewrite <- (map_last_off m d Hne). apply sorted_last_max; auto.
Qed.

Lemma finish_recovered_rc : forall cm rc rec buf top ep off,
  is_recovered (finish cm rc rec buf top ep off) = true -> rc = true.
Proof.
  intros cm rc rec buf top ep off. unfold finish. destruct (merge rec buf) as [[m mx] ok].
  destruct ok; cbn [negb is_recovered]; [|discriminate]. destruct rc; auto.
Qed.

Lemma cache_pick_visible : forall lim uf filt s p,
  cache_pick lim uf filt s = Some p -> uf = true \/ (forall id, filt id = false) ->
  filt (i_id p) = false /\ In p (s_items s).
Proof.
  intros lim uf filt s p HP Hv. unfold cache_pick, cache_scanned in HP.
  destruct uf.
  - pose proof (find_take_full _ _ _ _ HP) as HF. apply find_some in HF. destruct HF as (HI & HV).
    split; [destruct (filt (i_id p)); [discriminate|reflexivity]|]. apply in_rev. exact HI.
  - destruct Hv as [Hv|Hv]; [discriminate|]. split; [apply Hv|].
    rewrite hd_take in HP by lia. destruct (rev (s_items s)) as [|x r] eqn:ER; [discriminate|].
    cbn in HP. inversion HP; subst x. apply in_rev. rewrite ER. left. reflexivity.
Qed.

(* NEVER A PUBLICATION THAT IS NOT THE NEWEST VISIBLE ONE, for every handler
   script and every raced publication: a delivered publication passes the
   filters; it is the pick of the deciding cache read (the newest visible
   publication scanned in the reachable state [ct_read]) or a publication that
   reached the PUB/SUB buffer during the subscribe; and neither that pick nor
   any visible buffered publication is newer than it. *)
Theorem cache_delivered_general : forall lim uf filt hnd h ch s off ep meta race p,
  reachable h -> h_streams h ch = Some s -> uf = true \/ (forall id, filt id = false) ->
  In p (res_pubs (snd (sub_cache lim uf filt hnd h ch off ep meta race))) ->
  exists t sr,
    sub_cache_tr lim uf filt hnd h ch off ep meta race = Some t /\
    reachable (ct_read t) /\ h_streams (ct_read t) ch = Some sr /\
    filt (i_id p) = false /\
    (cache_pick lim uf filt sr = Some p \/ exists q, In q (ct_buf t) /\ p = of_pub q) /\
    (forall p', In p' (ct_pubs t) -> i_off p' <= i_off p) /\
    (forall q, In q (ct_buf t) -> p_filt q = false -> p_off q <= i_off p).
Proof.
  intros lim uf filt hnd h ch s off ep meta race p Hr Hs Hv Hin.
  destruct (cache_decision_general lim uf filt hnd h ch s off ep meta race Hr Hs)
    as (t & sr & HT & HE & Hrr & Hsr & Hwf & HD & HM).
  rewrite HE in Hin. apply finish_cache_delivered in Hin.
  destruct Hin as (q & Hq & Hf & -> & Hmax).
  exists t, sr. repeat split; auto.
  - (* visible *)
    apply in_app_or in Hq. destruct Hq as [Hq|Hq].
    + apply in_map_iff in Hq. destruct Hq as (it & <- & Hit). cbn [of_pub to_pub p_off p_id i_id].
      destruct (cache_pick lim uf filt sr) as [pp|] eqn:EP.
      * destruct (same_position sr off ep); inversion HD as [[A B]]; rewrite A in Hit; [destruct Hit|destruct Hit as [<-|[]]].
        apply (cache_pick_visible lim uf filt sr pp EP Hv).
      * inversion HD as [[A B]]. rewrite A in Hit. destruct Hit.
    + rewrite Forall_forall in HM. cbn [of_pub i_id]. rewrite <- (HM q Hq). exact Hf.
  - apply in_app_or in Hq. destruct Hq as [Hq|Hq].
    + left. apply in_map_iff in Hq. destruct Hq as (it & <- & Hit).
      destruct (cache_pick lim uf filt sr) as [pp|] eqn:EP.
      * destruct (same_position sr off ep); inversion HD as [[A B]]; rewrite A in Hit; [destruct Hit|destruct Hit as [<-|[]]].
        destruct pp; reflexivity.
      * inversion HD as [[A B]]. rewrite A in Hit. destruct Hit.
    + right. exists q. auto.
  - intros p' Hp'. specialize (Hmax (to_pub (fun _ => false) p')).
    cbn [of_pub i_off to_pub p_off] in *. apply Hmax; [|reflexivity].
    apply in_or_app. left. apply in_map. exact Hp'.
  - intros q' Hq' Hf'. cbn [of_pub i_off]. apply Hmax; auto. apply in_or_app. right. exact Hq'.
Qed.

(* recovered=true only when, in the reachable state of the deciding read, the
   newest publication is present or the client holds the position - for every
   handler script and raced publication *)
Theorem cache_recovered_only_if_general : forall lim uf filt hnd h ch s off ep meta race,
  reachable h -> h_streams h ch = Some s ->
  is_recovered (snd (sub_cache lim uf filt hnd h ch off ep meta race)) = true ->
  exists t sr,
    sub_cache_tr lim uf filt hnd h ch off ep meta race = Some t /\
    reachable (ct_read t) /\ h_streams (ct_read t) ch = Some sr /\
    (s_items sr <> [] \/ same_position sr off ep = true).
Proof.
  intros lim uf filt hnd h ch s off ep meta race Hr Hs Hrec.
  destruct (cache_decision_general lim uf filt hnd h ch s off ep meta race Hr Hs)
    as (t & sr & HT & HE & Hrr & Hsr & Hwf & HD & HM).
  rewrite HE in Hrec. apply finish_recovered_rc in Hrec.
  exists t, sr. repeat split; auto.
  destruct (cache_pick lim uf filt sr) as [pp|] eqn:EP.
  - left. intros E. unfold cache_pick, cache_scanned in EP. rewrite E in EP. cbn [rev] in EP.
    rewrite take_nil in EP. destruct uf; discriminate.
  - inversion HD as [[A B]]. right. congruence.
Qed.

(* ------------------------------------ server-side Client.Subscribe push *)

Theorem srv_stream_decision : forall lim filt h ch s off ep meta,
  h_streams h ch = Some s -> wf_stream s -> off < U64 - 1 ->
  snd (srv_stream lim filt h ch off ep meta) =
  if stream_cond s lim off ep then PSub off (s_epoch s) else PSub (s_top s) (s_epoch s).
Proof.
  intros lim filt h ch s off ep meta Hs Hwf Hoff. unfold srv_stream.
  pose proof (stream_decision lim filt h ch s off ep false meta Hs Hwf Hoff) as D.
  destruct (sub_stream lim filt h ch off ep false meta []) as [h1 r]. cbn [snd] in *. subst r.
  destruct (stream_cond s lim off ep); reflexivity.
Qed.

Theorem srv_cache_decision : forall lim uf filt hnd h ch s off ep meta,
  h_streams h ch = Some s -> wf_stream s -> hnd = HNone \/ hnd = HNo ->
  snd (srv_cache lim uf filt hnd h ch off ep meta) =
  match cache_pick lim uf filt s with
  | Some _ => PSub off (s_epoch s)
  | None => if same_position s off ep then PSub off (s_epoch s) else PSub (s_top s) (s_epoch s)
  end.
Proof.
  intros lim uf filt hnd h ch s off ep meta Hs Hwf Hh. unfold srv_cache.
  pose proof (cache_decision lim uf filt hnd h ch s off ep meta Hs Hwf Hh) as D.
  destruct (sub_cache lim uf filt hnd h ch off ep meta []) as [h1 r]. cbn [snd] in *. subst r.
  destruct (cache_pick lim uf filt s); destruct (same_position s off ep); reflexivity.
Qed.
