(* Proofs for C02 / C03: recovery decisions on subscribe over the memory
   broker model. *)
From Coq Require Import List NArith ZArith Bool Lia ZifyN ZifyNat ZifyBool Sorting.Sorted.
From Cfg Require Import Model.MemStream Model.StreamSpec Model.Merge Model.HistoryCmd Model.Recover
     Proofs.MemStreamLib Proofs.MemStream Proofs.HistoryCmd Proofs.Merge.
Import ListNotations.
Open Scope N_scope.

(* ------------------------------------------------ numbered lists, again *)

Lemma number_filter_gt : forall ids lo off,
  lo <= off -> off <= lo + N.of_nat (length ids) ->
  filter (fun it => off <? i_off it) (number lo ids) = number off (skipn (N.to_nat (off - lo)) ids).
Proof.
  induction ids as [|x r IH]; intros lo off H1 H2.
  - cbn [number filter length] in *. assert (off = lo) by lia. subst. rewrite skipn_nil. reflexivity.
  - destruct (off =? lo) eqn:E.
    + assert (off = lo) by lia. subst off. replace (lo - lo) with 0 by lia. cbn [N.to_nat skipn].
      apply filter_gt_all. lia.
    + cbn [number filter i_off length] in *. replace (off <? lo + 1) with false by lia.
      rewrite IH by lia. f_equal.
      replace (N.to_nat (off - lo)) with (S (N.to_nat (off - (lo + 1)))) by lia. reflexivity.
Qed.

Lemma number_firstn : forall n ids lo, firstn n (number lo ids) = number lo (firstn n ids).
Proof.
  induction n; intros; cbn [firstn]; auto.
  destruct ids; cbn [number firstn]; auto. f_equal. apply IHn.
Qed.

Lemma number_last : forall ids lo d, ids <> [] ->
  i_off (last (number lo ids) d) = lo + N.of_nat (length ids).
Proof.
  induction ids as [|x r IH]; intros lo d H; [congruence|].
  destruct r as [|y r'].
  - cbn. lia.
  - change (number lo (x :: y :: r')) with (mkItem (lo + 1) x :: number (lo + 1) (y :: r')).
    change (last (mkItem (lo + 1) x :: number (lo + 1) (y :: r')) d) with
           (last (number (lo + 1) (y :: r')) d).
    rewrite IH by congruence. cbn [length]. lia.
Qed.

Lemma take_number : forall L lo ids, (L <> 0)%Z ->
  take L (number lo ids) =
  number lo (if (L <? 0)%Z then ids else firstn (Z.to_nat L) ids).
Proof.
  intros. unfold take. destruct (L <? 0)%Z; auto.
  rewrite number_length.
  destruct (Z.of_nat (length ids) <=? L)%Z eqn:E.
  - rewrite firstn_all2 by lia. reflexivity.
  - apply number_firstn.
Qed.

(* ------------------------- MergePublications on a sorted list, no buffer *)

Definition lt_off (p q : pub) : Prop := p_off p < p_off q.

Lemma isort_sorted_id : forall l, StronglySorted lt_off l -> isort l = l.
Proof.
  induction 1 as [|p l Hs IH Hall]; cbn [isort]; auto.
  rewrite IH. destruct l as [|q l']; cbn [insert]; auto.
  inversion Hall; subst. unfold lt_off in *. replace (p_off p <=? p_off q) with true by lia. reflexivity.
Qed.

Lemma uniq_go_sorted : forall l keys maxo sk,
  StronglySorted lt_off l -> (forall k p, In k keys -> In p l -> k < p_off p) ->
  fst (fst (uniq_go l keys maxo sk)) = filter (fun p => negb (p_filt p)) l.
Proof.
  induction l as [|e l IH]; intros keys maxo sk Hs Hk; cbn [uniq_go filter]; auto.
  inversion Hs; subst.
  destruct (p_filt e) eqn:EF; cbn [negb].
  - apply IH; auto. intros; apply Hk; auto. right; auto.
  - assert (memN (p_off e) keys = false) as ->.
    { apply memN_false. intros HIn. specialize (Hk _ e HIn (or_introl eq_refl)). lia. }
    specialize (IH (p_off e :: keys) (if maxo <? p_off e then p_off e else maxo) sk H1).
    destruct (uniq_go l (p_off e :: keys) (if maxo <? p_off e then p_off e else maxo) sk) as [[l0 m] s0].
    cbn [fst] in *. f_equal. apply IH.
    intros k p [<-|HIn] Hp.
    + rewrite Forall_forall in H2. apply (H2 p Hp).
    + apply Hk; auto. right; auto.
Qed.

Lemma merge_sorted_nil : forall l, StronglySorted lt_off l ->
  exists m, merge l [] = (filter (fun p => negb (p_filt p)) l, m, true).
Proof.
  intros l Hs. unfold merge, uniq. rewrite isort_sorted_id by auto.
  pose proof (uniq_go_sorted l [] 0 [] Hs) as H.
  destruct (uniq_go l [] 0 []) as [[l0 m] s0]. cbn [fst] in H.
  exists m. rewrite H; auto. intros k p [].
Qed.

Lemma to_pub_sorted : forall filt ids lo,
  StronglySorted lt_off (map (to_pub filt) (number lo ids)).
Proof.
  induction ids as [|x r IH]; intros lo; cbn [number map]; constructor.
  - apply IH.
  - rewrite Forall_forall. intros p Hp. apply in_map_iff in Hp. destruct Hp as (it & <- & Hit).
    apply number_off_bounds in Hit. unfold lt_off, to_pub. cbn [p_off i_off]. lia.
Qed.

Lemma strip_map : forall filt l,
  map of_pub (filter (fun p => negb (p_filt p)) (map (to_pub filt) l)) =
  filter (fun it => negb (filt (i_id it))) l.
Proof.
  induction l as [|[o i] l IH]; cbn [map filter to_pub p_filt i_id]; auto.
  destruct (filt i); cbn [negb map of_pub p_off p_id]; rewrite IH; reflexivity.
Qed.

(* ---------------------------------------------------- C02: stream mode *)

(* the result of the whole stream-mode decision, by cases *)
Definition stream_cond (s : stream) (lim : Z) (off ep : N) : bool :=
  ((ep =? 0) || (ep =? s_epoch s)) &&
  (s_top s - N.of_nat (length (s_items s)) <=? off) && (off <=? s_top s) &&
  ((lim <=? 0)%Z || (Z.of_N (s_top s - off) <=? lim)%Z).

Definition visible_after (filt : N -> bool) (s : stream) (off : N) : list item :=
  filter (fun it => negb (filt (i_id it))) (filter (fun it => off <? i_off it) (s_items s)).

Lemma finish_not_recovered : forall top ep off,
  finish false false [] [] top ep off = ROk false [] top ep.
Proof.
  intros. unfold finish. cbn. destruct top; reflexivity.
Qed.

Lemma rec_limit_cases : forall lim,
  (rec_limit lim <> 0)%Z /\
  ((rec_limit lim <? 0)%Z = (lim <=? 0)%Z) /\ ((0 < lim)%Z -> rec_limit lim = lim).
Proof. intros. unfold rec_limit. destruct (0 <? lim)%Z eqn:E; lia. Qed.

Lemma snd_if : forall (A B : Type) (b : bool) (p q : A * B),
  snd (if b then p else q) = if b then snd p else snd q.
Proof. intros. destruct b; reflexivity. Qed.

Theorem stream_decision : forall lim filt h ch s off ep reject meta,
  h_streams h ch = Some s -> wf_stream s -> off < U64 - 1 ->
  snd (sub_stream lim filt h ch off ep reject meta []) =
  if stream_cond s lim off ep
  then ROk true (visible_after filt s off) off (s_epoch s)
  else if reject then RErr ErrUnrecoverablePosition
       else ROk false [] (s_top s) (s_epoch s).
Proof.
  intros lim filt h ch s off ep reject meta Hs Hwf Hoff.
  destruct (rec_limit_cases lim) as (L0 & Lneg & Lpos).
  set (f := mkFilter (Some (off, ep)) (rec_limit lim) false).
  assert (Hok : filter_ok f = true) by (unfold filter_ok, f; cbn [f_since f_rev]; lia).
  pose proof (srel_get s (achan_of s) f (wf_srel s Hwf) Hok) as G.
  destruct (wf_srel s Hwf) as (_ & _ & _ & _ & _ & EI).
  cbn [achan_of a_top] in G. rewrite <- EI in G.
  pose proof (hub_get_some h ch s f meta Hs) as HG. rewrite G in HG.
  unfold sub_stream, node_history. fold f. cbn [f f_since f_rev andb].
  destruct (hub_get h ch f meta) as [h1 o] eqn:EH. cbn [snd] in HG. subst o.
  cbn [race_pubs].
  (* the items returned *)
  unfold spec_filter in *. cbn [f f_limit f_since f_rev] in *.
  replace (rec_limit lim =? 0)%Z with false in * by lia.
  destruct Hwf as (Hlen & Hnum).
  set (lo := s_top s - N.of_nat (length (s_items s))) in *.
  set (ids := map i_id (s_items s)) in *.
  assert (Hlenids : length ids = length (s_items s)) by (unfold ids; apply map_length).
  unfold stream_cond. fold lo.
  destruct ((ep =? 0) || (ep =? s_epoch s)) eqn:EE; cbn [andb].
  2:{ (* epoch mismatch: UnrecoverablePosition from the node *)
      cbn [snd]. replace (ErrUnrecoverablePosition =? ErrUnrecoverablePosition) with true by reflexivity.
      destruct reject; [reflexivity|].
      cbn [snd]. apply finish_not_recovered. }
  cbn [snd]. rewrite !snd_if. cbn [snd].
  replace (negb (ep =? 0) && negb (s_epoch s =? ep)) with false by lia.
  unfold visible_after. rewrite Hnum. fold ids.
  destruct (lo <=? off) eqn:E1; cbn [andb].
  2:{ (* offset trimmed away: the read falls back to the front *)
      rewrite filter_gt_all by lia. rewrite take_number by auto.
      destruct ids as [|x r] eqn:EI2.
      - replace (if (rec_limit lim <? 0)%Z then [] else firstn (Z.to_nat (rec_limit lim)) []) with (@nil N)
          by (destruct (rec_limit lim <? 0)%Z; [reflexivity|rewrite firstn_nil; reflexivity]).
        cbn [length] in *. cbn [number]. replace (s_top s =? off) with false by lia.
        cbn [negb]. destruct reject; [reflexivity|apply finish_not_recovered].
      - assert (HH : exists y r', (if (rec_limit lim <? 0)%Z then x :: r else firstn (Z.to_nat (rec_limit lim)) (x :: r)) = y :: r').
        { destruct (rec_limit lim <? 0)%Z; [eauto|].
          destruct (Z.to_nat (rec_limit lim)) eqn:EN; [lia|]. cbn [firstn]. eauto. }
        destruct HH as (y & r' & ->). cbn [number i_off].
        replace (lo + 1 =? wadd1 off) with false by (unfold wadd1; destruct (off =? U64 - 1); lia).
        cbn [andb negb]. destruct reject; [reflexivity|apply finish_not_recovered]. }
  destruct (off <=? s_top s) eqn:E2; cbn [andb].
  2:{ rewrite filter_gt_none by lia. rewrite take_nil. replace (s_top s =? off) with false by lia.
      cbn [negb]. destruct reject; [reflexivity|apply finish_not_recovered]. }
  rewrite number_filter_gt by lia. rewrite take_number by auto.
  set (rest := skipn (N.to_nat (off - lo)) ids).
  assert (Hrest : N.of_nat (length rest) = s_top s - off).
  { unfold rest. rewrite skipn_length. lia. }
  set (sel := if (rec_limit lim <? 0)%Z then rest else firstn (Z.to_nat (rec_limit lim)) rest).
  assert (Hrec : (match number off sel with
                  | [] => s_top s =? off
                  | it0 :: _ => (i_off it0 =? wadd1 off) && (i_off (last (number off sel) it0) =? s_top s)
                  end) = ((lim <=? 0)%Z || (Z.of_N (s_top s - off) <=? lim)%Z)).
  { destruct sel as [|y r'] eqn:ES.
    - cbn [number]. unfold sel in ES.
      destruct (rec_limit lim <? 0)%Z eqn:EL.
      + subst rest. rewrite ES in Hrest. cbn [length] in Hrest. lia.
      + destruct rest as [|z rr]; [cbn [length] in Hrest; lia|].
        destruct (Z.to_nat (rec_limit lim)) eqn:EN; [lia|discriminate].
    - change (number off (y :: r')) with (mkItem (off + 1) y :: number (off + 1) r').
      cbn [i_off]. replace (off + 1 =? wadd1 off) with true
        by (unfold wadd1; replace (off =? U64 - 1) with false by lia; lia).
      cbn [andb].
      change (mkItem (off + 1) y :: number (off + 1) r') with (number off (y :: r')).
      rewrite number_last by congruence.
      assert (Hsel : length sel = if (rec_limit lim <? 0)%Z then length rest
                                  else Nat.min (Z.to_nat (rec_limit lim)) (length rest)).
      { unfold sel. destruct (rec_limit lim <? 0)%Z; [reflexivity|apply firstn_length]. }
      rewrite ES in Hsel. destruct (rec_limit lim <? 0)%Z eqn:EL.
      + replace (lim <=? 0)%Z with true by lia. cbn [orb]. lia.
      + assert (0 < lim)%Z by lia. rewrite (Lpos H) in *. replace (lim <=? 0)%Z with false by lia.
        cbn [orb]. lia. }
  rewrite Hrec.
  destruct ((lim <=? 0)%Z || (Z.of_N (s_top s - off) <=? lim)%Z) eqn:E3; cbn [negb].
  2:{ destruct reject; [reflexivity|apply finish_not_recovered]. }
  (* recovered: merge with the empty buffer strips the filtered markers *)
  unfold finish.
  destruct (merge_sorted_nil _ (to_pub_sorted filt sel off)) as (m & ->).
  cbn [negb]. rewrite strip_map.
  assert (sel = rest) as ->.
  { unfold sel. destruct (rec_limit lim <? 0)%Z eqn:EL; auto.
    apply firstn_all2.
    assert (0 < lim)%Z by lia. rewrite (Lpos H). lia. }
  reflexivity.
Qed.

Lemma number_has_off : forall ids lo o,
  lo < o -> o <= lo + N.of_nat (length ids) -> exists id, In (mkItem o id) (number lo ids).
Proof.
  induction ids as [|x r IH]; intros lo o H1 H2; cbn [length number] in *; [lia|].
  destruct (o =? lo + 1) eqn:E.
  - exists x. left. f_equal. lia.
  - destruct (IH (lo + 1) o) as (id & Hid); [lia|lia|]. exists id. right. exact Hid.
Qed.

Definition is_recovered (r : sres) : bool :=
  match r with ROk true _ _ _ => true | _ => false end.

(* recovered=true: exactly the publications after the offset up to the top,
   minus the filtered ones; epoch matches; nothing in (offset, top] is missing;
   the recovery limit did not truncate *)
Theorem stream_exact : forall lim filt h ch s off ep reject meta,
  reachable h -> h_streams h ch = Some s -> off < U64 - 1 ->
  let r := snd (sub_stream lim filt h ch off ep reject meta []) in
  is_recovered r = true ->
  r = ROk true (visible_after filt s off) off (s_epoch s) /\
  (ep = 0 \/ ep = s_epoch s) /\
  (forall o, off < o -> o <= s_top s -> exists id, In (mkItem o id) (s_items s)) /\
  off <= s_top s /\
  ((lim <= 0)%Z \/ (Z.of_N (s_top s - off) <= lim)%Z).
Proof.
  intros lim filt h ch s off ep reject meta Hr Hs Hoff r Hrec.
  pose proof (reachable_wf h Hr ch s Hs) as Hwf.
  unfold r in *. rewrite (stream_decision lim filt h ch s off ep reject meta Hs Hwf Hoff) in *.
  destruct (stream_cond s lim off ep) eqn:EC.
  2:{ destruct reject; discriminate. }
  unfold stream_cond in EC. split; [reflexivity|].
  destruct Hwf as (Hlen & Hnum).
  repeat split; try lia.
  intros o H1 H2. rewrite Hnum.
  destruct (number_has_off (map i_id (s_items s)) (s_top s - N.of_nat (length (s_items s))) o) as (id & Hid);
    [lia|rewrite map_length; lia|]. exists id. exact Hid.
Qed.

(* not recovered: no publications, or the UnrecoverablePosition error exactly
   when the client demanded it *)
Theorem stream_refused : forall lim filt h ch s off ep reject meta,
  reachable h -> h_streams h ch = Some s -> off < U64 - 1 ->
  let r := snd (sub_stream lim filt h ch off ep reject meta []) in
  is_recovered r = false ->
  r = if reject then RErr ErrUnrecoverablePosition else ROk false [] (s_top s) (s_epoch s).
Proof.
  intros lim filt h ch s off ep reject meta Hr Hs Hoff r Hrec.
  pose proof (reachable_wf h Hr ch s Hs) as Hwf.
  unfold r in *. rewrite (stream_decision lim filt h ch s off ep reject meta Hs Hwf Hoff) in *.
  destruct (stream_cond s lim off ep); [discriminate|reflexivity].
Qed.

(* recovered=true is never reported when a publication after the requested
   offset is missing from history, when the epoch differs, or when the
   recovery publication limit truncates the result *)
Theorem stream_never_lies : forall lim filt h ch s off ep reject meta,
  reachable h -> h_streams h ch = Some s -> off < U64 - 1 ->
  (exists o, off < o /\ o <= s_top s /\ forall id, ~ In (mkItem o id) (s_items s)) \/
  (ep <> 0 /\ ep <> s_epoch s) \/
  ((0 < lim)%Z /\ (lim < Z.of_N (s_top s - off))%Z) ->
  is_recovered (snd (sub_stream lim filt h ch off ep reject meta [])) = false.
Proof.
  intros lim filt h ch s off ep reject meta Hr Hs Hoff Hbad.
  pose proof (reachable_wf h Hr ch s Hs) as Hwf.
  rewrite (stream_decision lim filt h ch s off ep reject meta Hs Hwf Hoff).
  destruct (stream_cond s lim off ep) eqn:EC; [|destruct reject; reflexivity].
  exfalso. unfold stream_cond in EC. destruct Hwf as (Hlen & Hnum).
  destruct Hbad as [(o & H1 & H2 & H3) | [(H1 & H2) | (H1 & H2)]]; try lia.
  destruct (number_has_off (map i_id (s_items s)) (s_top s - N.of_nat (length (s_items s))) o) as (id & Hid);
    [lia|rewrite map_length; lia|].
  rewrite <- Hnum in Hid. exact (H3 id Hid).
Qed.

(* and it IS reported whenever none of these holds (the decision is exact) *)
Theorem stream_recovers_when_possible : forall lim filt h ch s off ep reject meta,
  reachable h -> h_streams h ch = Some s -> off < U64 - 1 ->
  (ep = 0 \/ ep = s_epoch s) ->
  s_top s - N.of_nat (length (s_items s)) <= off -> off <= s_top s ->
  ((lim <= 0)%Z \/ (Z.of_N (s_top s - off) <= lim)%Z) ->
  snd (sub_stream lim filt h ch off ep reject meta []) =
  ROk true (visible_after filt s off) off (s_epoch s).
Proof.
  intros lim filt h ch s off ep reject meta Hr Hs Hoff He H1 H2 H3.
  pose proof (reachable_wf h Hr ch s Hs) as Hwf.
  rewrite (stream_decision lim filt h ch s off ep reject meta Hs Hwf Hoff).
  replace (stream_cond s lim off ep) with true; [reflexivity|].
  unfold stream_cond. lia.
Qed.

(* ----------------------------------------------------- C03: cache mode *)

Definition same_position (s : stream) (off ep : N) : bool :=
  (0 <? off) && (off =? s_top s) && (ep =? s_epoch s).

Definition cache_scanned (lim : Z) (uf : bool) (s : stream) : list item :=
  take (if uf then rec_limit lim else 1%Z) (rev (s_items s)).

Definition cache_pick (lim : Z) (uf : bool) (filt : N -> bool) (s : stream) : option item :=
  if uf then find (fun it => negb (filt (i_id it))) (cache_scanned lim uf s)
  else hd_error (cache_scanned lim uf s).

Lemma finish_cache_single : forall o i top ep off,
  finish true true [mkPub o false i] [] top ep off = ROk true [mkItem o i] off ep.
Proof. intros. unfold finish, merge, uniq. cbn. reflexivity. Qed.

Lemma finish_cache_none : forall rc top ep off,
  finish true rc [] [] top ep off = if rc then ROk true [] off ep else ROk false [] top ep.
Proof. intros. unfold finish. cbn. destruct rc; [reflexivity|]. destruct top; reflexivity. Qed.

Lemma hd_take : forall L (l : list item), (L <> 0)%Z -> hd_error (take L l) = hd_error l.
Proof.
  intros. unfold take. destruct (L <? 0)%Z eqn:E1; auto.
  destruct (Z.of_nat (length l) <=? L)%Z; auto.
  destruct (Z.to_nat L) eqn:EN; [lia|]. destruct l; reflexivity.
Qed.

Lemma rev_number_hd : forall ids lo, ids <> [] ->
  exists id, hd_error (rev (number lo ids)) = Some (mkItem (lo + N.of_nat (length ids)) id).
Proof.
  intros ids lo H. destruct (exists_last H) as (r & x & ->).
  rewrite number_app. cbn [number]. rewrite rev_app_distr. cbn [rev app hd_error].
  exists x. f_equal. f_equal. rewrite app_length. cbn [length]. lia.
Qed.

(* the complete cache-mode decision when the cache-empty handler is absent or
   reports "not populated" *)
Theorem cache_decision : forall lim uf filt hnd h ch s off ep meta,
  h_streams h ch = Some s -> wf_stream s -> hnd = HNone \/ hnd = HNo ->
  snd (sub_cache lim uf filt hnd h ch off ep meta []) =
  match cache_pick lim uf filt s with
  | Some p => if same_position s off ep then ROk true [] off (s_epoch s)
              else ROk true [p] off (s_epoch s)
  | None => if same_position s off ep then ROk true [] off (s_epoch s)
            else ROk false [] (s_top s) (s_epoch s)
  end.
Proof.
  intros lim uf filt hnd h ch s off ep meta Hs Hwf Hh.
  destruct (rec_limit_cases lim) as (L0 & _ & _).
  unfold sub_cache, recover_cache, node_history.
  set (f := if uf then mkFilter None (rec_limit lim) true else mkFilter None 1 true).
  assert (Hf : f_since f = None /\ f_rev f = true /\ (f_limit f <> 0)%Z /\
               f_limit f = (if uf then rec_limit lim else 1%Z)).
  { unfold f. destruct uf; cbn [f_since f_rev f_limit]; repeat split; auto; discriminate. }
  destruct Hf as (F1 & F2 & F3 & F4). rewrite F1.
  pose proof (hub_get_some h ch s f meta Hs) as HG.
  assert (GI : get_items s f = cache_scanned lim uf s).
  { unfold get_items, cache_scanned. rewrite F1, F2, <- F4.
    replace (f_limit f =? 0)%Z with false by lia. unfold sget. cbn [andb].
    replace (f_limit f =? 0)%Z with false by lia. reflexivity. }
  rewrite GI in HG.
  destruct (hub_get h ch f meta) as [h1 o]. cbn [snd] in HG. subst o.
  unfold cache_pick. set (sc := cache_scanned lim uf s) in *.
  (* the newest retained item, if any, carries the top offset *)
  assert (HL : forall l, hd_error sc = Some l -> i_off l = s_top s).
  { intros l Hl. unfold sc, cache_scanned in Hl. rewrite hd_take in Hl by (destruct uf; lia).
    destruct Hwf as (Hlen & Hnum). rewrite Hnum in Hl.
    destruct (map i_id (s_items s)) as [|x r] eqn:EI.
    - cbn in Hl. discriminate.
    - destruct (rev_number_hd (x :: r) (s_top s - N.of_nat (length (s_items s)))) as (id & Hid); [congruence|].
      rewrite Hid in Hl. inversion Hl; subst l. cbn [i_off].
      assert (length (x :: r) = length (s_items s)) by (rewrite <- EI; apply map_length).
      cbn [length] in *. lia. }
  unfold is_cache_recovered, same_position.
  assert (FIN : forall hh pubs rc,
     snd (hh : hub, finish true rc (map (to_pub (fun _ => false)) pubs) [] (s_top s) (s_epoch s) off) =
     finish true rc (map (to_pub (fun _ => false)) pubs) [] (s_top s) (s_epoch s) off) by reflexivity.
  destruct uf.
  - (* filters present *)
    destruct (find (fun it => negb (filt (i_id it))) sc) as [p|] eqn:EF.
    + destruct (hd_error sc) as [l|] eqn:EH.
      2:{ destruct sc; [discriminate|discriminate]. }
      rewrite (HL l eq_refl), N.eqb_refl. cbn [andb].
      destruct ((0 <? off) && (off =? s_top s) && (ep =? s_epoch s)); cbn [negb];
        destruct Hh as [-> | ->]; cbn [snd map to_pub];
        try apply finish_cache_none; destruct p; apply finish_cache_single.
    + destruct ((0 <? off) && (off =? s_top s) && (ep =? s_epoch s)); destruct Hh as [-> | ->]; cbn [snd map]; apply finish_cache_none.
  - (* no filters: limit 1 reverse *)
    destruct (hd_error sc) as [l|] eqn:EH.
    + rewrite (HL l eq_refl), N.eqb_refl. cbn [andb].
      destruct ((0 <? off) && (off =? s_top s) && (ep =? s_epoch s)); cbn [negb];
        destruct Hh as [-> | ->]; cbn [snd map to_pub];
        try apply finish_cache_none; destruct l; apply finish_cache_single.
    + destruct ((0 <? off) && (off =? s_top s) && (ep =? s_epoch s)); destruct Hh as [-> | ->]; cbn [snd map]; apply finish_cache_none.
Qed.

Lemma find_take_full : forall (p : item -> bool) L l x,
  find p (take L l) = Some x -> find p l = Some x.
Proof.
  intros p L l x. unfold take. destruct (L <? 0)%Z; auto.
  destruct (Z.of_nat (length l) <=? L)%Z; auto.
  generalize (Z.to_nat L). intros n. revert l.
  induction n; intros l; cbn [firstn]; [discriminate|].
  destruct l as [|y l]; [discriminate|]. cbn [find]. destruct (p y); auto.
Qed.

Definition res_pubs (r : sres) : list item := match r with ROk _ p _ _ => p | RErr _ => [] end.

(* newest retained publication that passes the filters *)
Definition newest_vis (uf : bool) (filt : N -> bool) (s : stream) : option item :=
  if uf then find (fun it => negb (filt (i_id it))) (rev (s_items s)) else hd_error (rev (s_items s)).

(* at most the single newest visible publication is delivered *)
Theorem cache_at_most_newest_visible : forall lim uf filt hnd h ch s off ep meta,
  reachable h -> h_streams h ch = Some s -> hnd = HNone \/ hnd = HNo ->
  let pubs := res_pubs (snd (sub_cache lim uf filt hnd h ch off ep meta [])) in
  pubs = [] \/ exists p, pubs = [p] /\ newest_vis uf filt s = Some p.
Proof.
  intros lim uf filt hnd h ch s off ep meta Hr Hs Hh pubs.
  pose proof (reachable_wf h Hr ch s Hs) as Hwf.
  unfold pubs. rewrite (cache_decision lim uf filt hnd h ch s off ep meta Hs Hwf Hh).
  destruct (cache_pick lim uf filt s) as [p|] eqn:EP; destruct (same_position s off ep); cbn [res_pubs]; auto.
  right. exists p. split; auto.
  unfold cache_pick, newest_vis, cache_scanned in *. destruct uf.
  - eapply find_take_full; eauto.
  - rewrite hd_take in EP by lia. exact EP.
Qed.

(* recovered=true only when the newest publication is present in history or the
   client holds the current position *)
Theorem cache_recovered_implies : forall lim uf filt hnd h ch s off ep meta,
  reachable h -> h_streams h ch = Some s -> hnd = HNone \/ hnd = HNo ->
  is_recovered (snd (sub_cache lim uf filt hnd h ch off ep meta [])) = true ->
  s_items s <> [] \/ same_position s off ep = true.
Proof.
  intros lim uf filt hnd h ch s off ep meta Hr Hs Hh.
  pose proof (reachable_wf h Hr ch s Hs) as Hwf.
  rewrite (cache_decision lim uf filt hnd h ch s off ep meta Hs Hwf Hh).
  destruct (same_position s off ep); [auto|].
  destruct (cache_pick lim uf filt s) as [p|] eqn:EP; [|discriminate].
  intros _. left. intros E. unfold cache_pick, cache_scanned in EP. rewrite E in EP. cbn [rev] in EP.
  rewrite take_nil in EP. destruct uf; discriminate.
Qed.

(* without tags filters the report is exact: recovered=true iff the newest
   publication is present in history or the client holds the position *)
Theorem cache_recovered_iff_unfiltered : forall lim filt hnd h ch s off ep meta,
  reachable h -> h_streams h ch = Some s -> hnd = HNone \/ hnd = HNo ->
  (is_recovered (snd (sub_cache lim false filt hnd h ch off ep meta [])) = true <->
   s_items s <> [] \/ same_position s off ep = true).
Proof.
  intros lim filt hnd h ch s off ep meta Hr Hs Hh. split.
  - apply cache_recovered_implies; auto.
  - pose proof (reachable_wf h Hr ch s Hs) as Hwf.
    rewrite (cache_decision lim false filt hnd h ch s off ep meta Hs Hwf Hh).
    intros [H|H].
    + unfold cache_pick, cache_scanned. rewrite hd_take by lia.
      destruct (rev (s_items s)) as [|x r] eqn:ER.
      * exfalso. apply H. apply (f_equal (@rev item)) in ER. rewrite rev_involutive in ER. exact ER.
      * cbn [hd_error]. destruct (same_position s off ep); reflexivity.
    + rewrite H. destruct (cache_pick lim false filt s); reflexivity.
Qed.

(* with tags filters: recovered=true iff a scanned publication is visible or the
   client holds the position *)
Theorem cache_recovered_iff_filtered : forall lim filt hnd h ch s off ep meta,
  reachable h -> h_streams h ch = Some s -> hnd = HNone \/ hnd = HNo ->
  (is_recovered (snd (sub_cache lim true filt hnd h ch off ep meta [])) = true <->
   (exists p, find (fun it => negb (filt (i_id it))) (cache_scanned lim true s) = Some p) \/
   same_position s off ep = true).
Proof.
  intros lim filt hnd h ch s off ep meta Hr Hs Hh.
  pose proof (reachable_wf h Hr ch s Hs) as Hwf.
  rewrite (cache_decision lim true filt hnd h ch s off ep meta Hs Hwf Hh).
  unfold cache_pick.
  destruct (find (fun it => negb (filt (i_id it))) (cache_scanned lim true s)) as [p|];
    destruct (same_position s off ep); cbn [is_recovered]; split; intros H; auto;
    try (left; eexists; reflexivity); try discriminate.
  destruct H as [(p & X)|X]; discriminate.
Qed.

(* ------------- publications arriving during the subscribe (any buffer) *)

Lemma finish_refused_no_pubs : forall cm rec buf top ep off,
  res_pubs (finish cm false rec buf top ep off) = [].
Proof.
  intros. unfold finish. destruct (merge rec buf) as [[m mx] ok].
  destruct ok; cbn [negb]; reflexivity.
Qed.

Lemma finish_cache_at_most_one : forall rc rec buf top ep off,
  (length (res_pubs (finish true rc rec buf top ep off)) <= 1)%nat.
Proof.
  intros. unfold finish. destruct (merge rec buf) as [[m mx] ok].
  destruct ok; cbn [negb res_pubs length]; [|lia].
  destruct rc; cbn [res_pubs length]; [|lia].
  destruct m as [|a [|b l]]; cbn [map length]; lia.
Qed.

Lemma finish_recovered_shape : forall cm rec buf top ep off,
  is_recovered (finish cm true rec buf top ep off) = false ->
  res_pubs (finish cm true rec buf top ep off) = [].
Proof.
  intros cm rec buf top ep off. unfold finish. destruct (merge rec buf) as [[m mx] ok].
  destruct ok; cbn [negb is_recovered res_pubs]; [discriminate|reflexivity].
Qed.

(* C02, for ANY broker state, request and ANY publications racing the
   subscribe: a reply that is not "recovered" carries no publications *)
Theorem stream_refused_never_delivers : forall lim filt h ch off ep reject meta race,
  let r := snd (sub_stream lim filt h ch off ep reject meta race) in
  is_recovered r = false -> res_pubs r = [].
Proof.
  intros lim filt h ch off ep reject meta race r. unfold r, sub_stream.
  destruct (node_history h ch _ meta) as [h0 cr].
  destruct (race_pubs filt h0 ch race) as [h1 buf].
  destruct cr as [code|items top epc].
  - destruct (code =? ErrUnrecoverablePosition); [|reflexivity].
    destruct reject; [reflexivity|].
    destruct (snd (hub_get h ch _ meta)); cbn [snd]; intros; try reflexivity.
    apply finish_refused_no_pubs.
  - match goal with |- context [if negb ?b then _ else _] => destruct b end; cbn [negb].
    + cbn [snd]. apply finish_recovered_shape.
    + destruct reject; cbn [snd]; intros; [reflexivity|apply finish_refused_no_pubs].
Qed.

(* C03, for ANY broker state, request, cache-empty handler script and ANY
   publications racing the subscribe: at most one publication is delivered *)
Theorem cache_at_most_one : forall lim uf filt hnd h ch off ep meta race,
  (length (res_pubs (snd (sub_cache lim uf filt hnd h ch off ep meta race))) <= 1)%nat.
Proof.
  intros. unfold sub_cache.
  destruct (recover_cache lim uf filt h ch meta) as [h0 r].
  destruct (race_pubs filt h0 ch race) as [h1 rbuf].
  destruct r as [[[[latest recp] top] epc]|]; [|cbn; lia].
  destruct (is_cache_recovered latest recp top epc off ep) as [pubs rc].
  destruct latest as [l|]; [cbn [snd]; apply finish_cache_at_most_one|].
  destruct hnd as [| |ps]; try (cbn [snd]; apply finish_cache_at_most_one).
  destruct (race_pubs filt h1 ch ps) as [h2 hbuf].
  destruct (negb rc); [|cbn [snd]; apply finish_cache_at_most_one].
  destruct (recover_cache lim uf filt h2 ch meta) as [h3 r2].
  destruct r2 as [[[[latest2 recp2] top2] ep2]|]; [|cbn; lia].
  destruct (is_cache_recovered latest2 recp2 top2 ep2 off ep) as [pubs2 rc2].
  cbn [snd]. apply finish_cache_at_most_one.
Qed.
