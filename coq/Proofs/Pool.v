(* Proofs for C42 (buffer pools).  Model: Model/Pool.v, spec: Model/PoolSpec.v *)
From Coq Require Import List NArith ZArith Bool Lia ZifyN ZifyBool.
From Cfg Require Import Model.Pool Model.PoolSpec.
Import ListNotations.
Open Scope N_scope.

(* ------------------------------------------------------------------ *)
(* bit-level lemmas: power-of-two class indexing                       *)

Lemma len32_gt : forall x, x < 2 ^ len32 x.
Proof. intro x. apply N.size_gt. Qed.

Lemma len32_le_bound : forall x m, x < 2 ^ m -> len32 x <= m.
Proof.
  intros x m H. unfold len32.
  destruct (N.le_gt_cases (N.size x) m) as [|G]; [assumption|exfalso].
  assert (2 ^ N.succ m <= 2 ^ N.size x) by (apply N.pow_le_mono_r; lia).
  pose proof (N.size_le x) as L.
  rewrite N.pow_succ_r in H0 by lia.
  rewrite N.succ_double_spec in L. lia.
Qed.

Lemma len32_half : forall x, x <> 0 -> 2 ^ (len32 x - 1) <= x.
Proof.
  intros x Hx. unfold len32.
  pose proof (N.size_le x) as L. rewrite N.succ_double_spec in L.
  assert (S : N.size x <> 0).
  { rewrite N.size_log2 by assumption. lia. }
  replace (N.size x) with (N.succ (N.size x - 1)) in L by lia.
  rewrite N.pow_succ_r in L by lia. lia.
Qed.

Lemma dec32_pos : forall v, 1 <= v -> dec32 v = v - 1.
Proof. intros v H. unfold dec32. destruct (N.eqb_spec v 0); lia. Qed.

Lemma next_log2_same : forall k v, 1 <= v -> next_log2 k v = len32 (v - 1).
Proof.
  intros k v H. destruct k; cbn [next_log2]; unfold next_log2_bb, next_log2_g.
  - now rewrite dec32_pos.
  - destruct (N.eqb_spec v 0); [lia|reflexivity].
  - destruct (N.eqb_spec v 0); [lia|reflexivity].
Qed.

(* rounding up: the class of a requested length is large enough, and minimal *)
Lemma next_log2_ge : forall k v, 1 <= v -> v <= 2 ^ next_log2 k v.
Proof.
  intros k v H. rewrite next_log2_same by assumption.
  pose proof (len32_gt (v - 1)). lia.
Qed.

Lemma next_log2_minimal : forall k v, 2 <= v -> 2 ^ (next_log2 k v - 1) < v.
Proof.
  intros k v H. rewrite next_log2_same by lia.
  pose proof (len32_half (v - 1)). lia.
Qed.

Lemma next_log2_bound : forall k v m, 1 <= v -> v <= 2 ^ m -> next_log2 k v <= m.
Proof.
  intros k v m H1 H2. rewrite next_log2_same by assumption.
  apply len32_le_bound. lia.
Qed.

Lemma max_is_pow : forall k, maxlen k = 2 ^ (nclasses k - 1).
Proof. destruct k; reflexivity. Qed.

Lemma next_log2_class : forall k v, 1 <= v -> v <= maxlen k -> next_log2 k v < nclasses k.
Proof.
  intros k v H1 H2. rewrite max_is_pow in H2.
  pose proof (next_log2_bound k v _ H1 H2). destruct k; cbn [nclasses] in *; lia.
Qed.

Lemma shl32_small : forall i, i < 32 -> shl32 i = 2 ^ i.
Proof.
  intros i H. unfold shl32. apply N.mod_small.
  change 4294967296 with (2 ^ 32). apply N.pow_lt_mono_r; lia.
Qed.

Lemma prev_log2_unfold : forall k v, 1 <= v ->
  prev_log2 k v = let next := next_log2 k v in if v =? shl32 next then next else next - 1.
Proof.
  intros k v H. destruct k; cbn [prev_log2 next_log2]; try reflexivity;
  destruct (N.eqb_spec v 0); try lia; reflexivity.
Qed.

(* rounding down: a buffer is filed under a class it is large enough for *)
Lemma prev_log2_le : forall k c, 1 <= c -> c <= maxlen k -> 2 ^ prev_log2 k c <= c.
Proof.
  intros k c H1 H2. rewrite prev_log2_unfold by assumption. cbv zeta.
  pose proof (next_log2_class k c H1 H2) as Hc.
  assert (Hs : shl32 (next_log2 k c) = 2 ^ next_log2 k c).
  { apply shl32_small. destruct k; cbn [nclasses] in Hc; lia. }
  rewrite Hs. destruct (N.eqb_spec c (2 ^ next_log2 k c)) as [E|E].
  - lia.
  - rewrite next_log2_same in * by assumption.
    destruct (N.eq_dec (c - 1) 0) as [Z|NZ].
    + assert (c = 1) by lia. subst c. cbn in E. lia.
    + pose proof (len32_half (c - 1) NZ). lia.
Qed.

Lemma prev_log2_class : forall k c, 1 <= c -> c <= maxlen k -> prev_log2 k c < nclasses k.
Proof.
  intros k c H1 H2. rewrite prev_log2_unfold by assumption. cbv zeta.
  pose proof (next_log2_class k c H1 H2).
  destruct (c =? shl32 (next_log2 k c)); lia.
Qed.

(* and it is the largest such class *)
Lemma prev_log2_maximal : forall k c, 1 <= c -> c <= maxlen k -> c < 2 ^ (prev_log2 k c + 1).
Proof.
  intros k c H1 H2. rewrite prev_log2_unfold by assumption. cbv zeta.
  pose proof (next_log2_class k c H1 H2) as Hc.
  assert (Hs : shl32 (next_log2 k c) = 2 ^ next_log2 k c).
  { apply shl32_small. destruct k; cbn [nclasses] in Hc; lia. }
  rewrite Hs. pose proof (next_log2_ge k c H1) as G.
  destruct (N.eqb_spec c (2 ^ next_log2 k c)) as [E|E].
  - rewrite N.add_1_r, N.pow_succ_r by lia. lia.
  - destruct (N.eq_dec (next_log2 k c) 0) as [Z|NZ].
    + rewrite Z in *. cbn in G, E. lia.
    + replace (next_log2 k c - 1 + 1) with (next_log2 k c) by lia. lia.
Qed.

(* ------------------------------------------------------------------ *)
(* the invariant                                                       *)

Definition all_empty (d : list (N * N)) : Prop :=
  Forall (fun '(lo, hi) => hi <= lo) d.

(* a buffer is well formed: len <= cap and every non-zero slot lies inside the backing array *)
Definition buf_wf (b : buf) : Prop :=
  b_len b <= b_cap b /\ dirty_below (b_cap b) (b_dirty b) = true.

Definition pooled_ok (k : kind) (e : N * N * buf) : Prop :=
  let '(idx, _, b) := e in
  idx < nclasses k /\ 2 ^ idx <= b_cap b /\ b_len b = 0 /\ buf_wf b /\
  (k = IB -> all_empty (b_dirty b)).
Definition held_ok (e : N * buf) : Prop := buf_wf (snd e).
Definition Inv (k : kind) (s : st) : Prop :=
  Forall (pooled_ok k) (pooled s) /\ Forall held_ok (held s).

Lemma all_empty_lowest : forall d, all_empty d -> lowest_dirty d = None.
Proof.
  induction 1 as [|[lo hi] d H F IH]; cbn [lowest_dirty]; [reflexivity|].
  rewrite IH. destruct (N.ltb_spec lo hi); [lia|reflexivity].
Qed.

Lemma all_empty_below : forall len d, all_empty d -> dirty_below len d = true.
Proof.
  induction 1 as [|[lo hi] d H0 F IH]; cbn [dirty_below forallb]; [reflexivity|].
  apply andb_true_intro. split; [lia|exact IH].
Qed.

Lemma clear_below_empty : forall len d, dirty_below len d = true -> all_empty (clear_below len d).
Proof.
  induction d as [|[lo hi] d IH]; cbn [dirty_below forallb clear_below map]; intro H; [constructor|].
  apply andb_prop in H. destruct H as [H1 H2]. constructor; [lia|apply IH; assumption].
Qed.

Lemma clear_below_keeps : forall len c d, dirty_below c d = true -> dirty_below c (clear_below len d) = true.
Proof.
  induction d as [|[lo hi] d IH]; cbn [dirty_below forallb clear_below map]; intro H; [reflexivity|].
  apply andb_prop in H. destruct H as [H1 H2]. apply andb_true_intro. split; [lia|apply IH; assumption].
Qed.

Lemma take_held_Forall : forall (P : N * buf -> Prop) h l b rest,
  Forall P l -> take_held h l = Some (b, rest) -> P (h, b) /\ Forall P rest.
Proof.
  induction l as [|[h' b'] t IH]; cbn [take_held]; intros b rest F E; [discriminate|].
  inversion F; subst.
  destruct (N.eqb_spec h' h).
  - inversion E; subst. auto.
  - destruct (take_held h t) as [[b'' t']|] eqn:T; [|discriminate].
    inversion E; subst. destruct (IH _ _ H2 eq_refl). auto.
Qed.

Lemma take_pooled_Forall : forall (P : N * N * buf -> Prop) idx h l b rest,
  Forall P l -> take_pooled idx h l = Some (b, rest) -> P (idx, h, b) /\ Forall P rest.
Proof.
  induction l as [|[[i' h'] b'] t IH]; cbn [take_pooled]; intros b rest F E; [discriminate|].
  inversion F; subst.
  destruct (N.eqb_spec i' idx); destruct (N.eqb_spec h' h); cbn [andb] in E;
    try (inversion E; subst; auto; fail);
    (destruct (take_pooled idx h t) as [[b'' t']|] eqn:T; [|discriminate];
     inversion E; subst; destruct (IH _ _ H2 eq_refl); auto).
Qed.

Lemma Inv_init : forall k, Inv k init.
Proof. split; constructor. Qed.

Lemma give_fresh_Inv : forall k s b s' o,
  Inv k s -> buf_wf b -> give_fresh s b = (s', o) -> Inv k s' /\ o = obs_of b.
Proof.
  intros k s b s' o [I1 I2] Hb E. unfold give_fresh in E. inversion E; subst.
  split; [|reflexivity]. split; cbn; [assumption|]. constructor; [exact Hb|assumption].
Qed.

Lemma fresh_wf : forall c l, l <= c -> buf_wf (mkBuf c l []).
Proof. intros. split; cbn; [assumption|reflexivity]. Qed.

(* what a Get result looks like: cap >= n, length contract, and for item
   buffers a completely zero backing array *)
Definition class_res (k : kind) (n : N) (o : obs) : Prop :=
  exists cp l d, o = ObsBuf cp l d /\ n <= cp /\ l <= cp /\
                 l = match k with IB => n | _ => 0 end /\ (k = IB -> d = None).

Lemma get_class_ok : forall k s n idx c s' o,
  Inv k s -> idx < nclasses k -> n <= 2 ^ idx ->
  get_class k s n idx c = (s', o) -> Inv k s' /\ class_res k n o.
Proof.
  intros k s n idx c s' o I Hidx Hn E. unfold get_class in E.
  destruct (N.leb_spec (nclasses k) idx); [lia|].
  assert (FRESH : forall s' o,
    give_fresh s (mkBuf (2 ^ idx) (match k with IB => n | _ => 0 end) []) = (s', o) ->
    Inv k s' /\ class_res k n o).
  { intros s1 o1 E1. apply give_fresh_Inv with (k := k) in E1;
      [|assumption|apply fresh_wf; destruct k; lia].
    destruct E1 as [I1 ->]. split; [assumption|]. unfold obs_of; cbn.
    do 3 eexists. split; [reflexivity|]. destruct k; repeat split; auto; lia. }
  destruct c as [h|]; [|auto].
  destruct (take_pooled idx h (pooled s)) as [[b rest]|] eqn:T; [|auto].
  destruct I as [I1 I2].
  destruct (take_pooled_Forall _ _ _ _ _ _ I1 T) as [(P1 & P2 & P3 & [W1 W2] & P5) Fr].
  destruct k.
  - inversion E; subst. split.
    + split; cbn; [assumption|]. constructor; [split; cbn; [lia|assumption]|assumption].
    + unfold obs_of. do 3 eexists. split; [reflexivity|]. repeat split; try lia. discriminate.
  - inversion E; subst. split.
    + split; cbn; [assumption|]. constructor; [split; cbn; [lia|assumption]|assumption].
    + unfold obs_of; cbn. do 3 eexists. split; [reflexivity|]. repeat split; try lia. discriminate.
  - destruct (N.leb_spec n (b_cap b)); [|lia].
    inversion E; subst. split.
    + split; cbn; [assumption|]. constructor; [split; cbn; [lia|assumption]|assumption].
    + unfold obs_of; cbn. do 3 eexists. split; [reflexivity|]. repeat split; try lia.
      intros _. apply all_empty_lowest. auto.
Qed.

Lemma u32_small : forall n, (0 <= n < 4294967296)%Z -> u32 n = Z.to_N n.
Proof. intros n H. unfold u32. rewrite Z.mod_small by lia. reflexivity. Qed.

Lemma fresh_good : forall k s c l s' o n,
  Inv k s -> l <= c -> (n <= Z.of_N c)%Z ->
  match k with IB => ((0 < n)%Z -> Z.of_N l = n) | _ => l = 0 end ->
  give_fresh s (mkBuf c l []) = (s', o) -> Inv k s' /\ good k n o.
Proof.
  intros k s c l s' o n I Hl Hc Hk E.
  apply give_fresh_Inv with (k := k) in E; [|assumption|apply fresh_wf; assumption].
  destruct E as [I' ->]. split; [assumption|]. unfold obs_of; cbn.
  split; cbn; [repeat split; assumption|intros i Hi; discriminate].
Qed.

Lemma class_res_good : forall k n n' o,
  class_res k n' o -> (n <= Z.of_N n')%Z -> ((0 < n)%Z -> Z.of_N n' = n) -> good k n o.
Proof.
  intros k n n' o (cp & l & d & -> & A & B & C & D) H1 H2. split; cbn.
  - repeat split; try lia. destruct k; try assumption. intro. rewrite C. auto.
  - destruct k; intros i Hi; try lia. rewrite D in Hi by reflexivity. discriminate.
Qed.

Lemma get_ok : forall k s n c s' o,
  Inv k s -> (0 <= n)%Z -> get k s n c = (s', o) -> Inv k s' /\ good k n o.
Proof.
  intros k s n c s' o I Hn E. destruct k; cbn [get] in E.
  - (* BB *)
    destruct (Z.eqb_spec n 0).
    + eapply fresh_good in E; eauto; cbn; lia.
    + destruct (Z.ltb_spec (Z.of_N (maxlen BB)) n).
      * eapply fresh_good in E; eauto; cbn; lia.
      * cbn [maxlen] in H.
        rewrite u32_small in E by lia.
        apply get_class_ok in E; try assumption.
        -- destruct E as [I' R]. split; [assumption|]. eapply class_res_good; eauto; lia.
        -- apply (next_log2_class BB); cbn [maxlen]; lia.
        -- apply (next_log2_ge BB). lia.
  - (* BS *)
    set (n' := if (n <=? 0)%Z then default_len else Z.to_N n) in *.
    assert (Hn' : (n <= Z.of_N n')%Z /\ 1 <= n' /\ ((0 < n)%Z -> Z.of_N n' = n)).
    { subst n'. unfold default_len. destruct (Z.leb_spec n 0); lia. }
    destruct (N.ltb_spec (maxlen BS) n').
    + eapply fresh_good in E; eauto; cbn; lia.
    + cbn [maxlen] in H. rewrite u32_small in E by lia. rewrite N2Z.id in E.
      apply get_class_ok in E; try assumption.
      * destruct E as [I' R]. split; [assumption|]. eapply class_res_good; eauto; lia.
      * apply (next_log2_class BS); cbn [maxlen]; lia.
      * apply (next_log2_ge BS). lia.
  - (* IB *)
    set (n' := if (n <=? 0)%Z then default_len else Z.to_N n) in *.
    assert (Hn' : (n <= Z.of_N n')%Z /\ 1 <= n' /\ ((0 < n)%Z -> Z.of_N n' = n)).
    { subst n'. unfold default_len. destruct (Z.leb_spec n 0); lia. }
    destruct (N.ltb_spec (maxlen IB) n').
    + eapply fresh_good in E; eauto; cbn; lia.
    + cbn [maxlen] in H. rewrite u32_small in E by lia. rewrite N2Z.id in E.
      apply get_class_ok in E; try assumption.
      * destruct E as [I' R]. split; [assumption|]. eapply class_res_good; eauto; lia.
      * apply (next_log2_class IB); cbn [maxlen]; lia.
      * apply (next_log2_ge IB). lia.
Qed.

(* negative "lengths" (BB only reaches the pool with them) may panic, but never break the invariant *)
Lemma get_Inv_any : forall k s n c s' o, Inv k s -> get k s n c = (s', o) -> Inv k s'.
Proof.
  intros k s n c s' o I E.
  destruct (Z.le_gt_cases 0 n) as [P|Ng]; [eapply get_ok; eauto|].
  destruct k; cbn [get] in E.
  - destruct (Z.eqb_spec n 0); [lia|].
    destruct (Z.ltb_spec (Z.of_N (maxlen BB)) n); [cbn [maxlen] in *; lia|].
    unfold get_class in E.
    destruct (nclasses BB <=? next_log2_bb (u32 n)); [inversion E; subst; assumption|].
    destruct I as [I1 I2].
    assert (FR : forall c l s1 o1, l <= c -> give_fresh s (mkBuf c l []) = (s1, o1) -> Inv BB s1).
    { intros c0 l s1 o1 Hb E1. eapply give_fresh_Inv in E1; [apply E1|split; assumption|apply fresh_wf; assumption]. }
    destruct c as [h|]; [|eapply FR; [|exact E]; lia].
    destruct (take_pooled _ h (pooled s)) as [[b rest]|] eqn:T; [|eapply FR; [|exact E]; lia].
    destruct (take_pooled_Forall _ _ _ _ _ _ I1 T) as [(P1 & P2 & P3 & W & P5) Fr].
    inversion E; subst. split; cbn; [assumption|]. constructor; [exact W|assumption].
  - destruct (Z.leb_spec n 0); [|lia].
    assert (E0 : get BS s 0 c = (s', o)).
    { cbn [get]. exact E. }
    eapply get_ok in E0; [apply E0|assumption|lia].
  - destruct (Z.leb_spec n 0); [|lia].
    assert (E0 : get IB s 0 c = (s', o)).
    { cbn [get]. exact E. }
    eapply get_ok in E0; [apply E0|assumption|lia].
Qed.

Lemma put_Inv : forall k s h, Inv k s -> Inv k (put k s h).
Proof.
  intros k s h [I1 I2]. unfold put.
  destruct (take_held h (held s)) as [[b rest]|] eqn:T; [|split; assumption].
  destruct (take_held_Forall _ _ _ _ _ I2 T) as [[Hb Hd] Fr]. cbn [snd] in Hb, Hd.
  destruct (N.eqb_spec (b_cap b) 0); cbn [orb]; [split; assumption|].
  destruct (N.ltb_spec (maxlen k) (b_cap b)); [split; assumption|].
  split; cbn; [|assumption].
  constructor; [|assumption]. cbn.
  split; [apply prev_log2_class; lia|]. split; [apply prev_log2_le; lia|]. split; [reflexivity|].
  split.
  - split; cbn; [lia|]. destruct k; [assumption|apply clear_below_keeps; assumption|].
    apply all_empty_below, clear_below_empty; assumption.
  - intros ->. apply clear_below_empty; assumption.
Qed.

Lemma apply_mut_wf : forall b m, buf_wf b -> buf_wf (apply_mut b m).
Proof.
  intros b m [H D]. destruct m; cbn [apply_mut].
  - destruct (N.ltb_spec i (b_len b)); [|split; assumption]. split; cbn [b_cap b_len b_dirty]; [assumption|].
    cbn [dirty_below forallb]. apply andb_true_intro. split; [lia|exact D].
  - split; cbn [b_cap b_len b_dirty]; [assumption|].
    cbn [dirty_below forallb]. apply andb_true_intro. split; [lia|exact D].
  - destruct (N.leb_spec k (b_cap b)); [|split; assumption]. split; cbn; [lia|exact D].
  - destruct (N.leb_spec l c); [|split; assumption]. split; cbn [b_cap b_len b_dirty]; [lia|].
    destruct dirty; cbn [dirty_below forallb]; [|reflexivity].
    apply andb_true_intro. split; [lia|reflexivity].
Qed.

Lemma mutate_Inv : forall k s h m, Inv k s -> Inv k (mutate s h m).
Proof.
  intros k s h m [I1 I2]. unfold mutate.
  destruct (take_held h (held s)) as [[b rest]|] eqn:T; [|split; assumption].
  destruct (take_held_Forall _ _ _ _ _ I2 T) as [Hb Fr].
  split; cbn; [assumption|]. constructor; [|assumption].
  unfold held_ok in *; cbn [snd] in *. apply apply_mut_wf; assumption.
Qed.

Lemma step_Inv : forall k s o, Inv k s -> Inv k (fst (step k s o)).
Proof.
  intros k s o I. destruct o; cbn [step].
  - destruct (get k s n choice) as [s' r] eqn:E. cbn. eapply get_Inv_any; eauto.
  - cbn. apply put_Inv; assumption.
  - cbn. apply mutate_Inv; assumption.
Qed.

Definition final_from (k : kind) (s : st) (ops : list op) : st :=
  fold_left (fun s o => fst (step k s o)) ops s.

Lemma final_Inv : forall k ops s, Inv k s -> Inv k (final_from k s ops).
Proof.
  induction ops as [|o ops IH]; intros s I; cbn; [assumption|].
  apply IH. apply step_Inv; assumption.
Qed.

Lemma outs_good_from : forall k ops s n o,
  Inv k s -> (0 <= n)%Z -> In (n, o) (outs_from k s ops) -> good k n o.
Proof.
  induction ops as [|op ops IH]; intros s n o I Hn Hin; cbn [outs_from] in Hin; [contradiction|].
  pose proof (step_Inv k s op I) as I'.
  destruct (step k s op) as [s' r] eqn:E. cbn [fst] in I'.
  destruct r as [x|].
  - destruct Hin as [Hx|Hin]; [|eapply IH; eauto]. subst x.
    destruct op; cbn [step] in E.
    + destruct (get k s n0 choice) as [s1 r1] eqn:G. inversion E; subst.
      pose proof (get_ok _ _ _ _ _ _ I Hn G) as [_ R]. exact R.
    + inversion E.
    + inversion E.
  - eapply IH; eauto.
Qed.

(* THE property, for every start state satisfying the invariant (in
   particular the empty pools a process starts with) *)
Theorem outs_good : forall k ops n o,
  (0 <= n)%Z -> In (n, o) (outs k ops) -> good k n o.
Proof. intros. eapply outs_good_from; eauto using Inv_init. Qed.

Theorem pool_inv : forall k ops, Inv k (final_from k init ops).
Proof. intros. apply final_Inv, Inv_init. Qed.

(* ------------------------------------------------------------------ *)
(* Before the fix (commit beefe1b7) putItemBuf cleared only B[0:len]:  *)
(* a buffer Put after being re-sliced shorter came back dirty.         *)

Theorem item_prefix_clear_refuted :
  exists s1 s2 o,
    get IB init 4 None = (s1, ObsBuf 4 4 None) /\
    get IB (put_item_prefix_clear (mutate (mutate s1 0 MFill) 0 (MReslice 0)) 0) 4 (Some 0) = (s2, o) /\
    ~ good IB 4 o.
Proof.
  eexists. eexists. eexists. split; [vm_compute; reflexivity|]. split; [vm_compute; reflexivity|].
  intros [_ V]. cbn in V. specialize (V 0 eq_refl). lia.
Qed.

(* the same run on the current code is clean *)
Example item_same_run_now_clean :
  outs IB [OGet 4 None; OMut 0 MFill; OMut 0 (MReslice 0); OPut 0; OGet 4 (Some 0)]
  = [(4%Z, ObsBuf 4 4 None); (4%Z, ObsBuf 4 4 None)].
Proof. vm_compute. reflexivity. Qed.

(* ------------------------------------------------------------------ *)
(* the oracle decides the spec                                         *)

Lemma size_ok_b_iff : forall k n o, size_ok_b k n o = true <-> size_ok k n o.
Proof.
  intros k n o. destruct o as [|c l d]; cbn [size_ok_b size_ok]; [split; [discriminate|tauto]|].
  destruct k.
  - split; intro H; [|lia]. repeat (apply andb_prop in H; destruct H as [H ?]). lia.
  - split; intro H; [|lia]. repeat (apply andb_prop in H; destruct H as [H ?]). lia.
  - destruct (Z.ltb_spec 0 n) as [P|P]; split; intro H;
      try (repeat (apply andb_prop in H; destruct H as [H ?]); lia);
      try (destruct H as (A & B & C); repeat (apply andb_true_intro; split); lia).
Qed.

Lemma visible_clean_b_iff : forall o, visible_clean_b o = true <-> visible_clean o.
Proof.
  intros [|c l [i|]]; cbn [visible_clean_b visible_clean]; try tauto.
  - split; [intros H j E; inversion E; subst; lia|intro H; specialize (H i eq_refl); lia].
  - split; [intros _ j E; discriminate|reflexivity].
Qed.

Theorem good_b_iff : forall k n o, good_b k n o = true <-> good k n o.
Proof.
  intros. unfold good_b, good. rewrite andb_true_iff, size_ok_b_iff, visible_clean_b_iff. tauto.
Qed.
