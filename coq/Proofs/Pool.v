(* Proofs for C42 (buffer pools).  Model: Model/Pool.v, spec: Model/PoolSpec.v *)
From Coq Require Import List NArith ZArith Bool Lia ZifyN ZifyBool.
From Cfg Require Import Model.Pool Model.PoolSpec.
Import ListNotations.
Open Scope N_scope.

(* ------------------------------------------------------------------ *)
(* bit-level lemmas: power-of-two class indexing                       *)

Lemma len32_gt : forall x, x < 2 ^ len32 x.
Proof. intro x. apply N.size_gt. Qed.

Lemma len32_le_bound : forall x m, x < 2 ^ m -> len32 x <= m.
Proof.
  intros x m H. unfold len32.
  destruct (N.le_gt_cases (N.size x) m) as [|G]; [assumption|exfalso].
  assert (2 ^ N.succ m <= 2 ^ N.size x) by (apply N.pow_le_mono_r; lia).
  pose proof (N.size_le x) as L.
  rewrite N.pow_succ_r in H0 by lia.
  rewrite N.succ_double_spec in L. lia.
Qed.

Lemma len32_half : forall x, x <> 0 -> 2 ^ (len32 x - 1) <= x.
Proof.
  intros x Hx. unfold len32.
  pose proof (N.size_le x) as L. rewrite N.succ_double_spec in L.
  assert (S : N.size x <> 0).
  { rewrite N.size_log2 by assumption. lia. }
  replace (N.size x) with (N.succ (N.size x - 1)) in L by lia.
  rewrite N.pow_succ_r in L by lia. lia.
Qed.

Lemma dec32_pos : forall v, 1 <= v -> dec32 v = v - 1.
Proof. intros v H. unfold dec32. destruct (N.eqb_spec v 0); lia. Qed.

Lemma next_log2_same : forall k v, 1 <= v -> next_log2 k v = len32 (v - 1).
Proof.
  intros k v H. destruct k; cbn [next_log2]; unfold next_log2_bb, next_log2_g.
  - now rewrite dec32_pos.
  - destruct (N.eqb_spec v 0); [lia|reflexivity].
  - destruct (N.eqb_spec v 0); [lia|reflexivity].
Qed.

(* rounding up: the class of a requested length is large enough, and minimal *)
Lemma next_log2_ge : forall k v, 1 <= v -> v <= 2 ^ next_log2 k v.
Proof.
  intros k v H. rewrite next_log2_same by assumption.
  pose proof (len32_gt (v - 1)). lia.
Qed.

Lemma next_log2_minimal : forall k v, 2 <= v -> 2 ^ (next_log2 k v - 1) < v.
Proof.
  intros k v H. rewrite next_log2_same by lia.
  pose proof (len32_half (v - 1)). lia.
Qed.

Lemma next_log2_bound : forall k v m, 1 <= v -> v <= 2 ^ m -> next_log2 k v <= m.
Proof.
  intros k v m H1 H2. rewrite next_log2_same by assumption.
  apply len32_le_bound. lia.
Qed.

Lemma max_is_pow : forall k, maxlen k = 2 ^ (nclasses k - 1).
Proof. destruct k; reflexivity. Qed.

Lemma next_log2_class : forall k v, 1 <= v -> v <= maxlen k -> next_log2 k v < nclasses k.
Proof.
  intros k v H1 H2. rewrite max_is_pow in H2.
  pose proof (next_log2_bound k v _ H1 H2). destruct k; cbn [nclasses] in *; lia.
Qed.

Lemma shl32_small : forall i, i < 32 -> shl32 i = 2 ^ i.
Proof.
  intros i H. unfold shl32. apply N.mod_small.
  change 4294967296 with (2 ^ 32). apply N.pow_lt_mono_r; lia.
Qed.

Lemma prev_log2_unfold : forall k v, 1 <= v ->
  prev_log2 k v = let next := next_log2 k v in if v =? shl32 next then next else next - 1.
Proof.
  intros k v H. destruct k; cbn [prev_log2 next_log2]; try reflexivity;
  destruct (N.eqb_spec v 0); try lia; reflexivity.
Qed.

(* rounding down: a buffer is filed under a class it is large enough for *)
Lemma prev_log2_le : forall k c, 1 <= c -> c <= maxlen k -> 2 ^ prev_log2 k c <= c.
Proof.
  intros k c H1 H2. rewrite prev_log2_unfold by assumption. cbv zeta.
  pose proof (next_log2_class k c H1 H2) as Hc.
  assert (Hs : shl32 (next_log2 k c) = 2 ^ next_log2 k c).
  { apply shl32_small. destruct k; cbn [nclasses] in Hc; lia. }
  rewrite Hs. destruct (N.eqb_spec c (2 ^ next_log2 k c)) as [E|E].
  - lia.
  - rewrite next_log2_same in * by assumption.
    destruct (N.eq_dec (c - 1) 0) as [Z|NZ].
    + assert (c = 1) by lia. subst c. cbn in E. lia.
    + pose proof (len32_half (c - 1) NZ). lia.
Qed.

Lemma prev_log2_class : forall k c, 1 <= c -> c <= maxlen k -> prev_log2 k c < nclasses k.
Proof.
  intros k c H1 H2. rewrite prev_log2_unfold by assumption. cbv zeta.
  pose proof (next_log2_class k c H1 H2).
  destruct (c =? shl32 (next_log2 k c)); lia.
Qed.

(* and it is the largest such class *)
Lemma prev_log2_maximal : forall k c, 1 <= c -> c <= maxlen k -> c < 2 ^ (prev_log2 k c + 1).
Proof.
  intros k c H1 H2. rewrite prev_log2_unfold by assumption. cbv zeta.
  pose proof (next_log2_class k c H1 H2) as Hc.
  assert (Hs : shl32 (next_log2 k c) = 2 ^ next_log2 k c).
  { apply shl32_small. destruct k; cbn [nclasses] in Hc; lia. }
  rewrite Hs. pose proof (next_log2_ge k c H1) as G.
  destruct (N.eqb_spec c (2 ^ next_log2 k c)) as [E|E].
  - rewrite N.add_1_r, N.pow_succ_r by lia. lia.
  - destruct (N.eq_dec (next_log2 k c) 0) as [Z|NZ].
    + rewrite Z in *. cbn in G, E. lia.
    + replace (next_log2 k c - 1 + 1) with (next_log2 k c) by lia. lia.
Qed.

(* ------------------------------------------------------------------ *)
(* the invariant                                                       *)

Definition pooled_ok (k : kind) (e : N * N * buf) : Prop :=
  let '(idx, _, b) := e in idx < nclasses k /\ 2 ^ idx <= b_cap b /\ b_len b = 0.
Definition held_ok (e : N * buf) : Prop := b_len (snd e) <= b_cap (snd e).
Definition Inv (k : kind) (s : st) : Prop :=
  Forall (pooled_ok k) (pooled s) /\ Forall held_ok (held s).

Lemma take_held_Forall : forall (P : N * buf -> Prop) h l b rest,
  Forall P l -> take_held h l = Some (b, rest) -> P (h, b) /\ Forall P rest.
Proof.
  induction l as [|[h' b'] t IH]; cbn [take_held]; intros b rest F E; [discriminate|].
  inversion F; subst.
  destruct (N.eqb_spec h' h).
  - inversion E; subst. auto.
  - destruct (take_held h t) as [[b'' t']|] eqn:T; [|discriminate].
    inversion E; subst. destruct (IH _ _ H2 eq_refl). auto.
Qed.

Lemma take_pooled_Forall : forall (P : N * N * buf -> Prop) idx h l b rest,
  Forall P l -> take_pooled idx h l = Some (b, rest) -> P (idx, h, b) /\ Forall P rest.
Proof.
  induction l as [|[[i' h'] b'] t IH]; cbn [take_pooled]; intros b rest F E; [discriminate|].
  inversion F; subst.
  destruct (N.eqb_spec i' idx); destruct (N.eqb_spec h' h); cbn [andb] in E;
    try (inversion E; subst; auto; fail);
    (destruct (take_pooled idx h t) as [[b'' t']|] eqn:T; [|discriminate];
     inversion E; subst; destruct (IH _ _ H2 eq_refl); auto).
Qed.

Lemma Inv_init : forall k, Inv k init.
Proof. split; constructor. Qed.

Lemma give_fresh_Inv : forall k s b s' o,
  Inv k s -> b_len b <= b_cap b -> give_fresh s b = (s', o) -> Inv k s' /\ o = obs_of b.
Proof.
  intros k s b s' o [I1 I2] Hb E. unfold give_fresh in E. inversion E; subst.
  split; [|reflexivity]. split; cbn; [assumption|]. constructor; [exact Hb|assumption].
Qed.

(* class-indexed part: with an in-range class large enough for n, the result
   has cap >= n, the length contract, and the invariant is kept *)
Lemma get_class_ok : forall k s n idx c s' o,
  Inv k s -> idx < nclasses k -> n <= 2 ^ idx ->
  get_class k s n idx c = (s', o) ->
  Inv k s' /\ exists cp l d, o = ObsBuf cp l d /\ n <= cp /\ l <= cp /\
                            l = match k with IB => n | _ => 0 end.
Proof.
  intros k s n idx c s' o I Hidx Hn E. unfold get_class in E.
  destruct (N.leb_spec (nclasses k) idx); [lia|].
  assert (FRESH : forall s' o,
    give_fresh s (mkBuf (2 ^ idx) (match k with IB => n | _ => 0 end) []) = (s', o) ->
    Inv k s' /\ exists cp l d, o = ObsBuf cp l d /\ n <= cp /\ l <= cp /\
                              l = match k with IB => n | _ => 0 end).
  { intros s1 o1 E1. apply give_fresh_Inv with (k := k) in E1; [|assumption|destruct k; cbn; lia].
    destruct E1 as [I1 ->]. split; [assumption|]. unfold obs_of; cbn.
    do 3 eexists. split; [reflexivity|]. destruct k; lia. }
  destruct c as [h|]; [|auto].
  destruct (take_pooled idx h (pooled s)) as [[b rest]|] eqn:T; [|auto].
  destruct I as [I1 I2].
  destruct (take_pooled_Forall _ _ _ _ _ _ I1 T) as [[P1 [P2 P3]] Fr].
  destruct k.
  - inversion E; subst. split.
    + split; cbn; [assumption|]. constructor; [unfold held_ok; cbn; lia|assumption].
    + unfold obs_of. do 3 eexists. split; [reflexivity|]. lia.
  - inversion E; subst. split.
    + split; cbn; [assumption|]. constructor; [unfold held_ok; cbn; lia|assumption].
    + unfold obs_of; cbn. do 3 eexists. split; [reflexivity|]. lia.
  - destruct (N.leb_spec n (b_cap b)); [|lia].
    inversion E; subst. split.
    + split; cbn; [assumption|]. constructor; [unfold held_ok; cbn; lia|assumption].
    + unfold obs_of; cbn. do 3 eexists. split; [reflexivity|]. lia.
Qed.

Lemma u32_small : forall n, (0 <= n < 4294967296)%Z -> u32 n = Z.to_N n.
Proof. intros n H. unfold u32. rewrite Z.mod_small by lia. reflexivity. Qed.

Lemma get_ok : forall k s n c s' o,
  Inv k s -> (0 <= n)%Z -> get k s n c = (s', o) -> Inv k s' /\ size_ok k n o.
Proof.
  intros k s n c s' o I Hn E. destruct k; cbn [get] in E.
  - (* BB *)
    destruct (Z.eqb_spec n 0).
    + apply give_fresh_Inv with (k := BB) in E; [|assumption|cbn; lia].
      destruct E as [I' ->]. split; [assumption|]. cbn. lia.
    + destruct (Z.ltb_spec (Z.of_N (maxlen BB)) n).
      * apply give_fresh_Inv with (k := BB) in E; [|assumption|cbn; lia].
        destruct E as [I' ->]. split; [assumption|]. cbn. lia.
      * cbn [maxlen] in H.
        rewrite u32_small in E by lia.
        apply get_class_ok in E; try assumption.
        -- destruct E as [I' (cp & l & d & -> & A & B & C)]. split; [assumption|]. cbn. lia.
        -- apply (next_log2_class BB); cbn [maxlen]; lia.
        -- apply (next_log2_ge BB). lia.
  - (* BS *)
    set (n' := if (n <=? 0)%Z then default_len else Z.to_N n) in *.
    assert (Hn' : (n <= Z.of_N n')%Z /\ 1 <= n').
    { subst n'. unfold default_len. destruct (Z.leb_spec n 0); lia. }
    destruct (N.ltb_spec (maxlen BS) n').
    + apply give_fresh_Inv with (k := BS) in E; [|assumption|cbn; lia].
      destruct E as [I' ->]. split; [assumption|]. cbn. lia.
    + cbn [maxlen] in H. rewrite u32_small in E by lia. rewrite N2Z.id in E.
      apply get_class_ok in E; try assumption.
      * destruct E as [I' (cp & l & d & -> & A & B & C)]. split; [assumption|]. cbn. lia.
      * apply (next_log2_class BS); cbn [maxlen]; lia.
      * apply (next_log2_ge BS). lia.
  - (* IB *)
    set (n' := if (n <=? 0)%Z then default_len else Z.to_N n) in *.
    assert (Hn' : (n <= Z.of_N n')%Z /\ 1 <= n' /\ ((0 < n)%Z -> Z.of_N n' = n)).
    { subst n'. unfold default_len. destruct (Z.leb_spec n 0); lia. }
    destruct (N.ltb_spec (maxlen IB) n').
    + apply give_fresh_Inv with (k := IB) in E; [|assumption|cbn; lia].
      destruct E as [I' ->]. split; [assumption|]. cbn. lia.
    + cbn [maxlen] in H. rewrite u32_small in E by lia. rewrite N2Z.id in E.
      apply get_class_ok in E; try assumption.
      * destruct E as [I' (cp & l & d & -> & A & B & C)]. split; [assumption|]. cbn. lia.
      * apply (next_log2_class IB); cbn [maxlen]; lia.
      * apply (next_log2_ge IB). lia.
Qed.

(* negative "lengths" (BB only reaches the pool with them) may panic, but never break the invariant *)
Lemma get_Inv_any : forall k s n c s' o, Inv k s -> get k s n c = (s', o) -> Inv k s'.
Proof.
  intros k s n c s' o I E.
  destruct (Z.le_gt_cases 0 n) as [P|Ng]; [eapply get_ok; eauto|].
  destruct k; cbn [get] in E.
  - destruct (Z.eqb_spec n 0); [lia|].
    destruct (Z.ltb_spec (Z.of_N (maxlen BB)) n); [cbn [maxlen] in *; lia|].
    unfold get_class in E.
    destruct (nclasses BB <=? next_log2_bb (u32 n)); [inversion E; subst; assumption|].
    destruct I as [I1 I2].
    assert (FR : forall b s1 o1, b_len b <= b_cap b -> give_fresh s b = (s1, o1) -> Inv BB s1).
    { intros b s1 o1 Hb E1. eapply give_fresh_Inv in E1; [apply E1|split; assumption|assumption]. }
    destruct c as [h|]; [|eapply FR; [|exact E]; cbn; lia].
    destruct (take_pooled _ h (pooled s)) as [[b rest]|] eqn:T; [|eapply FR; [|exact E]; cbn; lia].
    destruct (take_pooled_Forall _ _ _ _ _ _ I1 T) as [[P1 [P2 P3]] Fr].
    inversion E; subst. split; cbn; [assumption|]. constructor; [unfold held_ok; cbn; lia|assumption].
  - destruct (Z.leb_spec n 0); [|lia].
    assert (E0 : get BS s 0 c = (s', o)).
    { cbn [get]. exact E. }
    eapply get_ok in E0; [apply E0|assumption|lia].
  - destruct (Z.leb_spec n 0); [|lia].
    assert (E0 : get IB s 0 c = (s', o)).
    { cbn [get]. exact E. }
    eapply get_ok in E0; [apply E0|assumption|lia].
Qed.

Lemma put_Inv : forall k s h, Inv k s -> Inv k (put k s h).
Proof.
  intros k s h [I1 I2]. unfold put.
  destruct (take_held h (held s)) as [[b rest]|] eqn:T; [|split; assumption].
  destruct (take_held_Forall _ _ _ _ _ I2 T) as [Hb Fr].
  destruct (N.eqb_spec (b_cap b) 0); cbn [orb]; [split; assumption|].
  destruct (N.ltb_spec (maxlen k) (b_cap b)); [split; assumption|].
  split; cbn; [|assumption].
  constructor; [|assumption]. cbn.
  split; [apply prev_log2_class; lia|]. split; [apply prev_log2_le; lia|reflexivity].
Qed.

Lemma apply_mut_wf : forall b m, b_len b <= b_cap b -> b_len (apply_mut b m) <= b_cap (apply_mut b m).
Proof.
  intros b m H. destruct m; cbn [apply_mut].
  - destruct (i <? b_len b); cbn; assumption.
  - cbn; assumption.
  - destruct (N.leb_spec k (b_cap b)); cbn; lia.
  - destruct (N.leb_spec l c); cbn; lia.
Qed.

Lemma mutate_Inv : forall k s h m, Inv k s -> Inv k (mutate s h m).
Proof.
  intros k s h m [I1 I2]. unfold mutate.
  destruct (take_held h (held s)) as [[b rest]|] eqn:T; [|split; assumption].
  destruct (take_held_Forall _ _ _ _ _ I2 T) as [Hb Fr].
  split; cbn; [assumption|]. constructor; [|assumption].
  unfold held_ok in *; cbn in *. apply apply_mut_wf; assumption.
Qed.

Lemma step_Inv : forall k s o, Inv k s -> Inv k (fst (step k s o)).
Proof.
  intros k s o I. destruct o; cbn [step].
  - destruct (get k s n choice) as [s' r] eqn:E. cbn. eapply get_Inv_any; eauto.
  - cbn. apply put_Inv; assumption.
  - cbn. apply mutate_Inv; assumption.
Qed.

Definition final_from (k : kind) (s : st) (ops : list op) : st :=
  fold_left (fun s o => fst (step k s o)) ops s.

Lemma final_Inv : forall k ops s, Inv k s -> Inv k (final_from k s ops).
Proof.
  induction ops as [|o ops IH]; intros s I; cbn; [assumption|].
  apply IH. apply step_Inv; assumption.
Qed.

Lemma outs_size_ok_from : forall k ops s n o,
  Inv k s -> (0 <= n)%Z -> In (n, o) (outs_from k s ops) -> size_ok k n o.
Proof.
  induction ops as [|op ops IH]; intros s n o I Hn Hin; cbn [outs_from] in Hin; [contradiction|].
  pose proof (step_Inv k s op I) as I'.
  destruct (step k s op) as [s' r] eqn:E. cbn [fst] in I'.
  destruct r as [x|].
  - destruct Hin as [Hx|Hin]; [|eapply IH; eauto]. subst x.
    destruct op; cbn [step] in E.
    + destruct (get k s n0 choice) as [s1 r1] eqn:G. inversion E; subst.
      pose proof (get_ok _ _ _ _ _ _ I Hn G) as [_ R]. exact R.
    + inversion E.
    + inversion E.
  - eapply IH; eauto.
Qed.

Theorem outs_size_ok : forall k ops n o,
  (0 <= n)%Z -> In (n, o) (outs k ops) -> size_ok k n o.
Proof. intros. eapply outs_size_ok_from; eauto using Inv_init. Qed.

Theorem pool_inv : forall k ops, Inv k (final_from k init ops).
Proof. intros. apply final_Inv, Inv_init. Qed.

(* byte buffers and byte-slice lists: len = 0, so nothing stale is visible *)
Theorem bytes_good : forall k, k <> IB -> forall ops n o,
  (0 <= n)%Z -> In (n, o) (outs k ops) -> good k n o.
Proof.
  intros k Hk ops n o Hn Hin. pose proof (outs_size_ok k ops n o Hn Hin) as S.
  split; [assumption|]. destruct o as [|c l d]; cbn in *; [trivial|].
  destruct k; try congruence; intros i _; lia.
Qed.

(* ------------------------------------------------------------------ *)
(* item buffers: cleanliness                                           *)

Definition all_empty (d : list (N * N)) : Prop :=
  Forall (fun '(lo, hi) => hi <= lo) d.

Lemma all_empty_lowest : forall d, all_empty d -> lowest_dirty d = None.
Proof.
  induction 1 as [|[lo hi] d H F IH]; cbn [lowest_dirty]; [reflexivity|].
  rewrite IH. destruct (N.ltb_spec lo hi); [lia|reflexivity].
Qed.

Lemma clear_below_empty : forall len d, dirty_below len d = true -> all_empty (clear_below len d).
Proof.
  induction d as [|[lo hi] d IH]; cbn [dirty_below forallb clear_below map]; intro H; [constructor|].
  apply andb_prop in H. destruct H as [H1 H2]. constructor; [lia|apply IH; assumption].
Qed.

Definition pooled_clean (e : N * N * buf) : Prop := let '(_, _, b) := e in all_empty (b_dirty b).
Definition InvC (s : st) : Prop := Forall pooled_clean (pooled s).

Lemma get_clean : forall s n c s' o,
  InvC s -> get IB s n c = (s', o) ->
  InvC s' /\ match o with ObsPanic => True | ObsBuf _ _ d => d = None end.
Proof.
  intros s n c s' o I E. cbn [get] in E.
  set (n' := if (n <=? 0)%Z then default_len else Z.to_N n) in *.
  assert (FR : forall b s1 o1, b_dirty b = [] -> give_fresh s b = (s1, o1) ->
            InvC s1 /\ match o1 with ObsPanic => True | ObsBuf _ _ d => d = None end).
  { intros b s1 o1 Hb E1. unfold give_fresh in E1. inversion E1; subst.
    split; [exact I|]. unfold obs_of. rewrite Hb. reflexivity. }
  destruct (maxlen IB <? n'); [eapply FR; [|exact E]; reflexivity|].
  unfold get_class in E.
  destruct (nclasses IB <=? _); [inversion E; subst; auto|].
  destruct c as [h|]; [|eapply FR; [|exact E]; reflexivity].
  destruct (take_pooled _ h (pooled s)) as [[b rest]|] eqn:T; [|eapply FR; [|exact E]; reflexivity].
  destruct (take_pooled_Forall _ _ _ _ _ _ I T) as [Pb Fr]. cbn in Pb.
  destruct (n' <=? b_cap b); inversion E; subst; (split; [exact Fr|]); [|trivial].
  unfold obs_of; cbn. apply all_empty_lowest; assumption.
Qed.

Lemma put_clean : forall s h, InvC s -> put_covered s (OPut h) = true -> InvC (put IB s h).
Proof.
  intros s h I C. unfold put. cbn [put_covered] in C.
  destruct (take_held h (held s)) as [[b rest]|]; [|assumption].
  destruct ((b_cap b =? 0) || (maxlen IB <? b_cap b)); [assumption|].
  constructor; [|assumption]. cbn. apply clear_below_empty; assumption.
Qed.

Lemma mutate_clean : forall s h m, InvC s -> InvC (mutate s h m).
Proof.
  intros s h m I. unfold mutate. destruct (take_held h (held s)) as [[b rest]|]; assumption.
Qed.

Lemma item_clean_from : forall ops s n o,
  InvC s -> covered_from IB s ops = true -> In (n, o) (outs_from IB s ops) -> visible_clean o.
Proof.
  induction ops as [|op ops IH]; intros s n o I C Hin; cbn [outs_from] in Hin; [contradiction|].
  cbn [covered_from] in C. apply andb_prop in C. destruct C as [C1 C2].
  destruct op; cbn [step] in *.
  - destruct (get IB s n0 choice) as [s1 r1] eqn:G. cbn [fst] in *.
    destruct (get_clean _ _ _ _ _ I G) as [I1 Hd].
    destruct Hin as [E|Hin]; [|eapply IH; eauto].
    injection E as E1 E2. rewrite <- E2. destruct r1; cbn; [trivial|].
    intros i Hi. rewrite Hd in Hi. discriminate.
  - cbn [fst] in *. eapply IH; [|exact C2|exact Hin]. apply put_clean; assumption.
  - cbn [fst] in *. eapply IH; [|exact C2|exact Hin]. apply mutate_clean; assumption.
Qed.

Theorem item_good : forall ops,
  covered_from IB init ops = true ->
  forall n o, (0 <= n)%Z -> In (n, o) (outs IB ops) -> good IB n o.
Proof.
  intros ops C n o Hn Hin. split.
  - eapply outs_size_ok; eauto.
  - eapply item_clean_from; eauto. constructor.
Qed.

(* the writer.go discipline implies every Put is covered *)
Definition held_below (e : N * buf) : Prop := dirty_below (b_len (snd e)) (b_dirty (snd e)) = true.
Definition InvH (s : st) : Prop := Forall held_below (held s).

Lemma all_empty_below : forall len d, all_empty d -> dirty_below len d = true.
Proof.
  induction 1 as [|[lo hi] d H0 F IH]; cbn [dirty_below forallb]; [reflexivity|].
  apply andb_true_intro. split; [lia|exact IH].
Qed.

Lemma get_held_below : forall s n c s' o,
  InvC s -> InvH s -> get IB s n c = (s', o) -> InvH s'.
Proof.
  intros s n c s' o I H E. cbn [get] in E.
  set (n' := if (n <=? 0)%Z then default_len else Z.to_N n) in *.
  assert (FR : forall b s1 o1, b_dirty b = [] -> give_fresh s b = (s1, o1) -> InvH s1).
  { intros b s1 o1 Hb E1. unfold give_fresh in E1. inversion E1; subst.
    constructor; [|exact H]. unfold held_below; cbn. rewrite Hb. reflexivity. }
  destruct (maxlen IB <? n'); [eapply FR; [|exact E]; reflexivity|].
  unfold get_class in E.
  destruct (nclasses IB <=? _); [inversion E; subst; auto|].
  destruct c as [h|]; [|eapply FR; [|exact E]; reflexivity].
  destruct (take_pooled _ h (pooled s)) as [[b rest]|] eqn:T; [|eapply FR; [|exact E]; reflexivity].
  destruct (take_pooled_Forall _ _ _ _ _ _ I T) as [Pb Fr]. cbn in Pb.
  destruct (n' <=? b_cap b); inversion E; subst; [|exact H].
  constructor; [|exact H]. unfold held_below; cbn. apply all_empty_below; assumption.
Qed.

Lemma discipline_covered_from : forall ops s,
  InvC s -> InvH s -> forallb no_reslice_op ops = true -> covered_from IB s ops = true.
Proof.
  induction ops as [|op ops IH]; intros s I H D; [reflexivity|].
  cbn [forallb] in D. apply andb_prop in D. destruct D as [D1 D2].
  cbn [covered_from]. apply andb_true_intro.
  destruct op; cbn [step put_covered].
  - split; [reflexivity|].
    destruct (get IB s n choice) as [s1 r1] eqn:G. cbn [fst].
    apply IH; [eapply get_clean; eauto|eapply get_held_below; eauto|assumption].
  - assert (C : put_covered s (OPut h) = true).
    { cbn [put_covered]. destruct (take_held h (held s)) as [[b rest]|] eqn:T; [|reflexivity].
      destruct (take_held_Forall _ _ _ _ _ H T) as [Hb _]. exact Hb. }
    split; [exact C|]. cbn [fst].
    apply IH; [apply put_clean; assumption| |assumption].
    unfold put, InvH. destruct (take_held h (held s)) as [[b rest]|] eqn:T; [|exact H].
    destruct (take_held_Forall _ _ _ _ _ H T) as [_ Fr].
    destruct ((b_cap b =? 0) || (maxlen IB <? b_cap b)); exact Fr.
  - split; [reflexivity|]. cbn [fst].
    apply IH; [apply mutate_clean; assumption| |assumption].
    unfold mutate, InvH. destruct (take_held h (held s)) as [[b rest]|] eqn:T; [|exact H].
    destruct (take_held_Forall _ _ _ _ _ H T) as [Hb Fr].
    constructor; [|exact Fr]. unfold held_below in *; cbn [snd] in *.
    destruct m; cbn [no_reslice_op] in D1; try discriminate; cbn [apply_mut].
    + destruct (N.ltb_spec i (b_len b)); [|exact Hb]. cbn [b_len b_dirty dirty_below forallb].
      apply andb_true_intro. split; [lia|exact Hb].
    + cbn [b_len b_dirty dirty_below forallb]. apply andb_true_intro. split; [lia|exact Hb].
Qed.

Theorem discipline_covered : forall ops,
  forallb no_reslice_op ops = true -> covered_from IB init ops = true.
Proof. intros. apply discipline_covered_from; [constructor|constructor|assumption]. Qed.

(* Without the discipline the item pool does hand out stale items: the
   clearing loop in putItemBuf only covers B[0:len]. *)
Definition dirty_witness : list op :=
  [OGet 4 None; OMut 0 MFill; OMut 0 (MReslice 0); OPut 0; OGet 4 (Some 0)].

Theorem item_dirty_refuted :
  exists ops n o, legal_from IB init ops = true /\ (0 <= n)%Z /\
                  In (n, o) (outs IB ops) /\ ~ good IB n o.
Proof.
  exists dirty_witness, 4%Z, (ObsBuf 4 4 (Some 0)).
  split; [vm_compute; reflexivity|]. split; [lia|]. split.
  - vm_compute. right. left. reflexivity.
  - intros [_ V]. cbn in V. specialize (V 0 eq_refl). lia.
Qed.

(* ------------------------------------------------------------------ *)
(* the oracle decides the spec                                         *)

Lemma size_ok_b_iff : forall k n o, size_ok_b k n o = true <-> size_ok k n o.
Proof.
  intros k n o. destruct o as [|c l d]; cbn [size_ok_b size_ok]; [split; [discriminate|tauto]|].
  destruct k.
  - split; intro H; [|lia]. repeat (apply andb_prop in H; destruct H as [H ?]). lia.
  - split; intro H; [|lia]. repeat (apply andb_prop in H; destruct H as [H ?]). lia.
  - destruct (Z.ltb_spec 0 n) as [P|P]; split; intro H;
      try (repeat (apply andb_prop in H; destruct H as [H ?]); lia);
      try (destruct H as (A & B & C); repeat (apply andb_true_intro; split); lia).
Qed.

Lemma visible_clean_b_iff : forall o, visible_clean_b o = true <-> visible_clean o.
Proof.
  intros [|c l [i|]]; cbn [visible_clean_b visible_clean]; try tauto.
  - split; [intros H j E; inversion E; subst; lia|intro H; specialize (H i eq_refl); lia].
  - split; [intros _ j E; discriminate|reflexivity].
Qed.

Theorem good_b_iff : forall k n o, good_b k n o = true <-> good k n o.
Proof.
  intros. unfold good_b, good. rewrite andb_true_iff, size_ok_b_iff, visible_clean_b_iff. tauto.
Qed.
