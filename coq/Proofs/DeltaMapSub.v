(* C14 x C22: for ALL schedules of the positioned map subscription protocol of Model/MapSub.v
   (state delivered over several pages with writers in between, stream pages, the live transition
   with publications buffered in its windows, recovery joins, clears, stream expiry, lost PUB/SUB
   deliveries) a live publication that is pushed to the client finds the client holding exactly the
   broker's previous entry of that key - the payload a per-key delta is computed against.  Together
   with the wire-level facts of Proofs/Delta.v (a delta against the held payload is reconstructed;
   state pages are full payloads; the catch-up of a transition is a self-contained per-key chain)
   this lifts the two exclusions of the snapshot model behind C14_map_unfiltered_partial. *)
From Coq Require Import List Arith Bool NArith Lia.
From Cfg Require Import Model.Merge Model.MapSub Proofs.MapSubLib Proofs.MapSub Proofs.MapSubPages Proofs.MapSubInv.
From Cfg Require Model.Delta Proofs.Delta.
Import ListNotations.
Close Scope N_scope.
Open Scope nat_scope.

Section LiveBase.
  Variable K : nat.
  Variable vis : key -> bool.
  Variable tlimit : nat.

  (* value level: what the client holds for the key of a delivered live push is the broker's entry
     before this publication *)
  Lemma live_push_base : forall y w y' ds u,
    Know K vis y -> wok K w ->
    step_out true K vis tlimit y (EvW w) = (y', OPushes ds u) ->
    forall p, In p ds ->
      p = (S (top (y_b y)), chg (y_b y') (S (top (y_b y)))) /\
      vis (ck (snd p)) = true /\
      c_map (y_c y) (ck (snd p)) = vof (state (y_b y)) (ck (snd p)).
  Proof.
    intros [b s l c] w y' ds u HK Hw Hstep p Hin.
    destruct HK as [HWF [HKL [Hlim [Hep [Hcm [Hlive Hph]]]]]]. cbn [y_b y_c y_l y_s] in *.
    unfold step_out in Hstep. cbn [y_b y_c y_l y_s] in Hstep.
    destruct (l_sub l) eqn:El; [|inversion Hstep].
    pose proof (Hlive eq_refl) as Eph. rewrite Eph in Hph. destruct Hph as [_ [Hcep Hs]].
    assert (Hd : exists l' c', deliver vis l c (b_epoch (apply_w b w)) (pubs_between b (apply_w b w)) = (l', c', ds, u)
                               /\ y_b y' = apply_w b w).
    { destruct w as [k v|k| |]; try (inversion Hstep; fail).
      - destruct (deliver vis l c (b_epoch (apply_w b (WPub k v))) (pubs_between b (apply_w b (WPub k v)))) as [[[l' c'] ds'] u'] eqn:Ed.
        inversion Hstep; subst. exists l', c'. split; reflexivity.
      - destruct (deliver vis l c (b_epoch (apply_w b (WRem k))) (pubs_between b (apply_w b (WRem k)))) as [[[l' c'] ds'] u'] eqn:Ed.
        inversion Hstep; subst. exists l', c'. split; reflexivity. }
    destruct Hd as [l' [c' [Ed Eb]]]. rewrite Eb. clear Hstep.
    set (b' := apply_w b w) in *.
    destruct (pubs_between_apply_w vis K b w) as [Hnil|[Ee [Ht Hone]]]; fold b' in Hnil || fold b' in Ee, Ht, Hone.
    { rewrite Hnil in Ed. cbn in Ed. inversion Ed; subst. destruct Hin. }
    rewrite Hone in Ed. cbn [deliver] in Ed.
    destruct (push vis l (b_epoch b') (S (top b), chg b' (S (top b)))) as [[l1 d] ins] eqn:Ep.
    inversion Ed; subst ds. clear Ed.
    destruct d as [q|]; [|destruct Hin].
    destruct Hin as [<-|[]].
    unfold push in Ep. rewrite El in Ep. cbn [negb fst snd] in Ep.
    destruct (Nat.eqb (b_epoch b') (l_epoch l)) eqn:Eep; cbn [negb] in Ep; [|inversion Ep].
    destruct (Nat.ltb (S (l_pos l)) (S (top b))) eqn:Egap; [inversion Ep|].
    destruct (Nat.ltb (S (top b)) (S (l_pos l))) eqn:Est; [inversion Ep|].
    destruct (vis (ck (chg b' (S (top b))))) eqn:Ev; inversion Ep; subst q.
    apply Nat.eqb_eq in Eep. apply Nat.ltb_ge in Egap. apply Nat.ltb_ge in Est.
    assert (Hpos : l_pos l = top b) by lia.
    destruct (Hs ltac:(congruence)) as [_ [_ [B3 _]]].
    split; [reflexivity|]. cbn [snd]. split; [exact Ev|].
    rewrite (B3 (ck (chg b' (S (top b))))), Ev, Hpos. reflexivity.
  Qed.

  (* reachable systems *)
  Lemma live_push_base_run : forall size limit evs w y' ds u,
    1 <= limit -> Forall (evok K) evs -> wok K w ->
    let y := run true K vis tlimit (init size limit) evs in
    step_out true K vis tlimit y (EvW w) = (y', OPushes ds u) ->
    forall p, In p ds ->
      vis (ck (snd p)) = true /\ c_map (y_c y) (ck (snd p)) = vof (state (y_b y)) (ck (snd p)).
  Proof.
    intros size limit evs w y' ds u Hl Hev Hw y Hstep p Hin.
    assert (HK : Know K vis y) by (apply know_run; auto; apply know_init; auto).
    destruct (live_push_base y w y' ds u HK Hw Hstep p Hin) as [_ H]. exact H.
  Qed.
End LiveBase.

(* payload level: [pay v] is the payload published with value id v; the previous entry of the key
   is the delta base when the publisher asked for a delta ([ud]), otherwise the push is full *)
Section Payload.
  Variable bytes : Type.
  Variable blen : bytes -> nat.
  Variable create : bytes -> bytes -> bytes.
  Variable apply : bytes -> bytes -> option bytes.
  Variable esc unesc : bytes -> bytes.
  Variable json : bool.
  Hypothesis apply_create : forall b t, apply b (create b t) = Some t.
  Hypothesis unesc_esc : forall x, unesc (esc x) = x.
  Variable pay : val -> bytes.

  Lemma live_delta_reconstructs : forall K vis tlimit size limit evs w y' ds u,
    1 <= limit -> Forall (evok K) evs -> wok K w ->
    let y := run true K vis tlimit (init size limit) evs in
    step_out true K vis tlimit y (EvW w) = (y', OPushes ds u) ->
    forall o k v (ud : bool), In (o, mkC k (Some v)) ds ->
      let prev := if ud then option_map pay (vof (state (y_b y)) k) else None in
      Delta.client_step bytes apply unesc json (option_map pay (c_map (y_c y) k))
        (Delta.get_delta_pub bytes blen create esc json prev (pay v)) = Some (pay v).
  Proof.
    intros K vis tlimit size limit evs w y' ds u Hl Hev Hw y Hstep o k v ud Hin prev.
    destruct (live_push_base_run K vis tlimit size limit evs w y' ds u Hl Hev Hw Hstep _ Hin) as [_ Hb].
    cbn [snd ck] in Hb. fold y in Hb. unfold prev. rewrite Hb.
    destruct ud.
    - destruct (vof (state (y_b y)) k) as [pv|]; cbn [option_map].
      + apply (Proofs.Delta.step_delta_same_base _ _ _ _ _ _ _ apply_create unesc_esc).
      + apply (Proofs.Delta.step_delta_no_base _ _ _ _ _ _ _ unesc_esc).
    - apply (Proofs.Delta.step_delta_no_base _ _ _ _ _ _ _ unesc_esc).
  Qed.
End Payload.
