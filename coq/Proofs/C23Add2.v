(* C23 core domain, extension: map_broker_add.lua (shallow) for a keyed Publish with a KeyMode and / or an
   ExpectedPosition (non-empty epoch) on a persistent unordered channel. *)
From Coq Require Import List NArith ZArith Bool String Ascii Lia.
From Cfg Require Import Model.RStr Model.LuaNum Model.Redis Model.RedisScripts Model.MapApi23 Model.MemMap23
                        Model.RedisMapBroker Model.RedisMapScripts
                        Proofs.C18Lib Proofs.C18Redis Proofs.C23Redis Proofs.C23Lib Proofs.C23Add Proofs.C23Read.
From Cfg Require Proofs.C18Stream Proofs.C18StreamP.
Import ListNotations.
Open Scope string_scope.

Definition keymode_block (ch key km epoch : string) : M unit :=
  if (negb (String.eqb km "") && negb (String.eqb key "") && negb (String.eqb (k_state ch) "") && negb (String.eqb "0" "1"))%bool then
    dom ex <- rc ["hexists"; k_state ch; key] ;;
    match ex with
    | RInt z =>
        let key_exists := (z =? 1)%Z in
        if (String.eqb km "if_new" && key_exists)%bool then suppressed (k_meta ch) epoch "key_exists"
        else if (String.eqb km "if_exists" && negb key_exists)%bool then suppressed (k_meta ch) epoch "key_not_found"
        else ret tt
    | _ => unreachable
    end
  else ret tt.

Definition cas_block (ch key eo ee epoch : string) : M unit :=
  if (negb (String.eqb eo "") && negb (String.eqb ee "") && negb (String.eqb key "") && negb (String.eqb (k_state ch) ""))%bool then
    dom cv <- rc ["hget"; k_state ch; key] ;;
    let cur := match cv with RBulk s => Some s | _ => None end in
    let mismatch (v : string) : M unit :=
      dom o <- current_offset (k_meta ch) ;;
      finish (RArr [RInt o; RBulk epoch; RBulk "position_mismatch"; RBulk v]) in
    if negb (String.eqb ee epoch) then mismatch (match cur with Some s => s | None => "" end)
    else match cur with
         | None => mismatch ""
         | Some v =>
             match value_offset v, str2number eo with
             | None, _ => mismatch v
             | Some (Some ko), TNum eo' => if (ko =? eo')%Z then ret tt else mismatch v
             | Some None, TNum _ => mismatch v
             | _, _ => unreachable
             end
         end
  else ret tt.

Definition core_keyed2 (ch key payload size sttl nonce now_s km eo ee : string) (delta : bool) : M reply :=
  dom now <- num_of now_s ;;
  dom et <- (dom epoch <- current_epoch (k_meta ch) nonce ;;
             dom wipe <- wipe_check ch epoch ;;
             dom _ <- wipe_do ch wipe ;;
             dom _ <- keymode_block ch key km epoch ;;
             dom _ <- cas_block ch key eo ee epoch ;;
             incr_top ch epoch) ;;
  let '(epoch, top) := et in
  dom prev <- prev_block ch key delta ;;
  dom _ <- state_block ch key epoch payload top now ;;
  dom _ <- stream_block ch epoch payload size sttl top ;;
  dom _ <- when_ true (rc ["PUBLISH"; m_channel ch; pub_msg prev top epoch payload]) ;;
  finish (RArr [RInt top; RBulk epoch; RBulk ""]).

Lemma core_keyed2_eq ch c key payload size sttl nonce now_s (delta refresh : bool) vep score km eo ee :
  sh_map_add [k_stream ch; k_meta ch; ""; k_state ch; ""; k_expire ch; k_smeta ch; ""]
             [String c key; payload; size; sttl; m_channel ch; "0"; nonce; "PUBLISH"; ""; if delta then "1" else "0";
              "0"; vep; "0"; score; "0"; "0"; ch; km; if refresh then "1" else "0"; eo; ee; ""; ""; ""; ""; now_s]
  = core_keyed2 ch (String c key) payload size sttl nonce now_s km eo ee delta.
Proof. destruct delta; destruct refresh; reflexivity. Qed.

Definition km_decision (km : string) (exists_ : bool) : option string :=
  if String.eqb km "" then None
  else if (String.eqb km "if_new" && exists_)%bool then Some "key_exists"
  else if (String.eqb km "if_exists" && negb exists_)%bool then Some "key_not_found"
  else None.

Lemma suppressed_spec st ch h epoch top reason :
  hview st (k_meta ch) (Some h) -> hash_ok h epoch top 0 "" -> (top < BOUND)%N ->
  @suppressed unit (k_meta ch) epoch reason st = (st, inr (RArr [RInt (Z.of_N top); RBulk epoch; RBulk reason])).
Proof.
  intros Hm Hh Ht. unfold suppressed. unfold bindM. rewrite (current_offset_spec _ _ _ _ _ Hm Hh Ht). reflexivity.
Qed.

Lemma keymode_block_spec st ch c key km epoch sth h top :
  hview st (k_state ch) sth -> hview st (k_meta ch) (Some h) -> hash_ok h epoch top 0 "" -> (top < BOUND)%N ->
  keymode_block ch (String c key) km epoch st =
    match km_decision km (match sfind (String c key) (hash_or_empty sth) with Some _ => true | None => false end) with
    | Some r => (st, inr (RArr [RInt (Z.of_N top); RBulk epoch; RBulk r]))
    | None => (st, inl tt)
    end.
Proof.
  intros Hs Hm Hh Ht. unfold keymode_block, km_decision. rewrite k_state_ne.
  cbn [String.eqb Ascii.eqb Bool.eqb negb andb]. rewrite !andb_true_r.
  destruct (String.eqb km "") eqn:Ekm; cbn [negb]; [reflexivity|].
  rewrite bind_rc, (hexists_v _ _ _ _ Hs). cbn iota beta.
  destruct (sfind (String c key) (hash_or_empty sth)).
  - change (1 =? 1)%Z with true. cbn [negb]. rewrite !andb_true_r, !andb_false_r.
    destruct (String.eqb km "if_new"); [apply (suppressed_spec _ _ _ _ _ _ Hm Hh Ht) | reflexivity].
  - change (0 =? 1)%Z with false. cbn [negb]. rewrite !andb_true_r, !andb_false_r.
    destruct (String.eqb km "if_exists"); [apply (suppressed_spec _ _ _ _ _ _ Hm Hh Ht) | reflexivity].
Qed.

Lemma dec_eqb_empty n : String.eqb (dec n) "" = false.
Proof. destruct (dec_first_digit n) as (c & r & E & _). rewrite E. reflexivity. Qed.

Definition cur_val (epoch key : string) (cur : option mentry) : string :=
  match cur with Some e => snd (enc_s epoch (key, e)) | None => "" end.

Lemma in_sfind {A} k (v : A) l : sfind k l = Some v -> In (k, v) l.
Proof.
  induction l as [|[k' v'] l IH]; [discriminate|]. cbn [sfind].
  destruct (String.eqb k k') eqn:E; [apply String.eqb_eq in E; intros X; injection X as <-; subst; left; reflexivity|].
  intros X. right. apply IH. exact X.
Qed.

Lemma cas_block_spec st ch c key eo ee epoch state h top :
  hview st (k_state ch) (state_view epoch state) -> (forall kv, In kv state -> entry_ok (snd kv)) ->
  hview st (k_meta ch) (Some h) -> hash_ok h epoch top 0 "" -> (top < BOUND)%N ->
  ee <> "" -> (eo < 9007199254740992)%N ->
  cas_block ch (String c key) (dec eo) ee epoch st =
    match cas_check epoch (Some (eo, ee)) (sfind (String c key) state) with
    | Some _ => (st, inr (RArr [RInt (Z.of_N top); RBulk epoch; RBulk "position_mismatch";
                                RBulk (cur_val epoch (String c key) (sfind (String c key) state))]))
    | None => (st, inl tt)
    end.
Proof.
  intros Hs Hent Hm Hh Ht Hee Heo. unfold cas_block. rewrite k_state_ne, dec_eqb_empty.
  apply String.eqb_neq in Hee. rewrite Hee. cbn [String.eqb Ascii.eqb Bool.eqb negb andb]. cbv zeta.
  rewrite bind_rc, (hget_v _ _ _ _ Hs), state_view_hash, sfind_enc_s.
  assert (Hmis : forall v, (dom o <- current_offset (k_meta ch) ;; @finish unit (RArr [RInt o; RBulk epoch; RBulk "position_mismatch"; RBulk v])) st
                           = (st, inr (RArr [RInt (Z.of_N top); RBulk epoch; RBulk "position_mismatch"; RBulk v]))).
  { intros v. unfold bindM. rewrite (current_offset_spec _ _ _ _ _ Hm Hh Ht). reflexivity. }
  unfold cas_check, cur_val. rewrite (String.eqb_sym epoch ee).
  destruct (sfind (String c key) state) as [e|] eqn:Ek.
  - cbn [bulk_opt]. cbn iota beta.
    destruct (Hent _ (in_sfind _ _ _ Ek)) as [Hoff Hsc]. cbn [snd] in Hoff, Hsc.
    destruct (String.eqb ee epoch) eqn:Eep; cbn [negb].
    + unfold enc_s. cbn [fst snd]. rewrite value_offset_sval by lia. rewrite str2number_dec, round53_small by lia.
      rewrite orb_false_r. rewrite <- (Z2N.id (Z.of_N (me_off e))) by lia.
      replace (Z.of_N (Z.to_N (Z.of_N (me_off e))) =? Z.of_N eo)%Z with (me_off e =? eo)%N
        by (rewrite N2Z.id; destruct (me_off e =? eo)%N eqn:X; symmetry; [apply N.eqb_eq in X; subst; apply Z.eqb_refl | apply N.eqb_neq in X; apply Z.eqb_neq; lia]).
      destruct (me_off e =? eo)%N; cbn [negb]; [reflexivity | apply Hmis].
    + rewrite orb_true_r. apply Hmis.
  - cbn [bulk_opt]. cbn iota beta. destruct (negb (String.eqb ee epoch)); apply Hmis.
Qed.

Definition exp_ok (exp : option (N * string)) : Prop :=
  match exp with Some (eo, ee) => ee <> "" /\ (eo < 9007199254740992)%N | None => True end.
Definition exp_off (exp : option (N * string)) : string := match exp with Some (eo, _) => utoa eo | None => "" end.
Definition exp_epoch (exp : option (N * string)) : string := match exp with Some (_, ee) => ee | None => "" end.
Definition cas_dec (epoch : string) (exp : option (N * string)) (cur : option mentry) : option (option (N * string)) :=
  match exp with Some p => cas_check epoch (Some p) cur | None => None end.
Definition is_some {A} (o : option A) : bool := match o with Some _ => true | None => false end.

Lemma core_keyed2_spec st ch c key payload size sttl nonce now_ delta v epoch top es0 state km exp :
  let K := String c key in
  views st ch v -> meta_cond v nonce epoch top -> stream_cond v top es0 -> wipe_cond v epoch ->
  rv_state v = state_view epoch state -> (forall kv, In kv state -> entry_ok (snd kv)) ->
  (top + 1 < BOUND)%N -> (size < 9223372036854775808)%N -> C18Stream.small sttl = true -> exp_ok exp ->
  let run := runM (core_keyed2 ch K payload (dec size) (millis sttl) nonce (dec now_) km (exp_off exp) (exp_epoch exp) delta) st in
  match km_decision km (is_some (sfind K state)) with
  | Some r =>
      exists st1 h1, run = (st1, RArr [RInt (Z.of_N top); RBulk epoch; RBulk r]) /\
                     hview st1 (k_meta ch) (Some h1) /\ hash_ok h1 epoch top 0 "" /\ frame [k_meta ch] st st1
  | None =>
      match cas_dec epoch exp (sfind K state) with
      | Some _ =>
          exists st1 h1, run = (st1, RArr [RInt (Z.of_N top); RBulk epoch; RBulk "position_mismatch";
                                           RBulk (cur_val epoch K (sfind K state))]) /\
                         hview st1 (k_meta ch) (Some h1) /\ hash_ok h1 epoch top 0 "" /\ frame [k_meta ch] st st1
      | None =>
          exists st' mh' hs',
            run = (st', RArr [RInt (Z.of_N (top + 1)); RBulk epoch; RBulk ""]) /\
            views st' ch (mkRV (Some mh')
                               (Some (sput K (state_value (Z.of_N (top + 1)) epoch payload) (hash_or_empty (rv_state v))))
                               (Some hs')
                               (Some (trim_approx (es0 ++ [sentry_of (top + 1) epoch payload]) (Z.of_N size), ((top + 1)%N, 0%N)))) /\
            hash_ok mh' epoch (top + 1) 0 "" /\ sfind "epoch" hs' = Some epoch /\ frame (chan_keys ch) st st'
      end
  end.
Proof.
  intros K (Vm & Vs & Vsm & Vst & Ve) Hm Hsc Hw Est Hent Ht Hsz Httl Hexp run. subst run. unfold K. clear K.
  assert (Htop : (top < BOUND)%N) by (unfold C18Stream.BOUND in *; lia).
  destruct (epoch_spec st ch nonce _ epoch top Vm Hm) as (st1 & h1 & Hc1 & Vm1 & Hh1 & F1).
  assert (Vs1 : hview st1 (k_state ch) (rv_state v)) by (apply (hview_frame _ _ _ _ _ F1); [notin | exact Vs]).
  assert (Vsm1 : hview st1 (k_smeta ch) (rv_smeta v)) by (apply (hview_frame _ _ _ _ _ F1); [notin | exact Vsm]).
  assert (Ecur : match sfind (String c key) (hash_or_empty (rv_state v)) with Some _ => true | None => false end
                 = is_some (sfind (String c key) state)).
  { rewrite Est, state_view_hash, sfind_enc_s. destruct (sfind (String c key) state); reflexivity. }
  assert (Vs1' : hview st1 (k_state ch) (state_view epoch state)) by (rewrite <- Est; exact Vs1).
  assert (Hcas : cas_block ch (String c key) (exp_off exp) (exp_epoch exp) epoch st1 =
                 match cas_dec epoch exp (sfind (String c key) state) with
                 | Some _ => (st1, inr (RArr [RInt (Z.of_N top); RBulk epoch; RBulk "position_mismatch";
                                            RBulk (cur_val epoch (String c key) (sfind (String c key) state))]))
                 | None => (st1, inl tt)
                 end).
  { destruct exp as [[eo ee]|]; [|reflexivity]. destruct Hexp as [He1 He2]. cbn [exp_off exp_epoch cas_dec]. unfold utoa.
    apply (cas_block_spec st1 ch c key eo ee epoch state h1 top); assumption. }
  pose proof (keymode_block_spec st1 ch c key km epoch _ h1 top Vs1 Vm1 Hh1 Htop) as Hkm. rewrite Ecur in Hkm.
  assert (Hpre : forall (k : string -> M (string * Z)) (k2 : Z -> string * Z -> M reply),
            runM (dom now <- num_of (dec now_) ;;
                  dom et <- (dom epoch0 <- current_epoch (k_meta ch) nonce ;;
                             dom wipe <- wipe_check ch epoch0 ;;
                             dom _ <- wipe_do ch wipe ;;
                             dom _ <- keymode_block ch (String c key) km epoch0 ;; k epoch0) ;; k2 now et) st
            = match keymode_block ch (String c key) km epoch st1 with
              | (st', inl _) => runM (dom et <- k epoch ;; k2 (round53 (Z.of_N now_)) et) st'
              | (st', inr r) => (st', r)
              end).
  { intros k k2. unfold runM. unfold bindM at 1. rewrite num_of_dec_any.
    rewrite bind_assoc. unfold bindM at 1. rewrite Hc1.
    rewrite bind_assoc. unfold bindM at 1. rewrite (wipe_spec st1 ch epoch _ _ Vs1 Vsm1 Hw).
    rewrite bind_assoc. unfold bindM at 1. unfold wipe_do at 1. unfold ret at 1.
    rewrite bind_assoc. unfold bindM at 1. destruct (keymode_block ch (String c key) km epoch st1) as [st' [[]|r]]; reflexivity. }
  unfold core_keyed2.
  destruct (km_decision km (is_some (sfind (String c key) state))) as [r|].
  { exists st1, h1. split; [|split; [assumption|]; split; assumption].
    rewrite (Hpre (fun e0 => dom _ <- cas_block ch (String c key) (exp_off exp) (exp_epoch exp) e0 ;; incr_top ch e0)).
    rewrite Hkm. reflexivity. }
  destruct (cas_dec epoch exp (sfind (String c key) state)) as [cp|].
  { exists st1, h1. split; [|split; [assumption|]; split; assumption].
    rewrite (Hpre (fun e0 => dom _ <- cas_block ch (String c key) (exp_off exp) (exp_epoch exp) e0 ;; incr_top ch e0)).
    rewrite Hkm. unfold runM. rewrite bind_assoc. unfold bindM at 1. rewrite Hcas. reflexivity. }
  rewrite (Hpre (fun e0 => dom _ <- cas_block ch (String c key) (exp_off exp) (exp_epoch exp) e0 ;; incr_top ch e0)).
  rewrite Hkm. unfold runM. rewrite bind_assoc. unfold bindM at 1. rewrite Hcas.
  (* accepted: as without key mode / CAS *)
  destruct (incr_spec st1 ch epoch h1 top Vm1 Hh1 Ht) as (h2 & Hc2 & Hh2).
  unfold bindM at 1. rewrite Hc2. cbn iota beta.
  set (st2 := setval st1 (k_meta ch) (VHash h2)).
  assert (F2 : frame [k_meta ch] st st2) by (eapply frame_trans; [exact F1 | apply frame_setval]).
  assert (Vs2 : hview st2 (k_state ch) (rv_state v)) by (apply (hview_frame _ _ _ _ _ F2); [notin | exact Vs]).
  assert (Vsm2 : hview st2 (k_smeta ch) (rv_smeta v)) by (apply (hview_frame _ _ _ _ _ F2); [notin | exact Vsm]).
  destruct (prev_block_spec st2 ch (String c key) delta _ Vs2) as [prev Hp].
  unfold bindM at 1. rewrite Hp.
  destruct (state_block_spec st2 ch (String c key) epoch payload (Z.of_N (top + 1)) (round53 (Z.of_N now_)) _ _ Vs2 Vsm2)
    as (st3 & hs & Hc3 & Vs3 & Vsm3 & Hep3 & F3).
  unfold bindM at 1. rewrite Hc3.
  assert (F03 : frame [k_meta ch; k_state ch; k_smeta ch] st st3).
  { eapply frame_trans; [eapply frame_weaken; [|exact F2]; inclt | eapply frame_weaken; [|exact F3]; inclt]. }
  assert (Vst3 : sview st3 (k_stream ch) (rv_stream v)) by (apply (sview_frame _ _ _ _ _ F03); [notin | exact Vst]).
  assert (Hsc2 : (top = 0%N /\ es0 = []) \/ ((0 < top)%N /\ rv_stream v = Some (es0, (top, 0%N)))) by exact Hsc.
  destruct (stream_block_spec st3 ch epoch payload size sttl top _ es0 Vst3 Hsc2 Ht Hsz Httl) as (st4 & Hc4 & Vst4 & F4).
  unfold bindM at 1. rewrite Hc4. unfold bindM at 1. rewrite publish_spec. unfold finish.
  eexists. exists h2, hs. split; [reflexivity|].
  set (st5 := mkR (store st4) (now st4) _).
  assert (F35 : frame [k_stream ch] st3 st5) by (eapply frame_trans; [exact F4 | apply frame_publish]).
  assert (F05 : frame (chan_keys ch) st st5).
  { eapply frame_trans; [eapply frame_weaken; [|exact F03]; ck | eapply frame_weaken; [|exact F35]; ck]. }
  split; [|split; [exact Hh2 | split; [exact Hep3 | exact F05]]].
  unfold views. cbn [rv_meta rv_state rv_smeta rv_stream].
  split; [apply (hview_frame _ _ _ _ _ F35); [notin|]; apply (hview_frame _ _ _ _ _ F3); [notin | apply hview_setval]|].
  split; [apply (hview_frame _ _ _ _ _ F35); [notin | exact Vs3]|].
  split; [apply (hview_frame _ _ _ _ _ F35); [notin | exact Vsm3]|].
  split; [exact Vst4|].
  destruct F35 as [F35 _]. destruct F03 as [F03 _]. rewrite F35 by notin. rewrite F03 by notin. exact Ve.
Qed.
