(* Redis model: conditional equations for the extra command forms used by the map scripts. *)
From Coq Require Import List NArith ZArith Bool String Ascii Lia.
From Cfg Require Import Model.RStr Model.LuaNum Model.Redis Model.RedisScripts Proofs.C18Lib Proofs.C18Redis.
Import ListNotations.
Open Scope string_scope.

Lemma hlen_call st k : redis_call st ["hlen"; k] =
  match get_hash st k with None => (st, wrongtype) | Some oh => (st, RInt (Z.of_nat (List.length (hash_or_empty oh)))) end.
Proof. reflexivity. Qed.

Lemma hexists_call st k f : redis_call st ["hexists"; k; f] =
  match get_hash st k with
  | None => (st, wrongtype)
  | Some oh => (st, RInt (match sfind f (hash_or_empty oh) with Some _ => 1 | None => 0 end))
  end.
Proof. reflexivity. Qed.

Lemma hdel1_call st k f : redis_call st ["hdel"; k; f] =
  match get_hash st k with
  | None => (st, wrongtype)
  | Some None => (st, RInt 0)
  | Some (Some h) =>
      let h' := sdel f h in
      let n := Z.of_nat (List.length h - List.length h') in
      match h' with [] => (delk st k, RInt n) | _ => (setval st k (VHash h'), RInt n) end
  end.
Proof. reflexivity. Qed.

Lemma hdel2_call st k f1 f2 : redis_call st ["hdel"; k; f1; f2] =
  match get_hash st k with
  | None => (st, wrongtype)
  | Some None => (st, RInt 0)
  | Some (Some h) =>
      let h' := sdel f2 (sdel f1 h) in
      let n := Z.of_nat (List.length h - List.length h') in
      match h' with [] => (delk st k, RInt n) | _ => (setval st k (VHash h'), RInt n) end
  end.
Proof. reflexivity. Qed.

Lemma zrem1_none st k m : getk st k = None -> redis_call st ["zrem"; k; m] = (st, RInt 0).
Proof.
  intros H. change (redis_call st ["zrem"; k; m]) with (cmd_zrem st [k; m]). unfold cmd_zrem, get_zset. rewrite H. reflexivity.
Qed.

Lemma exists1_call st k : redis_call st ["exists"; k] = (st, RInt (match getk st k with Some _ => 1 | None => 0 end)).
Proof.
  change (redis_call st ["exists"; k]) with (cmd_exists st [k]). unfold cmd_exists. cbn [filter].
  destruct (getk st k); reflexivity.
Qed.

Lemma hgetall_call st k : redis_call st ["hgetall"; k] =
  match get_hash st k with None => (st, wrongtype) | Some oh => (st, RArr (flat_kv (hash_or_empty oh))) end.
Proof. reflexivity. Qed.

Lemma hscan0_call st k n : redis_call st ["hscan"; k; "0"; "COUNT"; n] =
  match get_hash st k with
  | None => (st, wrongtype)
  | Some oh => (st, RArr [RBulk "0"; RArr (flat_kv (hash_or_empty oh))])
  end.
Proof. reflexivity. Qed.

Lemma pexpire_some st k ms s rk :
  getk st k = Some rk -> parse_ll ms = Some s -> (0 < s)%Z ->
  redis_call st ["pexpire"; k; ms] = (putk st k (mkKey (k_val rk) (Some (now st + Z.to_N s)%N)), RInt 1).
Proof.
  intros H Hp Hs. change (redis_call st ["pexpire"; k; ms]) with (cmd_pexpire st [k; ms]). unfold cmd_pexpire.
  rewrite Hp, H. replace (s <=? 0)%Z with false by (symmetry; apply Z.leb_gt; lia). reflexivity.
Qed.

(* XADD key MAXLEN ~ n id "e" epoch "d" payload *)
Definition xadd_approx_result (es : list sentry) (n : Z) (top : N) (epoch msg : string) : rval :=
  VStream (trim_approx (es ++ [mkEntry (top, 0%N) ["e"; epoch; "d"; msg]]) n) (top, 0%N).

Lemma xadd_approx_call st k n top epoch msg :
  (n < 9223372036854775808)%N -> (0 < top <= u64max)%N ->
  redis_call st ["xadd"; k; "MAXLEN"; "~"; dec n; dec top; "e"; epoch; "d"; msg] =
    match get_stream st k with
    | None => (st, wrongtype)
    | Some os =>
        let '(es, last) := match os with Some x => x | None => ([], (0, 0)%N) end in
        if sid_le (top, 0%N) last
        then (st, RErr "ERR The ID specified in XADD is equal or smaller than the target stream top item")
        else (setval st k (xadd_approx_result es (Z.of_N n) top epoch msg), RBulk (sid_str (top, 0%N)))
    end.
Proof.
  intros Hn Ht.
  change (redis_call st ["xadd"; k; "MAXLEN"; "~"; dec n; dec top; "e"; epoch; "d"; msg])
    with (cmd_xadd st [k; "MAXLEN"; "~"; dec n; dec top; "e"; epoch; "d"; msg]).
  unfold cmd_xadd.
  change (String.eqb (lower "MAXLEN") "maxlen") with true. cbn iota.
  change ((String.eqb "~" "=" || String.eqb "~" "~")%bool) with true. cbn iota.
  rewrite parse_ll_dec by assumption.
  replace (Z.of_N n <? 0)%Z with false by (symmetry; apply Z.ltb_ge; lia).
  change (String.eqb "~" "~") with true.
  cbn [List.length Nat.eqb Nat.odd Nat.even orb negb].
  rewrite (dec_neq_lit top "*") by reflexivity.
  rewrite (dec_no_char "*"%char top) by reflexivity.
  rewrite parse_sid_dec by lia.
  destruct (get_stream st k) as [[[es' last']|]|]; [| |reflexivity].
  - cbn [fst snd]. replace ((top =? 0)%N) with false by (symmetry; apply N.eqb_neq; lia). cbn [andb].
    destruct (sid_le (top, 0%N) last'); reflexivity.
  - cbn [fst snd]. replace ((top =? 0)%N) with false by (symmetry; apply N.eqb_neq; lia). cbn [andb].
    destruct (sid_le (top, 0%N) (0, 0)%N); reflexivity.
Qed.
