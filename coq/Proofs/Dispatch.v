(* C09 — proofs over the dispatch model (Model/Dispatch.v) for ALL configurations,
   states, commands, frames, label sequences and completion orders. *)
From Coq Require Import List NArith Bool Arith Lia.
From Cfg Require Import Model.Dispatch Model.DispatchSpec.
Import ListNotations.
Open Scope N_scope.

(* ---------- gate and pong rules at the level of one command / one frame ---------- *)

Lemma gate_command : forall g s c,
  s_closed s = false -> s_unusable s = false -> s_auth s = false -> has KConnect c = false ->
  handle_command g s c
  = Some (set_closed s, [OIssue (c_id c) (expects c); OClose 3501], false).
Proof. intros g s c H1 H2 H3 H4; unfold handle_command; rewrite H1, H2, H3, H4; reflexivity. Qed.

Lemma gate_frame : forall g s c cs m,
  s_closed s = false -> s_unusable s = false -> s_auth s = false -> has KConnect c = false ->
  handle_frame g s (c :: cs) m
  = Some (set_closed s, [OIssue (c_id c) (expects c); OClose 3501]).
Proof.
  intros g s c cs m H1 H2 H3 H4; unfold handle_frame; cbn [handle_cmds].
  rewrite gate_command by assumption. reflexivity.
Qed.

Lemma pong_unexpected : forall g s c,
  s_closed s = false -> s_unusable s = false -> s_auth s = true ->
  is_pong c = true -> s_ping s = false ->
  handle_command g s c
  = Some (set_closed s, [OIssue (c_id c) (expects c); OClose 3501], false).
Proof.
  intros g s c H1 H2 H3 H4 H5; unfold handle_command; rewrite H1, H2, H3, H4, H5; reflexivity.
Qed.

Lemma pong_expected : forall g s c,
  s_closed s = false -> s_unusable s = false -> s_auth s = true ->
  is_pong c = true -> s_ping s = true ->
  handle_command g s c = Some (set_ping s false, [OIssue (c_id c) (expects c)], true).
Proof.
  intros g s c H1 H2 H3 H4 H5; unfold handle_command; rewrite H1, H2, H3, H4, H5; reflexivity.
Qed.

(* ---------- bookkeeping of replies ---------- *)

Definition npend (id : N) (s : st) : nat :=
  length (filter (fun p => p_id p =? id) (s_pend s)).

Ltac brk H :=
  repeat match type of H with
         | context [if ?b then _ else _] => destruct b eqn:?
         | context [match ?x with _ => _ end] => destruct x eqn:?
         end.

Definition is_send (k : kind) : bool := match k with KSend => true | _ => false end.

(* which handle* outcomes are possible for which request *)
Lemma rh_shape0 : forall g s c k,
  match run_handler g s c k with
  | HSilent _ => k = KSend
  | HDisc _ => True
  | _ => is_send k = false
  end.
Proof.
  intros g s c k; destruct k; unfold run_handler, by_script; cbn [is_send];
    repeat match goal with
           | |- context [if ?b then _ else _] => destruct b
           | |- context [match c_script c with _ => _ end] => destruct (c_script c)
           end; auto.
Qed.

(* with the OnCommandRead hook in front: an error reply to a send is possible, from the hook only *)
Lemma rh_shape : forall g s c k,
  match run_handler_rd g s c k with
  | HSilent _ => k = KSend /\ rd_err c = false
  | HDisc _ => True
  | _ => rd_err c || negb (is_send k) = true
  end.
Proof.
  intros g s c k. pose proof (rh_shape0 g s c k) as Sh. unfold run_handler_rd, rd_err.
  destruct (c_read c); auto.
  destruct (run_handler g s c k); auto; cbn [orb]; rewrite Sh; reflexivity.
Qed.

Lemma expects_eq : forall c k0 k,
  first_of frame_order c = Some k0 -> first_of handler_order c = Some k ->
  expects c = negb (is_pong c) && (rd_err c || negb (is_send k)).
Proof.
  intros c k0 k H1 H2; unfold expects; rewrite H1, H2; destruct k; cbn [is_send negb];
    rewrite ?orb_true_r, ?orb_false_r; reflexivity.
Qed.

Lemma expects_pong : forall c, is_pong c = true -> expects c = false.
Proof. intros c H; unfold expects; rewrite H; reflexivity. Qed.

Lemma nrep_nil : forall id, nrep id [] = 0%nat. Proof. reflexivity. Qed.
Lemma niss_nil : forall id, niss id [] = 0%nat. Proof. reflexivity. Qed.
Lemma nrep_app : forall id a b, nrep id (a ++ b) = (nrep id a + nrep id b)%nat.
Proof. intros; unfold nrep; rewrite filter_app, app_length; reflexivity. Qed.
Lemma niss_app : forall id a b, niss id (a ++ b) = (niss id a + niss id b)%nat.
Proof. intros; unfold niss; rewrite filter_app, app_length; reflexivity. Qed.
Lemma nrep_cons : forall id o l,
  nrep id (o :: l) = ((match o with OReply i _ => if (i =? id)%N then 1 else 0 | _ => 0 end) + nrep id l)%nat.
Proof. intros; unfold nrep; cbn [filter]; destruct o as [| |i e|]; try reflexivity. destruct (i =? id); reflexivity. Qed.
Lemma niss_cons : forall id o l,
  niss id (o :: l) = ((match o with OIssue i true => if (i =? id)%N then 1 else 0 | _ => 0 end) + niss id l)%nat.
Proof.
  intros; unfold niss; cbn [filter]; destruct o as [i e| | |]; try reflexivity.
  destruct e; [destruct (i =? id)|]; reflexivity.
Qed.

Lemma npend_add : forall id s i k ch,
  npend id (add_pend s i k ch) = (npend id s + (if (i =? id)%N then 1 else 0))%nat.
Proof.
  intros; unfold npend, add_pend; cbn [s_pend].
  rewrite filter_app, app_length; cbn [filter p_id]. destruct (i =? id); reflexivity.
Qed.

Lemma npend_state_after : forall id s k ch, npend id (state_after s k ch) = npend id s.
Proof. intros; destruct k; reflexivity. Qed.

Ltac cnt :=
  rewrite ?nrep_cons, ?niss_cons, ?nrep_app, ?niss_app, ?nrep_cons, ?niss_cons, ?nrep_nil, ?niss_nil,
          ?npend_add, ?npend_state_after.

Lemma hc_counts : forall g s c s' o p id,
  handle_command g s c = Some (s', o, p) ->
  (nrep id o + npend id s' <= niss id o + npend id s)%nat /\
  (s_closed s' = false -> (nrep id o + npend id s' = niss id o + npend id s)%nat).
Proof.
  intros g s c s' o p id H. unfold handle_command in H.
  destruct (s_closed s) eqn:Hc. { inversion H; subst s' o p; cnt; split; intros; lia. }
  destruct (s_unusable s). { inversion H; subst s' o p; cnt; split; [change (npend id (set_closed s)) with (npend id s); lia|discriminate]. }
  destruct (negb (s_auth s) && negb (has KConnect c)).
  { inversion H; subst s' o p; cnt. change (npend id (set_closed s)) with (npend id s).
    split; [destruct (expects c); lia|discriminate]. }
  destruct (is_pong c) eqn:P.
  { rewrite (expects_pong c P) in H. destruct (s_ping s); inversion H; subst s' o p; cnt.
    - change (npend id (set_ping s false)) with (npend id s). split; intros; lia.
    - change (npend id (set_closed s)) with (npend id s). split; [lia|discriminate]. }
  assert (Hbad : forall e, (nrep id [OIssue (c_id c) e; OClose 3501] + npend id (set_closed s)
                             <= niss id [OIssue (c_id c) e; OClose 3501] + npend id s)%nat).
  { intro e; cnt. change (npend id (set_closed s)) with (npend id s). destruct e; lia. }
  destruct (first_of frame_order c) as [k0|] eqn:F.
  2: { inversion H; subst s' o p. split; [apply Hbad|discriminate]. }
  destruct (first_of handler_order c) as [k|] eqn:K.
  2: { inversion H; subst s' o p. split; [apply Hbad|discriminate]. }
  rewrite (expects_eq c k0 k F K), P in H. cbn [negb andb] in H.
  pose proof (rh_shape g s c k) as Sh.
  destruct (run_handler_rd g s c k) as [code|code|inv r|  |inv| ] eqn:R.
  - (* HErr *) rewrite Sh in H. cbn [negb] in H.
    destruct (has KConnect c); inversion H; subst s' o p; cnt;
      destruct (connect_invoked s c k); cnt;
      try change (npend id (set_unusable s)) with (npend id s);
      destruct (c_id c =? id); split; intros; lia.
  - (* HDisc *) inversion H; subst s' o p; cnt. change (npend id (set_closed s)) with (npend id s).
    split; [|discriminate]. destruct (connect_invoked s c k); cnt; destruct (negb (is_send k)); lia.
  - (* HSync *) rewrite Sh in H. cbn [negb] in H.
    destruct r; inversion H; subst s' o p; cnt; destruct inv; cnt;
      try change (npend id (set_closed s)) with (npend id s);
      destruct (c_id c =? id); split; intros; try discriminate; lia.
  - (* HAsync *) rewrite Sh in H. cbn [negb] in H. inversion H; subst s' o p; cnt.
    destruct (c_id c =? id); split; intros; lia.
  - (* HSilent *) destruct Sh as [Sk Sr]; subst k. rewrite Sr in H. cbn [is_send negb orb] in H. inversion H; subst s' o p; cnt.
    destruct inv; cnt; split; intros; lia.
  - discriminate.
Qed.

(* closedness is absorbing and a stopped reader means closed-or-unusable *)
Lemma hc_closed : forall g s c s' o p,
  handle_command g s c = Some (s', o, p) -> s_closed s = true -> s' = s /\ o = [] /\ p = false.
Proof. intros g s c s' o p H Hc; unfold handle_command in H; rewrite Hc in H; inversion H; auto. Qed.

Definition flag (id : N) (c : cmd) : nat := if (c_id c =? id) && expects c then 1%nat else 0%nat.

Lemma niss_issue : forall id c l,
  niss id (OIssue (c_id c) (expects c) :: l) = (flag id c + niss id l)%nat.
Proof.
  intros; rewrite niss_cons; unfold flag. destruct (expects c), (c_id c =? id); reflexivity.
Qed.

(* shape of one HandleCommand from an open, usable connection *)
Lemma hc_open : forall g s c s' o p id,
  handle_command g s c = Some (s', o, p) -> s_closed s = false -> s_unusable s = false ->
  niss id o = flag id c /\
  (p = true -> s_closed s' = false /\ s_unusable s' = false) /\
  (p = false -> s_closed s' = true \/ s_unusable s' = true).
Proof.
  intros g s c s' o p id H Hc Hu. unfold handle_command in H. rewrite Hc, Hu in H.
  assert (Z : forall l, (forall x, In x l -> match x with OIssue _ _ => False | _ => True end) -> niss id l = 0%nat).
  { induction l as [|x l IH]; intro Hl; [reflexivity|]. rewrite niss_cons, IH.
    - specialize (Hl x (or_introl eq_refl)). destruct x; try reflexivity. contradiction.
    - intros y Hy; apply Hl; right; assumption. }
  destruct (negb (s_auth s) && negb (has KConnect c)).
  { inversion H; subst s' o p. rewrite niss_issue, Z by (simpl; intuition (subst; auto)).
    repeat split; try discriminate; auto; lia. }
  destruct (is_pong c).
  { destruct (s_ping s); inversion H; subst s' o p; rewrite niss_issue, Z by (simpl; intuition (subst; auto));
      repeat split; try discriminate; auto; lia. }
  destruct (first_of frame_order c) as [k0|].
  2: { inversion H; subst s' o p. rewrite niss_issue, Z by (simpl; intuition (subst; auto)).
       repeat split; try discriminate; auto; lia. }
  destruct (first_of handler_order c) as [k|].
  2: { inversion H; subst s' o p. rewrite niss_issue, Z by (simpl; intuition (subst; auto)).
       repeat split; try discriminate; auto; lia. }
  destruct (run_handler_rd g s c k) as [code|code|inv r|  |inv| ]; try discriminate.
  - destruct (has KConnect c); inversion H; subst s' o p; rewrite niss_issue, Z;
      try (destruct (connect_invoked s c k); simpl; intuition (subst; auto));
      repeat split; try discriminate; auto; lia.
  - inversion H; subst s' o p; rewrite niss_issue, Z;
      try (destruct (connect_invoked s c k); simpl; intuition (subst; auto));
      repeat split; try discriminate; auto; lia.
  - destruct r; inversion H; subst s' o p; rewrite niss_issue, Z;
      try (destruct inv; simpl; intuition (subst; auto));
      repeat split; try discriminate; auto; try lia; destruct k; assumption.
  - inversion H; subst s' o p; rewrite niss_issue, Z by (simpl; intuition (subst; auto)).
    repeat split; try discriminate; auto; lia.
  - inversion H; subst s' o p; rewrite niss_issue, Z;
      try (destruct inv; simpl; intuition (subst; auto));
      repeat split; try discriminate; auto; lia.
Qed.

Lemma hc_niss_le : forall g s c s' o p id,
  handle_command g s c = Some (s', o, p) -> (niss id o <= flag id c)%nat.
Proof.
  intros g s c s' o p id H.
  destruct (s_closed s) eqn:Hc.
  { destruct (hc_closed _ _ _ _ _ _ H Hc) as [_ [-> _]]. rewrite niss_nil; lia. }
  destruct (s_unusable s) eqn:Hu.
  { unfold handle_command in H; rewrite Hc, Hu in H; inversion H; subst. rewrite niss_cons, niss_nil; lia. }
  destruct (hc_open _ _ _ _ _ _ id H Hc Hu) as [E _]. lia.
Qed.

Definition open_usable (s : st) : Prop := s_closed s = false /\ s_unusable s = false.

Lemma hc_back : forall g s c s' o p id,
  handle_command g s c = Some (s', o, p) -> open_usable s' ->
  open_usable s /\ p = true /\ niss id o = flag id c.
Proof.
  intros g s c s' o p id H [Hc' Hu'].
  destruct (s_closed s) eqn:Hc.
  { destruct (hc_closed _ _ _ _ _ _ H Hc) as [-> _]. congruence. }
  destruct (s_unusable s) eqn:Hu.
  { unfold handle_command in H; rewrite Hc, Hu in H; inversion H; subst. discriminate. }
  destruct (hc_open _ _ _ _ _ _ id H Hc Hu) as [E [Pt Pf]].
  split; [unfold open_usable; split; assumption|]. split; [|assumption].
  destruct p; [reflexivity|]. destruct (Pf eq_refl); congruence.
Qed.

Fixpoint flags (id : N) (cs : list cmd) : nat :=
  match cs with [] => 0%nat | c :: r => (flag id c + flags id r)%nat end.

Lemma flags_sentE : forall id cs,
  flags id cs = length (filter (fun c => (c_id c =? id) && expects c) cs).
Proof.
  induction cs as [|c r IH]; [reflexivity|]. cbn [flags filter]. unfold flag at 1.
  destruct ((c_id c =? id) && expects c); cbn [length]; lia.
Qed.

(* ---------- lifting to frames, completions, runs ---------- *)

Definition counts (id : N) (s s' : st) (o : list out) : Prop :=
  (nrep id o + npend id s' <= niss id o + npend id s)%nat /\
  (s_closed s' = false -> (nrep id o + npend id s' = niss id o + npend id s)%nat).

Lemma counts_refl : forall id s, counts id s s [].
Proof. intros; split; intros; rewrite nrep_nil, niss_nil; lia. Qed.

Lemma counts_trans : forall id s1 s2 s3 o1 o2,
  counts id s1 s2 o1 -> counts id s2 s3 o2 ->
  (s_closed s2 = true -> s_closed s3 = true) -> counts id s1 s3 (o1 ++ o2).
Proof.
  intros id s1 s2 s3 o1 o2 [A1 E1] [A2 E2] M. split; rewrite nrep_app, niss_app.
  - lia.
  - intro H3. assert (H2 : s_closed s2 = false) by (destruct (s_closed s2); auto; rewrite M in H3; auto).
    specialize (E1 H2); specialize (E2 H3); lia.
Qed.

Lemma hcs_closed : forall g cs s s' o p,
  handle_cmds g s cs = Some (s', o, p) -> s_closed s = true -> s' = s /\ o = [].
Proof.
  destruct cs as [|c r]; intros s s' o p H Hc; cbn [handle_cmds] in H.
  - inversion H; auto.
  - unfold handle_command in H; rewrite Hc in H. inversion H; auto.
Qed.

Lemma hcs_counts : forall g cs s s' o p id,
  handle_cmds g s cs = Some (s', o, p) -> counts id s s' o.
Proof.
  induction cs as [|c r IH]; intros s s' o p id H; cbn [handle_cmds] in H.
  - inversion H; subst. apply counts_refl.
  - destruct (handle_command g s c) as [[[s1 o1] p1]|] eqn:E; [|discriminate].
    pose proof (hc_counts _ _ _ _ _ _ id E) as C1.
    destruct p1.
    + destruct (handle_cmds g s1 r) as [[[s2 o2] p2]|] eqn:E2; [|discriminate].
      inversion H; subst. eapply counts_trans; [exact C1|eapply IH; eassumption|].
      intro Hc. destruct (hcs_closed _ _ _ _ _ _ E2 Hc) as [-> _]. assumption.
    + inversion H; subst. exact C1.
Qed.

Lemma counts_close : forall id s s' o code,
  counts id s s' o -> counts id s (set_closed s') (o ++ [OClose code]).
Proof.
  intros id s s' o code [A E]. split.
  - rewrite nrep_app, niss_app, nrep_cons, niss_cons, nrep_nil, niss_nil.
    change (npend id (set_closed s')) with (npend id s'). lia.
  - discriminate.
Qed.

Lemma hf_counts : forall g s cs m s' o id,
  handle_frame g s cs m = Some (s', o) -> counts id s s' o.
Proof.
  intros g s cs m s' o id H. unfold handle_frame in H.
  destruct (handle_cmds g s cs) as [[[s1 o1] p1]|] eqn:E; [|discriminate].
  pose proof (hcs_counts _ _ _ _ _ _ id E) as C.
  destruct p1.
  - destruct (m || match cs with [] => true | _ => false end).
    + destruct (s_closed s1); inversion H; subst; [exact C|apply counts_close; exact C].
    + inversion H; subst; exact C.
  - destruct (s_closed s1); inversion H; subst; [exact C|apply counts_close; exact C].
Qed.

Lemma take_pend_count : forall id tok l p rest,
  take_pend tok l = Some (p, rest) ->
  length (filter (fun q => p_id q =? id) l)
  = ((if (p_id p =? id)%N then 1 else 0) + length (filter (fun q => (p_id q =? id)%N) rest))%nat.
Proof.
  induction l as [|q l IH]; intros p rest H; cbn [take_pend] in H; [discriminate|].
  destruct (p_tok q =? tok).
  - inversion H; subst. cbn [filter]. destruct (p_id p =? id); reflexivity.
  - destruct (take_pend tok l) as [[q' r']|] eqn:E; [|discriminate]. inversion H; subst.
    cbn [filter]. specialize (IH _ _ eq_refl).
    destruct (p_id q =? id); cbn [length]; rewrite IH; destruct (p_id p =? id); lia.
Qed.

Lemma npend_on_ok : forall id s k ch, npend id (on_ok s k ch) = npend id s.
Proof. intros; destruct k; reflexivity. Qed.

Lemma complete_counts : forall s tok r s' o id,
  complete s tok r = (s', o) -> counts id s s' o.
Proof.
  intros s tok r s' o id H. unfold complete in H.
  destruct (take_pend tok (s_pend s)) as [[p rest]|] eqn:E.
  2: { inversion H; subst; apply counts_refl. }
  pose proof (take_pend_count id _ _ _ _ E) as T. fold (npend id s) in T.
  destruct (s_closed s) eqn:Hc.
  { inversion H; subst. split; [rewrite nrep_nil, niss_nil; unfold npend at 1; cbn [s_pend set_pend]; lia|].
    cbn [s_closed set_pend]. congruence. }
  destruct r; inversion H; subst; split; intros;
    rewrite ?nrep_cons, ?niss_cons, ?nrep_nil, ?niss_nil, ?npend_on_ok;
    try (change (npend id (set_closed (set_pend s rest))) with (npend id (set_pend s rest)));
    unfold npend at 1; cbn [s_pend set_pend]; try discriminate; lia.
Qed.

Lemma step_counts : forall g s l s' o id, step g s l = Some (s', o) -> counts id s s' o.
Proof.
  intros g s l s' o id H. destruct l as [cs m| |tok r]; cbn [step] in H.
  - eapply hf_counts; eassumption.
  - destruct (s_closed s); inversion H; subst; [apply counts_refl|].
    split; intros; rewrite nrep_nil, niss_nil; change (npend id (set_ping s true)) with (npend id s); lia.
  - inversion H as [H']. eapply complete_counts; exact H'.
Qed.

(* closed stays closed *)
Lemma step_closed : forall g s l s' o,
  step g s l = Some (s', o) -> s_closed s = true -> s_closed s' = true.
Proof.
  intros g s l s' o H Hc. destruct l as [cs m| |tok r]; cbn [step] in H.
  - unfold handle_frame in H.
    destruct (handle_cmds g s cs) as [[[s1 o1] p1]|] eqn:E; [|discriminate].
    destruct (hcs_closed _ _ _ _ _ _ E Hc) as [-> ->]. rewrite Hc in H.
    destruct p1; [destruct (m || match cs with [] => true | _ => false end)|]; inversion H; subst; assumption.
  - rewrite Hc in H; inversion H; subst; assumption.
  - inversion H as [H']. unfold complete in H'.
    destruct (take_pend tok (s_pend s)) as [[p rest]|]; [rewrite Hc in H'|]; inversion H'; subst; assumption.
Qed.

Theorem exec_counts : forall g ls s s' os id,
  exec g s ls = Some (s', os) -> counts id s s' (concat os).
Proof.
  induction ls as [|l r IH]; intros s s' os id H; cbn [exec] in H.
  - inversion H; subst. apply counts_refl.
  - destruct (step g s l) as [[s1 o1]|] eqn:E; [|discriminate].
    destruct (exec g s1 r) as [[s2 os2]|] eqn:E2; [|discriminate].
    inversion H; subst. cbn [concat].
    eapply counts_trans; [eapply step_counts; eassumption|eapply IH; eassumption|].
    clear -E2. revert s1 s' os2 E2. induction r as [|l r IHr]; intros s1 s' os2 E2 Hc; cbn [exec] in E2.
    + inversion E2; subst; assumption.
    + destruct (step g s1 l) as [[s3 o3]|] eqn:E3; [|discriminate].
      destruct (exec g s3 r) as [[s4 os4]|] eqn:E4; [|discriminate].
      inversion E2; subst. eapply IHr; [eassumption|]. eapply step_closed; eassumption.
Qed.

(* ---------- what was issued vs what was sent ---------- *)

Lemma hcs_niss_le : forall g cs s s' o p id,
  handle_cmds g s cs = Some (s', o, p) -> (niss id o <= flags id cs)%nat.
Proof.
  induction cs as [|c r IH]; intros s s' o p id H; cbn [handle_cmds] in H.
  - inversion H; subst. rewrite niss_nil; cbn; lia.
  - destruct (handle_command g s c) as [[[s1 o1] p1]|] eqn:E; [|discriminate].
    pose proof (hc_niss_le _ _ _ _ _ _ id E) as L1. cbn [flags].
    destruct p1.
    + destruct (handle_cmds g s1 r) as [[[s2 o2] p2]|] eqn:E2; [|discriminate].
      inversion H; subst. rewrite niss_app. specialize (IH _ _ _ _ id E2). lia.
    + inversion H; subst. lia.
Qed.

Lemma hcs_back : forall g cs s s' o p id,
  handle_cmds g s cs = Some (s', o, p) -> open_usable s' ->
  open_usable s /\ p = true /\ niss id o = flags id cs.
Proof.
  induction cs as [|c r IH]; intros s s' o p id H OU; cbn [handle_cmds] in H.
  - inversion H; subst. auto.
  - destruct (handle_command g s c) as [[[s1 o1] p1]|] eqn:E; [|discriminate].
    destruct p1.
    + destruct (handle_cmds g s1 r) as [[[s2 o2] p2]|] eqn:E2; [|discriminate].
      inversion H; subst. destruct (IH _ _ _ _ id E2 OU) as [OU1 [-> N2]].
      destruct (hc_back _ _ _ _ _ _ id E OU1) as [OU0 [_ N1]].
      repeat split; try apply OU0. rewrite niss_app; cbn [flags]; lia.
    + inversion H; subst. destruct (hc_back _ _ _ _ _ _ id E OU) as [_ [Hp _]]. discriminate.
Qed.

Lemma hf_niss_le : forall g s cs m s' o id,
  handle_frame g s cs m = Some (s', o) -> (niss id o <= flags id cs)%nat.
Proof.
  intros g s cs m s' o id H. unfold handle_frame in H.
  destruct (handle_cmds g s cs) as [[[s1 o1] p1]|] eqn:E; [|discriminate].
  pose proof (hcs_niss_le _ _ _ _ _ _ id E) as L.
  assert (X : forall code, niss id (o1 ++ [OClose code]) = niss id o1)
    by (intro; rewrite niss_app, niss_cons, niss_nil; lia).
  destruct p1; [destruct (m || match cs with [] => true | _ => false end)|];
    try destruct (s_closed s1); inversion H; subst; rewrite ?X; assumption.
Qed.

Lemma hf_back : forall g s cs m s' o id,
  handle_frame g s cs m = Some (s', o) -> open_usable s' ->
  open_usable s /\ niss id o = flags id cs.
Proof.
  intros g s cs m s' o id H OU. unfold handle_frame in H.
  destruct (handle_cmds g s cs) as [[[s1 o1] p1]|] eqn:E; [|discriminate].
  destruct OU as [Hc Hu].
  destruct p1; [destruct (m || match cs with [] => true | _ => false end)|];
    try (destruct (s_closed s1) eqn:C1); inversion H; subst; try discriminate; try congruence.
  destruct (hcs_back _ _ _ _ _ _ id E (conj Hc Hu)) as [OU0 [_ N]]. auto.
Qed.

(* an unusable connection is closed before the next label *)
Definition usable_inv (s : st) : Prop := s_unusable s = true -> s_closed s = true.

Lemma hc_unusable_keep : forall g s c s' o p,
  handle_command g s c = Some (s', o, p) -> s_closed s = true -> s_closed s' = true.
Proof. intros g s c s' o p H Hc. destruct (hc_closed _ _ _ _ _ _ H Hc) as [-> _]; assumption. Qed.

Lemma step_usable_inv : forall g s l s' o,
  step g s l = Some (s', o) -> usable_inv s -> usable_inv s'.
Proof.
  intros g s l s' o H U. destruct (s_closed s') eqn:C'; [intro; assumption|].
  destruct l as [cs m| |tok r]; cbn [step] in H.
  - intro Hu'. exfalso. unfold handle_frame in H.
    destruct (handle_cmds g s cs) as [[[s1 o1] p1]|] eqn:E; [|discriminate].
    assert (s' = s1 /\ p1 = true) as [-> ->].
    { destruct p1; [destruct (m || match cs with [] => true | _ => false end)|];
        try (destruct (s_closed s1) eqn:C1); inversion H; subst; try discriminate; try congruence; auto. }
    clear H. revert s s1 o1 U E C' Hu'.
    induction cs as [|c r IH]; intros s s1 o1 U E C' Hu'; cbn [handle_cmds] in E.
    + inversion E; subst. rewrite (U Hu') in C'. discriminate.
    + destruct (handle_command g s c) as [[[s2 o2] p2]|] eqn:E1; [|discriminate].
      destruct p2; [|inversion E].
      destruct (handle_cmds g s2 r) as [[[s3 o3] p3]|] eqn:E2; [|discriminate].
      inversion E; subst. eapply (IH s2); try eassumption.
      intro Hu2. destruct (s_closed s) eqn:Cs.
      * eapply hc_unusable_keep; eassumption.
      * destruct (s_unusable s) eqn:Us; [rewrite (U Us) in Cs; discriminate|].
        destruct (hc_open _ _ _ _ _ _ 0 E1 Cs Us) as [_ [Pt _]]. destruct (Pt eq_refl). congruence.
  - destruct (s_closed s); inversion H; subst; [exact U|]. exact U.
  - inversion H as [H']. unfold complete in H'.
    destruct (take_pend tok (s_pend s)) as [[p rest]|]; [|inversion H'; subst; exact U].
    destruct (s_closed s) eqn:Cs; [inversion H'; subst; cbn in C'; congruence|].
    destruct r; inversion H'; subst; intro Hu'; try (destruct (p_kind p)); cbn in *; try discriminate;
      rewrite (U Hu') in Cs; discriminate.
Qed.

Lemma exec_back : forall g ls s s' os id,
  exec g s ls = Some (s', os) -> usable_inv s -> s_closed s' = false ->
  niss id (concat os) = flags id (flat_map cmds_of ls).
Proof.
  induction ls as [|l r IH]; intros s s' os id H U Hc; cbn [exec] in H.
  - inversion H; subst. reflexivity.
  - destruct (step g s l) as [[s1 o1]|] eqn:E; [|discriminate].
    destruct (exec g s1 r) as [[s2 os2]|] eqn:E2; [|discriminate].
    inversion H; subst. cbn [concat flat_map].
    pose proof (step_usable_inv _ _ _ _ _ E U) as U1.
    rewrite niss_app, (IH _ _ _ id E2 U1 Hc).
    assert (C1 : s_closed s1 = false).
    { destruct (s_closed s1) eqn:C; [|reflexivity].
      clear -E2 C Hc. revert s1 s' os2 E2 C Hc.
      induction r as [|l r IHr]; intros s1 s' os2 E2 C Hc; cbn [exec] in E2.
      - inversion E2; subst; congruence.
      - destruct (step g s1 l) as [[s3 o3]|] eqn:E3; [|discriminate].
        destruct (exec g s3 r) as [[s4 os4]|] eqn:E4; [|discriminate].
        inversion E2; subst. eapply IHr; [eassumption| |eassumption]. eapply step_closed; eassumption. }
    assert (OU1 : open_usable s1).
    { split; [assumption|]. destruct (s_unusable s1) eqn:Us; [rewrite (U1 Us) in C1; discriminate|reflexivity]. }
    assert (flags_app : forall a b, flags id (a ++ b) = (flags id a + flags id b)%nat).
    { induction a as [|x a IHa]; intro b; cbn [app flags]; [reflexivity|rewrite IHa; lia]. }
    rewrite flags_app. f_equal.
    destruct l as [cs m| |tok res]; cbn [step cmds_of] in *.
    + destruct (hf_back _ _ _ _ _ _ id E OU1) as [_ N]. exact N.
    + destruct (s_closed s); inversion E; subst; reflexivity.
    + inversion E as [E']. unfold complete in E'.
      destruct (take_pend tok (s_pend s)) as [[p rest]|]; [|inversion E'; subst; reflexivity].
      destruct (s_closed s); [inversion E'; subst; reflexivity|].
      destruct res; inversion E'; subst; rewrite ?niss_cons, ?niss_nil; reflexivity.
Qed.

Lemma exec_niss_le : forall g ls s s' os id,
  exec g s ls = Some (s', os) -> (niss id (concat os) <= flags id (flat_map cmds_of ls))%nat.
Proof.
  induction ls as [|l r IH]; intros s s' os id H; cbn [exec] in H.
  - inversion H; subst. cbn; lia.
  - destruct (step g s l) as [[s1 o1]|] eqn:E; [|discriminate].
    destruct (exec g s1 r) as [[s2 os2]|] eqn:E2; [|discriminate].
    inversion H; subst. cbn [concat flat_map]. rewrite niss_app.
    assert (flags_app : forall a b, flags id (a ++ b) = (flags id a + flags id b)%nat).
    { induction a as [|x a IHa]; intro b; cbn [app flags]; [reflexivity|rewrite IHa; lia]. }
    rewrite flags_app. specialize (IH _ _ _ id E2).
    assert (niss id o1 <= flags id (cmds_of l))%nat; [|lia].
    destruct l as [cs m| |tok res]; cbn [step cmds_of] in *.
    + eapply hf_niss_le; eassumption.
    + destruct (s_closed s); inversion E; subst; cbn; lia.
    + inversion E as [E']. unfold complete in E'.
      destruct (take_pend tok (s_pend s)) as [[p rest]|]; [|inversion E'; subst; cbn; lia].
      destruct (s_closed s); [inversion E'; subst; cbn; lia|].
      destruct res; inversion E'; subst; rewrite ?niss_cons, ?niss_nil; cbn; lia.
Qed.

Lemma init_usable : usable_inv init. Proof. intro H; discriminate. Qed.

(* ---------- C09 "answered exactly once" over runs ---------- *)

(* never more replies with an id than reply-expecting commands sent with it *)
Theorem once_at_most : forall g ls s' os id,
  exec g init ls = Some (s', os) -> (nrep id (concat os) <= sentE id ls)%nat.
Proof.
  intros g ls s' os id H. unfold sentE. rewrite <- flags_sentE.
  destruct (exec_counts _ _ _ _ _ id H) as [A _].
  pose proof (exec_niss_le _ _ _ _ _ id H). change (npend id init) with 0%nat in A. lia.
Qed.

(* connection still open and all callbacks completed: exactly one reply per such command *)
Theorem once_exact : forall g ls s' os id,
  exec g init ls = Some (s', os) -> s_closed s' = false -> s_pend s' = [] ->
  nrep id (concat os) = sentE id ls.
Proof.
  intros g ls s' os id H Hc Hp. unfold sentE. rewrite <- flags_sentE.
  destruct (exec_counts _ _ _ _ _ id H) as [_ E]. specialize (E Hc).
  rewrite <- (exec_back _ _ _ _ _ id H init_usable Hc).
  change (npend id init) with 0%nat in E. unfold npend in E. rewrite Hp in E. cbn in E. lia.
Qed.

(* pending callbacks account for the difference while the connection is open *)
Theorem once_pending : forall g ls s' os id,
  exec g init ls = Some (s', os) -> s_closed s' = false ->
  (nrep id (concat os) + npend id s' = sentE id ls)%nat.
Proof.
  intros g ls s' os id H Hc. unfold sentE. rewrite <- flags_sentE.
  destruct (exec_counts _ _ _ _ _ id H) as [_ E]. specialize (E Hc).
  rewrite <- (exec_back _ _ _ _ _ id H init_usable Hc).
  change (npend id init) with 0%nat in E. lia.
Qed.

(* the strict reading (every command with an id, Send included) is false *)
Theorem once_strict_refuted :
  exists g ls s' os id,
    exec g init ls = Some (s', os) /\ s_closed s' = false /\ s_pend s' = [] /\
    id <> 0 /\ sent id ls = 1%nat /\ nrep id (concat os) = 0%nat.
Proof.
  exists (mkCfg [KSend] false),
         [LFrame [mkCmd 1 [KConnect] 0 false SOk RdOk] false; LFrame [mkCmd 7 [KSend] 0 false SOk RdOk] false].
  eexists. eexists. exists 7. vm_compute. repeat split; try reflexivity. discriminate.
Qed.

(* ---------- gate / pong rules over runs: the observation-derived state tracks the model ---------- *)

Definition script_wf (sc : script) : Prop := match sc with SErr 0 => False | _ => True end.
Definition read_wf (r : rdres) : Prop := match r with RdErr 0 => False | _ => True end.
Definition cmd_wf (c : cmd) : Prop := script_wf (c_script c) /\ read_wf (c_read c).
Definition label_wf (l : label) : Prop :=
  match l with LFrame cs _ => Forall cmd_wf cs | _ => True end.

Definition has_close (l : list out) : bool :=
  existsb (fun o => match o with OClose _ => true | _ => false end) l.

Definition rel (a : ost) (s : st) : Prop :=
  a_closed a = s_closed s /\ a_auth a = s_auth s /\ (s_auth s = false -> s_pend s = []).

Lemma scan_outs_app : forall l1 l2 a,
  scan_outs a (l1 ++ l2) =
  let '(a1, ok1) := scan_outs a l1 in let '(a2, ok2) := scan_outs a1 l2 in (a2, ok1 && ok2).
Proof.
  induction l1 as [|o r IH]; intros l2 a; cbn [app scan_outs].
  - destruct (scan_outs a l2); reflexivity.
  - destruct (scan_out a o) as [a1 ok1]. rewrite IH.
    destruct (scan_outs a1 r) as [a2 ok2]. destruct (scan_outs a2 l2) as [a3 ok3].
    rewrite andb_assoc; reflexivity.
Qed.

Lemma scan_ping : forall l a, a_ping (fst (scan_outs a l)) = a_ping a.
Proof.
  induction l as [|o r IH]; intro a; cbn [scan_outs]; [reflexivity|].
  destruct (scan_out a o) as [a1 ok1] eqn:E. specialize (IH a1).
  destruct (scan_outs a1 r) as [a2 ok2]. cbn [fst] in *. rewrite IH.
  destruct o; cbn [scan_out] in E; try destruct (kind_eqb k KConnect); inversion E; reflexivity.
Qed.

Lemma scan_authed : forall l a,
  a_auth a = true ->
  snd (scan_outs a l) = true /\ a_auth (fst (scan_outs a l)) = true /\
  a_closed (fst (scan_outs a l)) = a_closed a || has_close l.
Proof.
  induction l as [|o r IH]; intros a Ha; cbn [scan_outs has_close existsb].
  - rewrite orb_false_r; auto.
  - destruct (scan_out a o) as [a1 ok1] eqn:E.
    assert (ok1 = true /\ a_auth a1 = true /\
            a_closed a1 = a_closed a || match o with OClose _ => true | _ => false end) as [-> [Ha1 Hc1]].
    { destruct o; cbn [scan_out] in E; try destruct (kind_eqb k KConnect); inversion E; subst;
        cbn; rewrite ?Ha, ?orb_false_r, ?orb_true_r; auto. }
    destruct (IH a1 Ha1) as [I1 [I2 I3]]. destruct (scan_outs a1 r) as [a2 ok2]. cbn [fst snd] in *.
    subst ok2. rewrite I3, Hc1, orb_assoc. auto.
Qed.

Lemma vis_app : forall a b, vis (a ++ b) = vis a ++ vis b.
Proof. intros; unfold vis; apply filter_app. Qed.

Lemma first_of_connect : forall c,
  has KConnect c = true ->
  first_of frame_order c = Some KConnect /\ first_of handler_order c = Some KConnect.
Proof. intros c H; unfold first_of, frame_order, handler_order; cbn [find]; rewrite H; auto. Qed.

(* authentication and closedness of the model are visible in the outputs *)
Lemma hc_flags : forall g s c s' o p,
  handle_command g s c = Some (s', o, p) ->
  (s_auth s = true -> s_auth s' = true) /\
  s_closed s' = s_closed s || has_close (vis o) /\
  (s_auth s = true -> True).
Proof.
  intros g s c s' o p H. unfold handle_command in H.
  destruct (s_closed s) eqn:Hc. { inversion H; subst s' o p; rewrite Hc; auto. }
  destruct (s_unusable s). { inversion H; subst s' o p; cbn; auto. }
  destruct (negb (s_auth s) && negb (has KConnect c)). { inversion H; subst s' o p; cbn; auto. }
  destruct (is_pong c). { destruct (s_ping s); inversion H; subst s' o p; cbn; auto. }
  destruct (first_of frame_order c) as [k0|]. 2: { inversion H; subst s' o p; cbn; auto. }
  destruct (first_of handler_order c) as [k|]. 2: { inversion H; subst s' o p; cbn; auto. }
  destruct (run_handler_rd g s c k) as [code|code|inv r|  |inv| ]; try discriminate.
  - destruct (has KConnect c); inversion H; subst s' o p; destruct (connect_invoked s c k); cbn; auto.
  - inversion H; subst s' o p; destruct (connect_invoked s c k); cbn; auto.
  - destruct r; inversion H; subst s' o p; destruct inv; destruct k; cbn; rewrite ?Hc; auto.
  - inversion H; subst s' o p; cbn; auto.
  - inversion H; subst s' o p; destruct inv; cbn; auto.
Qed.

Ltac invs H :=
  let A := fresh in let B := fresh in let C := fresh in
  injection H as A B C; try rewrite <- A in *; try rewrite <- B in *; try rewrite <- C in *; clear A B C.

Lemma hc_pend_auth : forall g s c s' o p,
  handle_command g s c = Some (s', o, p) -> s_auth s = false -> s_pend s = [] ->
  s_auth s' = false -> s_pend s' = [].
Proof.
  intros g s c s' o p H Ha Hp Ha'. unfold handle_command in H.
  destruct (s_closed s). { inversion H; subst s' o p; assumption. }
  destruct (s_unusable s). { inversion H; subst s' o p; assumption. }
  destruct (negb (s_auth s) && negb (has KConnect c)) eqn:G. { inversion H; subst s' o p; assumption. }
  rewrite Ha in G. cbn in G. apply negb_false_iff in G.
  destruct (is_pong c). { destruct (s_ping s); inversion H; subst s' o p; assumption. }
  destruct (first_of_connect c G) as [F1 F2]; rewrite F1, F2 in H.
  unfold run_handler_rd, run_handler, connect_invoked, rd_ok in H. rewrite ?Ha in H.
  destruct (c_read c); destruct (c_script c); rewrite ?G in H; inversion H; subst s' o p; cbn in *; try assumption; try discriminate.
Qed.

Lemma hc_scan : forall g s c s' o p a,
  handle_command g s c = Some (s', o, p) -> cmd_wf c -> rel a s ->
  snd (scan_outs a (vis o)) = true /\ rel (fst (scan_outs a (vis o))) s'.
Proof.
  intros g s c s' o p a H [W W2] [Rc [Ra Rp]].
  destruct (s_auth s) eqn:Ha.
  - (* authenticated: nothing to check, only to track *)
    destruct (hc_flags _ _ _ _ _ _ H) as [Am [Cl _]]. rewrite Ha in Am.
    destruct (scan_authed (vis o) a Ra) as [S1 [S2 S3]].
    split; [assumption|]. split; [rewrite S3, Cl, Rc; reflexivity|].
    split; [rewrite S2, (Am eq_refl); reflexivity|]. rewrite (Am eq_refl); discriminate.
  - pose proof (hc_pend_auth _ _ _ _ _ _ H Ha (Rp eq_refl)) as Pp.
    unfold handle_command in H.
    destruct (s_closed s) eqn:Hc. { invs H; cbn; unfold rel; rewrite Hc, Ha; auto. }
    destruct (s_unusable s). { invs H; cbn; unfold rel; cbn; rewrite Ha; auto. }
    rewrite Ha in H.
    destruct (negb false && negb (has KConnect c)) eqn:G.
    { invs H; cbn; unfold rel; cbn; rewrite Ha; auto. }
    cbn in G. apply negb_false_iff in G.
    destruct (is_pong c).
    { destruct (s_ping s); invs H; cbn; unfold rel; cbn; rewrite ?Hc, Ha; auto. }
    destruct (first_of_connect c G) as [F1 F2]; rewrite F1, F2 in H.
    unfold run_handler_rd, run_handler, connect_invoked, rd_ok in H. rewrite ?Ha, ?G in H. cbn [negb andb] in H.
    destruct (c_read c) as [|rcode|rcode] eqn:Rd.
    + destruct (c_script c) as [|code|code|] eqn:Sc; invs H; cbn;
        unfold rel, optN_eqb; cbn; rewrite ?N.eqb_refl, ?Ra, ?Rc, ?Hc, ?Ha; cbn; auto.
      (* connect error: error code is not 0, so it is not taken for a successful connect *)
      destruct code; [contradiction|]. cbn. auto.
    + rewrite ?G in H. invs H; cbn; unfold rel, optN_eqb; cbn; rewrite ?N.eqb_refl, ?Ra, ?Rc, ?Hc, ?Ha; cbn; auto.
      destruct rcode; [contradiction|]. cbn. auto.
    + invs H; cbn; unfold rel, optN_eqb; cbn; rewrite ?N.eqb_refl, ?Ra, ?Rc, ?Hc, ?Ha; cbn; auto.
Qed.

Lemma scan_app_fst : forall l1 l2 a,
  fst (scan_outs a (l1 ++ l2)) = fst (scan_outs (fst (scan_outs a l1)) l2).
Proof.
  intros; rewrite scan_outs_app. destruct (scan_outs a l1) as [a1 ok1]; cbn [fst].
  destruct (scan_outs a1 l2); reflexivity.
Qed.
Lemma scan_app_snd : forall l1 l2 a,
  snd (scan_outs a (l1 ++ l2)) = snd (scan_outs a l1) && snd (scan_outs (fst (scan_outs a l1)) l2).
Proof.
  intros; rewrite scan_outs_app. destruct (scan_outs a l1) as [a1 ok1]; cbn [fst snd].
  destruct (scan_outs a1 l2); reflexivity.
Qed.

Definition wf_cmds (cs : list cmd) : Prop := Forall cmd_wf cs.

Lemma hcs_scan : forall g cs s s' o p a,
  handle_cmds g s cs = Some (s', o, p) -> wf_cmds cs -> rel a s ->
  snd (scan_outs a (vis o)) = true /\ rel (fst (scan_outs a (vis o))) s'.
Proof.
  induction cs as [|c r IH]; intros s s' o p a H W R; cbn [handle_cmds] in H.
  - inversion H; subst. cbn. auto.
  - inversion W as [|? ? Wc Wr]; subst.
    destruct (handle_command g s c) as [[[s1 o1] p1]|] eqn:E; [|discriminate].
    destruct (hc_scan _ _ _ _ _ _ a E Wc R) as [S1 R1].
    destruct p1.
    + destruct (handle_cmds g s1 r) as [[[s2 o2] p2]|] eqn:E2; [|discriminate].
      inversion H; subst. rewrite vis_app, scan_app_fst, scan_app_snd, S1.
      exact (IH _ _ _ _ _ E2 Wr R1).
    + inversion H; subst. auto.
Qed.

Lemma rel_close : forall a s code,
  rel a s -> rel (fst (scan_outs a [OClose code])) (set_closed s).
Proof. intros a s code [Rc [Ra Rp]]; cbn; unfold rel; cbn; auto. Qed.

Lemma hf_scan : forall g s cs m s' o a,
  handle_frame g s cs m = Some (s', o) -> wf_cmds cs -> rel a s ->
  snd (scan_outs a (vis o)) = true /\ rel (fst (scan_outs a (vis o))) s'.
Proof.
  intros g s cs m s' o a H W R. unfold handle_frame in H.
  destruct (handle_cmds g s cs) as [[[s1 o1] p1]|] eqn:E; [|discriminate].
  destruct (hcs_scan _ _ _ _ _ _ a E W R) as [S1 R1].
  assert (X : forall code, snd (scan_outs a (vis (o1 ++ [OClose code]))) = true /\
                           rel (fst (scan_outs a (vis (o1 ++ [OClose code])))) (set_closed s1)).
  { intro code. rewrite vis_app. change (vis [OClose code]) with [OClose code].
    rewrite scan_app_fst, scan_app_snd, S1. split; [reflexivity|apply rel_close; assumption]. }
  destruct p1; [destruct (m || match cs with [] => true | _ => false end)|];
    try destruct (s_closed s1); inversion H; subst; auto.
Qed.

Lemma take_pend_nil : forall tok, take_pend tok [] = None. Proof. reflexivity. Qed.

Lemma complete_scan : forall s tok r s' o a,
  complete s tok r = (s', o) -> rel a s ->
  snd (scan_outs a (vis o)) = true /\ rel (fst (scan_outs a (vis o))) s'.
Proof.
  intros s tok r s' o a H [Rc [Ra Rp]]. unfold complete in H.
  destruct (take_pend tok (s_pend s)) as [[p rest]|] eqn:E.
  2: { inversion H; subst. cbn. unfold rel; auto. }
  destruct (s_auth s) eqn:Ha.
  2: { rewrite (Rp eq_refl) in E. cbn in E. discriminate. }
  destruct (scan_authed (vis o) a Ra) as [S1 [S2 S3]]. split; [assumption|].
  destruct (s_closed s) eqn:Hc.
  { inversion H; subst. cbn. unfold rel; cbn. rewrite Ha. repeat split; auto; try discriminate; try congruence. }
  unfold rel. rewrite S2, S3, Rc.
  destruct r; inversion H; subst; cbn; try destruct (p_kind p); cbn; rewrite ?Ha, ?Hc; repeat split; auto; try discriminate; try congruence.
Qed.

(* the ping bookkeeping of the model changes only on pongs *)
Lemma hc_ping : forall g s c s' o p,
  handle_command g s c = Some (s', o, p) -> is_pong c = false -> s_ping s' = s_ping s.
Proof.
  intros g s c s' o p H P. unfold handle_command in H. rewrite P in H.
  destruct (s_closed s). { inversion H; subst; reflexivity. }
  destruct (s_unusable s). { inversion H; subst s' o p; reflexivity. }
  destruct (negb (s_auth s) && negb (has KConnect c)). { inversion H; subst s' o p; reflexivity. }
  destruct (first_of frame_order c) as [k0|]. 2: { inversion H; subst s' o p; reflexivity. }
  destruct (first_of handler_order c) as [k|]. 2: { inversion H; subst s' o p; reflexivity. }
  destruct (run_handler_rd g s c k) as [code|code|inv r|  |inv| ]; try discriminate.
  - destruct (has KConnect c); inversion H; subst s' o p; reflexivity.
  - inversion H; subst s' o p; reflexivity.
  - destruct r; inversion H; subst s' o p; try reflexivity. destruct k; reflexivity.
  - inversion H; subst s' o p; reflexivity.
  - inversion H; subst s' o p; reflexivity.
Qed.

Lemma hcs_ping : forall g cs s s' o p,
  handle_cmds g s cs = Some (s', o, p) -> existsb is_pong cs = false -> s_ping s' = s_ping s.
Proof.
  induction cs as [|c r IH]; intros s s' o p H P; cbn [handle_cmds] in H.
  - inversion H; subst; reflexivity.
  - cbn [existsb] in P. apply orb_false_iff in P. destruct P as [Pc Pr].
    destruct (handle_command g s c) as [[[s1 o1] p1]|] eqn:E; [|discriminate].
    pose proof (hc_ping _ _ _ _ _ _ E Pc) as E1.
    destruct p1.
    + destruct (handle_cmds g s1 r) as [[[s2 o2] p2]|] eqn:E2; [|discriminate].
      inversion H; subst. rewrite (IH _ _ _ _ E2 Pr). assumption.
    + inversion H; subst. assumption.
Qed.

Lemma hf_ping : forall g s cs m s' o,
  handle_frame g s cs m = Some (s', o) -> existsb is_pong cs = false -> s_ping s' = s_ping s.
Proof.
  intros g s cs m s' o H P. unfold handle_frame in H.
  destruct (handle_cmds g s cs) as [[[s1 o1] p1]|] eqn:E; [|discriminate].
  pose proof (hcs_ping _ _ _ _ _ _ E P) as E1.
  destruct p1; [destruct (m || match cs with [] => true | _ => false end)|];
    try destruct (s_closed s1); inversion H; subst; assumption.
Qed.

Lemma complete_ping : forall s tok r s' o, complete s tok r = (s', o) -> s_ping s' = s_ping s.
Proof.
  intros s tok r s' o H. unfold complete in H.
  destruct (take_pend tok (s_pend s)) as [[p rest]|]; [|inversion H; subst; reflexivity].
  destruct (s_closed s); [inversion H; subst; reflexivity|].
  destruct r; inversion H; subst; try reflexivity. destruct (p_kind p); reflexivity.
Qed.

Definition tracks (a : ost) (s : st) : Prop :=
  rel a s /\ usable_inv s /\ (a_closed a = false -> forall b, a_ping a = Some b -> b = s_ping s).

Lemma outs_eqb_refl_close : outs_eqb [OClose 3501] [OClose 3501] = true. Proof. reflexivity. Qed.

Lemma step_ok_sound : forall g s l s' o a,
  step g s l = Some (s', o) -> label_wf l -> tracks a s ->
  snd (step_ok a l o) = true /\ tracks (fst (step_ok a l o)) s'.
Proof.
  intros g s l s' o a H W [R [U Pg]].
  pose proof (step_usable_inv _ _ _ _ _ H U) as U'.
  assert (SC : snd (scan_outs a (vis o)) = true /\ rel (fst (scan_outs a (vis o))) s').
  { destruct l as [cs m| |tok r]; cbn [step] in H.
    - eapply hf_scan; eassumption.
    - destruct (s_closed s); inversion H; subst; cbn; destruct R as [Rc [Ra Rp]]; unfold rel; auto.
    - inversion H as [H']. eapply complete_scan; eassumption. }
  destruct SC as [S1 R1].
  pose proof (scan_ping (vis o) a) as Pa.
  unfold step_ok. destruct (scan_outs a (vis o)) as [a1 hok] eqn:SO. cbn [fst snd] in *. subst hok.
  destruct R as [Rc [Ra Rp]].
  destruct l as [cs m| |tok r]; cbn [step] in H.
  - (* frame *)
    destruct (a_closed a) eqn:Ac.
    { cbn [fst snd]. split; [reflexivity|]. split; [assumption|]. split; [assumption|].
      destruct R1 as [Rc1 _]. intro Hc1. exfalso.
      assert (s_closed s' = true) by (apply (step_closed g s (LFrame cs m) s' o); [exact H|congruence]). congruence. }
    assert (Hc : s_closed s = false) by congruence.
    assert (Hu : s_unusable s = false) by (destruct (s_unusable s) eqn:Us; [rewrite (U Us) in Hc; discriminate|reflexivity]).
    destruct cs as [|c rest].
    { cbn [fst snd]. split; [reflexivity|]. split; [assumption|]. split; [assumption|].
      intros Hc1 b Hb. rewrite Pa in Hb. rewrite (hf_ping _ _ _ _ _ _ H eq_refl). apply Pg; [reflexivity|assumption]. }
    destruct (negb (a_auth a) && negb (has KConnect c)) eqn:G.
    { (* gate *)
      apply andb_prop in G. destruct G as [G1 G2]. apply negb_true_iff in G1, G2.
      rewrite gate_frame in H by congruence. inversion H; subst. cbn [fst snd]. split; [reflexivity|].
      split; [assumption|]. split; [assumption|]. destruct R1 as [Rc1 _]. cbn in Rc1. intro Hc1. congruence. }
    destruct (a_auth a && is_pong c && match rest with [] => true | _ => false end) eqn:PG.
    { apply andb_prop in PG. destruct PG as [PG Pr]. apply andb_prop in PG. destruct PG as [Pa1 Pp].
      destruct rest; [|discriminate].
      assert (Hauth : s_auth s = true) by congruence.
      destruct (a_ping a) as [[|]|] eqn:AP.
      - (* expected pong *)
        specialize (Pg eq_refl true eq_refl).
        unfold handle_frame in H. cbn [handle_cmds] in H.
        rewrite pong_expected in H by (auto; congruence).
        destruct m.
        + cbn [fst snd]. split; [reflexivity|]. split; [assumption|]. split; [assumption|].
          cbn in H. rewrite Hc in H. inversion H; subst. destruct R1 as [Rc1 _]. cbn in Rc1. intro Hc1. congruence.
        + cbn in H. inversion H; subst. cbn [fst snd]. split; [reflexivity|].
          split; [assumption|]. split; [assumption|]. intros _ b Hb. cbn in Hb. inversion Hb; reflexivity.
      - (* pong without ping *)
        specialize (Pg eq_refl false eq_refl).
        unfold handle_frame in H. cbn [handle_cmds] in H.
        rewrite pong_unexpected in H by (auto; congruence). cbn in H. inversion H; subst.
        cbn [fst snd]. split; [reflexivity|]. split; [assumption|]. split; [assumption|].
        destruct R1 as [Rc1 _]. cbn in Rc1. intro Hc1. congruence.
      - cbn [fst snd]. split; [reflexivity|]. split; [assumption|]. split; [assumption|].
        intros _ b Hb. rewrite Pa in Hb. discriminate. }
    destruct (existsb is_pong (c :: rest)) eqn:EP.
    { cbn [fst snd]. split; [reflexivity|]. split; [exact R1|]. split; [assumption|].
      intros _ b Hb. discriminate. }
    cbn [fst snd]. split; [reflexivity|]. split; [assumption|]. split; [assumption|].
    intros Hc1 b Hb. rewrite Pa in Hb. rewrite (hf_ping _ _ _ _ _ _ H EP). apply Pg; [reflexivity|assumption].
  - (* server ping *)
    rewrite Rc. destruct (s_closed s) eqn:Hc; inversion H; subst; cbn [fst snd]; (split; [reflexivity|]).
    + split; [assumption|]. split; [assumption|]. destruct R1 as [Rc1 _]. intro X; congruence.
    + split; [exact R1|]. split; [assumption|]. intros _ b Hb. cbn in Hb. inversion Hb; reflexivity.
  - (* completion *)
    inversion H as [H']. cbn [fst snd]. split; [reflexivity|]. split; [assumption|]. split; [assumption|].
    intros Hc1 b Hb. rewrite Pa in Hb. rewrite (complete_ping _ _ _ _ _ H').
    apply Pg; [|assumption]. destruct R1 as [Rc1 _].
    destruct (a_closed a) eqn:Ac; [|reflexivity]. exfalso.
    assert (s_closed s' = true) by (apply (step_closed g s (LComplete tok r) s' o); [exact H|congruence]). congruence.
Qed.

Lemma tracks_init : tracks ost0 init.
Proof.
  split; [unfold rel; cbn; auto|]. split; [apply init_usable|].
  intros _ b H; inversion H; reflexivity.
Qed.

(* every run of the model passes the gate / pong / handler-order rules *)
Theorem exec_steps_ok : forall g ls s s' os a,
  exec g s ls = Some (s', os) -> Forall label_wf ls -> tracks a s -> steps_ok a ls os = true.
Proof.
  induction ls as [|l r IH]; intros s s' os a H W T; cbn [exec] in H.
  - inversion H; subst; reflexivity.
  - inversion W as [|? ? Wl Wr]; subst.
    destruct (step g s l) as [[s1 o1]|] eqn:E; [|discriminate].
    destruct (exec g s1 r) as [[s2 os2]|] eqn:E2; [|discriminate].
    inversion H; subst. cbn [steps_ok].
    destruct (step_ok_sound _ _ _ _ _ a E Wl T) as [S1 T1].
    destruct (step_ok a l o1) as [a1 ok]. cbn [fst snd] in *. subst ok.
    cbn [andb]. eapply IH; eassumption.
Qed.

(* ---------- closedness is visible: an OClose is emitted exactly when the model closes ---------- *)

Lemma has_close_app : forall a b, has_close (a ++ b) = has_close a || has_close b.
Proof. intros; unfold has_close; apply existsb_app. Qed.

Lemma has_close_vis : forall l, has_close (vis l) = has_close l.
Proof.
  unfold has_close, vis.
  induction l as [|o r IH]; [reflexivity|]. destruct o; cbn [filter visible existsb]; rewrite IH; reflexivity.
Qed.

Lemma hcs_close : forall g cs s s' o p,
  handle_cmds g s cs = Some (s', o, p) -> s_closed s' = s_closed s || has_close o.
Proof.
  induction cs as [|c r IH]; intros s s' o p H; cbn [handle_cmds] in H.
  - inversion H; subst. cbn. rewrite orb_false_r; reflexivity.
  - destruct (handle_command g s c) as [[[s1 o1] p1]|] eqn:E; [|discriminate].
    destruct (hc_flags _ _ _ _ _ _ E) as [_ [C1 _]]. rewrite has_close_vis in C1.
    destruct p1.
    + destruct (handle_cmds g s1 r) as [[[s2 o2] p2]|] eqn:E2; [|discriminate].
      inversion H; subst. rewrite (IH _ _ _ _ E2), C1, has_close_app, orb_assoc. reflexivity.
    + inversion H; subst. assumption.
Qed.

Lemma step_close : forall g s l s' o,
  step g s l = Some (s', o) -> s_closed s' = s_closed s || has_close o.
Proof.
  intros g s l s' o H. destruct l as [cs m| |tok r]; cbn [step] in H.
  - unfold handle_frame in H.
    destruct (handle_cmds g s cs) as [[[s1 o1] p1]|] eqn:E; [|discriminate].
    pose proof (hcs_close _ _ _ _ _ _ E) as C.
    destruct p1; [destruct (m || match cs with [] => true | _ => false end)|];
      try (destruct (s_closed s1) eqn:C1); inversion H; subst; rewrite ?has_close_app; cbn;
      rewrite ?orb_true_r, ?orb_false_r; congruence.
  - destruct (s_closed s) eqn:C; inversion H; subst; cbn; rewrite ?C; reflexivity.
  - inversion H as [H']. unfold complete in H'.
    destruct (take_pend tok (s_pend s)) as [[p rest]|]; [|inversion H'; subst; cbn; rewrite orb_false_r; reflexivity].
    destruct (s_closed s) eqn:C; [inversion H'; subst; cbn; assumption|].
    destruct r; inversion H'; subst; cbn; try destruct (p_kind p); cbn; rewrite ?C; reflexivity.
Qed.

Lemma exec_close : forall g ls s s' os,
  exec g s ls = Some (s', os) -> s_closed s' = s_closed s || closed_seen os.
Proof.
  induction ls as [|l r IH]; intros s s' os H; cbn [exec] in H.
  - inversion H; subst. cbn. rewrite orb_false_r; reflexivity.
  - destruct (step g s l) as [[s1 o1]|] eqn:E; [|discriminate].
    destruct (exec g s1 r) as [[s2 os2]|] eqn:E2; [|discriminate].
    inversion H; subst. rewrite (IH _ _ _ E2), (step_close _ _ _ _ _ E).
    unfold closed_seen. cbn [concat]. rewrite existsb_app, orb_assoc. reflexivity.
Qed.

(* ---------- the model passes the decidable predicates used as oracle ---------- *)

Lemma sentE_le_sent : forall id ls, (sentE id ls <= sent id ls)%nat.
Proof.
  intros; unfold sentE, sent. induction (flat_map cmds_of ls) as [|c r IH]; [cbn; lia|].
  cbn [filter]. destruct (c_id c =? id), (expects c); cbn [andb length]; lia.
Qed.

Theorem exec_atmost_ok : forall g ls s' os,
  exec g init ls = Some (s', os) -> atmost_ok ls os = true.
Proof.
  intros g ls s' os H. unfold atmost_ok. apply forallb_forall. intros id _.
  apply Nat.leb_le. pose proof (once_at_most _ _ _ _ id H). pose proof (sentE_le_sent id ls). lia.
Qed.

Theorem exec_exact_nosend_ok : forall g ls s' os q,
  exec g init ls = Some (s', os) -> (q = true -> s_pend s' = []) ->
  exact_nosend_ok q ls os = true.
Proof.
  intros g ls s' os q H Hq. unfold exact_nosend_ok.
  destruct q; [|reflexivity]. cbn [andb].
  pose proof (exec_close _ _ _ _ _ H) as C. cbn in C.
  destruct (closed_seen os); [reflexivity|]. cbn [negb].
  apply forallb_forall. intros id _. apply Nat.eqb_eq. apply (once_exact _ _ _ _ id H C (Hq eq_refl)).
Qed.

(* ... and the strict one whenever no one-way command carries an id *)
Theorem exec_exact_ok : forall g ls s' os q,
  exec g init ls = Some (s', os) -> (q = true -> s_pend s' = []) ->
  (forall c, In c (flat_map cmds_of ls) -> c_id c <> 0 -> expects c = true) ->
  exact_ok q ls os = true.
Proof.
  intros g ls s' os q H Hq Hs. unfold exact_ok.
  destruct q; [|reflexivity]. cbn [andb].
  pose proof (exec_close _ _ _ _ _ H) as C. cbn in C.
  destruct (closed_seen os); [reflexivity|]. cbn [negb].
  apply forallb_forall. intros id _. destruct (id =? 0) eqn:Z; [reflexivity|]. cbn [orb].
  apply Nat.eqb_eq. rewrite (once_exact _ _ _ _ id H C (Hq eq_refl)).
  unfold sentE, sent. apply N.eqb_neq in Z.
  induction (flat_map cmds_of ls) as [|c r IH]; [reflexivity|].
  cbn [filter]. destruct (c_id c =? id) eqn:E.
  - apply N.eqb_eq in E. rewrite (Hs c (or_introl eq_refl)) by congruence. cbn [andb length].
    f_equal. apply IH. intros c' Hc'. apply Hs. right; assumption.
  - cbn [andb]. apply IH. intros c' Hc'. apply Hs. right; assumption.
Qed.

Theorem exec_steps_ok_init : forall g ls s' os,
  exec g init ls = Some (s', os) -> Forall label_wf ls -> steps_ok ost0 ls os = true.
Proof. intros; eapply exec_steps_ok; eauto using tracks_init. Qed.

(* ---- OnCommandRead hook ---- *)

Lemma read_error_command : forall g s c k0 k code,
  s_closed s = false -> s_unusable s = false -> s_auth s = true -> is_pong c = false ->
  first_of frame_order c = Some k0 -> first_of handler_order c = Some k ->
  c_read c = RdErr code -> has KConnect c = false ->
  handle_command g s c = Some (s, [OIssue (c_id c) true; OReply (c_id c) code], true).
Proof.
  intros g s c k0 k code Hc Hu Ha P F K R Hn. unfold handle_command.
  rewrite Hc, Hu, Ha, P, F, K. cbn [negb andb].
  assert (E : expects c = true).
  { rewrite (expects_eq c k0 k F K), P. unfold rd_err; rewrite R; reflexivity. }
  rewrite E. unfold run_handler_rd, connect_invoked, rd_ok; rewrite R, Hn.
  destruct k; cbn [andb app]; rewrite ?andb_false_r; reflexivity.
Qed.

Lemma read_disconnect_command : forall g s c k0 k code,
  s_closed s = false -> s_unusable s = false -> s_auth s = true -> is_pong c = false ->
  first_of frame_order c = Some k0 -> first_of handler_order c = Some k ->
  c_read c = RdDisc code ->
  handle_command g s c = Some (set_closed s, [OIssue (c_id c) (expects c); OClose code], false).
Proof.
  intros g s c k0 k code Hc Hu Ha P F K R. unfold handle_command.
  rewrite Hc, Hu, Ha, P, F, K. cbn [negb andb].
  unfold run_handler_rd, connect_invoked, rd_ok; rewrite R.
  destruct k; cbn [andb app]; rewrite ?andb_false_r; reflexivity.
Qed.

(* ---- empty / malformed frames close ---- *)
Lemma bad_frame_closes : forall g s l s' o,
  step g s l = Some (s', o) -> bad_frame l = true -> s_closed s' = true.
Proof.
  intros g s l s' o H B. destruct l as [cs m| |tok r]; try discriminate. cbn [step bad_frame] in *.
  unfold handle_frame in H.
  destruct (handle_cmds g s cs) as [[[s1 o1] p1]|]; [|discriminate].
  destruct p1; [rewrite B in H|]; destruct (s_closed s1) eqn:C1; inversion H; subst; cbn; auto.
Qed.

Lemma saw_close_has_close : forall l, saw_close l = has_close l.
Proof. reflexivity. Qed.

Lemma exec_frames_ok : forall g ls s s' os,
  exec g s ls = Some (s', os) -> frames_ok (s_closed s) ls os = true.
Proof.
  induction ls as [|l r IH]; intros s s' os H; cbn [exec] in H.
  - inversion H; subst. reflexivity.
  - destruct (step g s l) as [[s1 o1]|] eqn:E; [|discriminate].
    destruct (exec g s1 r) as [[s2 os2]|] eqn:E2; [|discriminate].
    inversion H; subst. cbn [frames_ok].
    rewrite saw_close_has_close, <- (step_close _ _ _ _ _ E), (IH _ _ _ E2), andb_true_r.
    destruct (bad_frame l) eqn:B; [|reflexivity]. cbn [negb orb]. eapply bad_frame_closes; eassumption.
Qed.

Lemma exec_frames_ok_init : forall g ls s os,
  exec g init ls = Some (s, os) -> frames_ok false ls os = true.
Proof. intros g ls s os H. exact (exec_frames_ok g ls init s os H). Qed.
