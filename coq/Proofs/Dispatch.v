(* C09 — proofs over the dispatch model (Model/Dispatch.v) for ALL configurations,
   states, commands, frames, label sequences and completion orders. *)
From Coq Require Import List NArith Bool Arith Lia.
From Cfg Require Import Model.Dispatch Model.DispatchSpec.
Import ListNotations.
Open Scope N_scope.

(* ---------- gate and pong rules at the level of one command / one frame ---------- *)

Lemma gate_command : forall g s c,
  s_closed s = false -> s_unusable s = false -> s_auth s = false -> has KConnect c = false ->
  handle_command g s c
  = Some (set_closed s, [OIssue (c_id c) (expects c); OClose 3501], false).
Proof. intros g s c H1 H2 H3 H4; unfold handle_command; rewrite H1, H2, H3, H4; reflexivity. Qed.

Lemma gate_frame : forall g s c cs m,
  s_closed s = false -> s_unusable s = false -> s_auth s = false -> has KConnect c = false ->
  handle_frame g s (c :: cs) m
  = Some (set_closed s, [OIssue (c_id c) (expects c); OClose 3501]).
Proof.
  intros g s c cs m H1 H2 H3 H4; unfold handle_frame; cbn [handle_cmds].
  rewrite gate_command by assumption. reflexivity.
Qed.

Lemma pong_unexpected : forall g s c,
  s_closed s = false -> s_unusable s = false -> s_auth s = true ->
  is_pong c = true -> s_ping s = false ->
  handle_command g s c
  = Some (set_closed s, [OIssue (c_id c) (expects c); OClose 3501], false).
Proof.
  intros g s c H1 H2 H3 H4 H5; unfold handle_command; rewrite H1, H2, H3, H4, H5; reflexivity.
Qed.

Lemma pong_expected : forall g s c,
  s_closed s = false -> s_unusable s = false -> s_auth s = true ->
  is_pong c = true -> s_ping s = true ->
  handle_command g s c = Some (set_ping s false, [OIssue (c_id c) (expects c)], true).
Proof.
  intros g s c H1 H2 H3 H4 H5; unfold handle_command; rewrite H1, H2, H3, H4, H5; reflexivity.
Qed.

(* ---------- bookkeeping of replies ---------- *)

Definition npend (id : N) (s : st) : nat :=
  length (filter (fun p => p_id p =? id) (s_pend s)).

Ltac brk H :=
  repeat match type of H with
         | context [if ?b then _ else _] => destruct b eqn:?
         | context [match ?x with _ => _ end] => destruct x eqn:?
         end.

Definition is_send (k : kind) : bool := match k with KSend => true | _ => false end.

(* which handle* outcomes are possible for which request *)
Lemma rh_shape : forall g s c k,
  match run_handler g s c k with
  | HSilent _ => k = KSend
  | HDisc _ => True
  | _ => is_send k = false
  end.
Proof.
  intros g s c k; destruct k; unfold run_handler, by_script; cbn [is_send];
    repeat match goal with
           | |- context [if ?b then _ else _] => destruct b
           | |- context [match c_script c with _ => _ end] => destruct (c_script c)
           end; auto.
Qed.

Lemma expects_eq : forall c k0 k,
  first_of frame_order c = Some k0 -> first_of handler_order c = Some k ->
  expects c = negb (is_pong c) && negb (is_send k).
Proof. intros c k0 k H1 H2; unfold expects; rewrite H1, H2; destruct k; reflexivity. Qed.

Lemma expects_pong : forall c, is_pong c = true -> expects c = false.
Proof. intros c H; unfold expects; rewrite H; reflexivity. Qed.

Lemma nrep_nil : forall id, nrep id [] = 0%nat. Proof. reflexivity. Qed.
Lemma niss_nil : forall id, niss id [] = 0%nat. Proof. reflexivity. Qed.
Lemma nrep_app : forall id a b, nrep id (a ++ b) = (nrep id a + nrep id b)%nat.
Proof. intros; unfold nrep; rewrite filter_app, app_length; reflexivity. Qed.
Lemma niss_app : forall id a b, niss id (a ++ b) = (niss id a + niss id b)%nat.
Proof. intros; unfold niss; rewrite filter_app, app_length; reflexivity. Qed.
Lemma nrep_cons : forall id o l,
  nrep id (o :: l) = ((match o with OReply i _ => if (i =? id)%N then 1 else 0 | _ => 0 end) + nrep id l)%nat.
Proof. intros; unfold nrep; cbn [filter]; destruct o as [| |i e|]; try reflexivity. destruct (i =? id); reflexivity. Qed.
Lemma niss_cons : forall id o l,
  niss id (o :: l) = ((match o with OIssue i true => if (i =? id)%N then 1 else 0 | _ => 0 end) + niss id l)%nat.
Proof.
  intros; unfold niss; cbn [filter]; destruct o as [i e| | |]; try reflexivity.
  destruct e; [destruct (i =? id)|]; reflexivity.
Qed.

Lemma npend_add : forall id s i k ch,
  npend id (add_pend s i k ch) = (npend id s + (if (i =? id)%N then 1 else 0))%nat.
Proof.
  intros; unfold npend, add_pend; cbn [s_pend].
  rewrite filter_app, app_length; cbn [filter p_id]. destruct (i =? id); reflexivity.
Qed.

Lemma npend_state_after : forall id s k ch, npend id (state_after s k ch) = npend id s.
Proof. intros; destruct k; reflexivity. Qed.

Ltac cnt :=
  rewrite ?nrep_cons, ?niss_cons, ?nrep_app, ?niss_app, ?nrep_cons, ?niss_cons, ?nrep_nil, ?niss_nil,
          ?npend_add, ?npend_state_after.

Lemma hc_counts : forall g s c s' o p id,
  handle_command g s c = Some (s', o, p) ->
  (nrep id o + npend id s' <= niss id o + npend id s)%nat /\
  (s_closed s' = false -> (nrep id o + npend id s' = niss id o + npend id s)%nat).
Proof.
  intros g s c s' o p id H. unfold handle_command in H.
  destruct (s_closed s) eqn:Hc. { inversion H; subst s' o p; cnt; split; intros; lia. }
  destruct (s_unusable s). { inversion H; subst s' o p; cnt; split; [change (npend id (set_closed s)) with (npend id s); lia|discriminate]. }
  destruct (negb (s_auth s) && negb (has KConnect c)).
  { inversion H; subst s' o p; cnt. change (npend id (set_closed s)) with (npend id s).
    split; [destruct (expects c); lia|discriminate]. }
  destruct (is_pong c) eqn:P.
  { rewrite (expects_pong c P) in H. destruct (s_ping s); inversion H; subst s' o p; cnt.
    - change (npend id (set_ping s false)) with (npend id s). split; intros; lia.
    - change (npend id (set_closed s)) with (npend id s). split; [lia|discriminate]. }
  assert (Hbad : forall e, (nrep id [OIssue (c_id c) e; OClose 3501] + npend id (set_closed s)
                             <= niss id [OIssue (c_id c) e; OClose 3501] + npend id s)%nat).
  { intro e; cnt. change (npend id (set_closed s)) with (npend id s). destruct e; lia. }
  destruct (first_of frame_order c) as [k0|] eqn:F.
  2: { inversion H; subst s' o p. split; [apply Hbad|discriminate]. }
  destruct (first_of handler_order c) as [k|] eqn:K.
  2: { inversion H; subst s' o p. split; [apply Hbad|discriminate]. }
  rewrite (expects_eq c k0 k F K), P in H. cbn [negb andb] in H.
  pose proof (rh_shape g s c k) as Sh.
  destruct (run_handler g s c k) as [code|code|inv r|  |inv| ] eqn:R.
  - (* HErr *) rewrite Sh in H. cbn [negb] in H.
    destruct (has KConnect c); inversion H; subst s' o p; cnt;
      destruct (connect_invoked s c k); cnt;
      try change (npend id (set_unusable s)) with (npend id s);
      destruct (c_id c =? id); split; intros; lia.
  - (* HDisc *) inversion H; subst s' o p; cnt. change (npend id (set_closed s)) with (npend id s).
    split; [|discriminate]. destruct (connect_invoked s c k); cnt; destruct (negb (is_send k)); lia.
  - (* HSync *) rewrite Sh in H. cbn [negb] in H.
    destruct r; inversion H; subst s' o p; cnt; destruct inv; cnt;
      try change (npend id (set_closed s)) with (npend id s);
      destruct (c_id c =? id); split; intros; try discriminate; lia.
  - (* HAsync *) rewrite Sh in H. cbn [negb] in H. inversion H; subst s' o p; cnt.
    destruct (c_id c =? id); split; intros; lia.
  - (* HSilent *) subst k. cbn [is_send negb] in H. inversion H; subst s' o p; cnt.
    destruct inv; cnt; split; intros; lia.
  - discriminate.
Qed.

(* closedness is absorbing and a stopped reader means closed-or-unusable *)
Lemma hc_closed : forall g s c s' o p,
  handle_command g s c = Some (s', o, p) -> s_closed s = true -> s' = s /\ o = [] /\ p = false.
Proof. intros g s c s' o p H Hc; unfold handle_command in H; rewrite Hc in H; inversion H; auto. Qed.

Definition flag (id : N) (c : cmd) : nat := if (c_id c =? id) && expects c then 1%nat else 0%nat.

Lemma niss_issue : forall id c l,
  niss id (OIssue (c_id c) (expects c) :: l) = (flag id c + niss id l)%nat.
Proof.
  intros; rewrite niss_cons; unfold flag. destruct (expects c), (c_id c =? id); reflexivity.
Qed.

(* shape of one HandleCommand from an open, usable connection *)
Lemma hc_open : forall g s c s' o p id,
  handle_command g s c = Some (s', o, p) -> s_closed s = false -> s_unusable s = false ->
  niss id o = flag id c /\
  (p = true -> s_closed s' = false /\ s_unusable s' = false) /\
  (p = false -> s_closed s' = true \/ s_unusable s' = true).
Proof.
  intros g s c s' o p id H Hc Hu. unfold handle_command in H. rewrite Hc, Hu in H.
  assert (Z : forall l, (forall x, In x l -> match x with OIssue _ _ => False | _ => True end) -> niss id l = 0%nat).
  { induction l as [|x l IH]; intro Hl; [reflexivity|]. rewrite niss_cons, IH.
    - specialize (Hl x (or_introl eq_refl)). destruct x; try reflexivity. contradiction.
    - intros y Hy; apply Hl; right; assumption. }
  destruct (negb (s_auth s) && negb (has KConnect c)).
  { inversion H; subst s' o p. rewrite niss_issue, Z by (simpl; intuition (subst; auto)).
    repeat split; try discriminate; auto; lia. }
  destruct (is_pong c).
  { destruct (s_ping s); inversion H; subst s' o p; rewrite niss_issue, Z by (simpl; intuition (subst; auto));
      repeat split; try discriminate; auto; lia. }
  destruct (first_of frame_order c) as [k0|].
  2: { inversion H; subst s' o p. rewrite niss_issue, Z by (simpl; intuition (subst; auto)).
       repeat split; try discriminate; auto; lia. }
  destruct (first_of handler_order c) as [k|].
  2: { inversion H; subst s' o p. rewrite niss_issue, Z by (simpl; intuition (subst; auto)).
       repeat split; try discriminate; auto; lia. }
  destruct (run_handler g s c k) as [code|code|inv r|  |inv| ]; try discriminate.
  - destruct (has KConnect c); inversion H; subst s' o p; rewrite niss_issue, Z;
      try (destruct (connect_invoked s c k); simpl; intuition (subst; auto));
      repeat split; try discriminate; auto; lia.
  - inversion H; subst s' o p; rewrite niss_issue, Z;
      try (destruct (connect_invoked s c k); simpl; intuition (subst; auto));
      repeat split; try discriminate; auto; lia.
  - destruct r; inversion H; subst s' o p; rewrite niss_issue, Z;
      try (destruct inv; simpl; intuition (subst; auto));
      repeat split; try discriminate; auto; try lia; destruct k; assumption.
  - inversion H; subst s' o p; rewrite niss_issue, Z by (simpl; intuition (subst; auto)).
    repeat split; try discriminate; auto; lia.
  - inversion H; subst s' o p; rewrite niss_issue, Z;
      try (destruct inv; simpl; intuition (subst; auto));
      repeat split; try discriminate; auto; lia.
Qed.

Lemma hc_niss_le : forall g s c s' o p id,
  handle_command g s c = Some (s', o, p) -> (niss id o <= flag id c)%nat.
Proof.
  intros g s c s' o p id H.
  destruct (s_closed s) eqn:Hc.
  { destruct (hc_closed _ _ _ _ _ _ H Hc) as [_ [-> _]]. rewrite niss_nil; lia. }
  destruct (s_unusable s) eqn:Hu.
  { unfold handle_command in H; rewrite Hc, Hu in H; inversion H; subst. rewrite niss_cons, niss_nil; lia. }
  destruct (hc_open _ _ _ _ _ _ id H Hc Hu) as [E _]. lia.
Qed.

Definition open_usable (s : st) : Prop := s_closed s = false /\ s_unusable s = false.

Lemma hc_back : forall g s c s' o p id,
  handle_command g s c = Some (s', o, p) -> open_usable s' ->
  open_usable s /\ p = true /\ niss id o = flag id c.
Proof.
  intros g s c s' o p id H [Hc' Hu'].
  destruct (s_closed s) eqn:Hc.
  { destruct (hc_closed _ _ _ _ _ _ H Hc) as [-> _]. congruence. }
  destruct (s_unusable s) eqn:Hu.
  { unfold handle_command in H; rewrite Hc, Hu in H; inversion H; subst. discriminate. }
  destruct (hc_open _ _ _ _ _ _ id H Hc Hu) as [E [Pt Pf]].
  split; [unfold open_usable; split; assumption|]. split; [|assumption].
  destruct p; [reflexivity|]. destruct (Pf eq_refl); congruence.
Qed.

Fixpoint flags (id : N) (cs : list cmd) : nat :=
  match cs with [] => 0%nat | c :: r => (flag id c + flags id r)%nat end.

Lemma flags_sentE : forall id cs,
  flags id cs = length (filter (fun c => (c_id c =? id) && expects c) cs).
Proof.
  induction cs as [|c r IH]; [reflexivity|]. cbn [flags filter]. unfold flag at 1.
  destruct ((c_id c =? id) && expects c); cbn [length]; lia.
Qed.

(* ---------- lifting to frames, completions, runs ---------- *)

Definition counts (id : N) (s s' : st) (o : list out) : Prop :=
  (nrep id o + npend id s' <= niss id o + npend id s)%nat /\
  (s_closed s' = false -> (nrep id o + npend id s' = niss id o + npend id s)%nat).

Lemma counts_refl : forall id s, counts id s s [].
Proof. intros; split; intros; rewrite nrep_nil, niss_nil; lia. Qed.

Lemma counts_trans : forall id s1 s2 s3 o1 o2,
  counts id s1 s2 o1 -> counts id s2 s3 o2 ->
  (s_closed s2 = true -> s_closed s3 = true) -> counts id s1 s3 (o1 ++ o2).
Proof.
  intros id s1 s2 s3 o1 o2 [A1 E1] [A2 E2] M. split; rewrite nrep_app, niss_app.
  - lia.
  - intro H3. assert (H2 : s_closed s2 = false) by (destruct (s_closed s2); auto; rewrite M in H3; auto).
    specialize (E1 H2); specialize (E2 H3); lia.
Qed.

Lemma hcs_closed : forall g cs s s' o p,
  handle_cmds g s cs = Some (s', o, p) -> s_closed s = true -> s' = s /\ o = [].
Proof.
  destruct cs as [|c r]; intros s s' o p H Hc; cbn [handle_cmds] in H.
  - inversion H; auto.
  - unfold handle_command in H; rewrite Hc in H. inversion H; auto.
Qed.

Lemma hcs_counts : forall g cs s s' o p id,
  handle_cmds g s cs = Some (s', o, p) -> counts id s s' o.
Proof.
  induction cs as [|c r IH]; intros s s' o p id H; cbn [handle_cmds] in H.
  - inversion H; subst. apply counts_refl.
  - destruct (handle_command g s c) as [[[s1 o1] p1]|] eqn:E; [|discriminate].
    pose proof (hc_counts _ _ _ _ _ _ id E) as C1.
    destruct p1.
    + destruct (handle_cmds g s1 r) as [[[s2 o2] p2]|] eqn:E2; [|discriminate].
      inversion H; subst. eapply counts_trans; [exact C1|eapply IH; eassumption|].
      intro Hc. destruct (hcs_closed _ _ _ _ _ _ E2 Hc) as [-> _]. assumption.
    + inversion H; subst. exact C1.
Qed.

Lemma counts_close : forall id s s' o code,
  counts id s s' o -> counts id s (set_closed s') (o ++ [OClose code]).
Proof.
  intros id s s' o code [A E]. split.
  - rewrite nrep_app, niss_app, nrep_cons, niss_cons, nrep_nil, niss_nil.
    change (npend id (set_closed s')) with (npend id s'). lia.
  - discriminate.
Qed.

Lemma hf_counts : forall g s cs m s' o id,
  handle_frame g s cs m = Some (s', o) -> counts id s s' o.
Proof.
  intros g s cs m s' o id H. unfold handle_frame in H.
  destruct (handle_cmds g s cs) as [[[s1 o1] p1]|] eqn:E; [|discriminate].
  pose proof (hcs_counts _ _ _ _ _ _ id E) as C.
  destruct p1.
  - destruct (m || match cs with [] => true | _ => false end).
    + destruct (s_closed s1); inversion H; subst; [exact C|apply counts_close; exact C].
    + inversion H; subst; exact C.
  - destruct (s_closed s1); inversion H; subst; [exact C|apply counts_close; exact C].
Qed.

Lemma take_pend_count : forall id tok l p rest,
  take_pend tok l = Some (p, rest) ->
  length (filter (fun q => p_id q =? id) l)
  = ((if (p_id p =? id)%N then 1 else 0) + length (filter (fun q => (p_id q =? id)%N) rest))%nat.
Proof.
  induction l as [|q l IH]; intros p rest H; cbn [take_pend] in H; [discriminate|].
  destruct (p_tok q =? tok).
  - inversion H; subst. cbn [filter]. destruct (p_id p =? id); reflexivity.
  - destruct (take_pend tok l) as [[q' r']|] eqn:E; [|discriminate]. inversion H; subst.
    cbn [filter]. specialize (IH _ _ eq_refl).
    destruct (p_id q =? id); cbn [length]; rewrite IH; destruct (p_id p =? id); lia.
Qed.

Lemma npend_on_ok : forall id s k ch, npend id (on_ok s k ch) = npend id s.
Proof. intros; destruct k; reflexivity. Qed.

Lemma complete_counts : forall s tok r s' o id,
  complete s tok r = (s', o) -> counts id s s' o.
Proof.
  intros s tok r s' o id H. unfold complete in H.
  destruct (take_pend tok (s_pend s)) as [[p rest]|] eqn:E.
  2: { inversion H; subst; apply counts_refl. }
  pose proof (take_pend_count id _ _ _ _ E) as T. fold (npend id s) in T.
  destruct (s_closed s) eqn:Hc.
  { inversion H; subst. split; [rewrite nrep_nil, niss_nil; unfold npend at 1; cbn [s_pend set_pend]; lia|].
    cbn [s_closed set_pend]. congruence. }
  destruct r; inversion H; subst; split; intros;
    rewrite ?nrep_cons, ?niss_cons, ?nrep_nil, ?niss_nil, ?npend_on_ok;
    try (change (npend id (set_closed (set_pend s rest))) with (npend id (set_pend s rest)));
    unfold npend at 1; cbn [s_pend set_pend]; try discriminate; lia.
Qed.

Lemma step_counts : forall g s l s' o id, step g s l = Some (s', o) -> counts id s s' o.
Proof.
  intros g s l s' o id H. destruct l as [cs m| |tok r]; cbn [step] in H.
  - eapply hf_counts; eassumption.
  - destruct (s_closed s); inversion H; subst; [apply counts_refl|].
    split; intros; rewrite nrep_nil, niss_nil; change (npend id (set_ping s true)) with (npend id s); lia.
  - inversion H as [H']. eapply complete_counts; exact H'.
Qed.

(* closed stays closed *)
Lemma step_closed : forall g s l s' o,
  step g s l = Some (s', o) -> s_closed s = true -> s_closed s' = true.
Proof.
  intros g s l s' o H Hc. destruct l as [cs m| |tok r]; cbn [step] in H.
  - unfold handle_frame in H.
    destruct (handle_cmds g s cs) as [[[s1 o1] p1]|] eqn:E; [|discriminate].
    destruct (hcs_closed _ _ _ _ _ _ E Hc) as [-> ->]. rewrite Hc in H.
    destruct p1; [destruct (m || match cs with [] => true | _ => false end)|]; inversion H; subst; assumption.
  - rewrite Hc in H; inversion H; subst; assumption.
  - inversion H as [H']. unfold complete in H'.
    destruct (take_pend tok (s_pend s)) as [[p rest]|]; [rewrite Hc in H'|]; inversion H'; subst; assumption.
Qed.

Theorem exec_counts : forall g ls s s' os id,
  exec g s ls = Some (s', os) -> counts id s s' (concat os).
Proof.
  induction ls as [|l r IH]; intros s s' os id H; cbn [exec] in H.
  - inversion H; subst. apply counts_refl.
  - destruct (step g s l) as [[s1 o1]|] eqn:E; [|discriminate].
    destruct (exec g s1 r) as [[s2 os2]|] eqn:E2; [|discriminate].
    inversion H; subst. cbn [concat].
    eapply counts_trans; [eapply step_counts; eassumption|eapply IH; eassumption|].
    clear -E2. revert s1 s' os2 E2. induction r as [|l r IHr]; intros s1 s' os2 E2 Hc; cbn [exec] in E2.
    + inversion E2; subst; assumption.
    + destruct (step g s1 l) as [[s3 o3]|] eqn:E3; [|discriminate].
      destruct (exec g s3 r) as [[s4 os4]|] eqn:E4; [|discriminate].
      inversion E2; subst. eapply IHr; [eassumption|]. eapply step_closed; eassumption.
Qed.

(* ---------- what was issued vs what was sent ---------- *)

Lemma hcs_niss_le : forall g cs s s' o p id,
  handle_cmds g s cs = Some (s', o, p) -> (niss id o <= flags id cs)%nat.
Proof.
  induction cs as [|c r IH]; intros s s' o p id H; cbn [handle_cmds] in H.
  - inversion H; subst. rewrite niss_nil; cbn; lia.
  - destruct (handle_command g s c) as [[[s1 o1] p1]|] eqn:E; [|discriminate].
    pose proof (hc_niss_le _ _ _ _ _ _ id E) as L1. cbn [flags].
    destruct p1.
    + destruct (handle_cmds g s1 r) as [[[s2 o2] p2]|] eqn:E2; [|discriminate].
      inversion H; subst. rewrite niss_app. specialize (IH _ _ _ _ id E2). lia.
    + inversion H; subst. lia.
Qed.

Lemma hcs_back : forall g cs s s' o p id,
  handle_cmds g s cs = Some (s', o, p) -> open_usable s' ->
  open_usable s /\ p = true /\ niss id o = flags id cs.
Proof.
  induction cs as [|c r IH]; intros s s' o p id H OU; cbn [handle_cmds] in H.
  - inversion H; subst. auto.
  - destruct (handle_command g s c) as [[[s1 o1] p1]|] eqn:E; [|discriminate].
    destruct p1.
    + destruct (handle_cmds g s1 r) as [[[s2 o2] p2]|] eqn:E2; [|discriminate].
      inversion H; subst. destruct (IH _ _ _ _ id E2 OU) as [OU1 [-> N2]].
      destruct (hc_back _ _ _ _ _ _ id E OU1) as [OU0 [_ N1]].
      repeat split; try apply OU0. rewrite niss_app; cbn [flags]; lia.
    + inversion H; subst. destruct (hc_back _ _ _ _ _ _ id E OU) as [_ [Hp _]]. discriminate.
Qed.

Lemma hf_niss_le : forall g s cs m s' o id,
  handle_frame g s cs m = Some (s', o) -> (niss id o <= flags id cs)%nat.
Proof.
  intros g s cs m s' o id H. unfold handle_frame in H.
  destruct (handle_cmds g s cs) as [[[s1 o1] p1]|] eqn:E; [|discriminate].
  pose proof (hcs_niss_le _ _ _ _ _ _ id E) as L.
  assert (X : forall code, niss id (o1 ++ [OClose code]) = niss id o1)
    by (intro; rewrite niss_app, niss_cons, niss_nil; lia).
  destruct p1; [destruct (m || match cs with [] => true | _ => false end)|];
    try destruct (s_closed s1); inversion H; subst; rewrite ?X; assumption.
Qed.

Lemma hf_back : forall g s cs m s' o id,
  handle_frame g s cs m = Some (s', o) -> open_usable s' ->
  open_usable s /\ niss id o = flags id cs.
Proof.
  intros g s cs m s' o id H OU. unfold handle_frame in H.
  destruct (handle_cmds g s cs) as [[[s1 o1] p1]|] eqn:E; [|discriminate].
  destruct OU as [Hc Hu].
  destruct p1; [destruct (m || match cs with [] => true | _ => false end)|];
    try (destruct (s_closed s1) eqn:C1); inversion H; subst; try discriminate; try congruence.
  destruct (hcs_back _ _ _ _ _ _ id E (conj Hc Hu)) as [OU0 [_ N]]. auto.
Qed.

(* an unusable connection is closed before the next label *)
Definition usable_inv (s : st) : Prop := s_unusable s = true -> s_closed s = true.

Lemma hc_unusable_keep : forall g s c s' o p,
  handle_command g s c = Some (s', o, p) -> s_closed s = true -> s_closed s' = true.
Proof. intros g s c s' o p H Hc. destruct (hc_closed _ _ _ _ _ _ H Hc) as [-> _]; assumption. Qed.

Lemma step_usable_inv : forall g s l s' o,
  step g s l = Some (s', o) -> usable_inv s -> usable_inv s'.
Proof.
  intros g s l s' o H U. destruct (s_closed s') eqn:C'; [intro; assumption|].
  destruct l as [cs m| |tok r]; cbn [step] in H.
  - intro Hu'. exfalso. unfold handle_frame in H.
    destruct (handle_cmds g s cs) as [[[s1 o1] p1]|] eqn:E; [|discriminate].
    assert (s' = s1 /\ p1 = true) as [-> ->].
    { destruct p1; [destruct (m || match cs with [] => true | _ => false end)|];
        try (destruct (s_closed s1) eqn:C1); inversion H; subst; try discriminate; try congruence; auto. }
    clear H. revert s s1 o1 U E C' Hu'.
    induction cs as [|c r IH]; intros s s1 o1 U E C' Hu'; cbn [handle_cmds] in E.
    + inversion E; subst. rewrite (U Hu') in C'. discriminate.
    + destruct (handle_command g s c) as [[[s2 o2] p2]|] eqn:E1; [|discriminate].
      destruct p2; [|inversion E].
      destruct (handle_cmds g s2 r) as [[[s3 o3] p3]|] eqn:E2; [|discriminate].
      inversion E; subst. eapply (IH s2); try eassumption.
      intro Hu2. destruct (s_closed s) eqn:Cs.
      * eapply hc_unusable_keep; eassumption.
      * destruct (s_unusable s) eqn:Us; [rewrite (U Us) in Cs; discriminate|].
        destruct (hc_open _ _ _ _ _ _ 0 E1 Cs Us) as [_ [Pt _]]. destruct (Pt eq_refl). congruence.
  - destruct (s_closed s); inversion H; subst; [exact U|]. exact U.
  - inversion H as [H']. unfold complete in H'.
    destruct (take_pend tok (s_pend s)) as [[p rest]|]; [|inversion H'; subst; exact U].
    destruct (s_closed s) eqn:Cs; [inversion H'; subst; cbn in C'; congruence|].
    destruct r; inversion H'; subst; intro Hu'; try (destruct (p_kind p)); cbn in *; try discriminate;
      rewrite (U Hu') in Cs; discriminate.
Qed.

Lemma exec_back : forall g ls s s' os id,
  exec g s ls = Some (s', os) -> usable_inv s -> s_closed s' = false ->
  niss id (concat os) = flags id (flat_map cmds_of ls).
Proof.
  induction ls as [|l r IH]; intros s s' os id H U Hc; cbn [exec] in H.
  - inversion H; subst. reflexivity.
  - destruct (step g s l) as [[s1 o1]|] eqn:E; [|discriminate].
    destruct (exec g s1 r) as [[s2 os2]|] eqn:E2; [|discriminate].
    inversion H; subst. cbn [concat flat_map].
    pose proof (step_usable_inv _ _ _ _ _ E U) as U1.
    rewrite niss_app, (IH _ _ _ id E2 U1 Hc).
    assert (C1 : s_closed s1 = false).
    { destruct (s_closed s1) eqn:C; [|reflexivity].
      clear -E2 C Hc. revert s1 s' os2 E2 C Hc.
      induction r as [|l r IHr]; intros s1 s' os2 E2 C Hc; cbn [exec] in E2.
      - inversion E2; subst; congruence.
      - destruct (step g s1 l) as [[s3 o3]|] eqn:E3; [|discriminate].
        destruct (exec g s3 r) as [[s4 os4]|] eqn:E4; [|discriminate].
        inversion E2; subst. eapply IHr; [eassumption| |eassumption]. eapply step_closed; eassumption. }
    assert (OU1 : open_usable s1).
    { split; [assumption|]. destruct (s_unusable s1) eqn:Us; [rewrite (U1 Us) in C1; discriminate|reflexivity]. }
    assert (flags_app : forall a b, flags id (a ++ b) = (flags id a + flags id b)%nat).
    { induction a as [|x a IHa]; intro b; cbn [app flags]; [reflexivity|rewrite IHa; lia]. }
    rewrite flags_app. f_equal.
    destruct l as [cs m| |tok res]; cbn [step cmds_of] in *.
    + destruct (hf_back _ _ _ _ _ _ id E OU1) as [_ N]. exact N.
    + destruct (s_closed s); inversion E; subst; reflexivity.
    + inversion E as [E']. unfold complete in E'.
      destruct (take_pend tok (s_pend s)) as [[p rest]|]; [|inversion E'; subst; reflexivity].
      destruct (s_closed s); [inversion E'; subst; reflexivity|].
      destruct res; inversion E'; subst; rewrite ?niss_cons, ?niss_nil; reflexivity.
Qed.

Lemma exec_niss_le : forall g ls s s' os id,
  exec g s ls = Some (s', os) -> (niss id (concat os) <= flags id (flat_map cmds_of ls))%nat.
Proof.
  induction ls as [|l r IH]; intros s s' os id H; cbn [exec] in H.
  - inversion H; subst. cbn; lia.
  - destruct (step g s l) as [[s1 o1]|] eqn:E; [|discriminate].
    destruct (exec g s1 r) as [[s2 os2]|] eqn:E2; [|discriminate].
    inversion H; subst. cbn [concat flat_map]. rewrite niss_app.
    assert (flags_app : forall a b, flags id (a ++ b) = (flags id a + flags id b)%nat).
    { induction a as [|x a IHa]; intro b; cbn [app flags]; [reflexivity|rewrite IHa; lia]. }
    rewrite flags_app. specialize (IH _ _ _ id E2).
    assert (niss id o1 <= flags id (cmds_of l))%nat; [|lia].
    destruct l as [cs m| |tok res]; cbn [step cmds_of] in *.
    + eapply hf_niss_le; eassumption.
    + destruct (s_closed s); inversion E; subst; cbn; lia.
    + inversion E as [E']. unfold complete in E'.
      destruct (take_pend tok (s_pend s)) as [[p rest]|]; [|inversion E'; subst; cbn; lia].
      destruct (s_closed s); [inversion E'; subst; cbn; lia|].
      destruct res; inversion E'; subst; rewrite ?niss_cons, ?niss_nil; cbn; lia.
Qed.

Lemma init_usable : usable_inv init. Proof. intro H; discriminate. Qed.

(* ---------- C09 "answered exactly once" over runs ---------- *)

(* never more replies with an id than reply-expecting commands sent with it *)
Theorem once_at_most : forall g ls s' os id,
  exec g init ls = Some (s', os) -> (nrep id (concat os) <= sentE id ls)%nat.
Proof.
  intros g ls s' os id H. unfold sentE. rewrite <- flags_sentE.
  destruct (exec_counts _ _ _ _ _ id H) as [A _].
  pose proof (exec_niss_le _ _ _ _ _ id H). change (npend id init) with 0%nat in A. lia.
Qed.

(* connection still open and all callbacks completed: exactly one reply per such command *)
Theorem once_exact : forall g ls s' os id,
  exec g init ls = Some (s', os) -> s_closed s' = false -> s_pend s' = [] ->
  nrep id (concat os) = sentE id ls.
Proof.
  intros g ls s' os id H Hc Hp. unfold sentE. rewrite <- flags_sentE.
  destruct (exec_counts _ _ _ _ _ id H) as [_ E]. specialize (E Hc).
  rewrite <- (exec_back _ _ _ _ _ id H init_usable Hc).
  change (npend id init) with 0%nat in E. unfold npend in E. rewrite Hp in E. cbn in E. lia.
Qed.

(* pending callbacks account for the difference while the connection is open *)
Theorem once_pending : forall g ls s' os id,
  exec g init ls = Some (s', os) -> s_closed s' = false ->
  (nrep id (concat os) + npend id s' = sentE id ls)%nat.
Proof.
  intros g ls s' os id H Hc. unfold sentE. rewrite <- flags_sentE.
  destruct (exec_counts _ _ _ _ _ id H) as [_ E]. specialize (E Hc).
  rewrite <- (exec_back _ _ _ _ _ id H init_usable Hc).
  change (npend id init) with 0%nat in E. lia.
Qed.

(* the strict reading (every command with an id, Send included) is false *)
Theorem once_strict_refuted :
  exists g ls s' os id,
    exec g init ls = Some (s', os) /\ s_closed s' = false /\ s_pend s' = [] /\
    id <> 0 /\ sent id ls = 1%nat /\ nrep id (concat os) = 0%nat.
Proof.
  exists (mkCfg [KSend] false),
         [LFrame [mkCmd 1 [KConnect] 0 false SOk] false; LFrame [mkCmd 7 [KSend] 0 false SOk] false].
  eexists. eexists. exists 7. vm_compute. repeat split; try reflexivity. discriminate.
Qed.
