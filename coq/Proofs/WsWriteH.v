(* C30 proofs, generalisation of part B: the frames of one message, plain or compressed (RSV1 on the
   first frame), against a decoder with or without permessage-deflate negotiated. *)
From Coq Require Import String List NArith Bool Arith Lia ZifyN ZifyNat.
From Cfg Require Import Gen.WsConst Model.WsUtf8 Model.WsFrame Model.WsReadSpec Model.WsWrite Model.WsWriteSpec
     Proofs.WsLib Proofs.WsReadA Proofs.WsReadC Proofs.WsWriteA Proofs.WsWriteB Proofs.WsWriteG.
Import ListNotations.
Open Scope N_scope.

Section WriterZ.
  Variable ok : N -> bool.
  Variable infl : bytes -> option bytes.
  Variable cfg : wcfg.
  Variable z : bool.                                       (* the peer has permessage-deflate negotiated *)
  Hypothesis Hcap : c_maxFrameHeaderSize < wc_buf cfg.

  Let masked : bool := negb (wc_server cfg).
  Let P : spolicy := S0 ok.
  Let C : scfg := peerz masked z.

  Lemma flush_data_z : forall keys w final extra,
      keys_ok keys -> (m_type w = 0 \/ is_data (m_type w)) ->
      (wc_server cfg = false -> extra = []) ->
      exists key keys',
        flush_frame cfg keys w final extra
        = inl (enc_frame masked key (b0z (m_type w) final (m_compress w)) (m_buf w ++ extra), keys', mkMw [] 0 false)
        /\ keys_ok keys' /\ (masked = true -> length key = 4%nat).
  Proof.
    intros keys w final extra Hk Ht Hex. unfold flush_frame.
    rewrite (data_not_control _ Ht). simpl andb. cbv iota.
    unfold enc_frame, masked. rewrite app_length.
    assert (Hs : wc_server cfg = true \/ wc_server cfg = false) by (destruct (wc_server cfg); auto).
    destruct Hs as [Es|Es]; rewrite Es.
    - exists [], keys. split; [|split; [exact Hk|discriminate]]. reflexivity.
    - rewrite (Hex Es). destruct (next_key_ok keys Hk) as [K1 K2].
      destruct (next_key keys) as [key keys'] eqn:Ek. simpl in K1, K2.
      exists key, keys'. split; [|split; [exact K2|intros _; exact K1]].
      rewrite app_nil_r. simpl length. rewrite Nat.add_0_r. reflexivity.
  Qed.

  (* writer state against decoder state; cz = the message is compressed *)
  Definition wrelz (typ : N) (cz : bool) (w : mw) (frag : option fragst) (sofar : bytes) : Prop :=
    (m_type w = typ /\ m_compress w = cz /\ frag = None /\ sofar = m_buf w)
    \/ (m_type w = 0 /\ m_compress w = false
        /\ exists acc, frag = Some (typ, cz, acc, N.of_nat (length acc)) /\ sofar = acc ++ m_buf w).

  Lemma flush_nonfinal_decode_z : forall keys w typ cz frag sofar extra,
      keys_ok keys -> is_data typ -> (cz = true -> z = true) -> wrelz typ cz w frag sofar ->
      (wc_server cfg = false -> extra = []) ->
      N.of_nat (length (sofar ++ extra)) < two63 ->
      exists fr keys',
        flush_frame cfg keys w false extra = inl (fr, keys', mkMw [] 0 false)
        /\ keys_ok keys'
        /\ wrelz typ cz (mkMw [] 0 false) (Some (typ, cz, sofar ++ extra, N.of_nat (length (sofar ++ extra)))) (sofar ++ extra)
        /\ forall rest, spec_run P C infl frag (fr ++ rest)
                        = spec_run P C infl (Some (typ, cz, sofar ++ extra, N.of_nat (length (sofar ++ extra)))) rest.
  Proof.
    intros keys w typ cz frag sofar extra Hk Hd Hz Hw Hex Hlen.
    assert (Ht : m_type w = 0 \/ is_data (m_type w)).
    { destruct Hw as [[-> _]|[-> _]]; auto. }
    destruct (flush_data_z keys w false extra Hk Ht Hex) as [key [keys' [E [K1 K2]]]].
    eexists _, keys'. split; [exact E|]. split; [exact K1|]. split.
    { right. split; [reflexivity|]. split; [reflexivity|]. exists (sofar ++ extra). split; [reflexivity|]. simpl. rewrite app_nil_r. reflexivity. }
    intro rest. rewrite spec_run_step. unfold P, C.
    destruct Hw as [[Ety [Ecz [-> ->]]]|[Ety [Ecz [acc [-> ->]]]]].
    - rewrite Ecz.
      rewrite (decode_data_frame_z ok infl masked z key false cz (m_type w) (m_buf w ++ extra) rest None typ cz [] 0).
      + simpl app. try rewrite N.add_0_l. reflexivity.
      + rewrite app_length in *. exact Hlen.
      + exact K2.
      + rewrite Ety. destruct Hd as [-> | ->]; repeat split; auto.
      + try rewrite N.add_0_l. exact Hlen.
    - rewrite Ecz.
      rewrite (decode_data_frame_z ok infl masked z key false false (m_type w) (m_buf w ++ extra) rest
                 (Some (typ, cz, acc, N.of_nat (length acc))) typ cz acc (N.of_nat (length acc))).
      + simpl app. rewrite <- Nat2N.inj_add, <- app_length, app_assoc. reflexivity.
      + rewrite <- app_assoc, !app_length in Hlen. rewrite app_length. lia.
      + exact K2.
      + rewrite Ety. auto.
      + rewrite <- Nat2N.inj_add, <- app_length, app_assoc. exact Hlen.
  Qed.

  (* the final flush; out = the message as the decoder delivers it: the payload itself, or its inflation *)
  Lemma flush_final_decode_z : forall keys w typ cz frag sofar extra out,
      keys_ok keys -> is_data typ -> (cz = true -> z = true) -> wrelz typ cz w frag sofar ->
      (wc_server cfg = false -> extra = []) ->
      N.of_nat (length (sofar ++ extra)) < two63 ->
      (if cz then infl (sofar ++ extra) = Some out else out = sofar ++ extra) ->
      (typ = 1 -> utf8_valid out = true) ->
      exists fr keys' w',
        flush_frame cfg keys w true extra = inl (fr, keys', w')
        /\ keys_ok keys'
        /\ forall rest, spec_run P C infl frag (fr ++ rest) = SMsg typ out :: spec_run P C infl None rest.
  Proof.
    intros keys w typ cz frag sofar extra out Hk Hd Hz Hw Hex Hlen Hout Hutf.
    assert (Ht : m_type w = 0 \/ is_data (m_type w)).
    { destruct Hw as [[-> _]|[-> _]]; auto. }
    destruct (flush_data_z keys w true extra Hk Ht Hex) as [key [keys' [E [K1 K2]]]].
    eexists _, keys', _. split; [exact E|]. split; [exact K1|].
    intro rest. rewrite spec_run_step. unfold P, C.
    assert (Hcomplete : complete (S0 ok) (peerz masked z) infl typ cz (sofar ++ extra) rest
                        = FCont [SMsg typ out] None rest).
    { unfold complete. rewrite dtrip_peerz. destruct cz.
      - rewrite Hout. simpl s_dlimit. change (0 <? 0) with false. simpl andb. cbv iota.
        destruct Hd as [-> | ->]; [rewrite (Hutf eq_refl)|]; reflexivity.
      - subst out. destruct Hd as [-> | ->]; [rewrite (Hutf eq_refl)|]; reflexivity. }
    destruct Hw as [[Ety [Ecz [-> ->]]]|[Ety [Ecz [acc [-> ->]]]]].
    - rewrite Ecz.
      rewrite (decode_data_frame_z ok infl masked z key true cz (m_type w) (m_buf w ++ extra) rest None typ cz [] 0).
      + simpl app. rewrite Hcomplete. reflexivity.
      + exact Hlen.
      + exact K2.
      + rewrite Ety. destruct Hd as [-> | ->]; repeat split; auto.
      + try rewrite N.add_0_l. exact Hlen.
    - rewrite Ecz.
      rewrite (decode_data_frame_z ok infl masked z key true false (m_type w) (m_buf w ++ extra) rest
                 (Some (typ, cz, acc, N.of_nat (length acc))) typ cz acc (N.of_nat (length acc))).
      + rewrite app_assoc. rewrite Hcomplete. reflexivity.
      + rewrite <- app_assoc, !app_length in Hlen. rewrite app_length. lia.
      + exact K2.
      + rewrite Ety. auto.
      + rewrite <- Nat2N.inj_add, <- app_length, app_assoc. exact Hlen.
  Qed.

  Lemma copy_loop_decode_z : forall fuel keys w p wire0 typ cz frag sofar,
      keys_ok keys -> is_data typ -> (cz = true -> z = true) -> wrelz typ cz w frag sofar ->
      (length p < fuel)%nat ->
      N.of_nat (length sofar + length p) < two63 ->
      N.of_nat (length (m_buf w)) <= cap cfg ->
      exists emitted keys' w' frag',
        copy_loop fuel cfg keys w p wire0 = inl (wire0 ++ emitted, keys', w')
        /\ keys_ok keys' /\ wrelz typ cz w' frag' (sofar ++ p)
        /\ N.of_nat (length (m_buf w')) <= cap cfg
        /\ forall rest, spec_run P C infl frag (emitted ++ rest) = spec_run P C infl frag' rest.
  Proof.
    induction fuel as [|f IH]; intros keys w p wire0 typ cz frag sofar Hk Hd Hz Hw Hf Hlen Hb; [lia|].
    destruct p as [|x p'].
    - exists [], keys, w, frag. simpl. rewrite !app_nil_r.
      split; [reflexivity|]. split; [exact Hk|]. split; [exact Hw|]. split; [exact Hb|]. intro rest. reflexivity.
    - set (pp := x :: p') in *.
      assert (Hpp : (1 <= length pp)%nat) by (unfold pp; simpl; lia).
      pose proof (cap_pos cfg Hcap) as Hcp.
      cbn [copy_loop]. fold pp.
      destruct (N.eqb_spec (cap cfg - N.of_nat (length (m_buf w))) 0) as [Hfull|Hroom].
      + destruct (flush_nonfinal_decode_z keys w typ cz frag sofar [] Hk Hd Hz Hw (fun _ => eq_refl))
          as [fr [keys1 [E [K1 [W1 D1]]]]].
        { rewrite app_nil_r. lia. }
        rewrite E. rewrite app_nil_r in W1, D1.
        set (n := N.to_nat (N.min (cap cfg) (N.of_nat (length pp)))).
        assert (Hn : (1 <= n <= length pp)%nat /\ N.of_nat n <= cap cfg) by (unfold n; lia).
        destruct (firstn_skipn_len pp n ltac:(lia)) as [L1 L2].
        set (w1 := mkMw (firstn n pp) (m_type (mkMw [] 0 false)) (m_compress (mkMw [] 0 false))).
        assert (Hw1 : wrelz typ cz w1 (Some (typ, cz, sofar, N.of_nat (length sofar))) (sofar ++ firstn n pp)).
        { right. split; [reflexivity|]. split; [reflexivity|]. exists sofar. split; reflexivity. }
        destruct (IH keys1 w1 (skipn n pp) (wire0 ++ fr) typ cz _ _ K1 Hd Hz Hw1) as [em [keys' [w' [frag' [E2 [K2 [W2 [B2 D2]]]]]]]].
        * rewrite L2. lia.
        * rewrite app_length, L1, L2. lia.
        * unfold w1. simpl m_buf. rewrite L1. lia.
        * exists (fr ++ em), keys', w', frag'.
          split; [rewrite E2, <- app_assoc; reflexivity|]. split; [exact K2|].
          split; [rewrite <- app_assoc, firstn_skipn in W2; exact W2|]. split; [exact B2|].
          intro rest. rewrite <- app_assoc. rewrite D1. apply D2.
      + set (n := N.to_nat (N.min (cap cfg - N.of_nat (length (m_buf w))) (N.of_nat (length pp)))).
        assert (Hn : (1 <= n <= length pp)%nat /\ N.of_nat (length (m_buf w)) + N.of_nat n <= cap cfg) by (unfold n; lia).
        destruct (firstn_skipn_len pp n ltac:(lia)) as [L1 L2].
        set (w1 := mkMw (m_buf w ++ firstn n pp) (m_type w) (m_compress w)).
        assert (Hw1 : wrelz typ cz w1 frag (sofar ++ firstn n pp)).
        { destruct Hw as [[Ety [Ecz [-> ->]]]|[Ety [Ecz [acc [-> ->]]]]].
          - left. repeat split; auto.
          - right. split; [exact Ety|]. split; [exact Ecz|]. exists acc. split; [reflexivity|]. unfold w1. simpl. rewrite app_assoc. reflexivity. }
        destruct (IH keys w1 (skipn n pp) wire0 typ cz _ _ Hk Hd Hz Hw1) as [em [keys' [w' [frag' [E2 [K2 [W2 [B2 D2]]]]]]]].
        * rewrite L2. lia.
        * rewrite app_length, L1, L2. lia.
        * unfold w1. simpl m_buf. rewrite app_length, L1. lia.
        * exists em, keys', w', frag'.
          split; [exact E2|]. split; [exact K2|].
          split; [rewrite <- app_assoc, firstn_skipn in W2; exact W2|]. split; [exact B2|exact D2].
  Qed.

  Lemma feed_decode_z : forall c keys w typ cz frag sofar,
      keys_ok keys -> is_data typ -> (cz = true -> z = true) -> wrelz typ cz w frag sofar ->
      N.of_nat (length (m_buf w)) <= cap cfg ->
      N.of_nat (length sofar + length (chunk_bytes c)) < two63 ->
      exists emitted keys' w' frag',
        feed cfg keys w c = inl (emitted, keys', w')
        /\ keys_ok keys' /\ wrelz typ cz w' frag' (sofar ++ chunk_bytes c)
        /\ N.of_nat (length (m_buf w')) <= cap cfg
        /\ forall rest, spec_run P C infl frag (emitted ++ rest) = spec_run P C infl frag' rest.
  Proof.
    intros c keys w typ cz frag sofar Hk Hd Hz Hw Hb Hlen.
    destruct c as [p|p|p|p]; simpl chunk_bytes in *; unfold feed.
    - destruct ((2 * wc_buf cfg <? N.of_nat (length p)) && wc_server cfg) eqn:Big.
      + apply andb_true_iff in Big as [_ Hs].
        destruct (flush_nonfinal_decode_z keys w typ cz frag sofar p Hk Hd Hz Hw) as [fr [keys' [E [K [W D]]]]].
        { intro Hf. rewrite Hf in Hs. discriminate. }
        { rewrite app_length. exact Hlen. }
        exists fr, keys', (mkMw [] 0 false), (Some (typ, cz, sofar ++ p, N.of_nat (length (sofar ++ p)))).
        split; [exact E|]. split; [exact K|]. split; [exact W|]. split; [simpl; lia|exact D].
      + destruct (copy_loop_decode_z (S (length p)) keys w p [] typ cz frag sofar Hk Hd Hz Hw ltac:(lia) Hlen Hb)
          as [em [keys' [w' [frag' [E R]]]]].
        exists em, keys', w', frag'. split; [exact E|exact R].
    - destruct (copy_loop_decode_z (S (length p)) keys w p [] typ cz frag sofar Hk Hd Hz Hw ltac:(lia) Hlen Hb)
        as [em [keys' [w' [frag' [E R]]]]].
      exists em, keys', w', frag'. split; [exact E|exact R].
    - destruct (copy_loop_decode_z (S (length p)) keys w p [] typ cz frag sofar Hk Hd Hz Hw ltac:(lia) Hlen Hb)
        as [em [keys' [w' [frag' [E [K [W [B D]]]]]]]].
      rewrite E. simpl app.
      destruct (N.of_nat (length (m_buf w')) =? cap cfg).
      + destruct (flush_nonfinal_decode_z keys' w' typ cz frag' (sofar ++ p) [] K Hd Hz W (fun _ => eq_refl))
          as [fr [keys'' [E2 [K2 [W2 D2]]]]].
        { rewrite app_nil_r, app_length. exact Hlen. }
        rewrite E2. rewrite app_nil_r in W2, D2.
        exists (em ++ fr), keys'', (mkMw [] 0 false), (Some (typ, cz, sofar ++ p, N.of_nat (length (sofar ++ p)))).
        split; [reflexivity|]. split; [exact K2|]. split; [exact W2|]. split; [simpl; lia|].
        intro rest. rewrite <- app_assoc. rewrite D. apply D2.
      + exists em, keys', w', frag'. split; [reflexivity|]. split; [exact K|]. split; [exact W|]. split; [exact B|exact D].
    - destruct (copy_loop_decode_z (S (length p)) keys w p [] typ cz frag sofar Hk Hd Hz Hw ltac:(lia) Hlen Hb)
        as [em [keys' [w' [frag' [E R]]]]].
      exists em, keys', w', frag'. split; [exact E|exact R].
  Qed.

  Lemma feed_all_decode_z : forall cs keys w wire0 typ cz frag sofar,
      keys_ok keys -> is_data typ -> (cz = true -> z = true) -> wrelz typ cz w frag sofar ->
      N.of_nat (length (m_buf w)) <= cap cfg ->
      N.of_nat (length sofar + length (flat_map chunk_bytes cs)) < two63 ->
      exists emitted keys' w' frag',
        feed_all cfg keys w cs wire0 = inl (wire0 ++ emitted, keys', w')
        /\ keys_ok keys' /\ wrelz typ cz w' frag' (sofar ++ flat_map chunk_bytes cs)
        /\ forall rest, spec_run P C infl frag (emitted ++ rest) = spec_run P C infl frag' rest.
  Proof.
    induction cs as [|c cs IH]; intros keys w wire0 typ cz frag sofar Hk Hd Hz Hw Hb Hlen.
    - exists [], keys, w, frag. simpl. rewrite !app_nil_r. split; [reflexivity|]. split; [exact Hk|]. split; [exact Hw|reflexivity].
    - simpl flat_map in *. rewrite app_length in Hlen.
      destruct (feed_decode_z c keys w typ cz frag sofar Hk Hd Hz Hw Hb ltac:(lia)) as [em [keys1 [w1 [frag1 [E [K [W [B D]]]]]]]].
      simpl feed_all. rewrite E.
      destruct (IH keys1 w1 (wire0 ++ em) typ cz frag1 (sofar ++ chunk_bytes c) K Hd Hz W B) as [em2 [keys2 [w2 [frag2 [E2 [K2 [W2 D2]]]]]]].
      { rewrite app_length. lia. }
      exists (em ++ em2), keys2, w2, frag2. split; [rewrite E2, <- app_assoc; reflexivity|].
      split; [exact K2|]. split; [rewrite <- app_assoc in W2; exact W2|].
      intro rest. rewrite <- app_assoc. rewrite D. apply D2.
  Qed.
End WriterZ.
