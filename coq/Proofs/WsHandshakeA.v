(* C31 proofs, part A: character classes, tokenListContainsValue against the list-header
   specification, case-insensitive comparison. *)
From Coq Require Import List NArith Bool Lia.
From Cfg Require Import Model.WsHandshake Model.WsHandshakeSpec Proofs.WsLib.
Import ListNotations.
Open Scope N_scope.

(* ---------------------------------------------------------------- character classes *)

Ltac cmp_false :=
  repeat match goal with
  | |- context [?a =? ?b] =>
      replace (a =? b) with false by (symmetry; apply N.eqb_neq; lia)
  | |- context [?a <=? ?b] =>
      first [ replace (a <=? b) with false by (symmetry; apply N.leb_gt; lia)
            | replace (a <=? b) with true by (symmetry; apply N.leb_le; lia) ]
  end.

Lemma is_sp_ows : forall c, is_sp c = ows c.
Proof. reflexivity. Qed.

Lemma token_octet_tchar : forall c, is_token_octet c = tchar c.
Proof.
  intro c. destruct (N.ltb_spec c 128) as [H|H].
  - assert (E : Bool.eqb (is_token_octet c) (tchar c) = true).
    { apply (forall_below (fun c => Bool.eqb (is_token_octet c) (tchar c)) 128); [vm_compute; reflexivity|exact H]. }
    apply eqb_prop in E. exact E.
  - unfold is_token_octet, tchar, is_alpha, is_digit. simpl existsb. cmp_false. reflexivity.
Qed.

Lemma lower_to_lower : forall c, lower c = to_lower c.
Proof. reflexivity. Qed.

Lemma b64_b64char : forall c, is_b64 c = b64char c.
Proof. reflexivity. Qed.

Lemma tok_not_sp : forall c, is_token_octet c = true -> is_sp c = false.
Proof.
  intros c H. unfold is_sp. destruct (N.eqb_spec c 32) as [->|]; [vm_compute in H; discriminate|].
  destruct (N.eqb_spec c 9) as [->|]; [vm_compute in H; discriminate|]. reflexivity.
Qed.

Lemma tok_not_comma : forall c, is_token_octet c = true -> (c =? 44) = false.
Proof.
  intros c H. destruct (N.eqb_spec c 44) as [->|]; [vm_compute in H; discriminate|reflexivity].
Qed.

Lemma tok_not_semi : forall c, is_token_octet c = true -> (c =? 59) = false.
Proof.
  intros c H. destruct (N.eqb_spec c 59) as [->|]; [vm_compute in H; discriminate|reflexivity].
Qed.

Lemma sp_not_comma : forall c, is_sp c = true -> (c =? 44) = false.
Proof.
  intros c H. destruct (N.eqb_spec c 44) as [->|]; [vm_compute in H; discriminate|reflexivity].
Qed.

Lemma sp_not_semi : forall c, is_sp c = true -> (c =? 59) = false.
Proof.
  intros c H. destruct (N.eqb_spec c 59) as [->|]; [vm_compute in H; discriminate|reflexivity].
Qed.

Lemma sp_not_tok : forall c, is_sp c = true -> is_token_octet c = false.
Proof.
  intros c H. destruct (is_token_octet c) eqn:E; auto. apply tok_not_sp in E. congruence.
Qed.

Definition nosep (sep : N) (a : bytes) : bool := forallb (fun c => negb (c =? sep)) a.

Lemma forallb_impl : forall (p q : N -> bool) l,
    (forall c, p c = true -> q c = true) -> forallb p l = true -> forallb q l = true.
Proof.
  intros p q l H. induction l as [|x l IH]; simpl; auto.
  intro F. apply andb_true_iff in F as [F1 F2]. rewrite (H _ F1). auto.
Qed.

Lemma toks_nocomma : forall t, forallb is_token_octet t = true -> nosep 44 t = true.
Proof. intro t. apply forallb_impl. intros c H. rewrite (tok_not_comma c H). reflexivity. Qed.
Lemma sps_nocomma : forall t, forallb is_sp t = true -> nosep 44 t = true.
Proof. intro t. apply forallb_impl. intros c H. rewrite (sp_not_comma c H). reflexivity. Qed.
Lemma toks_nosemi : forall t, forallb is_token_octet t = true -> nosep 59 t = true.
Proof. intro t. apply forallb_impl. intros c H. rewrite (tok_not_semi c H). reflexivity. Qed.
Lemma sps_nosemi : forall t, forallb is_sp t = true -> nosep 59 t = true.
Proof. intro t. apply forallb_impl. intros c H. rewrite (sp_not_semi c H). reflexivity. Qed.

Lemma nosep_app : forall sep a b, nosep sep (a ++ b) = nosep sep a && nosep sep b.
Proof. intros. unfold nosep. apply forallb_app. Qed.

(* ---------------------------------------------------------------- case folding *)

Lemma equal_ascii_fold_eq_fold : forall s t, equal_ascii_fold s t = eq_fold s t.
Proof.
  unfold eq_fold. induction s as [|a s IH]; destruct t as [|b t]; simpl; auto.
  rewrite IH. reflexivity.
Qed.

(* ---------------------------------------------------------------- one scanning step *)

(* the shape of the text consumed by `t, s = nextToken(skipSpace(s)); s = skipSpace(s)` *)
Lemma scan_shape : forall s t s1,
    next_token (skip_space s) = (t, s1) ->
    exists sp1 sp2,
      s = sp1 ++ t ++ sp2 ++ skip_space s1
      /\ forallb is_sp sp1 = true /\ forallb is_token_octet t = true /\ forallb is_sp sp2 = true
      /\ s1 = sp2 ++ skip_space s1
      /\ match s1 with [] => True | c :: _ => is_token_octet c = false end
      /\ match skip_space s1 with [] => True | c :: _ => is_sp c = false end
      /\ match t ++ s1 with [] => True | c :: _ => is_sp c = false end.
Proof.
  intros s t s1 H. unfold skip_space, next_token in *.
  destruct (span is_sp s) as [sp1 s'] eqn:E1. simpl in H.
  destruct (span is_sp s1) as [sp2 s2] eqn:E2. simpl.
  apply span_spec in E1 as [A1 [B1 C1]].
  pose proof (span_spec _ _ _ _ H) as [A2 [B2 C2]].
  apply span_spec in E2 as [A3 [B3 C3]].
  exists sp1, sp2. subst s s' s1. repeat split; auto.
Qed.

Lemma hd_tok_not_sp : forall t, t <> [] -> forallb is_token_octet t = true ->
                                match t with [] => True | c :: _ => ows c = false end.
Proof.
  intros [|c t] Hne H; [congruence|]. simpl in H. apply andb_true_iff in H as [H _].
  rewrite <- is_sp_ows. apply tok_not_sp. exact H.
Qed.

Lemma last_tok_not_sp : forall t, forallb is_token_octet t = true ->
                                  match rev t with [] => True | c :: _ => ows c = false end.
Proof.
  intros t H. rewrite <- forallb_rev in H. destruct (rev t) as [|c r]; auto.
  simpl in H. apply andb_true_iff in H as [H _]. rewrite <- is_sp_ows. apply tok_not_sp. exact H.
Qed.

Lemma forallb_sp_ows : forall l, forallb is_sp l = true -> forallb ows l = true.
Proof. intros l H. exact H. Qed.

(* the list members seen by one successful step *)
Lemma elements_step : forall s t s1,
    next_token (skip_space s) = (t, s1) -> t <> [] ->
    match skip_space s1 with
    | [] => elements s = [t]
    | c :: s3 => c = 44 -> elements s = t :: elements s3
    end.
Proof.
  intros s t s1 H Hne.
  destruct (scan_shape s t s1 H) as [sp1 [sp2 [E [F1 [F2 [F3 _]]]]]].
  assert (Htrim : trim_ows (sp1 ++ t ++ sp2) = t).
  { rewrite trim_ows_is_trim_by. apply trim_by_unique; auto.
    - apply hd_tok_not_sp; auto.
    - apply last_tok_not_sp; auto. }
  assert (Hnc : nosep 44 (sp1 ++ t ++ sp2) = true).
  { rewrite !nosep_app. rewrite (sps_nocomma _ F1), (toks_nocomma _ F2), (sps_nocomma _ F3). reflexivity. }
  destruct (skip_space s1) as [|c s3] eqn:Es.
  - rewrite app_nil_r in E. rewrite E. unfold elements. rewrite split_on_nosep; auto. simpl. rewrite Htrim. reflexivity.
  - intros ->. unfold elements.
    replace s with ((sp1 ++ t ++ sp2) ++ 44 :: s3) by (rewrite E; rewrite <- !app_assoc; reflexivity).
    rewrite split_on_app; auto. simpl. rewrite Htrim. reflexivity.
Qed.

Lemma scan_length : forall s t s1 c s3,
    next_token (skip_space s) = (t, s1) -> skip_space s1 = c :: s3 -> (length s3 < length s)%nat.
Proof.
  intros s t s1 c s3 H Hs.
  destruct (scan_shape s t s1 H) as [sp1 [sp2 [E _]]]. rewrite Hs in E. rewrite E.
  rewrite !app_length. simpl. lia.
Qed.

(* ---------------------------------------------------------------- soundness *)

Lemma tlcv_line_sound : forall fuel s v,
    tlcv_line fuel s v = true -> existsb (fun e => eq_fold e v) (elements s) = true.
Proof.
  induction fuel as [|f IH]; intros s v H; simpl in H; [discriminate|].
  destruct (next_token (skip_space s)) as [t s1] eqn:E.
  destruct t as [|t0 t']; [discriminate|].
  pose proof (elements_step s (t0 :: t') s1 E ltac:(discriminate)) as Hel.
  destruct (skip_space s1) as [|c s3] eqn:Es.
  - rewrite Hel. simpl. rewrite <- equal_ascii_fold_eq_fold. rewrite H. reflexivity.
  - destruct (N.eqb_spec c 44) as [->|Hc]; [|discriminate].
    rewrite (Hel eq_refl). simpl. rewrite <- equal_ascii_fold_eq_fold.
    destruct (equal_ascii_fold (t0 :: t') v); [reflexivity|]. simpl. apply IH. exact H.
Qed.

Theorem tlcv_sound : forall lines v,
    token_list_contains_value lines v = true -> has_token lines v = true.
Proof.
  intros lines v H. unfold token_list_contains_value in H. unfold has_token.
  apply existsb_exists in H as [l [Hl Ht]]. apply existsb_exists. exists l. split; auto.
  eapply tlcv_line_sound. exact Ht.
Qed.

(* ---------------------------------------------------------------- completeness on well-formed lines *)

Lemma drop_while_keep : forall p x y,
    match y with [] => True | c :: _ => p c = false end -> y <> [] ->
    exists x', drop_while p (x ++ y) = x' ++ y.
Proof.
  induction x as [|a x IH]; intros y Hy Hne; simpl.
  - exists []. destruct y as [|c r]; [congruence|]. simpl. rewrite Hy. reflexivity.
  - destruct (p a).
    + apply IH; auto.
    + exists (a :: x). reflexivity.
Qed.

(* trimming keeps a block whose first and last characters are not in the class *)
Lemma trim_by_keep : forall p a w q,
    forallb p a = true -> w <> [] ->
    match w with [] => True | c :: _ => p c = false end ->
    match rev w with [] => True | c :: _ => p c = false end ->
    exists q', trim_by p (a ++ w ++ q) = w ++ q'.
Proof.
  intros p a w q Ha Hne Hh Hl. unfold trim_by.
  rewrite drop_while_app; auto.
  2:{ destruct w as [|c r]; [congruence|]. simpl. exact Hh. }
  rewrite rev_app_distr.
  destruct (drop_while_keep p (rev q) (rev w) Hl) as [x' Hx'].
  { intro E. apply (f_equal (@rev N)) in E. rewrite rev_involutive in E. simpl in E. congruence. }
  rewrite Hx'. rewrite rev_app_distr, rev_involutive. exists (rev x'). reflexivity.
Qed.

Lemma first_element : forall s, exists rest, elements s = trim_ows (hd [] (split_on 44 s)) :: rest.
Proof.
  intro s. unfold elements. destruct (split_on 44 s) as [|p ps] eqn:E.
  - exfalso. eapply split_on_nonempty. exact E.
  - simpl. eexists. reflexivity.
Qed.

Lemma is_token_forall : forall e, is_token e = true -> e <> [] /\ forallb tchar e = true.
Proof. intros [|c e] H; simpl in H; [discriminate|]. split; [discriminate|exact H]. Qed.

Lemma forallb_tok_tchar : forall l, forallb tchar l = forallb is_token_octet l.
Proof. induction l as [|c l IH]; simpl; auto. rewrite IH, token_octet_tchar. reflexivity. Qed.

(* the first list member of a line that starts with spaces followed by a block w (first and last
   character not a space, no comma inside) starts with w *)
Lemma member_starts_with : forall sp1 w rest,
    forallb is_sp sp1 = true -> w <> [] ->
    match w with [] => True | c :: _ => ows c = false end ->
    match rev w with [] => True | c :: _ => ows c = false end ->
    nosep 44 w = true ->
    exists q', trim_ows (hd [] (split_on 44 (sp1 ++ w ++ rest))) = w ++ q'.
Proof.
  intros sp1 w rest F1 Hne Hh Hl Hnc.
  replace (sp1 ++ w ++ rest) with ((sp1 ++ w) ++ rest) by (rewrite <- app_assoc; reflexivity).
  rewrite split_on_prefix_piece.
  2:{ fold (nosep 44 (sp1 ++ w)). rewrite nosep_app. rewrite (sps_nocomma _ F1), Hnc. reflexivity. }
  rewrite <- app_assoc. rewrite trim_ows_is_trim_by.
  apply trim_by_keep; auto.
Qed.

Lemma member_empty : forall sp1 rest,
    forallb is_sp sp1 = true -> match rest with [] => True | c :: _ => c = 44 end ->
    trim_ows (hd [] (split_on 44 (sp1 ++ rest))) = [].
Proof.
  intros sp1 rest F1 Hr.
  assert (H : hd [] (split_on 44 (sp1 ++ rest)) = sp1).
  { destruct rest as [|c r].
    - rewrite app_nil_r. rewrite split_on_nosep; [reflexivity|]. apply sps_nocomma. exact F1.
    - subst c. rewrite split_on_app; [reflexivity|]. apply sps_nocomma. exact F1. }
  rewrite H. rewrite trim_ows_is_trim_by. unfold trim_by. rewrite (drop_while_all ows sp1); auto.
Qed.

(* If the scanner finds no token at the start of the line, the first member is not a token. *)
Lemma scan_fail_empty : forall s s1,
    next_token (skip_space s) = ([], s1) ->
    is_token (trim_ows (hd [] (split_on 44 s))) = false.
Proof.
  intros s s1 H.
  destruct (scan_shape s [] s1 H) as [sp1 [sp2 [E [F1 [F2 [F3 [E1 [G1 [G2 G3]]]]]]]]].
  simpl in E, G3.
  (* s1 does not start with a space, hence sp2 = [] and skip_space s1 = s1 *)
  assert (Hs : sp2 = [] /\ skip_space s1 = s1).
  { destruct s1 as [|c r].
    - destruct sp2; [|simpl in E1; discriminate]. split; reflexivity.
    - destruct sp2 as [|x sp2'].
      + simpl in E1. split; [reflexivity|]. symmetry. exact E1.
      + simpl in E1. inversion E1; subst x. simpl in F3. rewrite G3 in F3. discriminate. }
  destruct Hs as [-> Hs]. simpl in E. rewrite Hs in E. subst s.
  destruct s1 as [|c r].
  - rewrite member_empty; auto.
  - destruct (N.eqb_spec c 44) as [->|Hc].
    + rewrite member_empty; auto.
    + destruct (member_starts_with sp1 [c] r F1 ltac:(discriminate) G3 G3) as [q' Hq].
      { simpl. apply N.eqb_neq in Hc. rewrite Hc. reflexivity. }
      simpl in Hq. rewrite Hq. simpl. rewrite <- token_octet_tchar. rewrite G1. reflexivity.
Qed.

(* If the scanner finds a token but then neither a comma nor the end, the first member is not a token. *)
Lemma scan_fail_junk : forall s t s1 c s3,
    next_token (skip_space s) = (t, s1) -> t <> [] ->
    skip_space s1 = c :: s3 -> c <> 44 ->
    is_token (trim_ows (hd [] (split_on 44 s))) = false.
Proof.
  intros s t s1 c s3 H Hne Es Hc.
  destruct (scan_shape s t s1 H) as [sp1 [sp2 [E [F1 [F2 [F3 [E1 [G1 [G2 G3]]]]]]]]].
  rewrite Es in *.
  set (w := t ++ sp2 ++ [c]).
  assert (Hw : exists bad, In bad w /\ is_token_octet bad = false).
  { destruct sp2 as [|x sp2'].
    - exists c. split; [unfold w; apply in_or_app; right; simpl; auto|].
      simpl in E1. rewrite E1 in G1. exact G1.
    - exists x. split; [unfold w; apply in_or_app; right; simpl; auto|].
      simpl in F3. apply andb_true_iff in F3 as [F3 _]. apply sp_not_tok. exact F3. }
  assert (Es' : s = sp1 ++ w ++ s3).
  { rewrite E. unfold w. rewrite <- !app_assoc. reflexivity. }
  destruct (member_starts_with sp1 w s3 F1) as [q' Hq].
  - unfold w. destruct t; [congruence|discriminate].
  - unfold w. destruct t as [|t0 t']; [congruence|]. simpl.
    simpl in F2. apply andb_true_iff in F2 as [F2 _]. rewrite <- is_sp_ows. apply tok_not_sp. exact F2.
  - unfold w. rewrite !rev_app_distr. simpl. exact G2.
  - unfold w. rewrite !nosep_app. rewrite (toks_nocomma _ F2), (sps_nocomma _ F3). simpl.
    apply N.eqb_neq in Hc. rewrite Hc. reflexivity.
  - rewrite Es'. rewrite Hq.
    destruct (is_token (w ++ q')) eqn:Tok; auto. exfalso.
    apply is_token_forall in Tok as [_ Tall]. rewrite forallb_tok_tchar in Tall.
    rewrite forallb_app in Tall. apply andb_true_iff in Tall as [Tw _].
    destruct Hw as [bad [Hin Hbad]]. rewrite forallb_forall in Tw. rewrite (Tw bad Hin) in Hbad. discriminate.
Qed.

Lemma tlcv_line_complete : forall fuel s v,
    (length s < fuel)%nat ->
    forallb is_token (elements s) = true ->
    existsb (fun e => eq_fold e v) (elements s) = true ->
    tlcv_line fuel s v = true.
Proof.
  induction fuel as [|f IH]; intros s v Hf Hwf Hex; [lia|]. simpl.
  destruct (next_token (skip_space s)) as [t s1] eqn:E.
  destruct (first_element s) as [rest Hfirst].
  assert (Htok : is_token (trim_ows (hd [] (split_on 44 s))) = true).
  { rewrite Hfirst in Hwf. simpl in Hwf. apply andb_true_iff in Hwf as [H _]. exact H. }
  destruct t as [|t0 t'].
  { rewrite (scan_fail_empty s s1 E) in Htok. discriminate. }
  pose proof (elements_step s (t0 :: t') s1 E ltac:(discriminate)) as Hel.
  destruct (skip_space s1) as [|c s3] eqn:Es.
  - rewrite Hel in Hex. simpl in Hex. rewrite orb_false_r in Hex. rewrite equal_ascii_fold_eq_fold. exact Hex.
  - destruct (N.eqb_spec c 44) as [->|Hc].
    + rewrite (Hel eq_refl) in Hex, Hwf. simpl in Hex, Hwf. rewrite equal_ascii_fold_eq_fold.
      destruct (eq_fold (t0 :: t') v); [reflexivity|]. simpl in Hex.
      apply andb_true_iff in Hwf as [_ Hwf].
      apply IH; auto. pose proof (scan_length s _ s1 44 s3 E Es). lia.
    + rewrite (scan_fail_junk s (t0 :: t') s1 c s3 E ltac:(discriminate) Es Hc) in Htok. discriminate.
Qed.

Theorem tlcv_complete : forall lines v,
    lines_wf lines = true -> has_token lines v = true -> token_list_contains_value lines v = true.
Proof.
  intros lines v Hwf H. unfold has_token in H. unfold token_list_contains_value.
  apply existsb_exists in H as [l [Hl He]]. apply existsb_exists. exists l. split; auto.
  unfold lines_wf in Hwf. rewrite forallb_forall in Hwf. specialize (Hwf l Hl).
  apply tlcv_line_complete; auto.
Qed.
