(* C29 WebSocket frame reader conforms to RFC 6455 and RFC 7692.
   Property theorems only; proofs live in Proofs/WsReadHdr.v, WsReadA.v, WsReadB.v, WsReadC.v.
   Model: Model/WsRead.v (advanceFrame, NextReader, messageReader, ReadMessage loop, handlers, limits)
   over the peer's whole byte stream.  Reference decoder: Model/WsReadSpec.v (written from the RFCs'
   MUSTs, parameterised by the set of enforced rules).  compress/flate enters as function parameters
   (never axioms): [infl] for a whole message and [rc_avail] for the output produced from a prefix. *)
From Coq Require Import String List NArith Bool.
From Cfg Require Import Gen.WsConst Model.WsUtf8 Model.WsClose Model.WsCloseSpec Model.WsFrame Model.WsRead Model.WsReadSpec
     Proofs.WsReadA Proofs.WsReadB Proofs.WsReadC.
Import ListNotations.
Open Scope N_scope.

(* ------------------------------------------------------------------ the model is a reference decoder *)

(* For ALL configurations with a read buffer of at least one control frame and ALL byte streams:
   messages returned, pongs and close frames written back and the final error of the Go reader are
   exactly what the reference decoder dictates when it enforces the rule set [go_policy]
   (norm_event only drops the free reason text of 1002/1009 close frames). *)
Theorem C29_model_is_reference : forall cfg infl bs,
    125 <= rc_rbuf cfg ->
    map norm_event (read_all cfg infl bs)
    = expected (spec_read (go_policy (rc_close1_strict cfg) is_valid_received_close_code)
                          (mkScfg (rc_server cfg) (rc_compress cfg) (rc_limit cfg) (rc_dlimit cfg) (rc_avail cfg))
                          (fun d => infl (d ++ flate_tail)) bs).
Proof. exact read_all_eq_ref. Qed.
Print Assumptions C29_model_is_reference.

(* The relaxed rule set only matters on streams that violate a relaxed rule: if the strict decoder
   does not stop at one of them, both decoders produce the same events (all streams). *)
Theorem C29_policy_agree : forall close1 ok c infl bs,
    (forall k, end_of (spec_read (strict ok) c infl bs) = Some (OViol k) -> go_lax close1 k = false) ->
    spec_read (go_policy close1 ok) c infl bs = spec_read (strict ok) c infl bs.
Proof. exact policy_agree. Qed.
Print Assumptions C29_policy_agree.

(* ------------------------------------------------------------------ conformance, rejection, limits *)

Definition strict_events (cfg : rcfg) (infl : bytes -> option bytes) (bs : bytes) : list sevent :=
  spec_read strict_go (c_of cfg) (infl_of infl) bs.

(* The combined statement: unless the stream's first violation is of a relaxed rule, the reader shows
   exactly what the STRICT decoder dictates: the same messages in the same order (fragments
   reassembled, compressed messages inflated), a pong per ping, and at the end EOF / the echoed close /
   error + close 1002 for the violation / error + close 1009 for the limit. *)
Theorem C29_meets_strict : forall cfg infl bs,
    125 <= rc_rbuf cfg ->
    (forall k, end_of (strict_events cfg infl bs) = Some (OViol k) -> go_lax (rc_close1_strict cfg) k = false) ->
    map norm_event (read_all cfg infl bs) = expected (strict_events cfg infl bs).
Proof. exact model_meets_strict. Qed.
Print Assumptions C29_meets_strict.

(* conforming streams (possibly truncated anywhere, possibly ended by a close frame) *)
Theorem C29_conform : forall cfg infl bs,
    125 <= rc_rbuf cfg ->
    (end_of (strict_events cfg infl bs) = Some OEof
     \/ exists c t, end_of (strict_events cfg infl bs) = Some (OClosed c t)) ->
    map norm_event (read_all cfg infl bs) = expected (strict_events cfg infl bs).
Proof.
  intros cfg infl bs Hb H. apply model_meets_strict; [exact Hb|].
  intros k Hk. destruct H as [H|[c [t H]]]; unfold strict_events in H; rewrite H in Hk; discriminate.
Qed.
Print Assumptions C29_conform.

(* every violation of an enforced rule: the messages completed before it, then error + close 1002 *)
Theorem C29_reject : forall cfg infl bs k,
    125 <= rc_rbuf cfg ->
    end_of (strict_events cfg infl bs) = Some (OViol k) -> go_lax (rc_close1_strict cfg) k = false ->
    map norm_event (read_all cfg infl bs) = expected (strict_events cfg infl bs).
Proof.
  intros cfg infl bs k Hb H L. apply model_meets_strict; [exact Hb|].
  intros k' Hk. unfold strict_events in H. rewrite H in Hk. inversion Hk; subst. exact L.
Qed.
Print Assumptions C29_reject.

(* read limits: announced size of the message on the wire, and size after decompression - the latter in
   its streaming form: the reader may give up inside a message, as soon as the part received so far
   inflates beyond the limit (rc_avail: progress of the flate reader, a library parameter) *)
Theorem C29_limits : forall cfg infl bs,
    125 <= rc_rbuf cfg ->
    end_of (strict_events cfg infl bs) = Some OTooBig ->
    map norm_event (read_all cfg infl bs) = expected (strict_events cfg infl bs).
Proof.
  intros cfg infl bs Hb H. apply model_meets_strict; [exact Hb|].
  intros k Hk. unfold strict_events in H. rewrite H in Hk. discriminate.
Qed.
Print Assumptions C29_limits.

(* what "expected" means at the end of a stream *)
Example C29_expected_ends :
  expected [SEnd (OViol VMask)] = [Wrote 8 [3; 234]; Err EProto]
  /\ expected [SEnd OTooBig] = [Wrote 8 [3; 241]; Err EReadLimit]
  /\ expected [SEnd (OClosed 1000 [111; 107])] = [Wrote 8 [3; 232]; Err (EClose 1000 [111; 107])]
  /\ expected [SEnd OEof] = [Err EEof].
Proof. vm_compute. auto. Qed.

(* the close code policy of the theorems is the oracle's (RFC 6455 7.4 table) *)
Theorem C29_close_policy_is_rfc : forall c,
    (if rfc_close_defined c then true else if rfc_close_forbidden c then false else is_valid_received_close_code c)
    = is_valid_received_close_code c.
Proof. exact spec_close_ok_eq. Qed.
Print Assumptions C29_close_policy_is_rfc.

(* ------------------------------------------------------------------ never panics, always terminates *)

(* Every Go index/slice expression of the reader is a pattern match in the model whose failure
   branch is Err EPanic; unmodelled paths are Err EUnreachable; the loop's fuel is Err EFuel.
   None of them occurs, for every configuration (any buffer size) and every byte stream. *)
Theorem C29_no_panic : forall cfg infl bs, existsb bad_event (read_all cfg infl bs) = false.
Proof. exact read_all_total. Qed.
Print Assumptions C29_no_panic.

(* ------------------------------------------------------------------ the full statement is false *)

(* Full-strength statement of the property ("rejects EVERY protocol violation"):
     forall cfg infl bs, map norm_event (read_all cfg infl bs) = expected (strict_events cfg infl bs).
   It fails for each relaxed rule and for read buffers smaller than a control frame; each witness
   below is replayed on the real Conn by the driver's corpus (findings). *)
Definition srv (compress : bool) (limit rbuf : N) : rcfg := mkRcfg true compress limit 0 rbuf false no_avail.
Definition no_flate (_ : bytes) : option bytes := None.

(* the statement for one configuration and stream *)
Definition strict_holds (cfg : rcfg) (bs : bytes) : Prop :=
  map norm_event (read_all cfg no_flate bs) = expected (strict_events cfg no_flate bs).

(* masked frames with key 01 02 03 04 *)
Definition w_close1 : bytes := [136; 129; 1; 2; 3; 4; 2].                                  (* close, 1 byte body *)
Definition w_nonmin16 : bytes := [130; 254; 0; 5; 1; 2; 3; 4; 105; 103; 111; 104; 110].     (* binary "hello", 16 bit length 5 *)
Definition w_nonmin64 : bytes := [130; 255; 0; 0; 0; 0; 0; 0; 0; 5; 1; 2; 3; 4; 105; 103; 111; 104; 110].
Definition w_rsv1_ping : bytes := [201; 130; 1; 2; 3; 4; 105; 107].                          (* RSV1 + ping "hi" *)
Definition w_rsv1_cont : bytes := [2; 130; 1; 2; 3; 4; 96; 96; 192; 130; 1; 2; 3; 4; 98; 102]. (* binary "ab" + RSV1 continuation "cd" *)
Definition w_text_utf8 : bytes := [129; 130; 1; 2; 3; 4; 254; 252].                          (* text ff fe *)
Definition w_len_msb : bytes := [130; 255; 128; 0; 0; 0; 0; 0; 0; 1; 1; 2; 3; 4].
Definition w_msglen63 : bytes :=
  [2; 130; 1; 2; 3; 4; 96; 96; 128; 255; 127; 255; 255; 255; 255; 255; 255; 255; 1; 2; 3; 4; 98; 102].
Definition w_ping17 : bytes := [137; 145; 1; 2; 3; 4] ++ repeat 0 17.                         (* conforming: ping with 17 byte payload *)

Theorem C29_reject_close_body1_refuted :
  end_of (strict_events (srv false 0 4096) no_flate w_close1) = Some (OViol VCloseLen1)
  /\ ~ strict_holds (srv false 0 4096) w_close1.
Proof. split; [vm_compute; reflexivity|]. unfold strict_holds. vm_compute. discriminate. Qed.
Print Assumptions C29_reject_close_body1_refuted.

Theorem C29_reject_nonminimal_refuted :
  end_of (strict_events (srv false 0 4096) no_flate w_nonmin16) = Some (OViol VNonMinimal)
  /\ ~ strict_holds (srv false 0 4096) w_nonmin16
  /\ end_of (strict_events (srv false 0 4096) no_flate w_nonmin64) = Some (OViol VNonMinimal)
  /\ ~ strict_holds (srv false 0 4096) w_nonmin64.
Proof.
  split; [vm_compute; reflexivity|]. split; [unfold strict_holds; vm_compute; discriminate|].
  split; [vm_compute; reflexivity|]. unfold strict_holds. vm_compute. discriminate.
Qed.
Print Assumptions C29_reject_nonminimal_refuted.

Theorem C29_reject_rsv1_control_refuted :
  end_of (strict_events (srv true 0 4096) no_flate w_rsv1_ping) = Some (OViol VRsv1Ctl)
  /\ ~ strict_holds (srv true 0 4096) w_rsv1_ping.
Proof. split; [vm_compute; reflexivity|]. unfold strict_holds. vm_compute. discriminate. Qed.
Print Assumptions C29_reject_rsv1_control_refuted.

Theorem C29_reject_rsv1_continuation_refuted :
  end_of (strict_events (srv true 0 4096) no_flate w_rsv1_cont) = Some (OViol VRsv1Cont)
  /\ ~ strict_holds (srv true 0 4096) w_rsv1_cont.
Proof. split; [vm_compute; reflexivity|]. unfold strict_holds. vm_compute. discriminate. Qed.
Print Assumptions C29_reject_rsv1_continuation_refuted.

Theorem C29_reject_text_utf8_refuted :
  end_of (strict_events (srv false 0 4096) no_flate w_text_utf8) = Some (OViol VTextUtf8)
  /\ ~ strict_holds (srv false 0 4096) w_text_utf8.
Proof. split; [vm_compute; reflexivity|]. unfold strict_holds. vm_compute. discriminate. Qed.
Print Assumptions C29_reject_text_utf8_refuted.

(* error, but no close frame at all *)
Theorem C29_reject_len64_msb_refuted :
  end_of (strict_events (srv false 100 4096) no_flate w_len_msb) = Some (OViol VLenMsb)
  /\ map norm_event (read_all (srv false 100 4096) no_flate w_len_msb) = [Err EReadLimit]
  /\ ~ strict_holds (srv false 100 4096) w_len_msb.
Proof.
  split; [vm_compute; reflexivity|]. split; [vm_compute; reflexivity|]. unfold strict_holds. vm_compute. discriminate.
Qed.
Print Assumptions C29_reject_len64_msb_refuted.

(* a message whose announced length reaches 2^63 while a limit of 100 bytes is configured: ErrReadLimit
   without the 1009 close frame *)
Theorem C29_limits_msglen63_refuted :
  end_of (strict_events (srv false 100 4096) no_flate w_msglen63) = Some (OViol VMsgLen63)
  /\ expected (strict_events (srv false 100 4096) no_flate w_msglen63) = [Wrote 8 [3; 241]; Err EReadLimit]
  /\ map norm_event (read_all (srv false 100 4096) no_flate w_msglen63) = [Err EReadLimit].
Proof. split; [vm_compute; reflexivity|]. split; vm_compute; reflexivity. Qed.
Print Assumptions C29_limits_msglen63_refuted.

(* the 16 byte bufio.Reader of the HTTP/2 (extended CONNECT) upgrade path: a CONFORMING stream fails *)
Theorem C29_conform_small_read_buffer_refuted :
  end_of (strict_events (srv false 0 16) no_flate w_ping17) = Some OEof
  /\ expected (strict_events (srv false 0 16) no_flate w_ping17) = [Wrote 10 (xor_mask [1; 2; 3; 4] 0 (repeat 0 17)); Err EEof]
  /\ read_all (srv false 0 16) no_flate w_ping17 = [Err EBufferFull]
  /\ strict_holds (srv false 0 125) w_ping17.
Proof. split; [vm_compute; reflexivity|]. split; [vm_compute; reflexivity|]. split; vm_compute; reflexivity. Qed.
Print Assumptions C29_conform_small_read_buffer_refuted.

(* ------------------------------------------------------------------ non-vacuity *)

(* RFC 6455 5.7: masked "Hello"; a fragmented message with a ping in between; close with status 1000 *)
Example C29_ex_session :
  read_all (srv false 0 4096) no_flate
    ([129; 133; 55; 250; 33; 61; 127; 159; 77; 81; 88]
       ++ [1; 130; 1; 2; 3; 4; 96; 96] ++ [137; 129; 1; 2; 3; 4; 113] ++ [128; 130; 1; 2; 3; 4; 98; 102]
       ++ [136; 130; 1; 2; 3; 4; 2; 234])
  = [Msg 1 [72; 101; 108; 108; 111]; Wrote 10 [112]; Msg 1 [97; 98; 99; 100]; Wrote 8 [3; 232]; Err (EClose 1000 [])].
Proof. vm_compute. reflexivity. Qed.

Example C29_ex_strict_same :
  strict_holds (srv false 0 4096)
    ([129; 133; 55; 250; 33; 61; 127; 159; 77; 81; 88]
       ++ [1; 130; 1; 2; 3; 4; 96; 96] ++ [137; 129; 1; 2; 3; 4; 113] ++ [128; 130; 1; 2; 3; 4; 98; 102]
       ++ [136; 130; 1; 2; 3; 4; 2; 234]).
Proof. unfold strict_holds. vm_compute. reflexivity. Qed.

Example C29_ex_violation :
  read_all (srv false 0 4096) no_flate [130; 1; 65]
  = [Wrote 8 ([3; 234] ++ str "bad MASK"); Err EProto]
  /\ strict_holds (srv false 0 4096) [130; 1; 65].
Proof. split; [vm_compute; reflexivity|unfold strict_holds; vm_compute; reflexivity]. Qed.

Example C29_ex_limit :
  read_all (srv false 4 4096) no_flate [130; 133; 1; 2; 3; 4; 0; 0; 0; 0; 0] = [Wrote 8 [3; 241]; Err EReadLimit]
  /\ end_of (strict_events (srv false 4 4096) no_flate [130; 133; 1; 2; 3; 4; 0; 0; 0; 0; 0]) = Some OTooBig.
Proof. split; vm_compute; reflexivity. Qed.
