(* C35 Sharded PUB/SUB partition tags are balanced and Redis-compatible.
   Property theorems only; proofs live in Proofs/Crc16.v, Proofs/Partition.v,
   Proofs/PartitionTable.v (re-proved each run over the generated table) and
   Proofs/PartitionOracle.v. *)
From Coq Require Import List NArith Bool.
From Cfg Require Import Model.Crc16 Model.Partition Proofs.Crc16 Proofs.Partition
                        Gen.Precomputed Proofs.PartitionTable Harness.C35 Proofs.PartitionOracle.
Import ListNotations.
Open Scope N_scope.

(* "computed exactly as Redis computes them": for ALL byte strings the
   package's crc16 equals the bit-serial CRC-16/XMODEM specification, hence
   TagSlot = CRC16 mod 16384. *)
Theorem C35_crc16_is_xmodem :
  forall bs, Forall (fun b => b < 256) bs -> crc16_loop bs = crc16_spec bs.
Proof. exact crc16_loop_spec. Qed.
Print Assumptions C35_crc16_is_xmodem.

(* SlotToNode is the contiguous assignment for ALL cluster sizes and slots:
   the returned node j < n owns the slot, node j owning
   [j*q + min j r, (j+1)*q + min (j+1) r) with q = 16384 / n, r = 16384 mod n;
   owners are unique. *)
Theorem C35_slot_to_node_contiguous :
  forall n s, 1 <= n -> n <= total_slots -> s < total_slots ->
    exists j, slot_to_node s n = Some j /\ owns n j s.
Proof. exact slot_to_node_spec. Qed.
Print Assumptions C35_slot_to_node_contiguous.

Theorem C35_owner_unique : forall n j1 j2 s, owns n j1 s -> owns n j2 s -> j1 = j2.
Proof. exact owns_unique. Qed.
Print Assumptions C35_owner_unique.

(* Counting partitions per node with the implementation's SlotToNode is
   counting owners under that assignment. *)
Theorem C35_count_by_slot_to_node :
  forall n j slots, 1 <= n -> n <= total_slots -> Forall (fun s => s < total_slots) slots -> j < n ->
    N.of_nat (length (filter (to_node_is n j) slots)) = node_count n j slots.
Proof. exact count_by_slot_to_node. Qed.
Print Assumptions C35_count_by_slot_to_node.

(* THE finite statement (bound: the table [precomputed] generated from
   precomputed.go on this run -- every bundled partition count p, every
   cluster size 1 <= n <= p; proved by vm_compute of a checker proved sound):
   FindTags p yields exactly p tags, their Redis slots (specification CRC)
   are pairwise distinct, and for every n the number of partitions on each
   node is floor(p/n) or floor(p/n)+1, i.e. counts differ by at most one. *)
Theorem C35_tags_distinct_and_balanced :
  forall p tags, find_tags precomputed p = Some tags ->
    N.of_nat (length tags) = p /\
    NoDup (map slot_spec tags) /\
    forall n, 1 <= n -> n <= p -> balanced n (map slot_spec tags).
Proof. exact precomputed_good. Qed.
Print Assumptions C35_tags_distinct_and_balanced.

(* "every supported partition count": FindTags accepts exactly the sizes of
   the generated table, so the statement above covers every accepted count
   (the correspondence probes the real FindTags over 0..16400 and flags any
   accepted count outside this set). *)
Theorem C35_supported_counts :
  forall p, (exists tags, find_tags precomputed p = Some tags) <-> In p (map fst precomputed).
Proof. exact (find_tags_supported precomputed). Qed.
Print Assumptions C35_supported_counts.

Theorem C35_balanced_means_diff_le_1 :
  forall n slots, balanced n slots ->
    forall j1 j2, j1 < n -> j2 < n -> node_count n j1 slots <= node_count n j2 slots + 1.
Proof. exact balanced_diff. Qed.
Print Assumptions C35_balanced_means_diff_le_1.

(* not vacuous: the generated table has entries *)
Theorem C35_table_nonempty : precomputed <> [].
Proof. exact precomputed_nonempty. Qed.
Print Assumptions C35_table_nonempty.

(* the oracle evaluated on implementation output decides the predicates above *)
Theorem C35_oracle_tags_sound :
  forall p tags slots, oracle (CTags p true tags slots) = true ->
    N.of_nat (length tags) = p /\ slots = map slot_spec tags /\ NoDup (map slot_spec tags).
Proof. exact oracle_tags_sound. Qed.
Print Assumptions C35_oracle_tags_sound.

Theorem C35_oracle_node_sound :
  forall slot n res, 1 <= n -> n <= total_slots -> slot < total_slots ->
    oracle (CNode slot n res) = true -> exists j, res = Some j /\ owns n j slot.
Proof. exact oracle_node_sound. Qed.
Print Assumptions C35_oracle_node_sound.

Theorem C35_oracle_crc_sound :
  forall data crc slot, oracle (CCrc data crc slot) = true -> crc = crc16_spec data /\ slot = slot_spec data.
Proof. exact oracle_crc_sound. Qed.
Print Assumptions C35_oracle_crc_sound.

(* known answer of CRC-16/XMODEM, and a concrete assignment *)
Example C35_crc_check_value : crc16_spec [49; 50; 51; 52; 53; 54; 55; 56; 57] = 12739.
Proof. exact crc16_check_value. Qed.
Example C35_three_nodes :
  map (fun s => slot_to_node s 3) [0; 5461; 5462; 10922; 10923; 16383]
  = [Some 0; Some 0; Some 1; Some 1; Some 2; Some 2].
Proof. vm_compute. reflexivity. Qed.
