(* C23 Redis and Memory map brokers agree.  Property theorems only; proofs in Proofs/C23*.v.

   Models: Model/RedisMapBroker.v (Go glue of map_broker_redis.go) over the INTERPRETED ASTs of
   the real map_broker_*.lua scripts (Gen/LuaMapScripts.v via Model/Lua.v) over Model/Redis.v;
   Model/MemMap23.v (map_broker_memory.go).  Redis' and Lua's semantics are MODELLED (trusted).

   FULL STATEMENT (property text): forall cfg ops, redis_map_run cfg ops = mem_map_run cfg ops
   (same suppression outcomes, stream offsets, state contents -- compared in key order, i.e. up to
   unordered page boundaries -- and stream contents; epochs up to renaming: both models take the
   epoch to create from the operation).  It is FALSE on the faithful models: the _refuted theorems
   below give one witness per disagreement family; all are reproduced on the real code.  The
   agreement theorem for the domain they carve out is C23_agree_*_partial (added stage by stage). *)
From Coq Require Import List NArith ZArith Bool String.
From Cfg Require Import Model.Redis Model.MapApi23 Model.RedisMapBroker Model.MemMap23 Model.RedisMapServer
                        Model.RedisMapScripts Proofs.C23Witness Proofs.C23Lib Proofs.C23Core.
Import ListNotations.
Open Scope string_scope.

Theorem C23_agree_refuted : exists cfg ops, redis_map_run cfg ops <> mem_map_run cfg ops.
Proof. exists cfP, w_remove_missing. exact remove_missing_differs. Qed.
Print Assumptions C23_agree_refuted.

Theorem C23_remove_missing_channel_refuted : exists ops, redis_map_run cfP ops <> mem_map_run cfP ops.
Proof. exists w_remove_missing. exact remove_missing_differs. Qed.
Theorem C23_reverse_since_one_refuted : exists ops, redis_map_run cfP ops <> mem_map_run cfP ops.
Proof. exists w_reverse_since_one. exact reverse_since_one_differs. Qed.
Theorem C23_reverse_since_beyond_top_refuted : exists ops, redis_map_run cfP ops <> mem_map_run cfP ops.
Proof. exists w_reverse_beyond. exact reverse_beyond_differs. Qed.
Theorem C23_stream_approx_trim_refuted : exists cfg ops, redis_map_run cfg ops <> mem_map_run cfg ops.
Proof. exists cfP2, w_approx_trim. exact approx_trim_differs. Qed.
Theorem C23_single_key_missing_channel_refuted : exists ops, redis_map_run cfP ops <> mem_map_run cfP ops.
Proof. exists w_single_key_missing. exact single_key_missing_differs. Qed.
Theorem C23_stream_missing_channel_since_epoch_refuted : exists ops, redis_map_run cfP ops <> mem_map_run cfP ops.
Proof. exists w_stream_missing_since. exact stream_missing_since_differs. Qed.
Theorem C23_state_missing_channel_empty_revision_refuted : exists ops, redis_map_run cfP ops <> mem_map_run cfP ops.
Proof. exists w_state_missing_rev. exact state_missing_rev_differs. Qed.
Theorem C23_key_collision_refuted : exists ops, redis_map_run cfP ops <> mem_map_run cfP ops.
Proof. exists w_key_collision. exact key_collision_differs. Qed.
Theorem C23_version_2p53_refuted : exists ops, redis_map_run cfP ops <> mem_map_run cfP ops.
Proof. exists w_version_2p53. exact version_2p53_differs. Qed.
Theorem C23_state_limit0_revision_refuted : exists ops, redis_map_run cfP ops <> mem_map_run cfP ops.
Proof. exists w_state_limit0_rev. exact state_limit0_rev_differs. Qed.
Theorem C23_ephemeral_epoch_refuted : exists cfg ops, redis_map_run cfg ops <> mem_map_run cfg ops.
Proof. exists cfE, w_ephemeral_epoch. exact ephemeral_epoch_differs. Qed.
Theorem C23_ephemeral_keymode_refuted : exists cfg ops, redis_map_run cfg ops <> mem_map_run cfg ops.
Proof. exists cfE, w_ephemeral_keymode. destruct ephemeral_keymode_differs as [-> ->]. discriminate. Qed.
Theorem C23_clear_idempotency_refuted : exists ops, redis_map_run cfP ops <> mem_map_run cfP ops.
Proof. exists w_clear_idem. exact clear_idem_differs. Qed.
Theorem C23_ephemeral_single_key_revision_refuted : exists cfg ops, redis_map_run cfg ops <> mem_map_run cfg ops.
Proof.
  exists cfE, w_ephemeral_single_rev. intros E. destruct ephemeral_single_rev_differs as [A B].
  rewrite E in A. rewrite A in B. discriminate B.
Qed.
Theorem C23_cas_empty_epoch_refuted : exists ops, redis_map_run cfP ops <> mem_map_run cfP ops.
Proof.
  exists w_cas_empty_epoch. intros E. destruct cas_empty_epoch_differs as [A B]. rewrite E in A. rewrite A in B. discriminate B.
Qed.
(* after Clear, ReadStream re-creates the channel with the SAME epoch (the node id) on Redis *)
Theorem C23_clear_epoch_reuse_refuted :
  exists ops, nth 0 (redis_map_run cfP ops) MErr = nth 2 (redis_map_run cfP ops) MErr /\
              nth 0 (mem_map_run cfP ops) MErr <> nth 2 (mem_map_run cfP ops) MErr.
Proof. exists w_clear_reuse. split; [exact clear_reuse_redis_same_epoch | exact clear_reuse_memory_fresh_epoch]. Qed.

(* agreement on a 27-operation sequence exercising publish (key modes, CAS, idempotency, versions),
   remove, ReadState (all / paged / position only / single key), ReadStream (since, limit, reverse) *)
Example C23_agree_example : redis_map_run cfP w_agree = mem_map_run cfP w_agree.
Proof. exact agree_example. Qed.

(* ---------------------------------------------------------------------------------------------
   Agreement theorem (core domain), by simulation (Proofs/C23Add*.v, C23Idem.v, C23Read.v, C23Core.v).
   Redis side: Model/RedisMapBroker.v over the SHALLOW scripts of Model/RedisMapScripts.v
   (map_broker_add.lua, map_broker_stream_read.lua, map_broker_read_unordered.lua); the shallow
   scripts are tied to the interpreted real scripts by evaluation on every explored case
   (Harness/C23.v) -- that tie is testing.  Domain (all hypotheses are decidable and spelled out):
     cfg_ok       persistent (mode 3), unordered channel; KeyTTL = 0, MetaTTL = 0; 0 < StreamSize < 2^31;
                  0 <= StreamTTL < 2^31 ms
     keys_okb     no two channel names collide through the key scheme (finding map-key-collision)
     length ops <= StreamSize   neither side trims (finding map-stream-approx-trim beyond that)
     run_ok       per operation, relative to the memory model's state when it is issued:
       ai         the run either uses idempotency keys on Publish / Remove and contains no Clear (ai = true), or may contain
                  Clear and uses none (ai = false): a result cached before a Clear survives it on Redis only
                  (finding map-clear-idempotency)
       res_okb    (channel, idempotency key) pairs of the run do not collide through the result-key scheme
       Publish    keyed or unkeyed; delta allowed; Score >= 0; with ai, an IdempotencyKey with
                  0 <= IdempotentResultTTL < 2^31 ms (0 = the 5 min default): a repeated key is answered from the
                  result cache (suppression "idempotency" with the cached position), suppressed publishes are not
                  cached; cached results do not expire because no time passes in the domain; a keyed Publish
                  may carry a Version < 2^53 with any VersionEpoch (suppression "version"; an unversioned
                  publish keeps the stored version; finding map-version-ge-2^53 beyond);
                  new-epoch string without ':'; a keyed Publish may carry any KeyMode (suppressions
                  key_exists / key_not_found) and an ExpectedPosition with offset < 2^53 and a NON-EMPTY
                  epoch (suppression position_mismatch with the current entry; finding
                  map-cas-empty-epoch otherwise); an unkeyed one carries neither
       Remove     non-empty key, channel exists (finding map-remove-missing-channel); with ai, an IdempotencyKey as
                  for Publish; an ExpectedPosition as for Publish (position_mismatch / key_not_found / removal)
       ReadStream Limit < 2^31; the epoch both sides would create is the same string (epochs are
                  compared up to renaming); existing channel: any since when forward
                  (offset + 1 < 2^64), reverse only with 2 <= since <= top + 1 (findings
                  map-reverse-since-one / -beyond-top); missing channel: no since
                  (finding map-stream-missing-channel-since-epoch)
       ReadState  Limit < 2^31; all entries (any page size; compared in key order), position only
                  (Limit 0, then the Revision must be of the current epoch: finding
                  map-state-limit0-revision) or a single key; missing channel: no key, no Revision
                  (findings map-single-key-missing-channel, map-state-missing-channel-empty-revision)
       Clear      allowed (both sides then create the next epoch from the same string: the Redis-side reuse of
                  the node id is finding map-clear-epoch-reuse; idempotency keys across a Clear are
                  outside, finding map-clear-idempotency)
       key TTL sweeps, Stats and time passing are outside (testing only). *)
Theorem C23_agree_core_partial : forall cf ops ai,
  cfg_ok cf = true -> keys_okb (chans ops) = true -> res_okb (idems ops) = true ->
  (Z.of_nat (List.length ops) <= mc_size cf)%Z ->
  run_ok cf ai mm_init ops = true ->
  rm_run map_shallow cf rinit ops = mem_map_run cf ops.
Proof. exact agree_core. Qed.
Print Assumptions C23_agree_core_partial.

(* the domain is inhabited by a run that exercises every operation kind of the domain; on it the
   shallow and the interpreted scripts give the same observables *)
Definition w_core : list mop :=
  [rd_state "a" "N0"; pub "a" "k1" "d1" "N1"; pub "a" "" "d2" "N2";
   MPublish "a" "k2" (mkMP "" 0 "d3" true 0 "" 7 "" false None) "N3" 1000; pub "a" "k1" "d4" "N4";
   MPublish "a" "k1" (mkMP "" 0 "x1" false 0 "" 0 "if_new" true None) "N40" 1000;
   MPublish "a" "k9" (mkMP "" 0 "x2" false 0 "" 0 "if_exists" false None) "N41" 1000;
   MPublish "a" "k2" (mkMP "" 0 "x3" false 0 "" 0 "" false (Some (2%N, "N0"))) "N42" 1000;
   MPublish "a" "k2" (mkMP "" 0 "x4" false 0 "" 0 "" false (Some (3%N, "zz"))) "N43" 1000;
   MPublish "a" "k8" (mkMP "" 0 "x5" false 0 "" 0 "" false (Some (3%N, "N0"))) "N44" 1000;
   MPublish "a" "k2" (mkMP "" 0 "d3" true 0 "" 7 "if_exists" false (Some (3%N, "N0"))) "N45" 1000;
   rd_state "a" "N5"; MReadState "a" (Some (3%N, "N0")) 2 "" false "N6" "N6"; MReadState "a" (Some (3%N, "zz")) 2 "" false "N6" "N6";
   MReadState "a" None 0 "k1" true "N7" "N7"; MReadState "a" None 0 "" false "N8" "N8";
   MRemove "a" "k2" (mkMR "" 0 (Some (3%N, "N0"))) "N90" 1000; MRemove "a" "k7" (mkMR "" 0 (Some (3%N, "N0"))) "N91" 1000;
   MRemove "a" "k1" ro "N9" 1000; MRemove "a" "zz" ro "N10" 1000; rd_stream "a" "N11";
   MReadStream "a" (Some (1%N, "N0")) 2 false "N12" "N12"; MReadStream "a" (Some (3%N, "N0")) (-1) true "N13" "N13";
   MReadStream "a" (Some (3%N, "zz")) (-1) false "N13" "N13"; MReadStream "a" None 1 true "N14" "N14";
   rd_stream "b" "N15"; pub "b" "k" "x" "N16"; MReadState "c" None 0 "" false "N17" "N17"; MRemove "b" "k" ro "N18" 1000;
   rd_state "b" "N19";
   MPublish "b" "v1" (mkMP "" 0 "w1" false 5 "" 0 "" false None) "N60" 1000; MPublish "b" "v1" (mkMP "" 0 "w2" false 5 "" 0 "" false None) "N61" 1000;
   MPublish "b" "v1" (mkMP "" 0 "w3" false 0 "" 0 "" false None) "N62" 1000; MPublish "b" "v1" (mkMP "" 0 "w4" false 4 "ep" 0 "" false None) "N63" 1000;
   MPublish "b" "v1" (mkMP "" 0 "w5" false 4 "" 0 "" false None) "N64" 1000; MPublish "b" "v1" (mkMP "" 0 "w6" false 9 "ep" 0 "" false None) "N65" 1000;
   MPublish "b" "v1" (mkMP "" 0 "w7" false 3 "ep" 0 "" false None) "N66" 1000; MRemove "b" "v1" ro "N67" 1000;
   MPublish "b" "v1" (mkMP "" 0 "w8" false 1 "" 0 "" false None) "N68" 1000;
   MClear "a"; rd_stream "a" "N20"; pub "a" "k1" "again" "N21"; rd_state "a" "N22"].
Example C23_core_domain_example :
  cfg_ok cfP = true /\ keys_okb (chans w_core) = true /\ res_okb (idems w_core) = true /\ run_ok cfP false mm_init w_core = true /\
  (Z.of_nat (List.length w_core) <= mc_size cfP)%Z /\
  redis_map_run cfP w_core = rm_run map_shallow cfP rinit w_core /\
  firstn 6 (skipn 5 (mem_map_run cfP w_core)) =
    [MUpd 4 "N0" true "key_exists" None; MUpd 4 "N0" true "key_not_found" None;
     MUpd 4 "N0" true "position_mismatch" (Some (3%N, "d3")); MUpd 4 "N0" true "position_mismatch" (Some (3%N, "d3"));
     MUpd 4 "N0" true "position_mismatch" None; MUpd 5 "N0" false "" None] /\
  firstn 2 (skipn 16 (mem_map_run cfP w_core)) =
    [MUpd 5 "N0" true "position_mismatch" (Some (5%N, "d3")); MUpd 5 "N0" true "position_mismatch" None] /\
  map (fun r => match r with MUpd o _ s rs _ => (o, s, rs) | _ => (0%N, false, "?") end)
      (firstn 9 (skipn 30 (mem_map_run cfP w_core))) =
    [(3%N, false, ""); (3%N, true, "version"); (4%N, false, ""); (5%N, false, ""); (5%N, true, "version"); (6%N, false, "");
     (6%N, true, "version"); (7%N, false, ""); (8%N, false, "")] /\
  firstn 3 (rev (mem_map_run cfP w_core)) =
    [MState [("k1", 1%N, "again", 0%Z)] 1 "N20"; MUpd 1 "N20" false "" None; MStream [] 0 "N20"] /\
  nth 20 (mem_map_run cfP w_core) MErr =
    MStream [(1%N, "k1", "d1", false); (2%N, "", "d2", false); (3%N, "k2", "d3", false); (4%N, "k1", "d4", false);
             (5%N, "k2", "d3", false); (6%N, "k1", "", true)] 6 "N0".
Proof. vm_compute. repeat split; try reflexivity; discriminate. Qed.

(* the idempotency part of the domain (ai = true) is inhabited as well *)
Definition w_idem : list mop :=
  [MPublish "a" "k1" (poi "d1" "i1") "N0" 1000; MPublish "a" "k1" (poi "d2" "i1") "N1" 1000;
   MPublish "a" "k2" (mkMP "i2" 5000 "d3" false 0 "" 0 "" false None) "N2" 1000;
   MPublish "a" "" (poi "d4" "i3") "N3" 1000; MPublish "a" "" (poi "d5" "i3") "N4" 1000;
   MPublish "a" "k1" (mkMP "i4" 0 "d6" false 0 "" 0 "if_new" false None) "N5" 1000;
   MPublish "a" "k1" (mkMP "i4" 0 "d7" false 0 "" 0 "" false None) "N6" 1000;
   MPublish "b" "k1" (poi "e1" "i1") "N7" 1000; MPublish "a" "k2" (mkMP "i2" 0 "d8" false 0 "" 0 "" false None) "N8" 1000;
   MRemove "a" "k2" (mkMR "r1" 0 None) "N81" 1000; MRemove "a" "k2" (mkMR "r1" 0 None) "N82" 1000;
   MRemove "a" "nokey" (mkMR "r2" 0 None) "N83" 1000; MRemove "a" "k1" (mkMR "r2" 7000 (Some (4%N, "N0"))) "N84" 1000;
   rd_state "a" "N9"; rd_stream "a" "N10"].
Example C23_idem_domain_example :
  keys_okb (chans w_idem) = true /\ res_okb (idems w_idem) = true /\ run_ok cfP true mm_init w_idem = true /\
  redis_map_run cfP w_idem = rm_run map_shallow cfP rinit w_idem /\
  map (fun r => match r with MUpd o _ s rs _ => (o, s, rs) | _ => (0%N, false, "?") end) (firstn 9 (mem_map_run cfP w_idem)) =
    [(1%N, false, ""); (1%N, true, "idempotency"); (2%N, false, ""); (3%N, false, ""); (3%N, true, "idempotency");
     (3%N, true, "key_exists"); (4%N, false, ""); (1%N, false, ""); (2%N, true, "idempotency")] /\
  map (fun r => match r with MUpd o _ s rs _ => (o, s, rs) | _ => (0%N, false, "?") end) (firstn 4 (skipn 9 (mem_map_run cfP w_idem))) =
    [(5%N, false, ""); (5%N, true, "idempotency"); (5%N, true, "key_not_found"); (6%N, false, "")].
Proof. vm_compute. repeat split; reflexivity. Qed.
