(* C23 Redis and Memory map brokers agree.  Property theorems only; proofs in Proofs/C23*.v.

   Models: Model/RedisMapBroker.v (Go glue of map_broker_redis.go) over the INTERPRETED ASTs of
   the real map_broker_*.lua scripts (Gen/LuaMapScripts.v via Model/Lua.v) over Model/Redis.v;
   Model/MemMap23.v (map_broker_memory.go).  Redis' and Lua's semantics are MODELLED (trusted).

   FULL STATEMENT (property text): forall cfg ops, redis_map_run cfg ops = mem_map_run cfg ops
   (same suppression outcomes, stream offsets, state contents -- compared in key order, i.e. up to
   unordered page boundaries -- and stream contents; epochs up to renaming: both models take the
   epoch to create from the operation).  It is FALSE on the faithful models: the _refuted theorems
   below give one witness per disagreement family; all are reproduced on the real code.  The
   agreement theorem for the domain they carve out is C23_agree_*_partial (added stage by stage). *)
From Coq Require Import List NArith ZArith Bool String.
From Cfg Require Import Model.Redis Model.MapApi23 Model.RedisMapBroker Model.MemMap23 Model.RedisMapServer
                        Proofs.C23Witness.
Import ListNotations.
Open Scope string_scope.

Theorem C23_agree_refuted : exists cfg ops, redis_map_run cfg ops <> mem_map_run cfg ops.
Proof. exists cfP, w_remove_missing. exact remove_missing_differs. Qed.
Print Assumptions C23_agree_refuted.

Theorem C23_remove_missing_channel_refuted : exists ops, redis_map_run cfP ops <> mem_map_run cfP ops.
Proof. exists w_remove_missing. exact remove_missing_differs. Qed.
Theorem C23_reverse_since_one_refuted : exists ops, redis_map_run cfP ops <> mem_map_run cfP ops.
Proof. exists w_reverse_since_one. exact reverse_since_one_differs. Qed.
Theorem C23_reverse_since_beyond_top_refuted : exists ops, redis_map_run cfP ops <> mem_map_run cfP ops.
Proof. exists w_reverse_beyond. exact reverse_beyond_differs. Qed.
Theorem C23_stream_approx_trim_refuted : exists cfg ops, redis_map_run cfg ops <> mem_map_run cfg ops.
Proof. exists cfP2, w_approx_trim. exact approx_trim_differs. Qed.
Theorem C23_single_key_missing_channel_refuted : exists ops, redis_map_run cfP ops <> mem_map_run cfP ops.
Proof. exists w_single_key_missing. exact single_key_missing_differs. Qed.
Theorem C23_stream_missing_channel_since_epoch_refuted : exists ops, redis_map_run cfP ops <> mem_map_run cfP ops.
Proof. exists w_stream_missing_since. exact stream_missing_since_differs. Qed.
Theorem C23_state_missing_channel_empty_revision_refuted : exists ops, redis_map_run cfP ops <> mem_map_run cfP ops.
Proof. exists w_state_missing_rev. exact state_missing_rev_differs. Qed.
Theorem C23_key_collision_refuted : exists ops, redis_map_run cfP ops <> mem_map_run cfP ops.
Proof. exists w_key_collision. exact key_collision_differs. Qed.
Theorem C23_version_2p53_refuted : exists ops, redis_map_run cfP ops <> mem_map_run cfP ops.
Proof. exists w_version_2p53. exact version_2p53_differs. Qed.
(* after Clear, ReadStream re-creates the channel with the SAME epoch (the node id) on Redis *)
Theorem C23_clear_epoch_reuse_refuted :
  exists ops, nth 0 (redis_map_run cfP ops) MErr = nth 2 (redis_map_run cfP ops) MErr /\
              nth 0 (mem_map_run cfP ops) MErr <> nth 2 (mem_map_run cfP ops) MErr.
Proof. exists w_clear_reuse. split; [exact clear_reuse_redis_same_epoch | exact clear_reuse_memory_fresh_epoch]. Qed.

(* agreement on a 27-operation sequence exercising publish (key modes, CAS, idempotency, versions),
   remove, ReadState (all / paged / position only / single key), ReadStream (since, limit, reverse) *)
Example C23_agree_example : redis_map_run cfP w_agree = mem_map_run cfP w_agree.
Proof. exact agree_example. Qed.
