(* C28 Unsubscribe with an empty channel removes all subscriptions.
   Property theorems only; proofs live in Proofs/UnsubAll.v.  The model is the code
   AFTER fixes/C28-empty-channel-unsubscribe.patch; the code before it is refuted. *)
From Coq Require Import List NArith Bool Permutation.
From Cfg Require Import Model.UnsubAll Model.UnsubAllSpec Proofs.UnsubAll Harness.C28.
Import ListNotations.
Open Scope N_scope.

(* For ALL well-formed node states (any connections with any sets of established
   subscriptions and of subscribe attempts still in flight, answered either way),
   ALL targeting options (user / client / session / label filter / all-users), any
   unsubscribe code and ANY interleaving of the per-connection goroutines (any
   permutation of the effect log): every matching connection ends with no channels
   and no hub routing (attempts in flight included), each usual per-channel effect
   (callback, push, leave if join/leave is on, presence removal if presence is on)
   happened exactly once per subscription, a cancelled attempt gets at most its push,
   other connections keep everything, and nothing else happened. *)
Theorem C28_unsubscribe_all :
  forall t code s evs,
    wf s ->
    Permutation (snd (node_unsubscribe t 0 code s)) evs ->
    UnsubAllSpec t code s (map observe (fst (node_unsubscribe t 0 code s))) evs.
Proof. exact node_unsubscribe_meets_spec. Qed.
Print Assumptions C28_unsubscribe_all.

(* The same over a cluster: the call on one node acts on the connections of every node
   (control message path runs the same hub call). *)
Theorem C28_unsubscribe_all_cluster :
  forall t code nodes evs,
    wf (concat nodes) ->
    Permutation (snd (cluster_unsubscribe t 0 code nodes)) evs ->
    UnsubAllSpec t code (concat nodes)
      (map observe (concat (fst (cluster_unsubscribe t 0 code nodes)))) evs.
Proof. exact cluster_unsubscribe_meets_spec. Qed.
Print Assumptions C28_unsubscribe_all_cluster.

(* The code before the fix (hub calls Client.Unsubscribe("") directly) violates it:
   one connection with one subscription keeps its subscription. *)
Theorem C28_prefix_code_refuted :
  exists t code s, wf s /\
    ~ UnsubAllSpec t code s (map observe (fst (node_unsubscribe_prefix t 0 code s)))
                            (snd (node_unsubscribe_prefix t 0 code s)).
Proof. exact prefix_refuted. Qed.
Print Assumptions C28_prefix_code_refuted.

(* So does a variant that snapshots only the established subscriptions (Client.Channels())
   instead of all keys of Client.channels: an attempt in flight survives. *)
Theorem C28_established_only_refuted :
  exists t code s, wf s /\
    ~ UnsubAllSpec t code s
        (map observe (fst (node_unsub unsubscribe_connection_established t 0 code s)))
        (snd (node_unsub unsubscribe_connection_established t 0 code s)).
Proof. exact established_only_refuted. Qed.
Print Assumptions C28_established_only_refuted.

(* The oracle evaluated on implementation behaviour decides the specification. *)
Theorem C28_oracle_sound :
  forall t code s o evs, unsub_all_spec_b t code s o evs = true -> UnsubAllSpec t code s o evs.
Proof. exact spec_b_sound. Qed.
Print Assumptions C28_oracle_sound.

Theorem C28_oracle_complete :
  forall t code s o evs, UnsubAllSpec t code s o evs -> unsub_all_spec_b t code s o evs = true.
Proof. exact spec_b_complete. Qed.
Print Assumptions C28_oracle_complete.

(* Non-vacuity: a well-formed state with a matching connection (two subscriptions, one
   with presence + join/leave, plus one attempt in flight that succeeds and one that is
   rejected), a non-matching one and the resulting effects. *)
Definition ex_state : list conn :=
  [mkConn 1 1 0 true false [mkChan 1 false false false; mkChan 2 true true true]
          [(mkChan 3 false false true, true); (mkChan 4 false false false, false)];
   mkConn 2 2 0 true false [mkChan 1 false false false] [(mkChan 2 false false false, true)]].
Example C28_ex_wf : wf_b ex_state = true.
Proof. vm_compute. reflexivity. Qed.
Example C28_ex_run :
  node_unsubscribe (mkTarget 1 0 0 false false) 0 2000 ex_state
  = ([mkConn 1 1 0 true false [] [];
      mkConn 2 2 0 true false [mkChan 1 false false false; mkChan 2 false false false] []],
     [EvCallback 1 1 false 2000; EvPush 1 1 2000;
      EvPresenceRemove 1 2; EvLeave 1 2; EvCallback 1 2 true 2000; EvPush 1 2 2000;
      EvLeave 1 3; EvCallback 1 3 false 2000; EvPush 1 3 2000;
      EvPush 1 4 2000]).
Proof. vm_compute. reflexivity. Qed.
Example C28_ex_oracle_accepts :
  unsub_all_spec_b (mkTarget 1 0 0 false false) 2000 ex_state
    (map observe (fst (node_unsubscribe (mkTarget 1 0 0 false false) 0 2000 ex_state)))
    (snd (node_unsubscribe (mkTarget 1 0 0 false false) 0 2000 ex_state)) = true.
Proof. vm_compute. reflexivity. Qed.
Example C28_ex_oracle_rejects_prefix :
  unsub_all_spec_b (mkTarget 1 0 0 false false) 2000 ex_state
    (map observe (fst (node_unsubscribe_prefix (mkTarget 1 0 0 false false) 0 2000 ex_state)))
    (snd (node_unsubscribe_prefix (mkTarget 1 0 0 false false) 0 2000 ex_state)) = false.
Proof. vm_compute. reflexivity. Qed.
Example C28_ex_oracle_rejects_established_only :
  unsub_all_spec_b (mkTarget 1 0 0 false false) 2000 ex_state
    (map observe (fst (node_unsub unsubscribe_connection_established (mkTarget 1 0 0 false false) 0 2000 ex_state)))
    (snd (node_unsub unsubscribe_connection_established (mkTarget 1 0 0 false false) 0 2000 ex_state)) = false.
Proof. vm_compute. reflexivity. Qed.
