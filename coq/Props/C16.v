(* C16 Tags filters are enforced on every delivery path.
   Property theorems only; proofs live in Proofs/TagsPaths.v, Proofs/TagsPathsSites.v.

   [visible V id] = the publication [id] is admitted by the server tags filter
   (when one is set) AND by the client tags filter (when one is set); the
   verdict tables of V are those of the real filter.Match (C15 owns its
   semantics).  All statements are for non-delta subscriptions ([delta=false]
   where the path has the flag; the subscribe/map paths modelled here are the
   non-delta ones). *)
From Coq Require Import List NArith Bool String.
From Cfg Require Import Model.Merge Model.TagsPaths Proofs.TagsPaths Gen.DeliveryPaths
     Harness.C16 Proofs.TagsPathsSites.
Import ListNotations.
Open Scope N_scope.

(* what "visible" means: both filters apply *)
Theorem C16_both_apply : forall V id,
  visible V id = true <->
  (v_stf V = true -> memN id (v_s V) = true) /\ (v_ctf V = true -> memN id (v_c V) = true).
Proof. exact visible_meaning. Qed.
Print Assumptions C16_both_apply.

(* 1. live broadcast (offset-less, unpositioned and positioned branches of
      writePublication), for every position and publication *)
Theorem C16_path_live : forall V positioned cur pb cur' id,
  live_write V positioned false cur pb = (cur', WDeliver id) ->
  id = p_id pb /\ visible V id = true.
Proof. exact live_write_visible. Qed.
Print Assumptions C16_path_live.

(* 2. stream recovery: history result + publications broadcast during the
      subscribe window (buffered), merged; for all histories and windows *)
Theorem C16_path_stream_recovery : forall V hist top cmd epoch_ok live recovered pubs,
  stream_recovery V hist top cmd epoch_ok live = SReply recovered pubs ->
  forall p, In p pubs -> visible V (p_id p) = true.
Proof. exact stream_recovery_visible. Qed.
Print Assumptions C16_path_stream_recovery.

(* 3. cache recovery scan + buffered *)
Theorem C16_path_cache_recovery : forall V hist_rev top cmd epoch_eq req_delta live recovered pubs,
  cache_recovery V hist_rev top cmd epoch_eq req_delta live = SReply recovered pubs ->
  forall p, In p pubs -> visible V (p_id p) = true.
Proof. exact cache_recovery_visible. Qed.
Print Assumptions C16_path_cache_recovery.

(* 4. map state pages *)
Theorem C16_path_map_state : forall V rev pubs p,
  In p (map_state_page V rev pubs) -> visible V (p_id p) = true.
Proof. exact map_state_page_visible. Qed.
Print Assumptions C16_path_map_state.

(* 5. map stream pages *)
Theorem C16_path_map_stream : forall V pubs p,
  In p (map_stream_page V pubs) -> visible V (p_id p) = true.
Proof. exact map_stream_page_visible. Qed.
Print Assumptions C16_path_map_stream.

(* 6. map live transition (positioned: stream read merged with buffered) *)
Theorem C16_path_map_live : forall V limit stream live pubs,
  map_live_positioned V limit stream live = MReply pubs ->
  forall p, In p pubs -> visible V (p_id p) = true.
Proof. exact map_live_positioned_visible. Qed.
Print Assumptions C16_path_map_live.

(* 7. streamless buffered publications *)
Theorem C16_path_map_streamless : forall V live p,
  In p (map_live_streamless V live) -> visible V (p_id p) = true.
Proof. exact map_live_streamless_visible. Qed.
Print Assumptions C16_path_map_streamless.

(* the page filters drop nothing that is visible (no over-filtering) *)
Theorem C16_page_filters_complete : forall V l p,
  In p l -> visible V (p_id p) = true -> In p (map_stream_page V l).
Proof. exact keep_complete. Qed.
Print Assumptions C16_page_filters_complete.

(* Changing the server tags filter of a map subscription invalidates it:
   a refresh carrying a filter whose hash differs from the installed one (or
   when none was installed) unsubscribes a map subscription -- and only then. *)
Theorem C16_invalidate : forall had same_hash,
  (had = false \/ same_hash = false) ->
  sub_refresh_invalidates true true had same_hash = true.
Proof. exact invalidate_changed_map. Qed.
Print Assumptions C16_invalidate.

Theorem C16_invalidate_only_if : forall is_map newf had same_hash,
  sub_refresh_invalidates is_map newf had same_hash = true ->
  is_map = true /\ newf = true /\ (had = false \/ same_hash = false).
Proof. exact invalidate_only_if. Qed.
Print Assumptions C16_invalidate_only_if.

(* The inventory regenerated from the sources on every run: every client-facing
   producer of publications found in the root package is classified, and the
   statement of its path holds (out-of-scope classes, with reasons in
   Model/TagsPaths.v, are [True]); every in-scope path has a producer. *)
Theorem C16_every_site_sound : forall s, In s sites -> path_sound (site_path s).
Proof. exact sites_sound. Qed.
Print Assumptions C16_every_site_sound.

Theorem C16_every_path_has_site : forall p, in_scope p = true ->
  exists s, In s sites /\ site_path s = p.
Proof. exact sites_cover_scope. Qed.
Print Assumptions C16_every_path_has_site.

(* the oracle evaluated on the implementation's deliveries means the property *)
Theorem C16_oracle_sound : forall V l,
  all_visible_b V l = true -> forall id, In id l -> visible V id = true.
Proof. exact all_visible_b_sound. Qed.
Print Assumptions C16_oracle_sound.

(* ---- non-vacuity *)
Definition exV := mkV true true [1; 2; 0] [2; 3].
(* id 2 passes both; 1 only the server filter; 3 only the client filter *)
Example C16_ex_live_deliver :
  live_write exV true false 4 (mkPub 5 false 2) = (5, WDeliver 2).
Proof. vm_compute. reflexivity. Qed.
Example C16_ex_live_skip_advances :
  live_write exV true false 4 (mkPub 5 false 1) = (5, WSkip).
Proof. vm_compute. reflexivity. Qed.
(* the "without delta" restriction is exact: a delta subscription does receive it *)
Example C16_ex_live_delta_leaks :
  live_write exV true true 4 (mkPub 5 false 1) = (5, WDeliver 1).
Proof. vm_compute. reflexivity. Qed.
Example C16_ex_stream_recovery :
  stream_recovery exV [mkPub 3 false 2; mkPub 4 false 1] 4 2 true [mkPub 5 false 3; mkPub 6 false 2]
  = SReply true [mkPub 3 false 2; mkPub 6 false 2].
Proof. vm_compute. reflexivity. Qed.
Example C16_ex_cache_recovery :
  cache_recovery exV [mkPub 4 false 1; mkPub 3 false 2] 4 0 false false []
  = SReply true [mkPub 3 false 2].
Proof. vm_compute. reflexivity. Qed.
Example C16_ex_map_live :
  map_live_positioned exV 10 [mkPub 3 false 2; mkPub 4 false 3] [mkPub 5 false 1; mkPub 6 false 2]
  = MReply [mkPub 3 false 2; mkPub 6 false 2].
Proof. vm_compute. reflexivity. Qed.
Example C16_ex_invalidate : sub_refresh_invalidates true true true false = true.
Proof. reflexivity. Qed.
Example C16_ex_no_invalidate_stream : sub_refresh_invalidates false true true false = false.
Proof. reflexivity. Qed.
