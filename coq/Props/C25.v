(* C25 Shared-poll keyed delivery is monotonic and delta-consistent (PARTIAL).
   Property theorems only; proofs in Proofs/Keyed.v.

   Model: one connection of a versioned shared-poll channel (Model/Keyed.v): server
   entries, backend polls as request/response pairs, SharedPollPublish,
   prepared broadcasts "in flight" that reach the connection at any later time
   or never, track with the client's version (cached / warm delivery,
   needsBroadcast), untrack, removal, revocation, epoch flip; the locked part of
   keyedWritePublication is one atomic action whose unlocked first phase saw an
   arbitrary deltaReady.  A payload is identified by (key, version).
   [keep] = KeepLatestData.  [gx = true]: the backend's PrevData is only used as
   delta base when the version sent in the request is still the entry's version
   (proposed guard); [gx = false] is the code as found. *)
From Coq Require Import List Arith Bool.
From Cfg Require Import Model.Keyed Proofs.Keyed.
Import ListNotations.

(* versions strictly increase: whatever reaches the connection and in whatever
   order, a pushed update is newer than the connection's version for the key,
   which then becomes the pushed version *)
Theorem C25_monotone : forall keep gx s i dp1 s' ps k v,
  step keep gx s (ADeliver i dp1) = (s', ps) ->
  (In (PFull k v) ps \/ exists base, In (PDelta k v base) ps) ->
  (exists ks, s_conn s k = Some ks /\ ks_ver ks < v) /\ s_conn s' k = Some (mkKs v true).
Proof. exact deliver_push_monotone. Qed.
Print Assumptions C25_monotone.

(* a track reply only carries a payload newer than the version the client sent *)
Theorem C25_track_reply_newer : forall keep gx s k fresh s' ps k' v,
  step keep gx s (ATrack k fresh) = (s', ps) -> In (PFull k' v) ps ->
  k' = k /\ (if fresh then 0 else match s_held s k with Some h => h | None => 0 end) < v /\
  s_conn s' k = Some (mkKs v true) /\ s_held s' k = Some v.
Proof. exact track_push_newer. Qed.
Print Assumptions C25_track_reply_newer.

(* (re-)track with a version the client obtained elsewhere - ahead of, equal to or behind what this
   node delivered: the reply only carries a newer payload, and unless the reply itself carried the
   payload the key is NOT delta-ready afterwards (the next update is sent in full: the node never
   delivered the payload of the claimed version to this client) *)
Theorem C25_retrack_reply_newer : forall keep gx s k cv s' ps k' v,
  step keep gx s (ATrackV k cv) = (s', ps) -> In (PFull k' v) ps ->
  k' = k /\ cv < v /\ s_conn s' k = Some (mkKs v true) /\ s_held s' k = Some v.
Proof. exact trackv_push_newer. Qed.
Print Assumptions C25_retrack_reply_newer.

Theorem C25_retrack_not_delta_ready : forall keep gx s k cv s' ps ks,
  step keep gx s (ATrackV k cv) = (s', ps) -> s_sub s = true -> s_conn s' k = Some ks ->
  (ps = [] /\ ks = mkKs cv false /\ s_held s' k = s_held s k) \/
  (exists v, ps = [PFull k v] /\ cv < v /\ ks = mkKs v true /\ s_held s' k = Some v).
Proof. exact trackv_not_ready. Qed.
Print Assumptions C25_retrack_not_delta_ready.

(* key updates are only pushed by a delivery or inside a track reply *)
Theorem C25_push_sources : forall keep gx s a s' ps k v,
  step keep gx s a = (s', ps) -> (In (PFull k v) ps \/ exists base, In (PDelta k v base) ps) ->
  (exists i dp1, a = ADeliver i dp1) \/ (exists fresh, a = ATrack k fresh) \/ (exists cv, a = ATrackV k cv).
Proof. exact push_sources. Qed.
Print Assumptions C25_push_sources.

(* no push after untrack / revocation / removal / end of subscription: these
   actions leave the key untracked, and an untracked key receives nothing from
   any in-flight broadcast (until it is tracked again) *)
Theorem C25_ends_tracking : forall keep gx s a s' ps k,
  step keep gx s a = (s', ps) ->
  (exists o, a = AUntrack k o) \/ (exists o, a = ARevoke k o) \/ a = APollRemoved k \/ a = AEpochFlip ->
  s_conn s' k = None \/ (s_conn s' k = s_conn s k /\ ps = []).
Proof. exact untracked_after. Qed.
Print Assumptions C25_ends_tracking.

Theorem C25_no_push_untracked : forall keep gx s i dp1 s' ps k,
  s_conn s k = None -> step keep gx s (ADeliver i dp1) = (s', ps) ->
  (forall v, ~ In (PFull k v) ps) /\ (forall v base, ~ In (PDelta k v base) ps) /\ s_conn s' k = None.
Proof. exact no_push_untracked. Qed.
Print Assumptions C25_no_push_untracked.

(* delta base consistency, for ALL schedules: with KeepLatestData, or with the
   guard on backend PrevData, every delta pushed along any schedule applies to
   the payload the client holds at that moment *)
Theorem C25_delta_base : forall keep gx l,
  gx = true \/ keep = true ->
  forall pre a post, l = pre ++ a :: post ->
  forall s1 pss1 s2 ps k v base,
    run keep gx init pre = (s1, pss1) -> step keep gx s1 a = (s2, ps) ->
    In (PDelta k v base) ps -> s_held s1 k = Some base.
Proof.
  intros keep gx l Hsv pre a post Hl s1 pss1 s2 ps k v base Hr Hs Hin.
  exact (run_deltas_apply keep gx l init Hsv (inv_init) pre a post Hl s1 pss1 s2 ps k v base Hr Hs Hin).
Qed.
Print Assumptions C25_delta_base.

(* code as found, KeepLatestData off, backend supplies PrevData: REFUTED - a
   SharedPollPublish landing while the backend call is in flight makes the
   response's patch (computed against the requested version) be labelled with
   the newer version; the client at that newer version is sent a delta it cannot apply *)
Theorem C25_delta_base_asfound_refuted :
  let '(s, pss) := run false false init w_prevdata_race in
  last pss [] = [PDelta 0 7 5] /\ s_held s 0 = None.
Proof. exact refute_prevdata_race. Qed.
Print Assumptions C25_delta_base_asfound_refuted.

(* bounded liveness for a late joiner (the request side of the poller): a warm key flagged for a
   connection that is behind and not delta-ready is requested with version 0, and ONE poll cycle with a
   responsive backend (version at least the entry's) delivers the full payload: the connection then
   holds the backend's version and the flag is cleared.  (The model does not distinguish timer-driven
   from notified polls: both build their request from the entry this way.) *)
Theorem C25_late_joiner_served : forall keep gx s k e ks bv prev dp1,
  s_ent s k = Some e -> e_nb e = true -> 0 < e_ver e -> e_ver e <= bv ->
  s_conn s k = Some ks -> ks_ver ks < e_ver e -> ks_ready ks = false ->
  s_polls s = [] -> s_bc s = [] ->
  forall s1 p1 s2 p2 s3 p3,
  step keep gx s (APollReq k) = (s1, p1) -> step keep gx s1 (APollResp 0 bv prev) = (s2, p2) ->
  step keep gx s2 (ADeliver 0 dp1) = (s3, p3) ->
  s_polls s1 = [(k, 0)] /\ p3 = [PFull k bv] /\ s_held s3 k = Some bv /\ s_conn s3 k = Some (mkKs bv true) /\
  (exists e', s_ent s3 k = Some e' /\ e_nb e' = false /\ e_ver e' = bv).
Proof. exact late_joiner_served. Qed.
Print Assumptions C25_late_joiner_served.

(* a publisher epoch change ends the subscription of a connection that tracks at least one key
   (the connections found in the keyed hub) with insufficient state, and resets every entry *)
Theorem C25_epoch_flip : forall keep gx s s' ps k0,
  KeysInv s -> s_conn s k0 <> None ->
  step keep gx s AEpochFlip = (s', ps) ->
  s_sub s' = false /\ (forall k, s_conn s' k = None) /\ ps = [PUnsub] /\
  (forall k e, s_ent s' k = Some e -> e_ver e = 0 /\ e_data e = false).
Proof. exact epoch_flip_unsubscribes. Qed.
Print Assumptions C25_epoch_flip.

(* ... where the hub membership invariant holds along every schedule *)
Theorem C25_hub_membership : forall keep gx s a s' ps,
  KeysInv s -> step keep gx s a = (s', ps) -> KeysInv s'.
Proof. exact step_keys. Qed.
Print Assumptions C25_hub_membership.

(* non-vacuity: with the guard the refuting schedule ends with a full payload *)
Example C25_fixed_prevdata_race :
  let '(s, pss) := run false true init w_prevdata_race in
  last pss [] = [PFull 0 7] /\ s_held s 0 = Some 7.
Proof. exact fixed_prevdata_race. Qed.
Example C25_delta_happens :
  snd (run true false init [ASubscribe; ATrack 0 true; APollReq 0; APollResp 0 3 false; ADeliver 0 true;
                            APublish 0 4; ADeliver 0 true])
  = [[]; []; []; []; [PFull 0 3]; []; [PDelta 0 4 3]].
Proof. vm_compute. reflexivity. Qed.
