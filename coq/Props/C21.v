(* C21 Map state pagination enumerates every key exactly once (memory broker).
   Property theorems only; proofs live in Proofs/MapPaging.v. *)
From Coq Require Import List NArith ZArith Bool Sorting.Sorted Permutation.
From Cfg Require Import Model.MapHub Model.MapPaging Proofs.MapRefine Proofs.MapPaging.
Import ListNotations.
Open Scope N_scope.

(* For ALL channel states (distinct non-empty keys, int64 scores: ties and
   the extremes included, keys that are prefixes of each other or contain NUL
   bytes), both channel kinds, both directions and ALL page sizes lim > 0:
   paginating from the empty cursor with the returned cursors terminates
   (the fuel |state|+1 is never exhausted), the concatenated pages are the
   entries in the order of the sorted key list, every non-final page has
   exactly lim entries, no page is empty unless the state is (progress), and
   there are ceil(n/lim) pages. *)
Theorem C21_pages :
  forall ordered asc st p lim,
    state_ok st -> (0 < lim)%nat ->
    exists pages,
      pages_of ordered st p (Z.of_nat lim) asc = Some pages /\
      concat pages = pubs_of st (sorted_keys ordered asc st) /\
      (forall pg, In pg (removelast pages) -> length pg = lim) /\
      (st <> [] -> forall pg, In pg pages -> pg <> []) /\
      length pages = (if Nat.eqb (length st) 0 then 1 else (length st + lim - 1) / lim)%nat.
Proof. exact pages_spec. Qed.
Print Assumptions C21_pages.

(* ... and that order is the channel's sort order of the property text
   (unordered: keys bytewise; ordered: (score, key) ascending or descending),
   each key exactly once. *)
Theorem C21_every_key_once_in_order :
  forall ordered asc st p lim pages,
    state_ok st -> keys_match st -> (0 < lim)%nat ->
    pages_of ordered st p (Z.of_nat lim) asc = Some pages ->
    is_sorted_state ordered asc st (map p_key (concat pages)) /\ NoDup (map p_key (concat pages)).
Proof. exact pages_keys_once. Qed.
Print Assumptions C21_every_key_once_in_order.

Theorem C21_sorted_keys_is_the_sort_order :
  forall ordered asc st, NoDup (map fst st) -> is_sorted_state ordered asc st (sorted_keys ordered asc st).
Proof. exact sorted_keys_spec. Qed.
Print Assumptions C21_sorted_keys_is_the_sort_order.

(* Limit = -1 (any negative limit): everything in one page. *)
Theorem C21_no_limit_single_page :
  forall ordered asc st p limit, (limit < 0)%Z ->
    pages_of ordered st p limit asc = Some [pubs_of st (sorted_keys ordered asc st)].
Proof. exact pages_all. Qed.
Print Assumptions C21_no_limit_single_page.

(* The ordered cursor survives its decimal encoding: scores round-trip
   through FormatInt / ParseInt over the whole int64 range and the key is
   recovered even if it contains NUL bytes. *)
Theorem C21_cursor_roundtrip :
  forall z k, int64 z ->
    parse_ordered_cursor (make_ordered_cursor z k) = (format_int z, k) /\ parse_int (format_int z) = z.
Proof. intros. split; [apply parse_make_cursor | apply parse_format_int; assumption]. Qed.
Print Assumptions C21_cursor_roundtrip.

(* Reads go through the sortedKeys cache: with a valid cache a page read is
   [state_page] over the freshly sorted keys and leaves the cache valid and
   the state untouched, so successive page reads of an unchanged state follow
   [pages_of]. *)
Theorem C21_cache_transparent :
  forall c cursor limit asc,
    cache_ok c -> limit <> 0%Z ->
    get_state_chan c None cursor limit [] asc =
      (refresh_cache c asc,
       state_page (c_ordered c) (c_state c) (sorted_keys (c_ordered c) asc (c_state c)) (chan_pos c) cursor limit asc) /\
    cache_ok (refresh_cache c asc) /\
    c_state (refresh_cache c asc) = c_state c /\ c_ordered (refresh_cache c asc) = c_ordered c /\
    c_stream (refresh_cache c asc) = c_stream c.
Proof. exact cached_read_is_page. Qed.
Print Assumptions C21_cache_transparent.

(* Single-key read: exactly the stored entry, or nothing. *)
Theorem C21_single :
  forall c cursor limit k asc, k <> [] ->
    get_state_chan c None cursor limit k asc =
    (c, StOk (match aget key_eqb (c_state c) k with Some e => [e_pub e] | None => [] end) (chan_pos c) []).
Proof. exact single_key_read. Qed.
Print Assumptions C21_single.

(* ---- non-vacuity ---- *)
Definition ex_e (k : key) (s : Z) (d : N) : key * entry := (k, mkEntry (mkPub k 1 d None false s) 0 0 0).
Definition ex_st : list (key * entry) :=
  [ex_e [97] 5 1; ex_e [97; 0] 5 2; ex_e [97; 98] (-9223372036854775808) 3; ex_e [0] 9223372036854775807 4; ex_e [98] 5 5].

Example C21_ex_state_ok : state_ok ex_st /\ keys_match ex_st.
Proof.
  split; [split; [|split]|].
  - simpl. repeat constructor; simpl; intuition discriminate.
  - simpl. intros k H. intuition (subst; discriminate).
  - unfold ex_st, ex_e. intros k e H. simpl in H. unfold int64.
    repeat (destruct H as [H|H]; [inversion H; subst; simpl; split; discriminate|]). contradiction.
  - unfold ex_st, ex_e. intros k e H. simpl in H.
    repeat (destruct H as [H|H]; [inversion H; subst; reflexivity|]). contradiction.
Qed.

Example C21_ex_desc_pages :
  option_map (map (map p_data)) (pages_of true ex_st (0, 1) 2 false) = Some [[4; 5]; [2; 1]; [3]].
Proof. vm_compute. reflexivity. Qed.
Example C21_ex_asc_pages :
  option_map (map (map p_data)) (pages_of true ex_st (0, 1) 2 true) = Some [[3; 1]; [2; 5]; [4]].
Proof. vm_compute. reflexivity. Qed.
Example C21_ex_unordered_pages :
  option_map (map (map p_data)) (pages_of false ex_st (0, 1) 4 true) = Some [[4; 1; 2; 3]; [5]].
Proof. vm_compute. reflexivity. Qed.
