(* C14 Delta-encoded publications reconstruct the published data.
   Property theorems only; proofs in Proofs/Delta.v, Proofs/DeltaRefute.v, Proofs/DeltaOracle.v.

   All theorems are parametric in the byte-string type and in the libraries
   (create/apply = fossil-delta, esc/unesc = JSON string escaping), assuming only
   their round-trip contracts, and hold for JSON and Protobuf subscribers alike
   ([json] is universally quantified).  [good e] : the reference client, applying
   the delivered push to what it holds, obtains exactly the published payload.

   STATUS: three violations were reproduced on the implementation by the driver.
   [fx = true] models the guard in subscribeCmd (delta allowed after recovery
   only when the reply ends with the publication at the subscription's start
   position, repo commit 02db755e); with it the positioned-stream theorem holds
   for every schedule; [fx = false] is the code before that commit (two
   refutations).  The map refutation (delta + tags filter) is still open
   (KNOWN_FINDINGS: map-delta-with-tags-filter). *)
From Coq Require Import List NArith Bool Arith.
From Cfg Require Import Model.Delta Proofs.Delta Proofs.DeltaRefute Harness.C14 Proofs.DeltaOracle.
From Cfg Require Model.MapSub Proofs.MapSubLib Proofs.MapSubInv Proofs.DeltaMapSub.
Import ListNotations.

Section Statements.
  Variable bytes : Type.
  Variable blen : bytes -> nat.
  Variable create : bytes -> bytes -> bytes.
  Variable apply : bytes -> bytes -> option bytes.
  Variable esc unesc : bytes -> bytes.
  Variable json : bool.
  Definition Contracts : Prop :=
    (forall b t, apply b (create b t) = Some t) /\ (forall x, unesc (esc x) = x).

  Definition Good (e : event bytes) : Prop :=
    event_result bytes apply unesc json e = Some (e_expect bytes e).
  Definition MGood (e : mevent bytes) : Prop :=
    mevent_result bytes apply unesc json e = Some (me_expect bytes e).
End Statements.

(* a delta (or its full-payload fallback) computed against the payload the
   client holds is reconstructed; a full payload is reconstructed whatever the
   client holds *)
Theorem C14_delta_same_base :
  forall bytes blen create apply esc unesc json, Contracts bytes create apply esc unesc ->
  forall b t, client_step bytes apply unesc json (Some b) (get_delta_pub bytes blen create esc json (Some b) t) = Some t.
Proof. intros ? ? ? ? ? ? ? [A B]. exact (step_delta_same_base _ _ _ _ _ _ _ A B). Qed.
Print Assumptions C14_delta_same_base.

Theorem C14_full_when_no_base :
  forall bytes blen create apply esc unesc json, Contracts bytes create apply esc unesc ->
  forall h t, client_step bytes apply unesc json h (get_delta_pub bytes blen create esc json None t) = Some t.
Proof. intros ? ? ? ? ? ? ? [A B]. exact (step_delta_no_base _ _ _ _ _ _ _ B). Qed.
Print Assumptions C14_full_when_no_base.

(* recovered publications of a stream subscription (makeRecoveredPubsDeltaFossil):
   for ALL payload lists and whatever the client held before *)
Theorem C14_recovered_chain :
  forall bytes blen create apply esc unesc json, Contracts bytes create apply esc unesc ->
  forall l h hf ev,
    client_feed bytes apply unesc json h (combine (make_recovered bytes blen create esc json l) l) = (hf, ev) ->
    Forall (Good bytes apply unesc json) ev /\ hf = match l with [] => h | d :: t => Some (last t d) end.
Proof. intros ? ? ? ? ? ? ? [A B]. exact (recovered_good _ _ _ _ _ _ _ A B). Qed.
Print Assumptions C14_recovered_chain.

(* recovered publications of a map subscription (per key, removals reset the
   base), for ALL key interleavings *)
Theorem C14_recovered_map_chain :
  forall bytes blen create apply esc unesc json, Contracts bytes create apply esc unesc ->
  forall log held hf ev,
    mclient_feed bytes apply unesc json held
      (combine (make_recovered_map bytes blen create esc json (kempty bytes) log) (map (mdata bytes) log)) = (hf, ev) ->
    Forall (MGood bytes apply unesc json) ev /\ (forall k, hf k = replay bytes held log k).
Proof.
  intros ? ? ? ? ? ? ? [A B] log held hf ev.
  apply (recovered_map_good _ _ _ _ _ _ _ A B). intros k b E; discriminate.
Qed.
Print Assumptions C14_recovered_map_chain.

(* POSITIONED STREAM, with the guard: for ALL schedules of publishes (any
   payload, filtered or not, with or without UseDelta, delivered or lost),
   duplicated deliveries, unsubscribes and (re)subscribes with or without
   recovery, every delivered push (recovered or live) is reconstructed. *)
Theorem C14_stream_positioned_fixed :
  forall bytes blen create apply esc unesc json, Contracts bytes create apply esc unesc ->
  forall sched,
    Forall (Good bytes apply unesc json)
           (snd (p_run bytes blen create apply esc unesc json true (p_init bytes) sched)).
Proof.
  intros ? ? ? ? ? ? ? [A B] sched.
  apply (p_run_fixed _ _ _ _ _ _ _ A B). apply PInv_init.
Qed.
Print Assumptions C14_stream_positioned_fixed.

(* POSITIONED STREAM, code as found, PARTIAL: only schedules without filtered
   publications in which the client asks for recovery while holding the payload
   of its position (missing: everything the two refutations below show). *)
Theorem C14_stream_positioned_asfound_partial :
  forall bytes blen create apply esc unesc json, Contracts bytes create apply esc unesc ->
  forall sched,
    legal_run bytes blen create apply esc unesc json (p_init bytes) sched ->
    Forall (Good bytes apply unesc json)
           (snd (p_run bytes blen create apply esc unesc json false (p_init bytes) sched)).
Proof.
  intros ? ? ? ? ? ? ? [A B] sched L.
  apply (p_run_asfound _ _ _ _ _ _ _ A B); [apply PInv_init | constructor | exact L].
Qed.
Print Assumptions C14_stream_positioned_asfound_partial.

(* the full statement is FALSE for the code as found: *)
Theorem C14_stream_positioned_refuted_filtered_tail :
  Contracts rbytes rcreate rapply rid rid /\
  exists e, In e (snd (r_prun false (p_init _) w_filtered_tail)) /\ r_result e <> Some (e_expect _ e).
Proof. split; [split; [exact r_apply_create | exact r_unesc_esc] | exact refute_filtered_tail]. Qed.
Print Assumptions C14_stream_positioned_refuted_filtered_tail.

Theorem C14_stream_positioned_refuted_no_payload :
  Contracts rbytes rcreate rapply rid rid /\
  Forall (fun a => match a with PPub _ p _ => svis _ p = true | _ => True end) w_no_payload /\
  exists e, In e (snd (r_prun false (p_init _) w_no_payload)) /\ r_result e <> Some (e_expect _ e).
Proof. split; [split; [exact r_apply_create | exact r_unesc_esc] | exact refute_no_payload]. Qed.
Print Assumptions C14_stream_positioned_refuted_no_payload.

(* UNPOSITIONED / OFFSET-LESS STREAM (local delta against the channel medium's
   latest publication, or no medium): all schedules *)
Theorem C14_stream_unpositioned :
  forall bytes blen create apply esc unesc json, Contracts bytes create apply esc unesc ->
  forall keep sched,
    Forall (Good bytes apply unesc json)
           (snd (u_run bytes blen create apply esc unesc json (u_init bytes keep) sched)).
Proof.
  intros ? ? ? ? ? ? ? [A B] keep sched.
  apply (u_run_good _ _ _ _ _ _ _ A B). apply UInv_init.
Qed.
Print Assumptions C14_stream_unpositioned.

(* MAP subscription WITHOUT tags filters, snapshot model (state delivered as one
   snapshot): all schedules of publishes/removes on any keys (delivered or
   lost), full subscribes, recovery joins and drops.  Pagination and the
   buffered window of the live transition are covered by
   C14_map_live_delta_all_schedules below, over the protocol model of C22. *)
Theorem C14_map_unfiltered_partial :
  forall bytes blen create apply esc unesc json, Contracts bytes create apply esc unesc ->
  forall sched,
    Forall (MGood bytes apply unesc json)
           (snd (m_run bytes blen create apply esc unesc json false (m_init bytes) sched)).
Proof.
  intros ? ? ? ? ? ? ? [A B] sched.
  apply (m_run_good _ _ _ _ _ _ _ A B). apply MInv_init.
Qed.
Print Assumptions C14_map_unfiltered_partial.

(* MAP subscription, PAGINATED state + BUFFERED live transition (the protocol model of
   C22, Model/MapSub.v): for ALL schedules of publishes, removes, stream expiry, clears, lost
   PUB/SUB deliveries, client requests (state pages, stream pages, live transition / recovery join
   with arbitrary writer operations inside the three windows of a request), position checks and
   drops, all page sizes, stream sizes and transition limits: a live publication pushed to the
   client finds the client holding exactly the broker's previous entry of that key (value level) *)
Theorem C14_map_live_base_all_schedules :
  forall K vis tlimit size limit evs w y' ds u,
    (1 <= limit)%nat -> Forall (MapSubInv.evok K) evs -> MapSubInv.wok K w ->
    let y := MapSub.run true K vis tlimit (MapSub.init size limit) evs in
    MapSub.step_out true K vis tlimit y (MapSub.EvW w) = (y', MapSub.OPushes ds u) ->
    forall p, In p ds ->
      vis (MapSub.ck (snd p)) = true /\
      MapSub.c_map (MapSub.y_c y) (MapSub.ck (snd p)) =
      MapSubLib.vof (MapSub.state (MapSub.y_b y)) (MapSub.ck (snd p)).
Proof. exact DeltaMapSub.live_push_base_run. Qed.
Print Assumptions C14_map_live_base_all_schedules.

(* ... hence (payload level, [pay v] = payload published with value v, [ud] = publisher asked for
   a delta) the per-key delta or full payload of every such push is reconstructed by the client.
   State pages carry full payloads (C14_full_when_no_base) and the catch-up of a transition is a
   self-contained per-key chain (C14_recovered_map_chain). *)
Theorem C14_map_live_delta_all_schedules :
  forall bytes blen create apply esc unesc json, Contracts bytes create apply esc unesc ->
  forall (pay : MapSub.val -> bytes) K vis tlimit size limit evs w y' ds u,
    (1 <= limit)%nat -> Forall (MapSubInv.evok K) evs -> MapSubInv.wok K w ->
    let y := MapSub.run true K vis tlimit (MapSub.init size limit) evs in
    MapSub.step_out true K vis tlimit y (MapSub.EvW w) = (y', MapSub.OPushes ds u) ->
    forall o k v (ud : bool), In (o, MapSub.mkC k (Some v)) ds ->
      let prev := if ud then option_map pay (MapSubLib.vof (MapSub.state (MapSub.y_b y)) k) else None in
      client_step bytes apply unesc json (option_map pay (MapSub.c_map (MapSub.y_c y) k))
        (get_delta_pub bytes blen create esc json prev (pay v)) = Some (pay v).
Proof.
  intros ? ? ? ? ? ? ? [A B] pay.
  exact (DeltaMapSub.live_delta_reconstructs _ _ _ _ _ _ _ A B pay).
Qed.
Print Assumptions C14_map_live_delta_all_schedules.

(* with a tags filter the map statement is FALSE for the code as found *)
Theorem C14_map_filtered_refuted :
  Contracts rbytes rcreate rapply rid rid /\
  exists e, In e (snd (r_mrun true (m_init _) w_map_hidden_base)) /\ r_mresult e <> Some (me_expect _ e).
Proof. split; [split; [exact r_apply_create | exact r_unesc_esc] | exact refute_map_hidden_base]. Qed.
Print Assumptions C14_map_filtered_refuted.

(* the oracle run on the implementation's pushes means: the reference client
   reconstructs every one of them *)
Theorem C14_oracle_sound : forall T j l h, oracle_obs T j h l = true -> obs_good T j h l.
Proof. exact oracle_obs_sound. Qed.
Print Assumptions C14_oracle_sound.

(* non-vacuity: the guard accepts the two refuting schedules *)
Example C14_fixed_filtered_tail_ok :
  forallb (fun e => match r_result e with Some x => leqb x (e_expect _ e) | None => false end)
          (snd (r_prun true (p_init _) w_filtered_tail)) = true.
Proof. exact fixed_filtered_tail. Qed.
Example C14_fixed_no_payload_ok :
  forallb (fun e => match r_result e with Some x => leqb x (e_expect _ e) | None => false end)
          (snd (r_prun true (p_init _) w_no_payload)) = true.
Proof. exact fixed_no_payload. Qed.
