(* C38 Channel medium preserves delivery guarantees (scaled; partial claims labelled).
   Model: Model/Medium.v -- the medium as a transformer from what the broker hands to it
   (publications, in order) to the calls it makes to Node.handlePublication, for every option
   combination (queue on/off, byte bound, broadcast delay) and every schedule of broadcasts,
   writer iterations, shared position checks (rate limit, retry, error) and close.
   What the subscribers then do with those calls is Model/Positioned.v: a publication the
   medium skipped (coalesced by the delay, dropped by the byte bound or by close) is a dropped
   delivery there and the MaxUint64 marker is a delivery above every expected offset; C01
   (Props/C01.v: C01_client_positioned / C01_server_positioned / C01_detect_spawns /
   C01_no_pub_after_end) covers all such delivery sequences, so a positioned subscriber is
   never moved past a lost publication silently and the marker ends its subscription, while
   check_pub's non-positioned branch ignores it.  That composition is by citation, not a
   single Coq theorem (PARTIAL); KeepLatestPublication / delta bases are not modelled. *)
From Coq Require Import List NArith Bool.
From Cfg Require Import Model.Medium Proofs.Medium.
Import ListNotations.
Open Scope N_scope.

(* order: the medium forwards a subsequence of what it was given, markers included *)
Theorem C38_order : forall o now ls s rs, mrun o (minit now) ls = Some (s, rs) -> Sub (mout s) (g_in s).
Proof. exact c38_order. Qed.
Print Assumptions C38_order.

(* without the queue: exactly what it was given, nothing lost *)
Theorem C38_direct_exact : forall o now ls s rs,
  o_queue o = false -> mrun o (minit now) ls = Some (s, rs) -> mout s = g_in s.
Proof. exact c38_direct_exact. Qed.
Print Assumptions C38_direct_exact.

(* a detected position loss is never coalesced away or dropped by the byte bound: every
   marker handed to the medium is forwarded or still queued, until the medium is closed *)
Theorem C38_marker_kept : forall o now ls s rs,
  mrun o (minit now) ls = Some (s, rs) -> mclosed s = false ->
  count_insuff (mout s ++ mq s) = count_insuff (g_in s).
Proof. exact c38_marker_kept. Qed.
Print Assumptions C38_marker_kept.

Theorem C38_oracle_subseq_sound : forall a b, subseq a b qitem_eqb = true -> Sub a b.
Proof. exact subseq_sound. Qed.
Print Assumptions C38_oracle_subseq_sound.

(* non-vacuity: delay coalescing sends the marker in place of the run before it, then the last
   publication of the next run *)
Example C38_coalesce :
  option_map (fun r => mout (fst r))
    (mrun (mkMO true 0 true) (minit 0)
       [MBroadcast 1 1 0; MBroadcast 2 1 0; MBroadcast 3 1 0; MCheck 100 10 (Some false) (Some false);
        MBroadcast 4 1 100; MBroadcast 5 1 100; MWriter; MWriter])
  = Some [QInsuff; QPub 5 1].
Proof. vm_compute. reflexivity. Qed.
