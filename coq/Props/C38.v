(* C38 Channel medium preserves delivery guarantees (scaled; partial claims labelled).
   Model: Model/Medium.v -- the medium as a transformer from what the broker hands to it
   (publications, in order) to the calls it makes to Node.handlePublication, for every option
   combination (queue on/off, byte bound, broadcast delay) and every schedule of broadcasts,
   writer iterations, shared position checks (rate limit, retry, error) and close.
   What the subscribers then do with those calls is Model/Positioned.v; the two are composed in
   Model/MediumPositioned.v (broker -> medium -> hub -> connection; the medium is the only
   lossy element, the broker-to-node hop is loss-free as with the MemoryBroker), and
   C38_composed / C38_marker_effect below are theorems about that composition.
   Not modelled: KeepLatestPublication / delta bases; the marker reaching a subscription that
   is still inside its subscribe window (it is then buffered with the PUB/SUB publications). *)
From Coq Require Import List NArith Bool.
From Cfg Require Import Model.Merge Model.Positioned Model.PositionedSpec Model.Medium Model.MediumPositioned
  Proofs.PositionedLib Proofs.Medium Proofs.MediumPositioned.
Import ListNotations.
Open Scope N_scope.

(* order: the medium forwards a subsequence of what it was given, markers included *)
Theorem C38_order : forall o now ls s rs, mrun o (minit now) ls = Some (s, rs) -> Sub (mout s) (g_in s).
Proof. exact c38_order. Qed.
Print Assumptions C38_order.

(* without the queue: exactly what it was given, nothing lost *)
Theorem C38_direct_exact : forall o now ls s rs,
  o_queue o = false -> mrun o (minit now) ls = Some (s, rs) -> mout s = g_in s.
Proof. exact c38_direct_exact. Qed.
Print Assumptions C38_direct_exact.

(* a detected position loss is never coalesced away or dropped by the byte bound: every
   marker handed to the medium is forwarded or still queued, until the medium is closed *)
Theorem C38_marker_kept : forall o now ls s rs,
  mrun o (minit now) ls = Some (s, rs) -> mclosed s = false ->
  count_insuff (mout s ++ mq s) = count_insuff (g_in s).
Proof. exact c38_marker_kept. Qed.
Print Assumptions C38_marker_kept.

Theorem C38_oracle_subseq_sound : forall a b, subseq a b qitem_eqb = true -> Sub a b.
Proof. exact subseq_sound. Qed.
Print Assumptions C38_oracle_subseq_sound.

(* ---- the composition with the connection / subscription system ---- *)

(* every option combination, every schedule of publishes, writer iterations, shared position
   checks, close, forwarding and connection-side steps ([good c]: positioned subscription, see
   Props/C01.v): the subscriber's transport log satisfies C01's specification -- offsets
   strictly increase above the announced position and every offset up to the last delivered one
   was delivered or withheld by the filter, so the subscription is NEVER MOVED PAST A
   PUBLICATION THE MEDIUM LOST (coalesced, dropped by the byte bound or by close) -- nothing
   positioned follows its end frame, and the medium forwards a subsequence of its input *)
Theorem C38_composed : forall c o now ls x,
  good c -> xrun c o (xinit now) ls = Some x ->
  C01Spec (g_log (xp x)) (log (xp x)) /\
  no_pub_after_end (log (xp x)) = true /\
  Proofs.Medium.Sub (mout (xm x)) (g_in (xm x)).
Proof. exact c38_composed. Qed.
Print Assumptions C38_composed.

(* a detected position loss ends the affected positioned subscriptions and leaves
   non-positioned ones untouched: forwarding the marker to an established subscription and
   running its position check writes nothing, keeps the channel context, and spawns the
   insufficient-state unsubscribe / disconnect iff the subscription is positioned (what the
   spawned goroutine then writes: C01_pending_ends_client / C01_pending_ends_server) *)
Theorem C38_marker_effect : forall c o x pos pep,
  nth_error (mout (xm x)) (xfwd x) = Some QInsuff ->
  ch (xp x) = Positioned.Sub pos pep -> dl (xp x) = DIdle -> hub (xp x) = true -> ps_entry (xp x) = false ->
  exists x', xrun c o x [XForward; XPos LCheck] = Some x' /\
             log (xp x') = log (xp x) /\ ch (xp x') = ch (xp x) /\ dl (xp x') = DIdle /\
             pending (xp x') = (if c_pos c then S (pending (xp x)) else pending (xp x)).
Proof. exact c38_marker_effect. Qed.
Print Assumptions C38_marker_effect.

(* non-vacuity of the composition: queue + delay; publications 1..3 coalesced into 3, which the
   subscriber (position 0) cannot accept -> insufficient-state unsubscribe instead of delivery *)
Example C38_composed_run :
  option_map (fun x => (mout (xm x), log (xp x)))
    (xrun (mkCfg VClient true false 0 0 false false false false false false false) (mkMO true 0 true) (xinit 0)
       [XPos LReserve; XPos LStartBuf; XPos LHubAdd; XPos LHistRead; XPos LMerge; XPos LWriteReply; XPos LCommit; XPos LStopBuf;
        XPublish false 100%nat 1 0; XPublish false 100%nat 1 0; XPublish false 100%nat 1 0;
        XMedium MWriter; XForward; XPos LSync; XPos LCheck;
        XPos (LUnsub UInsuff); XPos LUnsubHub; XPos LUnsubOut])
  = Some ([QPub 3 1], [FSubReply false [] 0 1; FUnsubPush 2500]).
Proof. vm_compute. reflexivity. Qed.

(* non-vacuity: delay coalescing sends the marker in place of the run before it, then the last
   publication of the next run *)
Example C38_coalesce :
  option_map (fun r => mout (fst r))
    (mrun (mkMO true 0 true) (minit 0)
       [MBroadcast 1 1 0; MBroadcast 2 1 0; MBroadcast 3 1 0; MCheck 100 10 (Some false) (Some false);
        MBroadcast 4 1 100; MBroadcast 5 1 100; MWriter; MWriter])
  = Some [QInsuff; QPub 5 1].
Proof. vm_compute. reflexivity. Qed.
