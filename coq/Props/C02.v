From Cfg Require Import Harness.C02.
Theorem C02_stub : True. Proof. exact I. Qed.
