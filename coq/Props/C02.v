(* C02 Stream recovery is exact or explicitly refused (sequential case: no
   publication arrives while the subscribe runs; memory stream broker).
   Property theorems only; proofs live in Proofs/Recover.v. *)
From Coq Require Import List NArith ZArith Bool.
From Cfg Require Import Model.MemStream Model.StreamSpec Model.HistoryCmd Model.Recover
     Proofs.MemStream Proofs.Recover Harness.C02.
Import ListNotations.
Open Scope N_scope.

(* The complete decision, for EVERY reachable broker state (all C17 histories:
   trims, expiry, removal, metadata discard), every requested (offset, epoch),
   recovery limit, filter and flag: recovered with exactly the visible
   publications after the offset iff the epoch is empty or current, every
   offset in (offset, top] is retained, the offset is not in the future and the
   limit does not truncate; otherwise refused (error iff the client demanded). *)
Theorem C02_decision : forall lim filt h ch s off ep reject meta,
  h_streams h ch = Some s -> wf_stream s -> off < U64 - 1 ->
  snd (sub_stream lim filt h ch off ep reject meta []) =
  if stream_cond s lim off ep
  then ROk true (visible_after filt s off) off (s_epoch s)
  else if reject then RErr ErrUnrecoverablePosition
       else ROk false [] (s_top s) (s_epoch s).
Proof. exact stream_decision. Qed.
Print Assumptions C02_decision.

Theorem C02_exact : forall lim filt h ch s off ep reject meta,
  reachable h -> h_streams h ch = Some s -> off < U64 - 1 ->
  let r := snd (sub_stream lim filt h ch off ep reject meta []) in
  is_recovered r = true ->
  r = ROk true (visible_after filt s off) off (s_epoch s) /\
  (ep = 0 \/ ep = s_epoch s) /\
  (forall o, off < o -> o <= s_top s -> exists id, In (mkItem o id) (s_items s)) /\
  off <= s_top s /\
  ((lim <= 0)%Z \/ (Z.of_N (s_top s - off) <= lim)%Z).
Proof. exact stream_exact. Qed.
Print Assumptions C02_exact.

Theorem C02_refused : forall lim filt h ch s off ep reject meta,
  reachable h -> h_streams h ch = Some s -> off < U64 - 1 ->
  let r := snd (sub_stream lim filt h ch off ep reject meta []) in
  is_recovered r = false ->
  r = if reject then RErr ErrUnrecoverablePosition else ROk false [] (s_top s) (s_epoch s).
Proof. exact stream_refused. Qed.
Print Assumptions C02_refused.

Theorem C02_never_lies : forall lim filt h ch s off ep reject meta,
  reachable h -> h_streams h ch = Some s -> off < U64 - 1 ->
  (exists o, off < o /\ o <= s_top s /\ forall id, ~ In (mkItem o id) (s_items s)) \/
  (ep <> 0 /\ ep <> s_epoch s) \/
  ((0 < lim)%Z /\ (lim < Z.of_N (s_top s - off))%Z) ->
  is_recovered (snd (sub_stream lim filt h ch off ep reject meta [])) = false.
Proof. exact stream_never_lies. Qed.
Print Assumptions C02_never_lies.

Theorem C02_recovers_when_possible : forall lim filt h ch s off ep reject meta,
  reachable h -> h_streams h ch = Some s -> off < U64 - 1 ->
  (ep = 0 \/ ep = s_epoch s) ->
  s_top s - N.of_nat (length (s_items s)) <= off -> off <= s_top s ->
  ((lim <= 0)%Z \/ (Z.of_N (s_top s - off) <= lim)%Z) ->
  snd (sub_stream lim filt h ch off ep reject meta []) =
  ROk true (visible_after filt s off) off (s_epoch s).
Proof. exact stream_recovers_when_possible. Qed.
Print Assumptions C02_recovers_when_possible.

(* For ANY broker state, request and ANY publications that land on the channel
   between the subscribe's history read and its buffer merge: a reply that is
   not "recovered" carries no publications. *)
Theorem C02_refused_never_delivers : forall lim filt h ch off ep reject meta race,
  let r := snd (sub_stream lim filt h ch off ep reject meta race) in
  is_recovered r = false -> res_pubs r = [].
Proof. exact stream_refused_never_delivers. Qed.
Print Assumptions C02_refused_never_delivers.

Definition p2 := mkPopts 2 60000 0 0 0 0 0.
Definition h2 := fst (MemStream.run (hub_init 700 0) [Publish 0 1 p2; Publish 0 2 p2; Publish 0 3 p2]).

(* Server-side Client.Subscribe with RecoverSince: the Subscribe push announces
   the requested offset exactly when the recovery succeeded and the top
   otherwise - and, by the type of the push, never carries the recovered
   publications. *)
Theorem C02_serverside_decision : forall lim filt h ch s off ep meta,
  h_streams h ch = Some s -> wf_stream s -> off < U64 - 1 ->
  snd (srv_stream lim filt h ch off ep meta) =
  if stream_cond s lim off ep then PSub off (s_epoch s) else PSub (s_top s) (s_epoch s).
Proof. exact srv_stream_decision. Qed.
Print Assumptions C02_serverside_decision.

(* ... so the property fails for server-side recovery whenever publications
   exist after the requested offset (finding key serverside-recover-since):
   the recovery succeeds (the client-side reply would carry offsets 2 and 3),
   the push announces offset 1 and nothing else *)
Theorem C02_serverside_lost_refuted :
  snd (sub_stream 0 (fun _ => false) h2 0 1 1 false 0 []) = ROk true [mkItem 2 2; mkItem 3 3] 1 1 /\
  snd (srv_stream 0 (fun _ => false) h2 0 1 1 0) = PSub 1 1.
Proof. vm_compute. split; reflexivity. Qed.

Theorem C02_oracle_sound : forall lim off ep reject fl extra full res,
  stream_ok lim off ep reject fl extra full res = true <-> StreamProp lim off ep reject fl extra full res.
Proof. exact stream_ok_sound. Qed.
Print Assumptions C02_oracle_sound.

(* non-vacuity: size-2 stream after 3 publications (offset 1 trimmed) *)
Definition nofilt : N -> bool := fun _ => false.
Example C02_examples :
  snd (sub_stream 0 nofilt h2 0 1 1 false 0 []) = ROk true [mkItem 2 2; mkItem 3 3] 1 1 /\
  snd (sub_stream 0 nofilt h2 0 0 1 false 0 []) = ROk false [] 3 1 /\             (* offset 1 trimmed *)
  snd (sub_stream 0 nofilt h2 0 0 1 true 0 []) = RErr ErrUnrecoverablePosition /\
  snd (sub_stream 1 nofilt h2 0 1 1 false 0 []) = ROk false [] 3 1 /\             (* limit truncates *)
  snd (sub_stream 0 nofilt h2 0 1 9 false 0 []) = ROk false [] 3 1 /\             (* foreign epoch *)
  snd (sub_stream 0 nofilt h2 0 3 0 false 0 []) = ROk true [] 3 1 /\              (* at the top *)
  snd (sub_stream 0 nofilt h2 0 4 1 false 0 []) = ROk false [] 3 1 /\             (* future offset *)
  snd (sub_stream 0 (fun id => id =? 3) h2 0 1 1 false 0 []) = ROk true [mkItem 2 2] 1 1.
Proof. vm_compute. repeat split; reflexivity. Qed.
