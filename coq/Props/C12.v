(* C12 The per-connection write path delivers messages exactly.
   Property theorems only; proofs live in Proofs/RingQueue.v, Proofs/Writer.v, Proofs/C12Harness.v. *)
From Coq Require Import List NArith ZArith Bool Arith.
From Cfg Require Import Model.RingQueue Model.RingQueueSpec Model.Writer
  Proofs.RingQueue Proofs.Writer Harness.C12 Proofs.C12Harness.
Import ListNotations.

(* (i) Queue growth and shrinking.  From queue.New(ic), ic >= 1, NO sequence of exported operations
   (Add, AddMany, Remove, RemoveMany, RemoveManyInto, RemoveManyIntoShrink, FinishCollect immediate
   or delayed, the delayed-shrink timer callback, Close, CloseRemaining) makes the ring model panic
   (index / slice bounds / modulo by zero) or loop forever, and every result together with Len,
   Size and Closed after every operation is what the abstract FIFO returns. *)
Theorem C12_ring_refines_fifo : forall ic ops, 1 <= ic ->
  exists q' rs, qrun (new ic) ops = Some (q', rs) /\ proj_outs rs = frun fifo_new ops.
Proof. exact ring_refines_fifo. Qed.
Print Assumptions C12_ring_refines_fifo.

(* (ii) The writer as a transition system; a schedule is any list of labels, each enabled when taken
   (wrun returns Next).  The queue inside the writer never panics under any schedule. *)
Theorem C12_writer_no_panic : forall c sched, 1 <= c_initcap c -> wrun c (winit c) sched <> Panic.
Proof. exact no_panic. Qed.
Print Assumptions C12_writer_no_panic.

(* In every reachable state what was handed to the transport (all WriteFn/WriteManyFn calls, in call
   order) is a prefix of the accepted items in queue (Add) order: nothing reordered, nothing invented. *)
Theorem C12_prefix : forall c sched s, 1 <= c_initcap c ->
  wrun c (winit c) sched = Next s -> exists rest, attempted s ++ rest = enq s.
Proof. intros c sched s Hc H. apply inv_prefix. eapply reachable_inv; eauto. exists sched; auto. Qed.
Print Assumptions C12_prefix.

(* ... and nothing is lost: whenever the queue is empty and no write is in progress, everything accepted
   has been handed to the transport, unless a close WITHOUT flush discarded the queue. *)
Theorem C12_exact_at_quiescence : forall c sched s, 1 <= c_initcap c ->
  wrun c (winit c) sched = Next s ->
  noflush s = false -> cnt (wq s) = 0 -> inflight s = [] -> attempted s = enq s.
Proof. intros c sched s Hc H. apply inv_quiescent. eapply reachable_inv; eauto. exists sched; auto. Qed.
Print Assumptions C12_exact_at_quiescence.

(* no duplication *)
Theorem C12_no_dup : forall c sched s, 1 <= c_initcap c ->
  wrun c (winit c) sched = Next s -> NoDup (enq s) -> NoDup (attempted s).
Proof. intros c sched s Hc H. apply inv_no_dup. eapply reachable_inv; eauto. exists sched; auto. Qed.
Print Assumptions C12_no_dup.

(* until a write fails, what the transport accepted is exactly what was attempted *)
Theorem C12_delivered_until_failure : forall s, write_failed s = false -> delivered s = attempted s.
Proof. exact delivered_no_failure. Qed.
Print Assumptions C12_delivered_until_failure.

(* Closing with flush delivers everything queued before the close: once a close(true) has written the
   remaining items ([flushdone], set by the closer's last write or by finding the queue empty) the
   transport has been handed every accepted item, and the queue is closed (later enqueues are refused,
   C12_closed_enqueue). *)
Theorem C12_close_flush : forall c sched s, 1 <= c_initcap c ->
  wrun c (winit c) sched = Next s -> flushdone s = true -> attempted s = enq s /\ qclosed (wq s) = true.
Proof. intros c sched s Hc H. apply inv_close_flush. eapply reachable_inv; eauto. exists sched; auto. Qed.
Print Assumptions C12_close_flush.

(* the closer that won writer.mu with flush=true reaches [flushdone] by its own next action(s),
   whatever the transport answers *)
Theorem C12_close_flush_progress : forall c sched s t, 1 <= c_initcap c ->
  wrun c (winit c) sched = Next s -> getpc (thr s) t = Some (CCloseQ true) ->
  exists s1, astep c s (LStep t) = Next s1 /\
    (flushdone s1 = true \/
     exists items, getpc (thr s1) t = Some (CWrite items) /\
       forall e, exists s2, astep c s1 (LWrite t e) = Next s2 /\ flushdone s2 = true).
Proof. intros c sched s t Hc H. apply closer_flush_progress. eapply reachable_inv; eauto. exists sched; auto. Qed.
Print Assumptions C12_close_flush_progress.

(* Slow consumer.  The check enqueue makes after its Add: if the bytes really queued (sum over the
   abstract queue content) exceed MaxQueueSize > 0 the call returns DisconnectSlow. *)
Theorem C12_slow : forall c sched s t, 1 <= c_initcap c ->
  wrun c (winit c) sched = Next s -> getpc (thr s) t = Some PAdded ->
  (0 < c_maxq c)%Z -> (c_maxq c < size_of (abs (wq s)))%Z ->
  exists s', astep c s (LStep t) = Next s' /\ getpc (thr s') t = Some (PDone RSlow).
Proof. intros c sched s t Hc H. apply slow_check. eapply reachable_inv; eauto. exists sched; auto. Qed.
Print Assumptions C12_slow.

(* An enqueue/enqueueMany call taken as a whole (Add immediately followed by its check) on an open
   queue: if queued bytes + new bytes exceed MaxQueueSize it returns DisconnectSlow (the items are queued). *)
Theorem C12_slow_sequential : forall c sched s t is many, 1 <= c_initcap c ->
  wrun c (winit c) sched = Next s -> qclosed (wq s) = false ->
  getpc (thr s) t = None -> (many = false -> exists i, is = [i]) ->
  (0 < c_maxq c)%Z -> (c_maxq c < size_of (abs (wq s)) + size_of is)%Z ->
  exists s1 s2, astep c s (LEnq t is many) = Next s1 /\ astep c s1 (LStep t) = Next s2 /\
                getpc (thr s2) t = Some (PDone RSlow) /\ enq s1 = enq s ++ is.
Proof. intros c sched s t is many Hc H. apply slow_sequential. eapply reachable_inv; eauto. exists sched; auto. Qed.
Print Assumptions C12_slow_sequential.

(* After the queue has been closed an enqueue returns DisconnectConnectionClosed, queues nothing and
   writes nothing. *)
Theorem C12_closed_enqueue : forall c sched s t is many s', 1 <= c_initcap c ->
  wrun c (winit c) sched = Next s -> qclosed (wq s) = true ->
  astep c s (LEnq t is many) = Next s' ->
  getpc (thr s') t = Some (PDone RClosed) /\ enq s' = enq s /\ abs (wq s') = [] /\ wlog s' = wlog s.
Proof. intros c sched s t is many s' Hc H. apply closed_enqueue. eapply reachable_inv; eauto. exists sched; auto. Qed.
Print Assumptions C12_closed_enqueue.

(* The oracle used on the real queue's outputs decides the FIFO specification. *)
Theorem C12_oracle_queue_sound : forall ic ops panicked obs,
  1 <= ic -> oracle (CaseQ ic ops panicked obs) = true ->
  panicked = false /\ map (fun '(r, o) => (r, obs_proj o)) obs = frun fifo_new ops.
Proof. exact oracle_queue_sound. Qed.
Print Assumptions C12_oracle_queue_sound.

(* ---- non-vacuity ---- *)
Definition c12_cfg := mkCfg MGo (Some 2) 5%Z false 2.
Definition c12_i (n : N) := mkItem n 2.

(* three items, the flusher writes [1;2] then [3]; quiescent, everything delivered *)
Example C12_ex_exact :
  exists s, wrun c12_cfg (winit c12_cfg)
     [LEnq 1 [c12_i 1] false; LStep 1; LEnq 2 [c12_i 2; c12_i 3] true; LStep 2;
      LStep 0; LStep 0; LStep 0; LWrite 0 false; LStep 0;
      LStep 0; LStep 0; LStep 0; LWrite 0 false; LStep 0] = Next s /\
    attempted s = [c12_i 1; c12_i 2; c12_i 3] /\ enq s = attempted s /\
    cnt (wq s) = 0 /\ inflight s = [] /\ noflush s = false /\
    getpc (thr s) 2 = Some (PDone RSlow) /\ getpc (thr s) 1 = Some (PDone RNil).
Proof. eexists. vm_compute. repeat split; reflexivity. Qed.

(* a write is blocked, two more items are queued, close(true) flushes them; a later enqueue is refused *)
Example C12_ex_close_flush :
  exists s, wrun c12_cfg (winit c12_cfg)
     [LEnq 1 [c12_i 1] false; LStep 1; LStep 0; LStep 0; LStep 0;
      LEnq 2 [c12_i 2] false; LEnq 3 [c12_i 3] false; LClose 4 true;
      LWrite 0 true; LStep 0; LStep 4; LStep 4; LWrite 4 false; LStep 4;
      LEnq 5 [c12_i 5] false] = Next s /\
    flushdone s = true /\ attempted s = [c12_i 1; c12_i 2; c12_i 3] /\ write_failed s = true /\
    getpc (thr s) 5 = Some (PDone RClosed) /\ getpc (thr s) 4 = Some CDone.
Proof. eexists. vm_compute. repeat split; reflexivity. Qed.

(* queue.New(0) is outside the domain: the first Add panics in the model (as in Go) *)
Example C12_ex_initcap0 : qrun (new 0) [OpAdd (c12_i 1)] = None.
Proof. reflexivity. Qed.
