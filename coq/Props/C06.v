(* C06 Presence reflects live subscriptions.
   Property theorems only; proofs live in Proofs/PresenceHub.v, Proofs/SubPresence.v,
   Proofs/SubPresInv.v (presence-owner invariant), Proofs/SubAtRest.v, Proofs/SubFlags.v,
   Proofs/SubTickRestores.v.

   Part 1 (complete): presenceHub (presence_memory.go), for ANY sequence of add/remove calls.
   Part 2 (life cycle, Model/SubLifecycle.v, after fix f4ffc2fd), the statement
     settled s -> (pres s c = true <-> subscribed to c with presence enabled)
   - "->" (no stale entry) is PROVED for every schedule without the 5 s wait-gate timeout
     (C06_presence_only_if_subscribed_partial; suffix = exactly that exclusion, with the timeout a
     leak remains, see C05).  Before the fix it was false (C06_name_only_compensation_prefix_refuted).
   - "<-" is FALSE as stated even without timeouts: the documented transient, a subscription can be
     absent from presence until the next tick (C06_transient_absence).  PROVED instead: from any
     state at rest (authenticated, not closed) one presence tick that runs alone and whose
     AddPresence calls succeed ends in a state at rest with the same subscriptions where
     in presence <-> subscribed with presence (C06_tick_restores_presence_partial). *)
From Coq Require Import List NArith ZArith Bool.
From Cfg Require Import Model.PresenceHub Proofs.PresenceHub Model.SubLifecycle Proofs.SubPresence
  Proofs.SubPresInv Proofs.SubAtRest Proofs.SubTickRestores.
Import ListNotations.
Open Scope N_scope.

(* Presence(ch) holds a client (with its user id) iff the call history says so. *)
Theorem C06_presence_contents :
  forall ops c uid, plookup uid (pget (prun ops) c) = present ops c uid.
Proof. exact pget_spec. Qed.
Print Assumptions C06_presence_contents.

(* PresenceStats(ch) = (number of distinct clients, number of distinct users) of the presence
   set, for whatever duplicate-free enumerations lc, lu of those sets. *)
Theorem C06_stats_count_distinct :
  forall ops c lc lu,
    NoDup lc -> (forall uid, In uid lc <-> present ops c uid <> None) ->
    NoDup lu -> (forall u, In u lu <-> exists uid, present ops c uid = Some u) ->
    pstats (prun ops) c = (N.of_nat (length lc), N.of_nat (length lu)).
Proof. exact pstats_spec. Qed.
Print Assumptions C06_stats_count_distinct.

(* compensateRacedPresence (after fix f4ffc2fd): every presence entry the tick added for a
   snapshot item whose channel is gone or now carries ANOTHER subscription generation is
   removed again. *)
Theorem C06_compensation_covers_stale_generation :
  forall s l c g,
    In (c, g) l ->
    (lookup c (chans s) = None \/ exists x, lookup c (chans s) = Some x /\ c_gen x <> g) ->
    In c (raced_items s l).
Proof. exact compensation_covers. Qed.
Print Assumptions C06_compensation_covers_stale_generation.

(* The schedule that left a stale entry before the fix (tick add after the unsubscribe's
   removal + fresh reservation + the fresh attempt failing) now ends clean ... *)
Theorem C06_tick_vs_resubscribe_no_stale_entry :
  exists sched s,
    exec sched init = Some s /\ all_finished s = true /\
    is_subscribed s 0 = false /\ lookup 0 (chans s) = None /\ pres s 0 = false.
Proof. exact tick_vs_resub_no_stale. Qed.
Print Assumptions C06_tick_vs_resubscribe_no_stale_entry.

(* ... whereas the old rule (channel name only) compensates nothing in that state: the
   pre-fix behaviour is refuted. *)
Theorem C06_name_only_compensation_prefix_refuted :
  exists sched s,
    exec sched init = Some s /\ no_timeout sched = true /\ pres s 0 = true /\ is_subscribed s 0 = false /\
    raced_items s (tick_added s 4) = [0] /\ raced_items_name_only s (tick_added s 4) = [].
Proof. exact name_only_compensation_refuted. Qed.
Print Assumptions C06_name_only_compensation_prefix_refuted.

(* No stale entry, general: at rest the connection is in a channel's presence only if it is
   subscribed there with presence enabled.  Every schedule without the wait-gate timeout. *)
Theorem C06_presence_only_if_subscribed_partial :
  forall sched s c,
    no_timeout sched = true -> exec sched init = Some s -> settled s ->
    pres s c = true ->
    exists x, lookup c (chans s) = Some x /\ c_sub x = true /\ o_pres (c_opts x) = true.
Proof. exact presence_only_if_subscribed. Qed.
Print Assumptions C06_presence_only_if_subscribed_partial.

(* No missing entry after a tick: from a state at rest (authenticated, not closed) there is a
   continuation consisting of one presence tick alone (all AddPresence calls succeeding) that ends
   at rest with the same c.channels and  in presence <-> subscribed with presence  on every channel.
   [live_pres s c] = exists x, lookup c (chans s) = Some x /\ c_sub x = true /\ o_pres (c_opts x) = true. *)
Theorem C06_tick_restores_presence_partial :
  forall sched s,
    no_timeout sched = true -> exec sched init = Some s -> settled s ->
    authed s = true -> status s <> Closed ->
    exists tick s', no_timeout tick = true /\ exec tick s = Some s' /\ settled s' /\ chans s' = chans s /\
                    forall c, pres s' c = true <-> live_pres s' c.
Proof. exact tick_restores. Qed.
Print Assumptions C06_tick_restores_presence_partial.

(* The documented transient: subscribed with presence but absent until the next tick. *)
Theorem C06_transient_absence :
  exists sched s,
    exec sched init = Some s /\ all_finished s = true /\ is_subscribed s 0 = true /\ pres s 0 = false.
Proof. exact transient_absence_ex. Qed.
Print Assumptions C06_transient_absence.

Example C06_stats_example :
  pstats (prun [PAdd 0 1 7; PAdd 0 2 7; PAdd 0 3 8; PRemove 0 3; PAdd 1 1 9; PAdd 0 1 8]) 0 = (2, 2).
Proof. vm_compute. reflexivity. Qed.
