(* C06 Presence reflects live subscriptions.
   Property theorems only; proofs live in Proofs/PresenceHub.v and Proofs/SubPresence.v.

   Part 1 (complete): presenceHub (presence_memory.go), for ANY sequence of add/remove calls.
   Part 2 (life cycle, Model/SubLifecycle.v): the full statement
     settled s -> (pres s c = true <-> subscribed to c with presence enabled)
   is FALSE on the faithful model and on the implementation (C06_stale_presence_refuted,
   reproduced by the driver's gated schedule 0); no positive life-cycle theorem is proved,
   that part of the claim rests on the correspondence and the oracle only. *)
From Coq Require Import List NArith ZArith Bool.
From Cfg Require Import Model.PresenceHub Proofs.PresenceHub Model.SubLifecycle Proofs.SubPresence.
Import ListNotations.
Open Scope N_scope.

(* Presence(ch) holds a client (with its user id) iff the call history says so. *)
Theorem C06_presence_contents :
  forall ops c uid, plookup uid (pget (prun ops) c) = present ops c uid.
Proof. exact pget_spec. Qed.
Print Assumptions C06_presence_contents.

(* PresenceStats(ch) = (number of distinct clients, number of distinct users) of the presence
   set, for whatever duplicate-free enumerations lc, lu of those sets. *)
Theorem C06_stats_count_distinct :
  forall ops c lc lu,
    NoDup lc -> (forall uid, In uid lc <-> present ops c uid <> None) ->
    NoDup lu -> (forall u, In u lu <-> exists uid, present ops c uid = Some u) ->
    pstats (prun ops) c = (N.of_nat (length lc), N.of_nat (length lu)).
Proof. exact pstats_spec. Qed.
Print Assumptions C06_stats_count_distinct.

(* A presence entry survives the end of the subscription: tick add after the unsubscribe's
   removal + a fresh reservation hiding the race + the fresh attempt failing.  No timeout. *)
Theorem C06_stale_presence_refuted :
  exists sched s,
    exec sched init = Some s /\ no_timeout sched = true /\ all_finished s = true /\
    is_subscribed s 0 = false /\ lookup 0 (chans s) = None /\ pres s 0 = true.
Proof. exact stale_presence_refuted. Qed.
Print Assumptions C06_stale_presence_refuted.

(* The documented transient: subscribed with presence but absent until the next tick. *)
Theorem C06_transient_absence :
  exists sched s,
    exec sched init = Some s /\ all_finished s = true /\ is_subscribed s 0 = true /\ pres s 0 = false.
Proof. exact transient_absence_ex. Qed.
Print Assumptions C06_transient_absence.

Example C06_stats_example :
  pstats (prun [PAdd 0 1 7; PAdd 0 2 7; PAdd 0 3 8; PRemove 0 3; PAdd 1 1 9; PAdd 0 1 8]) 0 = (2, 2).
Proof. vm_compute. reflexivity. Qed.
