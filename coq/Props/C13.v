(* C13 Per-channel batching preserves order and coalesces correctly.
   Property theorems only; proofs live in Proofs/ChanWriter.v. *)
From Coq Require Import List NArith ZArith Bool Arith.
From Cfg Require Import Model.ChanWriter Model.ChanWriterSpec Proofs.ChanWriter.
Import ListNotations.

(* The code's coalescing step (delete the entry with the same key, append) computes, for every sequence
   of publications, the newest publication of each key in last-update order. *)
Theorem C13_newest_spec : forall l x,
  newest (l ++ [x]) = remove_key (ci_key x) (newest l) ++ [x] /\ keys_distinct (newest l).
Proof. exact newest_snoc. Qed.
Print Assumptions C13_newest_spec.

(* One channelWriter, ANY sequence of Add / timer-fired branch (any timer identity, live or stale) /
   close(flush?): every batch handed to flushFn is exactly the specification's flush of the items added
   since the previous flush or close -- in plain mode those items in the order they were added, in
   latest-publication mode join/leave pushes in order followed by the newest publication of each key in
   last-update order -- and a close without flush forgets what was buffered (check_run restarts from []). *)
Theorem C13_instance_spec : forall c ops, check_run c (cw_new, 0) [] ops.
Proof. exact instance_spec. Qed.
Print Assumptions C13_instance_spec.

(* size- versus timer-triggered flush races: the timer goroutine of a timer that is no longer the
   active one (cancelled by a size-triggered flush or close, possibly replaced by a new timer) does nothing *)
Theorem C13_stale_timer : forall tm w, cw_timer w <> Some tm -> cw_fire tm w = (w, None).
Proof. exact stale_fire. Qed.
Print Assumptions C13_stale_timer.

(* The per-writer specification holds INSIDE the perChannelWriter, for ALL schedules (threads doing the two
   halves of Add, timer goroutines, delWriter, Close): with the ghost "items added to an instance, while it
   was open, since its last flush or close" ([gview]/[gnext]), every batch any instance hands to flushFn at
   any step is flush_spec of that ghost under the configuration of the channel the instance was created
   for ([step_spec]); [gcheck] states it for every step of the schedule. *)
Theorem C13_pcw_instance_spec : forall cf sched, gcheck cf p_init (fun _ => []) sched.
Proof. intros cf sched. apply pcw_instance_spec. apply GI_init. Qed.
Print Assumptions C13_pcw_instance_spec.

(* a closed channelWriter drops what is added to it *)
Theorem C13_closed_add_dropped : forall c tm w x, cw_closed w = true -> cw_add c tm w x = (w, None, false).
Proof. exact add_closed. Qed.
Print Assumptions C13_closed_add_dropped.

(* perChannelWriter, ALL schedules (Add = getWriter ; channelWriter.Add by any number of threads, timers,
   delWriter, Close).  "Nothing buffered for a channel is delivered after the subscription ended":
   after delWriter(ch, false) the writer that served ch never calls flushFn again -- also when a
   perChannelWriter.Add call that had obtained it completes afterwards. *)
Theorem C13_nothing_after_unsubscribe : forall cf sched1 s1 ch i s2 sched2 s3,
  prun cf p_init sched1 = Some s1 ->
  lookupN (p_map s1) ch = Some i ->
  pstep cf s1 (PDel ch false) = Some s2 -> prun cf s2 sched2 = Some s3 ->
  out_of i (p_out s3) = out_of i (p_out s1).
Proof. exact nothing_after_unsubscribe. Qed.
Print Assumptions C13_nothing_after_unsubscribe.

(* Close(false) leaves every writer of the map empty with no timer *)
Theorem C13_close_clears : forall cf sched s s',
  prun cf p_init sched = Some s -> pstep cf s (PClose false) = Some s' ->
  forall ch i, In (ch, i) (p_map s') -> exists w, lookup (p_inst s') i = Some w /\ dead w.
Proof. exact close_clears. Qed.
Print Assumptions C13_close_clears.

(* What the closed-flag fixes (commit "channelWriter drops items added after it was closed"): for the code
   WITHOUT the `if w.closed { return }` guard (guard = false) the clause is FALSE.  Schedule: getWriter(ch)
   by an Add in flight; delWriter(ch,false); the Add completes on the orphaned writer (buffers x, arms a
   timer); Close(false) does not reach the orphan; its timer fires: x is flushed after the connection was
   closed without flush.  With the guard the same schedule emits nothing. *)
Definition c13_cfg (_ : N) := mkBcfg 10 true false.
Definition c13_x := mkCI 1 0 true.
Definition c13_sched := [PGet 0 7%N; PDel 7%N false; PAdd 0 c13_x; PClose false; PFire 1].
Theorem C13_orphan_prefix_refuted :
  exists s, prun_gen false c13_cfg p_init c13_sched = Some s /\ p_out s = [(7%N, 0, [c13_x])].
Proof. eexists. split; vm_compute; reflexivity. Qed.
Print Assumptions C13_orphan_prefix_refuted.

Example C13_orphan_fixed :
  prun c13_cfg p_init (firstn 4 c13_sched) <> None /\
  forall s, prun c13_cfg p_init (firstn 4 c13_sched) = Some s -> p_out s = [] /\ p_timers s = [].
Proof. split; [vm_compute; discriminate|]. vm_compute. intros s [= <-]. auto. Qed.

(* ---- non-vacuity ---- *)
Definition c13_latest := mkBcfg 3 true true.
(* latest mode: pubs k1,k2,k1' and a join: the size-triggered flush (3 held items) delivers the join, then k2, then k1' *)
Example C13_ex_latest :
  let ops := [CAdd (mkCI 1 1 true); CAdd (mkCI 2 2 true); CAdd (mkCI 3 1 true); CAdd (mkCI 4 0 false)] in
  snd (cwop_step c13_latest
         (fst (cwop_step c13_latest (fst (cwop_step c13_latest (fst (cwop_step c13_latest (cw_new, 0) (nth 0 ops (CFire 0)))) (nth 1 ops (CFire 0)))) (nth 2 ops (CFire 0))))
         (nth 3 ops (CFire 0)))
  = Some [mkCI 4 0 false; mkCI 2 2 true; mkCI 3 1 true].
Proof. vm_compute. reflexivity. Qed.

(* a timer armed by the first Add, cancelled by the size flush; its goroutine fires later: nothing happens;
   a new Add arms timer 1, which fires and flushes *)
Example C13_ex_stale :
  exists s, prun (fun _ => mkBcfg 2 true false) p_init
    [PGet 0 1%N; PAdd 0 (mkCI 1 0 true); PGet 0 1%N; PAdd 0 (mkCI 2 0 true);
     PGet 0 1%N; PAdd 0 (mkCI 3 0 true); PFire 1; PFire 2] = Some s /\
  map snd (p_out s) = [[mkCI 1 0 true; mkCI 2 0 true]; [mkCI 3 0 true]].
Proof. eexists. split; vm_compute; reflexivity. Qed.
