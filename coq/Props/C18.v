(* placeholder while the pipeline is brought up *)
From Cfg Require Import Model.RedisBroker Model.MemBroker18.
