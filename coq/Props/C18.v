(* C18 Redis and Memory stream brokers agree.
   Property theorems only; proofs live in Proofs/C18*.v.

   Models: Model/RedisBroker.v (Go glue of broker_redis.go) over the SHALLOW
   versions of the five Lua scripts (Model/RedisScripts.v) over Model/Redis.v;
   Model/MemBroker18.v (broker_memory.go + memstream, with the "version only
   updated when > 0" fix).  Redis' and Lua's semantics are MODELLED (trusted);
   shallow scripts <-> interpreted ASTs of the real .lua files are tied by
   evaluation on every explored case (Harness/C18.v), not by proof. *)
From Coq Require Import List NArith ZArith Bool String.
From Cfg Require Import Model.Redis Model.RedisScripts Model.BrokerApi18 Model.RedisBroker Model.MemBroker18
                        Proofs.C18Stream Proofs.C18StreamT Proofs.C18List Proofs.C18Witness.
Import ListNotations.
Open Scope string_scope.

(* FULL STATEMENT (property text): forall cfg ops, redis_run cfg ops = mem_run cfg ops
   for list and stream storage.  It is FALSE on the faithful models (see the
   _refuted theorems below, most of them replayed against the real code).  What
   holds, for STREAM storage, is agreement on the domain carved out by those
   witnesses:
     cfg_ok   : stream storage, node HistoryMetaTTL in [0, 2^31) s;
     keys_okb : no two channels / (channel, idempotency key) pairs used by the sequence
                map to the same Redis key or memory cache key;
     run_ok   : along the run, every operation satisfies op_ok: no clock tick; channel
                non-empty; sizes/TTLs < 2^31; versions < 2^53; idempotency keys only with
                history on; nonces (epochs) without ':' and '_'; payloads < 2^31-1 bytes;
                stream top stays < 10^14; reverse iteration "since" a position only from
                1 <= offset <= top+1.
   "_partial": time (TTL expiry, OpTick) is excluded from these theorems (both models have
   a virtual clock; agreement under ticks is only exemplified, disagreements under ticks are
   witnessed below). *)
Theorem C18_agree_stream_partial :
  forall cfg ops,
    cfg_ok cfg = true -> keys_okb (chans ops) (idems ops) = true -> run_ok cfg minit ops = true ->
    redis_run cfg ops = mem_run cfg ops.
Proof. exact agree_stream. Qed.
Print Assumptions C18_agree_stream_partial.

(* LIST storage (UseLists).  Same statement; the domain (run_okL) additionally requires
   what the list scripts do not implement to be unused: Version = 0, UseDelta = false,
   Reverse = false, and since.Offset + 1 < 2^64. *)
Theorem C18_agree_list_partial :
  forall cfg ops,
    cfg_okL cfg = true -> keys_okbL (chans ops) (idems ops) = true -> run_okL cfg minit ops = true ->
    redis_run cfg ops = mem_run cfg ops.
Proof. exact agree_list. Qed.
Print Assumptions C18_agree_list_partial.

Example C18_list_domain_inhabited :
  cfg_okL cfgL = true /\ keys_okbL (chans w_agree_list) (idems w_agree_list) = true /\
  run_okL cfgL minit w_agree_list = true /\ List.length w_agree_list = 14%nat.
Proof. vm_compute. repeat split. Qed.

(* Non-vacuity: a sequence with publishes (delta, idempotent, versioned, suppressed),
   history calls in both directions, remove, satisfies the hypotheses. *)
Example C18_domain_inhabited :
  cfg_ok cfgS = true /\ keys_okb (chans w_agree_stream) (idems w_agree_stream) = true /\
  run_ok cfgS minit w_agree_stream = true /\ List.length w_agree_stream = 18%nat.
Proof. vm_compute. repeat split. Qed.

(* ---- the full statement is refuted: each hypothesis above is necessary ---- *)
Theorem C18_agree_refuted : exists cfg ops, redis_run cfg ops <> mem_run cfg ops.
Proof. exists cfgS, w_version_2p53. exact version_2p53_differs. Qed.
Print Assumptions C18_agree_refuted.

(* versions >= 2^53 (compared as doubles by Lua tonumber) *)
Theorem C18_version_2p53_refuted :
  exists ops, keys_okb (chans ops) (idems ops) = true /\ redis_run cfgS ops <> mem_run cfgS ops.
Proof. exists w_version_2p53. split; [reflexivity | exact version_2p53_differs]. Qed.
(* versions >= 2^63 (strconv.Itoa(int(version)) is negative) *)
Theorem C18_version_2p63_refuted :
  exists ops, keys_okb (chans ops) (idems ops) = true /\ redis_run cfgS ops <> mem_run cfgS ops.
Proof. exists w_version_2p63. split; [reflexivity | exact version_2p63_differs]. Qed.
(* idempotent publish without history: Redis never reports Suppressed *)
Theorem C18_nohist_idempotent_refuted :
  exists ops, keys_okb (chans ops) (idems ops) = true /\ redis_run cfgS ops <> mem_run cfgS ops.
Proof. exists w_nohist_idem. split; [reflexivity | exact nohist_idem_differs]. Qed.
(* idempotency key used without, then with history: Redis answers an error *)
Theorem C18_idempotency_cross_mode_refuted :
  exists ops, keys_okb (chans ops) (idems ops) = true /\ redis_run cfgS ops <> mem_run cfgS ops.
Proof. exists w_idem_cross. split; [reflexivity | exact idem_cross_differs]. Qed.
(* reverse history since a position beyond the top (incl. offset 0) *)
Theorem C18_reverse_since_beyond_top_refuted :
  exists ops, keys_okb (chans ops) (idems ops) = true /\ redis_run cfgS ops <> mem_run cfgS ops.
Proof. exists w_reverse_beyond. split; [reflexivity | exact reverse_beyond_differs]. Qed.
(* channel "meta.x" shares a Redis key with channel "x" *)
Theorem C18_key_collision_refuted :
  exists ops, keys_okb (chans ops) (idems ops) = false /\ redis_run cfgS ops <> mem_run cfgS ops.
Proof. exists w_key_collision. split; [reflexivity | exact key_collision_differs]. Qed.
(* list storage: versions ignored; delta pushes undeliverable; no reverse; since = MaxUint64 *)
Theorem C18_list_version_refuted : exists ops, redis_run cfgL ops <> mem_run cfgL ops.
Proof. exists w_list_version. exact list_version_differs. Qed.
(* list storage + delta: the second delta publication is never delivered by the Redis side *)
Theorem C18_list_delta_refuted :
  exists ops, redis_run cfgL ops <> mem_run cfgL ops /\ snd (nth 1 (redis_run cfgL ops) (ResErr, [])) = [].
Proof. exists w_list_delta. split; [exact list_delta_differs | exact list_delta_second_not_delivered]. Qed.
Theorem C18_list_reverse_refuted : exists ops, redis_run cfgL ops <> mem_run cfgL ops.
Proof. exists w_list_reverse. exact list_reverse_differs. Qed.
Theorem C18_list_since_maxuint_refuted : exists ops, redis_run cfgL ops <> mem_run cfgL ops.
Proof. exists w_list_since_max. exact list_since_max_differs. Qed.
(* the empty channel name: the Redis side drops the delivery ("unsupported channel") *)
Theorem C18_empty_channel_refuted : exists ops, redis_run cfgS ops <> mem_run cfgS ops.
Proof. exists w_empty_channel. exact empty_channel_differs. Qed.
(* time: a version-suppressed DELTA publish refreshes the meta TTL in memory only (the plain
   version-suppressed publish was fixed in /repo, see suppressed_ttl_agrees_fixed);
   a meta TTL shorter than the history TTL leaves stale entries in Redis *)
Theorem C18_suppressed_delta_publish_ttl_refuted : exists cfg ops, redis_run cfg ops <> mem_run cfg ops.
Proof. exists cfg100, w_suppressed_delta_ttl. exact suppressed_delta_ttl_differs. Qed.
Example C18_suppressed_publish_ttl_fixed : redis_run cfg100 w_suppressed_ttl = mem_run cfg100 w_suppressed_ttl.
Proof. exact suppressed_ttl_agrees_fixed. Qed.
Theorem C18_meta_ttl_shorter_refuted : exists cfg ops, redis_run cfg ops <> mem_run cfg ops.
Proof. exists cfgM, w_meta_shorter. exact meta_shorter_differs. Qed.

(* agreement examples outside the proved domain (clock ticks) *)
Example C18_ticks_example : redis_run cfgS w_agree_ticks = mem_run cfgS w_agree_ticks.
Proof. exact agree_ticks_example. Qed.
