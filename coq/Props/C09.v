(* C09 placeholder while the correspondence is being established *)
From Cfg Require Import Model.Dispatch Model.DispatchSpec.
Example C09_placeholder : exec (mkCfg nil true) init nil = Some (init, nil).
Proof. reflexivity. Qed.
