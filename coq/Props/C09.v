(* C09 Commands are gated by authentication and answered exactly once.
   Property theorems only; proofs live in Proofs/Dispatch.v.  Model: Model/Dispatch.v
   (HandleReadFrame, HandleCommand, dispatchCommand and the per-request handlers), specification
   predicates: Model/DispatchSpec.v. *)
From Coq Require Import List NArith Bool Arith.
From Cfg Require Import Model.Dispatch Model.DispatchSpec Proofs.Dispatch.
Import ListNotations.
Open Scope N_scope.

(* ---- gate: for ALL configurations, states and commands ---- *)

(* An open connection that has not authenticated answers every command without a
   connect request by closing with bad request (3501); nothing else is visible: no
   reply and no application handler event. *)
Theorem C09_gate :
  forall g s c,
    s_closed s = false -> s_unusable s = false -> s_auth s = false -> has KConnect c = false ->
    handle_command g s c
    = Some (set_closed s, [OIssue (c_id c) (expects c); OClose 3501], false).
Proof. exact gate_command. Qed.
Print Assumptions C09_gate.

(* ... whatever else the frame contains. *)
Theorem C09_gate_frame :
  forall g s c cs m,
    s_closed s = false -> s_unusable s = false -> s_auth s = false -> has KConnect c = false ->
    handle_frame g s (c :: cs) m
    = Some (set_closed s, [OIssue (c_id c) (expects c); OClose 3501]).
Proof. exact gate_frame. Qed.
Print Assumptions C09_gate_frame.

(* ---- pong rule: for ALL states and pong-shaped commands (id 0, no send) ---- *)

Theorem C09_pong_without_ping :
  forall g s c,
    s_closed s = false -> s_unusable s = false -> s_auth s = true ->
    is_pong c = true -> s_ping s = false ->
    handle_command g s c
    = Some (set_closed s, [OIssue (c_id c) (expects c); OClose 3501], false).
Proof. exact pong_unexpected. Qed.
Print Assumptions C09_pong_without_ping.

(* a pong that answers a ping is consumed silently and clears the ping, so that a second
   pong falls under the previous theorem *)
Theorem C09_pong_after_ping :
  forall g s c,
    s_closed s = false -> s_unusable s = false -> s_auth s = true ->
    is_pong c = true -> s_ping s = true ->
    handle_command g s c = Some (set_ping s false, [OIssue (c_id c) (expects c)], true).
Proof. exact pong_expected. Qed.
Print Assumptions C09_pong_after_ping.

(* ---- frames: over ALL runs an empty frame or a frame with an undecodable rest leaves the
   connection closed, however many commands were decoded (and answered) before the bad part ---- *)
Theorem C09_bad_frame_closes :
  forall g ls s os,
    exec g init ls = Some (s, os) -> frames_ok false ls os = true.
Proof. exact exec_frames_ok_init. Qed.
Print Assumptions C09_bad_frame_closes.

(* ---- OnCommandRead hook: for ALL states and dispatched commands ---- *)

(* a client error from the hook is answered with exactly that error reply (also for a send,
   which otherwise has no reply), no application handler runs and the state does not change *)
Theorem C09_read_hook_error :
  forall g s c k0 k code,
    s_closed s = false -> s_unusable s = false -> s_auth s = true -> is_pong c = false ->
    first_of frame_order c = Some k0 -> first_of handler_order c = Some k ->
    c_read c = RdErr code -> has KConnect c = false ->
    handle_command g s c = Some (s, [OIssue (c_id c) true; OReply (c_id c) code], true).
Proof. exact read_error_command. Qed.
Print Assumptions C09_read_hook_error.

(* a disconnect from the hook closes with its code, without reply or handler *)
Theorem C09_read_hook_disconnect :
  forall g s c k0 k code,
    s_closed s = false -> s_unusable s = false -> s_auth s = true -> is_pong c = false ->
    first_of frame_order c = Some k0 -> first_of handler_order c = Some k ->
    c_read c = RdDisc code ->
    handle_command g s c = Some (set_closed s, [OIssue (c_id c) (expects c); OClose code], false).
Proof. exact read_disconnect_command. Qed.
Print Assumptions C09_read_hook_disconnect.

(* ---- the rules over ALL runs: any sequence of frames (any commands, ids, duplicate
   ids, several request fields, malformed or empty frames), server pings and callback
   completions in any order.  [steps_ok] checks, with the connection state re-derived
   from the outputs alone: no application handler other than connect runs before a
   successful connect reply; a frame starting with a non-connect command on an
   unauthenticated connection yields exactly [close 3501]; a lone pong without an
   outstanding ping yields exactly [close 3501] and one with a ping yields nothing. *)
Theorem C09_rules_on_all_runs :
  forall g ls s' os,
    exec g init ls = Some (s', os) -> Forall label_wf ls -> steps_ok ost0 ls os = true.
Proof. exact exec_steps_ok_init. Qed.
Print Assumptions C09_rules_on_all_runs.

(* ---- exactly one reply: over ALL runs and ALL completion orders ---- *)

(* never more replies with an id than reply-expecting commands sent with that id *)
Theorem C09_once_at_most :
  forall g ls s' os id,
    exec g init ls = Some (s', os) -> (nrep id (concat os) <= sentE id ls)%nat.
Proof. exact once_at_most. Qed.
Print Assumptions C09_once_at_most.

(* while the connection is open, replies + callbacks still held = such commands sent *)
Theorem C09_once_pending :
  forall g ls s' os id,
    exec g init ls = Some (s', os) -> s_closed s' = false ->
    (nrep id (concat os) + npend id s' = sentE id ls)%nat.
Proof. exact once_pending. Qed.
Print Assumptions C09_once_pending.

(* connection open and every callback completed: exactly one reply per such command *)
Theorem C09_once_exact :
  forall g ls s' os id,
    exec g init ls = Some (s', os) -> s_closed s' = false -> s_pend s' = [] ->
    nrep id (concat os) = sentE id ls.
Proof. exact once_exact. Qed.
Print Assumptions C09_once_exact.

(* Full statement of the property text ("every command that carries an id"): holds
   when no one-way command carries an id ... *)
Theorem C09_once_exact_strict_partial :
  forall g ls s' os q,
    exec g init ls = Some (s', os) -> (q = true -> s_pend s' = []) ->
    (forall c, In c (flat_map cmds_of ls) -> c_id c <> 0 -> expects c = true) ->
    exact_ok q ls os = true.
Proof. exact exec_exact_ok. Qed.
Print Assumptions C09_once_exact_strict_partial.

(* ... and is false without that hypothesis: a Send command with id 7 on an open,
   quiescent connection is never answered (client.go handleSend). *)
Theorem C09_once_strict_refuted :
  exists g ls s' os id,
    exec g init ls = Some (s', os) /\ s_closed s' = false /\ s_pend s' = [] /\
    id <> 0 /\ sent id ls = 1%nat /\ nrep id (concat os) = 0%nat.
Proof. exact once_strict_refuted. Qed.
Print Assumptions C09_once_strict_refuted.

(* the decidable predicates evaluated on implementation behaviour hold on every model run *)
Theorem C09_model_atmost :
  forall g ls s' os, exec g init ls = Some (s', os) -> atmost_ok ls os = true.
Proof. exact exec_atmost_ok. Qed.
Print Assumptions C09_model_atmost.

Theorem C09_model_exact_nosend :
  forall g ls s' os q,
    exec g init ls = Some (s', os) -> (q = true -> s_pend s' = []) -> exact_nosend_ok q ls os = true.
Proof. exact exec_exact_nosend_ok. Qed.
Print Assumptions C09_model_exact_nosend.

(* ---- non-vacuity ---- *)
Definition ex_cfg := mkCfg [KSubscribe; KRpc; KSend] true.
Definition ex_connect := LFrame [mkCmd 1 [KConnect] 0 false SOk RdOk] false.

(* authenticated run with an asynchronous rpc completed after a later synchronous one *)
Example C09_ex_async :
  exec ex_cfg init [ex_connect;
                    LFrame [mkCmd 11 [KRpc] 0 false SAsync RdOk; mkCmd 2 [KRpc] 0 false SOk RdOk] false;
                    LComplete 0 ROk]
  = Some (mkSt false false true false [] [] 1,
          [[OIssue 1 true; OHandler KConnect 1; OReply 1 0];
           [OIssue 11 true; OHandler KRpc 11; OIssue 2 true; OHandler KRpc 2; OReply 2 0];
           [OReply 11 0]]).
Proof. vm_compute. reflexivity. Qed.

(* gate and pong outcomes are reachable *)
Example C09_ex_gate :
  exec ex_cfg init [LFrame [mkCmd 2 [KSubscribe] 1 false SOk RdOk] false]
  = Some (mkSt true false false false [] [] 0, [[OIssue 2 true; OClose 3501]]).
Proof. vm_compute. reflexivity. Qed.
Example C09_ex_pong :
  exec ex_cfg init [ex_connect; LPing; LFrame [mkCmd 0 [] 0 false SOk RdOk] false;
                    LFrame [mkCmd 0 [] 0 false SOk RdOk] false]
  = Some (mkSt true false true false [] [] 0,
          [[OIssue 1 true; OHandler KConnect 1; OReply 1 0]; []; [OIssue 0 false];
           [OIssue 0 false; OClose 3501]]).
Proof. vm_compute. reflexivity. Qed.
Example C09_ex_wf : Forall label_wf [ex_connect; LPing; LComplete 0 (RErr 100)].
Proof. repeat constructor. Qed.
