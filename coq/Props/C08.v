(* C08 Connection lifecycle callbacks fire once and in order.
   Property theorems only; proofs live in Proofs/SubClose.v.  Model: Model/SubLifecycle.v.

   No positive theorem is proved for this property: the callback-ordering claims (connect at
   most once and first, disconnect at most once and only after connect, no alive after
   disconnect, unsubscribe exactly once per established subscription that ended) are checked
   by the oracle on the observed callback log of every gated schedule and by the model/
   implementation correspondence of that log.  Two parts of the statement are refuted: *)
From Coq Require Import List NArith ZArith Bool.
From Cfg Require Import Model.SubLifecycle Proofs.SubClose.
Import ListNotations.
Open Scope N_scope.

(* "After node shutdown completes ... no new connection becomes connected": a connection accepted
   before Node.Shutdown whose connect command is processed afterwards registers and becomes
   connected (connectCmd / triggerConnect never look at the shutdown flag). *)
Theorem C08_connected_after_shutdown_refuted :
  exists sched s, exec sched init = Some s /\ all_finished s = true /\ shut s = true /\ status s = Connected.
Proof. exact shutdown_connect_refuted. Qed.
Print Assumptions C08_connected_after_shutdown_refuted.

(* "the unsubscribe callback runs exactly once for every established subscription that ends":
   after the wait-gate timeout an established subscription can lose its context through another
   attempt's rollback, without OnUnsubscribe (same schedule as C05). *)
Theorem C08_unsubscribe_callback_missing_refuted :
  exists sched s, exec sched init = Some s /\ all_finished s = true /\ status s = Closed /\
                  pres s 0 = true /\ In (EvCommit 2 0 2 false) (trace s) /\ filter is_unsubcb (trace s) = [].
Proof. exact genstamp_leak_refuted. Qed.
Print Assumptions C08_unsubscribe_callback_missing_refuted.
