(* C08 Connection lifecycle callbacks fire once and in order.
   Property theorems only; proofs live in Proofs/SubClose.v.  Model: Model/SubLifecycle.v.

   Proved for ALL schedules: the connect callback runs at most once and before every other
   per-connection callback (subscribe, unsubscribe, alive, disconnect), so in particular a
   disconnect callback only runs if the connect callback ran.  NOT proved (checked by the
   oracle on the observed callback log of every gated schedule and by the model/implementation
   correspondence of that log): disconnect at most once, no alive after disconnect,
   unsubscribe exactly once per established subscription that ended - the last one is refuted
   for schedules with the wait-gate timeout. *)
From Coq Require Import List NArith ZArith Bool.
From Cfg Require Import Model.SubLifecycle Proofs.SubClose Proofs.SubCallbacks.
Import ListNotations.
Open Scope N_scope.

(* [cbs] = the callback events of the trace (OnConnect start, OnSubscribe, OnUnsubscribe,
   OnAlive, OnDisconnect). *)
Theorem C08_connect_first_and_once :
  forall sched s,
    exec sched init = Some s ->
    cbs (trace s) = [] \/ exists l, cbs (trace s) = EvConnectCb :: l /\ ~ In EvConnectCb l.
Proof. exact connect_first_once. Qed.
Print Assumptions C08_connect_first_and_once.

Theorem C08_callbacks_only_after_connect :
  forall sched s e,
    exec sched init = Some s -> In e (trace s) -> is_cb e = true -> In EvConnectCb (trace s).
Proof. exact callback_needs_connect. Qed.
Print Assumptions C08_callbacks_only_after_connect.

(* "After node shutdown completes ... no new connection becomes connected": a connection accepted
   before Node.Shutdown whose connect command is processed afterwards is refused since fix 778bc3f1
   (connectCmd looks at the shutdown state right after registering): the former witness schedule
   now ends closed, unregistered, without any callback ... *)
Theorem C08_connect_after_shutdown_refused :
  exists sched s, exec sched init = Some s /\ all_finished s = true /\ shut s = true /\
                  status s = Closed /\ reg s = false /\ trace s = [].
Proof. exact shutdown_connect_refused. Qed.
Print Assumptions C08_connect_after_shutdown_refused.

(* ... whereas the pre-fix connect command (no check at that point) went on from the same state
   to the OnConnect handler and stayed connected after the completed shutdown. *)
Theorem C08_no_shutdown_check_prefix_refuted :
  exists sched s s', exec sched init = Some s /\ shut s = true /\ thr s 2 = Some (TCon KShut) /\
                     run_con_nocheck 10 s 2 = Some s' /\ all_finished s' = true /\ status s' = Connected.
Proof. exact no_shutdown_check_refuted. Qed.
Print Assumptions C08_no_shutdown_check_prefix_refuted.

(* "the unsubscribe callback runs exactly once for every established subscription that ends":
   after the wait-gate timeout an established subscription can lose its context through another
   attempt's rollback, without OnUnsubscribe (same schedule as C05). *)
Theorem C08_unsubscribe_callback_missing_refuted :
  exists sched s, exec sched init = Some s /\ all_finished s = true /\ status s = Closed /\
                  pres s 0 = true /\ In (EvCommit 2 0 2 false) (trace s) /\ filter is_unsubcb (trace s) = [].
Proof. exact genstamp_leak_refuted. Qed.
Print Assumptions C08_unsubscribe_callback_missing_refuted.
