(* C08 Connection lifecycle callbacks fire once and in order.
   Property theorems only; proofs live in Proofs/SubCallbacks.v (connect first and once),
   Proofs/SubDisc.v (disconnect once, no alive after it; uses the lock-holder invariant
   Proofs/SubLocks.v), Proofs/SubEnds.v (per-generation end-of-subscription protocol; uses the
   routing invariant and the presence-owner invariant), Proofs/SubSkip.v, Proofs/SubClose.v.
   Model: Model/SubLifecycle.v.

   Proved for ALL schedules: the connect callback runs at most once and before every other
   per-connection callback; the disconnect callback runs at most once, only in the (absorbing)
   Closed state; no alive callback after the disconnect callback.
   Proved for every schedule WITHOUT the 5 s wait-gate timeout (suffix _partial = exactly that
   exclusion): per subscription generation the events commit, delete, leave, unsubscribe occasion
   form a prefix of  commit . delete . leave? . unsubscribe ; at rest an established subscription
   that is no longer in c.channels has the complete word, i.e. exactly one unsubscribe occasion;
   none for attempts that never committed.  The "occasion" is the OnUnsubscribe callback, except
   while OnConnect has not yet registered the handler (ghost event EvUnsubSkipped: the real code
   tests the handler for nil), which can only happen before the connect callback.
   For schedules WITH the timeout "exactly once" is FALSE (C08_unsubscribe_callback_missing_refuted,
   recorded finding C08-genstamp-after-gate-timeout). *)
From Coq Require Import List NArith ZArith Bool.
From Cfg Require Import Model.SubLifecycle Proofs.SubClose Proofs.SubCallbacks Proofs.SubDisc Proofs.SubEnds Proofs.SubSkip.
Import ListNotations.
Open Scope N_scope.

(* [cbs] = the callback events of the trace (OnConnect start, OnSubscribe, OnUnsubscribe,
   OnAlive, OnDisconnect). *)
Theorem C08_connect_first_and_once :
  forall sched s,
    exec sched init = Some s ->
    cbs (trace s) = [] \/ exists l, cbs (trace s) = EvConnectCb :: l /\ ~ In EvConnectCb l.
Proof. exact connect_first_once. Qed.
Print Assumptions C08_connect_first_and_once.

Theorem C08_callbacks_only_after_connect :
  forall sched s e,
    exec sched init = Some s -> In e (trace s) -> is_cb e = true -> In EvConnectCb (trace s).
Proof. exact callback_needs_connect. Qed.
Print Assumptions C08_callbacks_only_after_connect.

(* ---- disconnect / alive, ALL schedules ---- *)
Theorem C08_disconnect_at_most_once :
  forall sched s,
    exec sched init = Some s -> (length (filter is_disc (trace s)) <= 1)%nat.
Proof. exact disconnect_at_most_once. Qed.
Print Assumptions C08_disconnect_at_most_once.

Theorem C08_disconnect_only_when_closed :
  forall sched s,
    exec sched init = Some s -> In EvDisconnectCb (trace s) -> status s = Closed.
Proof. exact disconnect_only_closed. Qed.
Print Assumptions C08_disconnect_only_when_closed.

Theorem C08_no_alive_after_disconnect :
  forall sched s pre post,
    exec sched init = Some s -> trace s = pre ++ EvDisconnectCb :: post -> ~ In EvAliveCb post.
Proof. exact no_alive_after_disconnect. Qed.
Print Assumptions C08_no_alive_after_disconnect.

(* ---- unsubscribe callback, schedules without the wait-gate timeout ---- *)
(* [proj g tr] = the events of generation g among commit (EvCommit), delete of the committed
   context (EvDelete, ghost), leave (EvLeave) and unsubscribe occasion (EvUnsubCb / EvUnsubSkipped);
   [lv c g jl] = [EvLeave c g] if jl else []. *)

(* At rest: an established subscription (its commit is in the trace) whose context is no longer
   in c.channels has ended with exactly: commit, delete, leave iff join/leave, ONE unsubscribe occasion. *)
Theorem C08_unsubscribe_once_per_ended_subscription_partial :
  forall sched s t0 c g jl,
    no_timeout sched = true -> exec sched init = Some s -> settled s ->
    In (EvCommit t0 c g jl) (trace s) ->
    (forall x, lookup c (chans s) = Some x -> c_gen x <> g) ->
    exists e, (e = EvUnsubCb c g \/ e = EvUnsubSkipped c g) /\
              proj g (trace s) = [EvCommit t0 c g jl; EvDelete c g] ++ lv c g jl ++ [e].
Proof. exact ended_subscription_word. Qed.
Print Assumptions C08_unsubscribe_once_per_ended_subscription_partial.

(* At any time: an unsubscribe occasion of generation g comes after g's commit and delete (and
   leave, with join/leave) and there is no other one before or after it. *)
Theorem C08_unsubscribe_unique_and_after_end_partial :
  forall sched s c g e a b,
    no_timeout sched = true -> exec sched init = Some s ->
    e = EvUnsubCb c g \/ e = EvUnsubSkipped c g ->
    trace s = a ++ e :: b ->
    exists t0 jl, In (EvCommit t0 c g jl) a /\ In (EvDelete c g) a /\
                  (jl = true -> In (EvLeave c g) a) /\
                  (forall e', is_unsub_of g e' = true -> ~ In e' a /\ ~ In e' b).
Proof. exact unsub_after_delete. Qed.
Print Assumptions C08_unsubscribe_unique_and_after_end_partial.

(* No unsubscribe callback (nor delete, nor leave) for a generation that was never committed:
   failed and rolled-back attempts. *)
Theorem C08_no_unsubscribe_without_commit_partial :
  forall sched s g,
    no_timeout sched = true -> exec sched init = Some s ->
    (forall t0 c jl, ~ In (EvCommit t0 c g jl) (trace s)) -> proj g (trace s) = [].
Proof. exact never_committed_nothing. Qed.
Print Assumptions C08_no_unsubscribe_without_commit_partial.

(* The callback is skipped only before the connect callback (handlers not yet registered). ALL schedules. *)
Theorem C08_unsubscribe_skipped_only_before_connect :
  forall sched s a b c g,
    exec sched init = Some s -> trace s = a ++ EvUnsubSkipped c g :: b -> ~ In EvConnectCb a.
Proof. exact skipped_only_before_connect. Qed.
Print Assumptions C08_unsubscribe_skipped_only_before_connect.

(* "After node shutdown completes ... no new connection becomes connected": a connection accepted
   before Node.Shutdown whose connect command is processed afterwards is refused since fix 778bc3f1
   (connectCmd looks at the shutdown state right after registering): the former witness schedule
   now ends closed, unregistered, without any callback ... *)
Theorem C08_connect_after_shutdown_refused :
  exists sched s, exec sched init = Some s /\ all_finished s = true /\ shut s = true /\
                  status s = Closed /\ reg s = false /\ trace s = [].
Proof. exact shutdown_connect_refused. Qed.
Print Assumptions C08_connect_after_shutdown_refused.

(* ... whereas the pre-fix connect command (no check at that point) went on from the same state
   to the OnConnect handler and stayed connected after the completed shutdown. *)
Theorem C08_no_shutdown_check_prefix_refuted :
  exists sched s s', exec sched init = Some s /\ shut s = true /\ thr s 2 = Some (TCon KShut) /\
                     run_con_nocheck 10 s 2 = Some s' /\ all_finished s' = true /\ status s' = Connected.
Proof. exact no_shutdown_check_refuted. Qed.
Print Assumptions C08_no_shutdown_check_prefix_refuted.

(* "the unsubscribe callback runs exactly once for every established subscription that ends":
   after the wait-gate timeout an established subscription can lose its context through another
   attempt's rollback, without OnUnsubscribe (same schedule as C05). *)
Theorem C08_unsubscribe_callback_missing_refuted :
  exists sched s, exec sched init = Some s /\ all_finished s = true /\ status s = Closed /\
                  pres s 0 = true /\ In (EvCommit 2 0 2 false) (trace s) /\ filter is_unsubcb (trace s) = [].
Proof. exact genstamp_leak_refuted. Qed.
Print Assumptions C08_unsubscribe_callback_missing_refuted.
