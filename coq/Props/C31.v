(* placeholder while the correspondence is being validated *)
From Coq Require Import List NArith Bool.
From Cfg Require Import Model.WsHandshake.
Theorem C31_placeholder : True. Proof. exact I. Qed.
