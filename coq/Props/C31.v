(* C31 WebSocket close codes and handshake follow the RFC.
   Property theorems only; proofs live in Proofs/WsHandshakeA.v, WsHandshakeB.v, WsClose.v.
   Models: Model/WsHandshake.v (Upgrader.Upgrade and util.go), Model/WsClose.v (close frames in conn.go,
   websocketTransport.Close), Gen/WsConst.v (tables and constants translated from the Go source on every run).
   Specifications: Model/WsHandshakeSpec.v (RFC 6455 4.2.1, RFC 7230 lists, RFC 4648), Model/WsCloseSpec.v
   (RFC 6455 7.4), Model/WsUtf8.v (RFC 3629 grammar). *)
From Coq Require Import String List NArith Bool.
From Cfg Require Import Gen.WsConst Model.WsUtf8 Model.WsHandshake Model.WsHandshakeSpec Model.WsClose Model.WsCloseSpec
     Proofs.WsHandshakeA Proofs.WsHandshakeB Proofs.WsClose.
Import ListNotations.
Open Scope N_scope.

(* ------------------------------------------------------------------ handshake decision *)

(* Whatever the request, if the server accepts it (101 / 200) then the request is a WebSocket
   upgrade (method, Connection: upgrade, Upgrade: websocket, version 13, a key that is the base64
   of 16 bytes; resp. extended CONNECT with :protocol websocket) and the origin check passed. *)
Theorem C31_accept_sound : forall url_host u r,
    accepted (upgrade url_host u r) = true ->
    valid_upgrade_rx u r = true /\ origin_ok url_host u r = true.
Proof. exact upgrade_sound. Qed.
Print Assumptions C31_accept_sound.

(* For requests whose list headers follow the sender grammar 1#token the server accepts EXACTLY the
   valid upgrades that pass the origin check (all requests, all configurations not passing their own
   Sec-WebSocket-Extensions response header). *)
Theorem C31_accept_iff : forall url_host u r,
    wellformed r = true -> config_sane u = true ->
    (accepted (upgrade url_host u r) = true <-> valid_upgrade u r = true /\ origin_ok url_host u r = true).
Proof. exact upgrade_iff. Qed.
Print Assumptions C31_accept_iff.

(* Without the well-formedness restriction the "if" direction fails: an empty list member, which
   RFC 7230 section 7 tells recipients to ignore, hides the tokens after it. *)
Theorem C31_accept_iff_unrestricted_refuted :
  valid_upgrade_rx cfg_plain req_empty_member = true
  /\ origin_ok (fun _ => None) cfg_plain req_empty_member = true
  /\ accepted (upgrade (fun _ => None) cfg_plain req_empty_member) = false.
Proof. exact upgrade_rx_converse_refuted. Qed.
Print Assumptions C31_accept_iff_unrestricted_refuted.

(* tokenListContainsValue against the list-header specification, both directions *)
Theorem C31_token_list_sound : forall lines v,
    token_list_contains_value lines v = true -> has_token lines v = true.
Proof. exact tlcv_sound. Qed.
Print Assumptions C31_token_list_sound.
Theorem C31_token_list_complete : forall lines v,
    lines_wf lines = true -> has_token lines v = true -> token_list_contains_value lines v = true.
Proof. exact tlcv_complete. Qed.
Print Assumptions C31_token_list_complete.

(* ------------------------------------------------------------------ challenge key *)

(* isValidChallengeKey with a destination buffer of at least 16 bytes says "valid" exactly for
   22 base64 characters followed by "==" (= the base64 encodings of 16 bytes), for ALL strings. *)
Theorem C31_key_valid_iff : forall cap s,
    16 <= cap -> (is_valid_challenge_key cap s = KValid <-> valid_key s = true).
Proof. exact key_valid_iff. Qed.
Print Assumptions C31_key_valid_iff.

(* It never panics when the buffer has DecodedLen(24) = 18 bytes ... *)
Theorem C31_key_no_panic_cap18 : forall cap s, 18 <= cap -> is_valid_challenge_key cap s <> KPanic.
Proof. exact key_no_panic. Qed.
Print Assumptions C31_key_no_panic_cap18.

(* ... but with the 16 byte buffer of the current source an unpadded 24 character key is an index
   panic inside base64.Decode (finding: replayed on the real Upgrader by the driver). *)
Theorem C31_key_no_panic_cap16_refuted : is_valid_challenge_key 16 key_unpadded = KPanic.
Proof. exact key_panic_cap16. Qed.
Print Assumptions C31_key_no_panic_cap16_refuted.

(* Hence: once the source allocates >= 18 bytes (Gen.WsConst.key_buf_cap is read from util.go on
   every run) the whole handshake function is total.  Vacuous while key_buf_cap = 16. *)
Theorem C31_upgrade_no_panic_if_cap18 : 18 <= key_buf_cap -> forall url_host u r, upgrade url_host u r <> Panic.
Proof. exact upgrade_no_panic. Qed.
Print Assumptions C31_upgrade_no_panic_if_cap18.

(* ------------------------------------------------------------------ answer *)

(* Sec-WebSocket-Accept = base64(sha1(key ++ GUID)) with the GUID of RFC 6455 section 1.3
   (the GUID constant is translated from util.go; sha1/base64 are the library parameter). *)
Theorem C31_accept_key_rfc : forall lib k, accept_key lib k = lib (k ++ rfc_guid).
Proof. exact accept_key_rfc. Qed.
Print Assumptions C31_accept_key_rfc.

(* the negotiated subprotocol is one the server supports and the client offered *)
Theorem C31_subprotocol_offered : forall u r protos,
    u_subprotocols u = Some protos -> select_subprotocol u r <> [] ->
    In (select_subprotocol u r) protos /\ In (select_subprotocol u r) (offered_protocols r).
Proof. exact subprotocol_offered. Qed.
Print Assumptions C31_subprotocol_offered.

(* compression is negotiated only when enabled and when the client offered permessage-deflate *)
Theorem C31_compression_offered : forall u r,
    negotiate_compress u r = true -> u_compression u = true /\ In s_pmd (offered_extensions r).
Proof. exact compression_offered. Qed.
Print Assumptions C31_compression_offered.

(* ------------------------------------------------------------------ received close frames *)

(* The table of the source, as it is now, against RFC 6455 7.4 for ALL 65536 status codes
   (finite sweep inside Coq, the bound is in the statement). *)
Theorem C31_close_code_table : forall c, c < 65536 ->
    is_valid_received_close_code c = rfc_close_defined c || (c =? 1012) || (c =? 1013).
Proof. exact close_code_table. Qed.
Print Assumptions C31_close_code_table.

Theorem C31_reject_codes : forall c, c < 65536 ->
    rfc_close_forbidden c = true -> is_valid_received_close_code c = false.
Proof. exact close_code_forbidden_rejected. Qed.
Print Assumptions C31_reject_codes.

Theorem C31_accept_codes : forall c, c < 65536 ->
    rfc_close_defined c = true -> is_valid_received_close_code c = true.
Proof. exact close_code_defined_accepted. Qed.
Print Assumptions C31_accept_codes.

(* utf8.ValidString's algorithm accepts exactly the RFC 3629 grammar *)
Theorem C31_utf8_valid_iff : forall s, utf8_valid s = true <-> utf8_wf s.
Proof. exact utf8_valid_iff_wf. Qed.
Print Assumptions C31_utf8_valid_iff.

(* A received close frame with a forbidden code or a reason that is not UTF-8 is rejected: protocol
   error, the peer's code is not recorded, and (unless a close frame was sent before) exactly one
   close frame with status 1002 is written. *)
Theorem C31_recv_close_rejects : forall st a b text msg,
    a < 256 -> b < 256 -> read_dead st = false -> t_closed st = false ->
    rfc_close_forbidden (be16 a b) = true \/ utf8_valid text = false ->
    exists st' w,
      recv_close st (a :: b :: text) msg = (st', w, RProtoErr)
      /\ read_dead st' = true
      /\ (recorded st' = recorded st \/ (recorded st = 0 /\ recorded st' = 1002))
      /\ (close_sent st = false -> write_failed st = false -> exists f, w = [f] /\ payload_code f = 1002).
Proof. exact recv_close_rejects. Qed.
Print Assumptions C31_recv_close_rejects.

Theorem C31_recv_close_accepts : forall st a b text msg,
    a < 256 -> b < 256 -> read_dead st = false -> t_closed st = false ->
    rfc_close_defined (be16 a b) = true -> utf8_valid text = true ->
    exists st' w, recv_close st (a :: b :: text) msg = (st', w, RClose (be16 a b) text)
                  /\ (recorded st = 0 -> close_code st' = (be16 a b, true)).
Proof. exact recv_close_accepts. Qed.
Print Assumptions C31_recv_close_accepts.

(* ------------------------------------------------------------------ close frame sent by the transport *)

(* websocketTransport.Close(disconnect) on an open connection that has not sent a close frame:
   whenever code and reason fit in a control frame, exactly one close frame carrying code and the
   whole reason is written, and that code is what CloseCode() reports if nothing was recorded before. *)
Theorem C31_close_fits : forall st code reason,
    t_closed st = false -> close_sent st = false -> write_failed st = false ->
    fits_close_frame code reason = true ->
    exists st', transport_close st code reason = (st', [close_payload code reason])
                /\ t_closed st' = true
                /\ (recorded st = 0 -> close_code st' = (code, false)).
Proof. exact transport_close_fits. Qed.
Print Assumptions C31_close_fits.

(* a reason that does not fit is never truncated into a frame *)
Theorem C31_close_too_long_no_frame : forall st code reason,
    code <> 1005 -> 125 < 2 + N.of_nat (length reason) -> snd (transport_close st code reason) = [].
Proof. exact transport_close_too_long. Qed.
Print Assumptions C31_close_too_long_no_frame.

(* ------------------------------------------------------------------ first close wins *)

(* For EVERY sequence of close events on a fresh connection (application WriteControl(Close),
   transport.Close, peer close frames, in any order and number) CloseCode() reports the code and the
   direction of the first close frame that was written to, or validly read from, the wire.
   event_wf: payload bytes are bytes, and the application never sends status code 0. *)
Theorem C31_first_wins : forall es,
    Forall event_wf es ->
    match first_close (snd (run_events c_init es)) with
    | Some (c, i) => close_code (fst (run_events c_init es)) = (c, i)
    | None => True
    end.
Proof. exact first_close_wins. Qed.
Print Assumptions C31_first_wins.

(* The restriction is needed: WriteControl records the code before it knows whether the frame is
   written, and never records 0. *)
Theorem C31_first_wins_code0_refuted :
  let es := [EvWriteClose [0; 0]; EvWriteClose [15; 160]; EvRecvClose [3; 232] []] in
  let '(st, os) := run_events c_init es in
  first_close os = Some (0, false) /\ close_code st = (4000, false)
  /\ flat_map observed_closes os = [(0, false); (1000, true)].
Proof. exact first_close_wins_code0_refuted. Qed.
Print Assumptions C31_first_wins_code0_refuted.

(* ------------------------------------------------------------------ non-vacuity *)

Definition ex_req : request :=
  mkRequest 1 s_GET (bytes_of_string "server.example.com"%string) [bytes_of_string "keep-alive, Upgrade"%string] [s_websocket] [s_13]
            [bytes_of_string "dGhlIHNhbXBsZSBub25jZQ=="%string] [bytes_of_string "http://server.example.com"%string]
            [bytes_of_string "chat, centrifuge-json"%string] [bytes_of_string "permessage-deflate; client_max_window_bits"%string] [].
Definition ex_cfg : config :=
  mkConfig (Some [bytes_of_string "centrifuge-json"%string; bytes_of_string "centrifuge-protobuf"%string]) true false None false None.
Definition ex_host (_ : bytes) : option bytes := Some (bytes_of_string "SERVER.example.com"%string).

Example C31_ex_accept :
  upgrade ex_host ex_cfg ex_req
  = Accept (Some (bytes_of_string "dGhlIHNhbXBsZSBub25jZQ=="%string)) (bytes_of_string "centrifuge-json"%string) true
  /\ wellformed ex_req = true /\ valid_upgrade ex_cfg ex_req = true /\ config_sane ex_cfg = true.
Proof. vm_compute. auto. Qed.

Example C31_ex_reject_origin :
  upgrade (fun _ => Some (bytes_of_string "evil.example.com"%string)) ex_cfg ex_req = Reject 403.
Proof. vm_compute. reflexivity. Qed.

Example C31_ex_reject_version :
  upgrade ex_host ex_cfg (mkRequest 1 s_GET [] [s_upgrade] [s_websocket] [bytes_of_string "8"%string] [bytes_of_string "dGhlIHNhbXBsZSBub25jZQ=="%string] [] [] [] [])
  = Reject 400.
Proof. vm_compute. reflexivity. Qed.

Example C31_ex_fits : fits_close_frame 3501 (repeat 97 123) = true /\ fits_close_frame 3501 (repeat 97 124) = false.
Proof. vm_compute. auto. Qed.

Example C31_ex_forbidden : rfc_close_forbidden 1005 = true /\ rfc_close_forbidden 2999 = true /\ rfc_close_defined 4000 = true.
Proof. vm_compute. auto. Qed.

Example C31_ex_session :
  let es := [EvRecvClose [3; 232; 111; 107] []; EvTransportClose 3501 [98; 121; 101]] in
  Forall event_wf es /\ snd (run_events c_init es) = [ORecv [[3; 232]] (RClose 1000 [111; 107]); OTransport []]
  /\ close_code (fst (run_events c_init es)) = (1000, true).
Proof.
  split; [|vm_compute; auto].
  repeat constructor; vm_compute; try reflexivity; try discriminate.
Qed.
