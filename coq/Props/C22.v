(* C22 Map subscriptions converge to the broker state.
   Property theorems only; proofs in Proofs/MapSub*.v.

   System = model of the in-memory map broker (log of changes, StreamSize
   trimming, stream expiry, clear = new epoch, key-cursor state pagination) +
   the server side of the map subscription protocol (frozen first-page offset,
   revision filter, state->live shortcut, stream pages with captured stream
   start, live transition with buffered publications merged by C39's model,
   recovery join, live broadcast position checks, periodic position check) +
   a reference client following the protocol.  A schedule is any list of events:
   writer operations (publish / remove or key expiry / stream expiry / clear),
   client requests with further writer operations inside the three windows of
   the request (after the state read, between hub subscription and the stream
   read, after the stream read), position checks and client drops.
   [fx = true] is the trim detection of repo commit 86b6310c (the tree); the
   pre-fix rule is [fx = false]. *)
From Coq Require Import List Arith Bool NArith.
From Cfg Require Import Model.Merge Model.MapSub Proofs.MapSubLib Proofs.MapSub Proofs.MapSubInv
     Proofs.MapSubFinal.
Import ListNotations.
Close Scope N_scope.
Open Scope nat_scope.

(* For ALL schedules (keys below K, page size >= 1), all page sizes, stream sizes,
   transition limits and key-stable tags filters: whenever the subscription is
   live and its position matches the broker (what a position check enforces),
   the client holds exactly the broker's current state restricted to the keys
   its filter admits.  Otherwise the client has been told (error reply,
   insufficient-state disconnect or unsubscribe) and is not live. *)
Theorem C22_converge : forall K vis tlimit size limit evs,
  1 <= limit -> Forall (evok K) evs ->
  let y := run true K vis tlimit (init size limit) evs in
  quiescent y ->
  forall k, c_map (y_c y) k = if vis k then vof (state (y_b y)) k else None.
Proof. exact converge_fixed. Qed.
Print Assumptions C22_converge.

(* after a position check a subscription that is still live is quiescent *)
Theorem C22_check_quiesces : forall fx K vis tlimit y,
  l_sub (y_l (step fx K vis tlimit y EvCheck)) = true -> quiescent (step fx K vis tlimit y EvCheck).
Proof. exact check_quiesces. Qed.
Print Assumptions C22_check_quiesces.

(* the knowledge invariant is preserved by every event (the induction behind C22_converge) *)
Theorem C22_invariant : forall K vis tlimit y ev,
  Know K vis y -> evok K ev -> Know K vis (step true K vis tlimit y ev).
Proof. exact know_step. Qed.
Print Assumptions C22_invariant.

(* lost live deliveries (fault action EvLose, part of the schedules of C22_converge / C22_invariant):
   a lost delivery of a real change leaves a position that no longer matches, the next position check
   ends the subscription, and the next delivered publication of the epoch is an offset gap that ends
   it with insufficient state - never a silent divergence *)
Theorem C22_lost_delivery_detected : forall fx K vis tlimit y w,
  quiescent y -> top (apply_w (y_b y) w) = S (top (y_b y)) ->
  let y1 := step fx K vis tlimit y (EvLose w) in
  check_position (y_b y1) (y_l y1) = false /\
  l_sub (y_l (step fx K vis tlimit y1 EvCheck)) = false.
Proof. exact lost_delivery_detected. Qed.
Print Assumptions C22_lost_delivery_detected.

Theorem C22_gap_is_insufficient : forall vis l e p,
  l_sub l = true -> l_epoch l = e -> S (l_pos l) < fst p ->
  push vis l e p = (mkL false 0 0, None, true).
Proof. exact gap_push_insufficient. Qed.
Print Assumptions C22_gap_is_insufficient.

(* never "recovered" with a missed change: a reply carrying recovered = true
   delivers exactly the visible changes after the position the client gave, up
   to the position it is given *)
Theorem C22_no_false_recovered : forall K vis tlimit y g0 g1 g2 y' es pubs off ep,
  Know K vis y -> Forall (wok K) g0 -> Forall (wok K) g1 -> Forall (wok K) g2 ->
  step_out true K vis tlimit y (EvReq g0 g1 g2) = (y', OReply (PLive es pubs off ep true)) ->
  c_ep (y_c y) = Some ep /\
  (ep = b_epoch (y_b y') ->
     off = top (y_b y') /\ pubs = vis_pubs vis (changes (y_b y') (c_off (y_c y)) off)).
Proof. exact recovered_sound. Qed.
Print Assumptions C22_no_false_recovered.

(* an accepted stream read is the exact continuation of the given position *)
Theorem C22_stream_read_exact : forall b since ep limit pubs t e,
  WF b -> since <= top b -> 1 <= limit -> known since ep = true ->
  node_read_stream true b since ep limit = SOk pubs t e ->
  t = top b /\ e = b_epoch b /\ pubs = firstn limit (changes b since (top b)) /\
  (forall x, ep = Some x -> x = b_epoch b).
Proof. exact node_read_fixed. Qed.
Print Assumptions C22_stream_read_exact.

(* The pre-fix trim detection (fx = false) violates the property: two schedules
   end live, position check passed, "recovered = true" received, with a map
   different from the broker's state. *)
Theorem C22_converge_prefix_refuted_trimmed_from_zero :
  Forall (evok 6) w_trim0 /\
  let y := run false 6 all_vis 1000 (init 2 3) w_trim0 in
  qb y = true /\ c_recovered (y_c y) = [false; true] /\
  c_map (y_c y) 0 = None /\ vof (state (y_b y)) 0 = Some 1%N.
Proof. split; [exact (proj1 w_ok)|exact refute_trim0]. Qed.
Print Assumptions C22_converge_prefix_refuted_trimmed_from_zero.

Theorem C22_converge_prefix_refuted_expired_stream :
  Forall (evok 6) w_expired /\
  let y := run false 6 all_vis 1000 (init 100 3) w_expired in
  qb y = true /\ c_recovered (y_c y) = [false; true] /\
  c_map (y_c y) 0 = Some 1%N /\ vof (state (y_b y)) 0 = Some 3%N /\
  c_map (y_c y) 1 = None /\ vof (state (y_b y)) 1 = Some 2%N.
Proof. split; [exact (proj2 w_ok)|exact refute_expired]. Qed.
Print Assumptions C22_converge_prefix_refuted_expired_stream.

(* non-vacuity: with the fix the same schedules end with the client told, and a
   plain schedule ends quiescent *)
Example C22_fixed_trim0_told : qb (run true 6 all_vis 1000 (init 2 3) w_trim0) = false.
Proof. exact fixed_trim0. Qed.
Example C22_fixed_expired_told : qb (run true 6 all_vis 1000 (init 100 3) w_expired) = false.
Proof. exact fixed_expired. Qed.
Example C22_quiescent_reachable :
  qb (run true 6 all_vis 1000 (init 2 1)
        [EvW (WPub 0 1%N); EvW (WPub 1 2%N); EvW (WPub 2 3%N); EvReq [] [] []; EvW (WPub 0 4%N);
         EvReq [] [WPub 3 5%N] []; EvReq [] [] []; EvReq [] [] []; EvReq [] [] []; EvCheck]) = true.
Proof. vm_compute. reflexivity. Qed.
