(* placeholder while the correspondence is being established *)
From Cfg Require Import Model.MapSub Harness.C22.
