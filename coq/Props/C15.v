(* C15 Tags filter evaluation matches its specification.
   Property theorems only; proofs live in Proofs/Decimal.v, Proofs/Filter.v and
   Proofs/FilterHarness.v.

   [matchf] / [validate] / [marshal]: model of internal/filter/filter.go (Match as it
   is after fixes/C15-in-absent-key.patch).  [dec_parse] / [dec_cmp]: model of
   udecimal 1.10.1 Parse / Cmp.  [denote], [WF], [numeral], [num_cmp]: the
   specification written from the property text (Model/FilterSpec.v). *)
From Coq Require Import List NArith ZArith Bool.
From Cfg Require Import Model.Decimal Model.Filter Model.FilterSpec
  Proofs.Decimal Proofs.Filter Harness.C15 Proofs.FilterHarness Proofs.FilterMarshal.
Import ListNotations.
Open Scope N_scope.

(* For every tree accepted by validation and every tag map, matching returns the
   value defined by the filter language (no depth bound). *)
Theorem C15_match_denote :
  forall f tags, validate f = true -> matchf f tags = Some (denote f tags).
Proof. exact match_denote. Qed.
Print Assumptions C15_match_denote.

(* Matching a validated tree never errors. *)
Theorem C15_match_total :
  forall f tags, validate f = true -> exists b, matchf f tags = Some b.
Proof. exact match_total. Qed.
Print Assumptions C15_match_total.

(* Validation accepts exactly the well-formed trees. *)
Theorem C15_validate_exact : forall f, validate f = true <-> WF f.
Proof. exact validate_exact. Qed.
Print Assumptions C15_validate_exact.

(* The engine's parser accepts exactly the numerals of the grammar [numeral] and
   yields the canonical form of the number each denotes ... *)
Theorem C15_engine_parse :
  forall s, dec_parse s = option_map norm (numeral s).
Proof. exact dec_parse_numeral. Qed.
Print Assumptions C15_engine_parse.

(* ... and its comparison is the exact comparison of the rationals z1/10^p1, z2/10^p2. *)
Theorem C15_engine_cmp_exact :
  forall a b, dec_cmp (norm a) (norm b) = num_cmp a b.
Proof. exact dec_cmp_norm. Qed.
Print Assumptions C15_engine_cmp_exact.

(* The string relations used by the denotation mean what their names say. *)
Theorem C15_string_relations :
  forall p s,
    (is_prefix p s = true <-> exists t, s = p ++ t) /\
    (is_suffix p s = true <-> exists t, s = t ++ p) /\
    (is_infix p s = true <-> exists a b, s = a ++ p ++ b).
Proof. exact string_relations. Qed.
Print Assumptions C15_string_relations.

(* and / or / not compose as boolean connectives. *)
Theorem C15_connectives :
  forall acc key cmp val vals nodes c tags,
    (denote_g acc (Node s_and key cmp val vals nodes) tags = true <->
       forall x, In x nodes -> denote_g acc x tags = true) /\
    (denote_g acc (Node s_or key cmp val vals nodes) tags = true <->
       exists x, In x nodes /\ denote_g acc x tags = true) /\
    denote_g acc (Node s_not key cmp val vals [c]) tags = negb (denote_g acc c tags).
Proof. exact connectives. Qed.
Print Assumptions C15_connectives.

(* The filter hash is equal for structurally equal trees (for any digest applied
   to the marshalled tree; that Hash = SHA-256 . marshal is checked in corr). *)
Theorem C15_hash_congr :
  forall (digest : bytes -> bytes) f g, f = g -> digest (marshal f) = digest (marshal g).
Proof. exact hash_congr. Qed.
Print Assumptions C15_hash_congr.

(* Converse at the pre-image level: the hashed byte string determines the tree (for
   ALL trees, well-formed or not, whose encoding is shorter than 2^64 bytes), so
   structurally different trees are hashed from different bytes; what remains between
   that and "different hashes" is collision resistance of SHA-256. *)
Theorem C15_hash_preimage_injective :
  forall f g, small (marshal f) -> small (marshal g) -> marshal f = marshal g -> f = g.
Proof. exact marshal_inj. Qed.
Print Assumptions C15_hash_preimage_injective.

Theorem C15_hash_preimage_distinct :
  forall f g, small (marshal f) -> small (marshal g) -> f <> g -> marshal f <> marshal g.
Proof. exact marshal_distinct. Qed.
Print Assumptions C15_hash_preimage_distinct.

(* The decidable oracle applied to the implementation's observed behaviour is
   sound for the property. *)
Theorem C15_oracle_sound :
  forall c, oracle c = true ->
    o_panic c = false /\
    (o_valid c = true <-> WF (c_f c)) /\
    (WF (c_f c) ->
     o_match c = Some (denote_g (acc_obs (o_nums c)) (c_f c) (c_tags c))) /\
    o_hash_copy c = true /\
    (c_f c = c_g c -> o_hash_g c = true).
Proof. exact oracle_sound. Qed.
Print Assumptions C15_oracle_sound.

Theorem C15_oracle_denote :
  forall c,
    forallb (fun sa => Bool.eqb (numeral_ok (fst sa)) (snd sa)) (o_nums c) = true ->
    denote_g (acc_obs (o_nums c)) (c_f c) (c_tags c) = denote (c_f c) (c_tags c).
Proof. exact oracle_denote. Qed.
Print Assumptions C15_oracle_denote.

(* ---- the code before the fix violates the property (finding F1) ---- *)
(* [match_gen false] = Match with in/nin looking up the zero value for an absent key *)
Theorem C15_unfixed_refuted :
  exists f tags, validate f = true /\ match_gen false f tags <> Some (denote f tags).
Proof. exact unfixed_refuted. Qed.
Print Assumptions C15_unfixed_refuted.

(* ---- non-vacuity ---- *)
Example C15_ex_valid_tree :
  let f := Node s_and [] [] [] []
             [Node [] [97] s_gt [49;46;53] [] [];                  (* a gt "1.5" *)
              Node s_not [] [] [] [] [Node [] [98] s_in [] [[]; [120]] []]] in   (* not (b in ["", "x"]) *)
  validate f = true /\
  matchf f [([97], [50])] = Some true /\                (* a = "2", b absent *)
  matchf f [([97], [50]); ([98], [])] = Some false /\   (* b = "" *)
  matchf f [([97], [49;46;53;48])] = Some false.        (* a = "1.50" *)
Proof. vm_compute. auto. Qed.

Example C15_ex_absent_key :
  matchf (Node [] [97] s_in [] [[]] []) [] = Some false /\
  matchf (Node [] [97] s_nin [] [[]] []) [] = Some true.
Proof. vm_compute. auto. Qed.

Example C15_ex_invalid : validate (Node s_not [] [] [] [] []) = false /\
                         matchf (Node s_not [] [] [] [] []) [] = None.
Proof. vm_compute. auto. Qed.

Example C15_ex_numerals :
  numeral [45;48] = Some (0%Z, O) /\                       (* "-0" *)
  numeral [49;46;53;48] = Some (150%Z, 2%nat) /\           (* "1.50" *)
  numeral [46;53] = None /\ numeral [53;46] = None /\       (* ".5", "5." *)
  numeral [49;101;51] = None /\                            (* "1e3" *)
  numeral [45;43;49] = None /\                             (* "-+1" is rejected when short ... *)
  numeral ([45;43] ++ repeat 49 40) <> None /\             (* ... but accepted when longer than 41 bytes *)
  num_cmp (150%Z, 2%nat) (15%Z, 1%nat) = Eq.
Proof. vm_compute. repeat split; discriminate. Qed.

Example C15_ex_marshal_small :
  small (marshal (Node s_and [] [] [] [] [Node [] [97] s_in [] [[]; [120]] []; Node [] [98] s_ex [] [] []])).
Proof. unfold small. vm_compute. reflexivity. Qed.

Example C15_ex_marshal_distinguishes :      (* Vals [""] versus no Vals; a leaf versus the same leaf under "and" *)
  marshal (Node [] [97] s_in [] [[]] []) <> marshal (Node [] [97] s_in [] [] []) /\
  marshal (Node s_and [] [] [] [] [Node [] [97] s_ex [] [] []]) <> marshal (Node [] [97] s_ex [] [] []).
Proof. vm_compute. split; discriminate. Qed.
