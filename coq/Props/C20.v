(* C20 Memory map broker implements the map-state specification.
   Property theorems only; proofs live in Proofs/MapRefine*.v, MapSweep.v,
   MapExpiry*.v and MapCorollaries.v. *)
From Coq Require Import List NArith ZArith Bool.
From Cfg Require Import Model.MapHub Model.MapSpec Proofs.MapBase Proofs.MapExpiry Proofs.MapSweep Proofs.MapCorollaries Proofs.MapRetention.
Import ListNotations.
Open Scope N_scope.

(* For ALL channel configurations and ALL sequences of publish (every subset
   of idempotency / version / key mode / CAS / TTL refresh / delta options),
   remove, clear, read-state, read-stream, clock advances, StreamTTL / MetaTTL
   sweep iterations and whole key-expiry sweeps, everything the model of the memory map broker returns and
   broadcasts, operation by operation, is what the reference map
   (Model/MapSpec.v: state = fold of the unsuppressed operations, full log,
   checks decided in the order version, key mode, CAS, one log entry and one
   broadcast per accepted operation of a stream-backed channel, expiry in
   deadline order) returns and broadcasts. *)
(* [seq_op] = every operation except the two atomic phases of the key sweep (their
   interleavings are C24): it includes one iteration of the StreamTTL sweeper
   (OExpireStreams) and of the MetaTTL sweeper (ORemoveChannels), whose heap + loop are
   proved to expire exactly the channels whose stream / metadata deadline has passed. *)
Theorem C20_refines :
  forall cfgs ops, forallb seq_op ops = true ->
    run_obs cfgs hub0 ops = spec_obs cfgs sstate0 ops.
Proof. exact refines_all. Qed.
Print Assumptions C20_refines.

(* Check order on the model, for every state: the reason returned by
   mapHub.add is that of the first failing check among version, key mode,
   compare-and-swap (so a stale version wins over a key-mode failure, which
   wins over a position mismatch), and RNone iff all three pass. *)
Theorem C20_check_order :
  forall cf h ch k o h1 c h' p pp r tp,
    add_ensure cf h ch = (h1, c) -> add cf h ch k o = (h', p, pp, r, tp) ->
    let cur := aget key_eqb (c_state c) k in
    let ep := s_epoch (c_stream c) in
    (forall r1, chk_version cf k (po_ver o) (po_vep o) cur = Some r1 -> r = RVersion) /\
    (forall r2, chk_version cf k (po_ver o) (po_vep o) cur = None -> chk_keymode k (po_mode o) cur = Some r2 -> r = r2) /\
    (forall r3, chk_version cf k (po_ver o) (po_vep o) cur = None -> chk_keymode k (po_mode o) cur = None ->
                chk_cas ep k (po_exp o) cur = Some r3 -> r = RMismatch) /\
    (chk_version cf k (po_ver o) (po_vep o) cur = None -> chk_keymode k (po_mode o) cur = None ->
     chk_cas ep k (po_exp o) cur = None -> r = RNone).
Proof. exact check_order. Qed.
Print Assumptions C20_check_order.

(* A suppressed publish changes nothing a client can observe: no broadcast,
   every channel's retained stream and top offset are the same, every key has
   the same publication / version (the only permitted effect is the documented
   keep-alive: with RefreshTTLOnSuppress a key_exists suppression moves the
   deadline of the existing entry; otherwise entries are identical). *)
Theorem C20_suppressed_publish_changes_nothing :
  forall cfgs h ch k o h' p r cur,
    publish cfgs h ch k o = (h', URes p true r cur) ->
    unchanged h h' /\ (r <> RKeyExists \/ po_refresh o = false -> same_entries h h').
Proof. exact publish_suppressed_unchanged. Qed.
Print Assumptions C20_suppressed_publish_changes_nothing.

(* A suppressed remove leaves the whole broker state untouched. *)
Theorem C20_suppressed_remove_changes_nothing :
  forall cfgs h ch k o h' p r cur, remove cfgs h ch k o = (h', URes p true r cur) -> h' = h.
Proof. exact remove_suppressed_unchanged. Qed.
Print Assumptions C20_suppressed_remove_changes_nothing.

(* An unsuppressed publish is broadcast exactly once; on a stream-backed
   channel it appends exactly one stream entry whose offset is the previous
   top + 1, and result position, stream entry, state entry and broadcast carry
   that same offset; other channels and other keys are untouched. *)
Theorem C20_accepted_publish_one_entry_one_broadcast :
  forall cfgs h ch k o h' p r cur cf,
    publish cfgs h ch k o = (h', URes p false r cur) -> cfg_of cfgs ch = CfgOk cf ->
    r = RNone /\ cur = None /\
    exists q prev,
      h_bcast h' = h_bcast h ++ [mkBc ch q p (po_delta o) prev] /\
      p_key q = k /\ p_removed q = false /\ p_data q = po_data o /\
      (forall i, i <> ch -> items_at h' i = items_at h i /\ top_at h' i = top_at h i) /\
      (forall i k', (i, k') <> (ch, k) -> vis_at h' i k' = vis_at h i k') /\
      (k <> [] -> exists ver vep, vis_at h' ch k = Some (q, ver, vep)) /\
      (has_stream (cf_mode cf) = true ->
         p_off q = fst p /\ fst p = top_at h ch + 1 /\ top_at h' ch = fst p /\
         items_at h' ch = skipn (length (items_at h ch ++ [q]) - N.to_nat (cf_size cf)) (items_at h ch ++ [q])) /\
      (has_stream (cf_mode cf) = false -> items_at h' ch = items_at h ch /\ top_at h' ch = top_at h ch).
Proof. exact publish_accepted. Qed.
Print Assumptions C20_accepted_publish_one_entry_one_broadcast.

Theorem C20_accepted_remove_one_entry_one_broadcast :
  forall cfgs h ch k o h' p r cur cf,
    remove cfgs h ch k o = (h', URes p false r cur) -> cfg_of cfgs ch = CfgOk cf ->
    r = RNone /\ cur = None /\
    exists q e,
      h_bcast h' = h_bcast h ++ [mkBc ch q p false None] /\ entry_at h ch k = Some e /\
      p_key q = k /\ p_removed q = true /\
      (forall i, i <> ch -> items_at h' i = items_at h i /\ top_at h' i = top_at h i) /\
      (forall i k', entry_at h' i k' = if ck_eqb (i, k') (ch, k) then None else entry_at h i k') /\
      (has_stream (cf_mode cf) = true ->
         p_off q = fst p /\ fst p = top_at h ch + 1 /\ top_at h' ch = fst p /\
         items_at h' ch = skipn (length (items_at h ch ++ [q]) - N.to_nat (cf_size cf)) (items_at h ch ++ [q])) /\
      (has_stream (cf_mode cf) = false -> items_at h' ch = items_at h ch /\ top_at h' ch = top_at h ch).
Proof. exact remove_accepted. Qed.
Print Assumptions C20_accepted_remove_one_entry_one_broadcast.

(* ---- non-vacuity: concrete runs hitting every suppress reason, expiry, and
   both suppressed / accepted outcomes ---- *)
Definition ex_cfgs := [mkRaw 3 0 2 0 0 true; mkRaw 2 2 3 0 0 false].
Definition ex_po (data ver : N) (m : kmode) (exp : option pos) := mkPO 0 0 data None false ver 0 0%Z m false exp.

Example C20_ex_check_order :
  map fst (run_obs ex_cfgs hub0
    [OPublish 0 [97] (ex_po 1 5 KReplace None);
     OPublish 0 [97] (ex_po 2 3 KIfNew (Some (9, 1)));       (* stale version + key exists + bad CAS *)
     OPublish 0 [97] (ex_po 3 0 KIfNew (Some (9, 1)));       (* key exists + bad CAS *)
     OPublish 0 [97] (ex_po 4 0 KReplace (Some (9, 1)));     (* bad CAS *)
     OPublish 0 [97] (ex_po 5 0 KReplace (Some (1, 1)))])    (* accepted *)
  = [RUpd (URes (1, 1) false RNone None);
     RUpd (URes (1, 1) true RVersion None);
     RUpd (URes (1, 1) true RKeyExists None);
     RUpd (URes (1, 1) true RMismatch (Some (1, 1)));
     RUpd (URes (2, 1) false RNone None)].
Proof. vm_compute. reflexivity. Qed.

Example C20_ex_expiry :
  map fst (run_obs ex_cfgs hub0
    [OPublish 1 [97] (ex_po 1 0 KReplace None); OAdvance 2; OSweep;
     OReadState 1 None [] (-1)%Z [] false; OReadStream 1 None (-1)%Z false])
  = [RUpd (URes (1, 1) false RNone None); RUnit; RUnit;
     RState (StOk [] (2, 1) []);
     RStream (SOk [mkPub [97] 1 1 None false 0%Z; mkPub [97] 2 0 None true 0%Z] (2, 1))].
Proof. vm_compute. reflexivity. Qed.

(* retention half, non-vacuity: a stream expires (entries gone, offsets and epoch stay),
   then the metadata expires (fresh epoch) *)
Example C20_ex_retention :
  map fst (run_obs [mkRaw 2 2 3 1 2 false] hub0
    [OPublish 0 [97] (ex_po 1 0 KReplace None); OAdvance 1; OExpireStreams; ORemoveChannels;
     OReadStream 0 None (-1)%Z false; OPublish 0 [98] (ex_po 2 0 KReplace None);
     OReadStream 0 None (-1)%Z false; OAdvance 2; OExpireStreams; ORemoveChannels;
     OReadState 0 None [] (-1)%Z [] false])
  = [RUpd (URes (1, 1) false RNone None); RUnit; RUnit; RUnit;
     RStream (SOk [] (1, 1)); RUpd (URes (2, 1) false RNone None);
     RStream (SOk [mkPub [98] 2 2 None false 0%Z] (2, 1)); RUnit; RUnit; RUnit;
     RState (StOk [] (0, 2) [])].
Proof. vm_compute. reflexivity. Qed.
