(* C27 Server-side operations act the same from any node.
   Property theorems only; proofs in Proofs/Control.v; inventories regenerated from
   options.go / node.go on every run (Gen/ControlMap.v, translators/gen_controlmap.py). *)
From Coq Require Import List String NArith Bool.
From Cfg Require Import Model.Control Proofs.Control.
Import ListNotations.
Open Scope string_scope.

(* For ANY field inventories: an option field reaches the receiving node unchanged for ALL
   option values exactly when it is written into the control message and restored from
   that same message field... *)
Theorem C27_roundtrip_iff :
  forall m f, carried_b m f = true <-> forall o, roundtrip m o f = o f.
Proof. exact roundtrip_iff. Qed.
Print Assumptions C27_roundtrip_iff.

(* ... and otherwise there is a concrete option value the remote node does not see. *)
Theorem C27_lost_field_refuted :
  forall m f, carried_b m f = false -> exists o, roundtrip m o f <> o f.
Proof. exact lost_refuted. Qed.
Print Assumptions C27_lost_field_refuted.

(* Node.Unsubscribe / Disconnect / Refresh: EVERY option a caller can set (every With*
   setter of options.go) is carried, for all option values. *)
Theorem C27_unsubscribe_options :
  forall s f, In (s, f) unsub_setters -> forall o, roundtrip unsub_map o f = o f.
Proof. exact (all_carried unsub_map unsub_ok). Qed.
Print Assumptions C27_unsubscribe_options.

Theorem C27_disconnect_options :
  forall s f, In (s, f) disc_setters -> forall o, roundtrip disc_map o f = o f.
Proof. exact (all_carried disc_map disc_ok). Qed.
Print Assumptions C27_disconnect_options.

Theorem C27_refresh_options :
  forall s f, In (s, f) refresh_setters -> forall o, roundtrip refresh_map o f = o f.
Proof. exact (all_carried refresh_map refresh_ok). Qed.
Print Assumptions C27_refresh_options.

(* Node.Subscribe: full statement "forall s f, In (s, f) sub_setters -> forall o,
   roundtrip sub_map o f = o f" is FALSE on the current tree; proved for every settable
   field outside the reported ones ... *)
Theorem C27_subscribe_options_partial :
  forall s f, In (s, f) sub_setters -> ~ In f known_lost_sub ->
              forall o, roundtrip sub_map o f = o f.
Proof. exact (carried_except sub_map known_lost_sub sub_ok_except). Qed.
Print Assumptions C27_subscribe_options_partial.

(* ... every field the inventories show as lost is refuted constructively ... *)
Theorem C27_subscribe_lost_refuted :
  forall f, In f (lost sub_map) -> exists o, roundtrip sub_map o f <> o f.
Proof. exact (lost_all_refuted sub_map). Qed.
Print Assumptions C27_subscribe_lost_refuted.

(* ... and no lost field is outside the reported list (a new one breaks this theorem). *)
Theorem C27_subscribe_lost_are_known : incl (lost sub_map) known_lost_sub.
Proof. exact (lost_incl sub_map known_lost_sub sub_lost_known). Qed.
Print Assumptions C27_subscribe_lost_are_known.

Theorem C27_inventories_nonempty :
  Nat.leb 8 (List.length (cm_setters sub_map)) && Nat.leb 4 (List.length (cm_setters unsub_map)) &&
  Nat.leb 4 (List.length (cm_setters disc_map)) && Nat.leb 4 (List.length (cm_setters refresh_map)) &&
  Nat.leb 8 (List.length (cm_encoded sub_map)) && Nat.leb 8 (List.length (cm_decoded sub_map)) = true.
Proof. exact inventories_nonempty. Qed.
Print Assumptions C27_inventories_nonempty.

(* Non-vacuity on a hand-written inventory: both outcomes. *)
Definition ex_map := mkCallmap [("WithA", "a"); ("WithB", "b"); ("WithC", "c")] [("a", "A"); ("c", "C")] [("A", "a"); ("C", "c")]
  [("A", "nonnil"); ("C", "value:cmd.C > 0")].
Example C27_ex_carried : carried_b ex_map "a" = true. Proof. reflexivity. Qed.
Example C27_ex_lost : lost ex_map = ["b"; "c"]. Proof. reflexivity. Qed.   (* b: not transmitted; c: value-guarded by the receiver *)
