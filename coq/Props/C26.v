(* C26 Broker subscription tracks local interest.
   Property theorems only; proofs live in Proofs/SubBroker*.v.
   Model: Model/SubLifecycle.v.  [subscribers s c] = Hub.NumSubscribers(c) > 0 (this
   connection's entry or another connection's), [slock s c] = a subLock(c) section is in
   flight (hub add awaiting Broker.Subscribe, or a dissolver job awaiting Broker.Unsubscribe),
   [bsub s c] = the node is subscribed to c in the broker, [jobs s] = the dissolver queue.
   These theorems hold for ALL schedules, wait-gate timeouts, broker failures and failed
   (re-queued) dissolver jobs included. *)
From Coq Require Import List NArith ZArith Bool.
From Cfg Require Import Model.SubLifecycle Proofs.SubBroker Proofs.SubBrokerStep.
Import ListNotations.
Open Scope N_scope.

(* Whenever the node has a local subscriber of c and no subLock(c) section is in flight,
   the node is broker-subscribed to c. *)
Theorem C26_safety :
  forall sched s c,
    exec sched init = Some s -> slock s c = false -> subscribers s c = true -> bsub s c = true.
Proof. exact broker_safety. Qed.
Print Assumptions C26_safety.

(* A broker subscription without local subscribers always has its deferred unsubscribe queued. *)
Theorem C26_deferred :
  forall sched s c,
    exec sched init = Some s -> slock s c = false -> bsub s c = true -> subscribers s c = false ->
    In c (jobs s).
Proof. exact broker_deferred. Qed.
Print Assumptions C26_deferred.

(* Once operations have settled and the deferred work has drained (fairness: failed jobs are
   re-queued and the queue is eventually empty), broker-subscribed = has local subscribers. *)
Theorem C26_settled :
  forall sched s,
    exec sched init = Some s -> settled s -> jobs s = [] ->
    forall c, bsub s c = subscribers s c.
Proof. exact broker_settled. Qed.
Print Assumptions C26_settled.

(* Non-vacuity: a delayed unsubscribe job that fires after a re-subscribe finds the
   subscriber and leaves the broker subscription in place; a later last-unsubscribe job
   removes it. *)
Fixpoint rep (n : nat) (l : label) : list label := match n with O => [] | S m => l :: rep m l end.
Definition o0 := mkOpts false false.
Definition job_race : list label :=
  [LSpawn OConnect] ++ rep 9 (LStep 0 true) ++
  [LSpawn (OSubSrv 0 o0)] ++ rep 9 (LStep 2 true) ++       (* first subscriber: broker subscribe *)
  [LSpawn (OUnsubSrv 0)] ++ rep 7 (LStep 4 true) ++        (* last unsubscribe: job queued *)
  [LSpawn (OSubSrv 0 o0)] ++ rep 8 (LStep 6 true) ++       (* re-subscribe before the job runs *)
  [LJobStart 0].                                           (* the job re-checks NumSubscribers *)

Example C26_job_finds_subscriber :
  exists s, exec job_race init = Some s /\ subscribers s 0 = true /\ bsub s 0 = true /\
            jobs s = [] /\ slock s 0 = false.
Proof.
  destruct (exec job_race init) as [s|] eqn:E; [|vm_compute in E; discriminate].
  exists s. split; auto. vm_compute in E. inversion E; subst. vm_compute. repeat split; reflexivity.
Qed.

Definition job_unsub : list label :=
  [LSpawn OConnect] ++ rep 9 (LStep 0 true) ++
  [LSpawn (OSubSrv 0 o0)] ++ rep 9 (LStep 2 true) ++
  [LSpawn (OUnsubSrv 0)] ++ rep 7 (LStep 4 true) ++
  [LJobStart 0; LStep 1 false; LJobStart 0; LStep 3 true].  (* Broker.Unsubscribe fails once, then succeeds *)

Example C26_job_unsubscribes :
  exists s, exec job_unsub init = Some s /\ subscribers s 0 = false /\ bsub s 0 = false /\ jobs s = [].
Proof.
  destruct (exec job_unsub init) as [s|] eqn:E; [|vm_compute in E; discriminate].
  exists s. split; auto. vm_compute in E. inversion E; subst. vm_compute. repeat split; reflexivity.
Qed.
