(* C05 Nothing of a connection survives its end.
   Property theorems only; proofs live in Proofs/SubAtRest.v (close-coverage invariant
   Proofs/SubCloseInv.v, lock-holder invariant Proofs/SubLocks.v, presence-owner invariant
   Proofs/SubPresInv.v, routing invariant Proofs/SubRoute*.v), Proofs/SubGauges.v, Proofs/SubClose.v.
   Model: Model/SubLifecycle.v.

   Full statement wanted by the property text:
     forall sched s, exec sched init = Some s -> settled s -> status s = Closed ->
       (forall c, lookup c (chans s) = None /\ hub s c = None /\ pres s c = false) /\
       reg s = false /\ gconn s = 0 /\ (forall c, gsub s c = Z.of_N (others s c)).
   PROVED for every schedule without the 5 s wait-gate timeout
   (C05_nothing_remains_after_close_partial; the suffix names the one excluded label, LTimeout).
   For schedules WITH the timeout it is FALSE on the faithful model and on the implementation
   (C05_leak_after_gate_timeout_refuted, replayed by the driver's schedule 0; recorded finding
   C05-genstamp-after-gate-timeout).  The gauge part holds for ALL schedules.
   Map / keyed / shared-poll state is outside the model. *)
From Coq Require Import List NArith ZArith Bool.
From Cfg Require Import Model.SubLifecycle Proofs.SubGauges Proofs.SubClose Proofs.SubAtRest.
Import ListNotations.
Open Scope N_scope.

(* At every reachable state the connection gauge counts exactly the hub registration and the
   subscription gauge (per channel share) exactly the hub entries: when registration and
   routing entries are gone the gauges are back to their prior values. *)
Theorem C05_gauges_track_registry :
  forall sched s,
    exec sched init = Some s ->
    gconn s = (if reg s then 1 else 0)%Z /\
    forall c, gsub s c = (hub1 s c + Z.of_N (others s c))%Z.
Proof. exact gauges_all. Qed.
Print Assumptions C05_gauges_track_registry.

(* Once the connection is closed and every operation has run to completion: no context
   (committed or reserved) in c.channels, no hub routing entry, no hub registration
   (clients/users/sessions are one flag in the model), no presence entry added for it, and
   both gauges back at their prior values.  Every schedule without the wait-gate timeout. *)
Theorem C05_nothing_remains_after_close_partial :
  forall sched s,
    no_timeout sched = true -> exec sched init = Some s -> settled s -> status s = Closed ->
    (forall c, lookup c (chans s) = None /\ hub s c = None /\ pres s c = false) /\
    reg s = false /\ gconn s = 0%Z /\ (forall c, gsub s c = Z.of_N (others s c)).
Proof. exact closed_settled_clean. Qed.
Print Assumptions C05_nothing_remains_after_close_partial.

(* After the wait-gate timeout a stalled subscribe can commit a FRESH attempt's reservation
   (subscribeCmd re-reads the generation from c.channels); the fresh attempt's rollback then
   deletes the committed context without teardown: a presence entry survives the close and the
   established subscription ends without OnUnsubscribe.  Natural gates only. *)
Theorem C05_leak_after_gate_timeout_refuted :
  exists sched s, exec sched init = Some s /\ all_finished s = true /\ status s = Closed /\
                  pres s 0 = true /\ In (EvCommit 2 0 2 false) (trace s) /\ filter is_unsubcb (trace s) = [].
Proof. exact genstamp_leak_refuted. Qed.
Print Assumptions C05_leak_after_gate_timeout_refuted.
