(* C05 Nothing of a connection survives its end.
   Property theorems only; proofs live in Proofs/SubGauges.v, Proofs/SubClose.v (and the routing
   theorems of C04).  Model: Model/SubLifecycle.v.

   Full statement wanted by the property text (kept visible):
     forall sched s, exec sched init = Some s -> settled s -> status s = Closed ->
       (forall c, lookup c (chans s) = None /\ hub s c = None /\ pres s c = false) /\
       reg s = false /\ gconn s = 0 /\ (forall c, gsub s c = Z.of_N (others s c)).
   It is FALSE on the faithful model and on the implementation when the 5 s wait-gate timeout
   fires (C05_leak_after_gate_timeout_refuted, replayed by the driver's schedule 0).  Proved: the
   gauge part for ALL schedules; the rest is covered by the correspondence and the oracle only
   (map / keyed / shared-poll state is outside the model). *)
From Coq Require Import List NArith ZArith Bool.
From Cfg Require Import Model.SubLifecycle Proofs.SubGauges Proofs.SubClose.
Import ListNotations.
Open Scope N_scope.

(* At every reachable state the connection gauge counts exactly the hub registration and the
   subscription gauge (per channel share) exactly the hub entries: when registration and
   routing entries are gone the gauges are back to their prior values. *)
Theorem C05_gauges_track_registry :
  forall sched s,
    exec sched init = Some s ->
    gconn s = (if reg s then 1 else 0)%Z /\
    forall c, gsub s c = (hub1 s c + Z.of_N (others s c))%Z.
Proof. exact gauges_all. Qed.
Print Assumptions C05_gauges_track_registry.

(* After the wait-gate timeout a stalled subscribe can commit a FRESH attempt's reservation
   (subscribeCmd re-reads the generation from c.channels); the fresh attempt's rollback then
   deletes the committed context without teardown: a presence entry survives the close and the
   established subscription ends without OnUnsubscribe.  Natural gates only. *)
Theorem C05_leak_after_gate_timeout_refuted :
  exists sched s, exec sched init = Some s /\ all_finished s = true /\ status s = Closed /\
                  pres s 0 = true /\ In (EvCommit 2 0 2 false) (trace s) /\ filter is_unsubcb (trace s) = [].
Proof. exact genstamp_leak_refuted. Qed.
Print Assumptions C05_leak_after_gate_timeout_refuted.
