(* C10 Channel pushes are bracketed by the subscription's start and end.
   Property theorems only; proofs live in Proofs/Bracket.v (+ Proofs/Positioned*.v).

   Model: Model/Positioned.v (one connection / one channel / one subscription attempt,
   client subscribe command, server-side Client.Subscribe or connect-time server-side
   subscription, positioned or not, joins and
   leaves, publications with and without offset, optional per-channel batching).
   Specification: Model/BracketSpec.v -- over the decoded transport log only:
     AfterStart l : every publication / join / leave push has the subscribe reply or
                    subscribe push somewhere before it;
     BeforeEnd l  : no such push follows the unsubscribe reply / unsubscribe push / disconnect.
   All theorems quantify over ALL schedules (lists of labels).  The property as stated is
   FALSE for the code as it stands on three paths (refutations below, each replayed on the
   real implementation by the C10 driver); what does hold for all schedules is proved, and
   the full "after start" half is proved for the model of the proposed one-line patch of
   the client path (c_fix_off0). *)
From Coq Require Import List NArith Bool.
From Cfg Require Import Model.Merge Model.Positioned Model.PositionedSpec Model.BracketSpec
  Proofs.PositionedLib Proofs.Positioned Proofs.PositionedEnd Proofs.Bracket.
Import ListNotations.
Open Scope N_scope.

(* ---- "none after the end": holds without per-channel batching, every variant ---- *)
Theorem C10_before_end : forall c ls s,
  c_batch c = false -> run c init ls = Some s -> BeforeEnd (log s).
Proof. intros. apply before_end_spec. eapply c10_no_push_after_end; eauto. Qed.
Print Assumptions C10_before_end.

(* ... and is REFUTED with per-channel batching (perChannelWriter.Add after delWriter) *)
Theorem C10_before_end_refuted_batching :
  exists s, run cfg_c init sched_c = Some s /\ ~ C10Spec (log s).
Proof. exact c10_refuted_batch_after_unsub. Qed.
Print Assumptions C10_before_end_refuted_batching.

(* ---- "none before the start" ---- *)

(* client subscribe command ([client_like c] with c_var c = VClient), code as it stands: joins, leaves and publications that carry
   an offset never precede the subscribe reply (positioned or not) ... *)
Theorem C10_client_after_start_partial : forall c ls s,
  client_like c = true -> c_fix_off0 c = false -> c_batch c = false ->
  run c init ls = Some s -> no_real_push_before_start (log s) = true.
Proof. exact c10_client_after_start_real. Qed.
Print Assumptions C10_client_after_start_partial.

(* ... but publications WITHOUT offset do (writePublication's Offset == 0 branch performs
   no subscription check and the hub entry exists before the reply is written) *)
Theorem C10_client_after_start_refuted_offset0 :
  exists s, run cfg_a init sched_a = Some s /\ ~ C10Spec (log s).
Proof. exact c10_refuted_offset0. Qed.
Print Assumptions C10_client_after_start_refuted_offset0.

(* with the proposed patch (Offset == 0 branch checks flagSubscribed) the full statement
   holds on the client path -- and on the server-side path once Client.Subscribe writes its
   push before the commit ([client_like c]: c_var = VClient, or VServer with c_fix_srvorder) *)
Theorem C10_client_after_start_patched : forall c ls s,
  client_like c = true -> c_fix_off0 c = true -> c_batch c = false ->
  run c init ls = Some s -> AfterStart (log s).
Proof. intros. apply after_start_spec. eapply c10_client_after_start_patched; eauto. Qed.
Print Assumptions C10_client_after_start_patched.

(* connect-time server-side subscriptions (ConnectReply.Subscriptions; [c_var c = VConnect] is
   [client_like]: the subscribe result travels in the connect reply, written before the commit):
   the same partial statement holds ... *)
Theorem C10_connect_after_start_partial : forall c ls s,
  c_var c = VConnect -> c_fix_off0 c = false -> c_batch c = false ->
  run c init ls = Some s -> no_real_push_before_start (log s) = true.
Proof.
  intros c ls s Hv. apply c10_client_after_start_real. unfold client_like. rewrite Hv. reflexivity.
Qed.
Print Assumptions C10_connect_after_start_partial.

(* ... and the same refutation: an offset-less publication reaches the transport between the
   hub registration inside connectCmd and the connect reply *)
Theorem C10_connect_after_start_refuted_offset0 :
  exists s, run (mkCfg VConnect false false 0 0 true false false false false false false) init sched_a = Some s
            /\ ~ C10Spec (log s).
Proof. apply c10_refute. vm_compute. reflexivity. Qed.
Print Assumptions C10_connect_after_start_refuted_offset0.

(* server-side Client.Subscribe as it stands ([client_like c = false]: VServer, commit before push): only positioned publications are held back until the
   subscribe push (they sit behind the locked recovery buffer) ... *)
Theorem C10_server_after_start_partial : forall c ls s,
  client_like c = false -> c_pos c = true -> c_batch c = false ->
  run c init ls = Some s -> no_pos_pub_before_start (log s) = true.
Proof. exact c10_server_after_start_positioned. Qed.
Print Assumptions C10_server_after_start_partial.

(* ... joins / leaves, and every publication of a non-positioned channel, can overtake it:
   the subscription is committed (flagSubscribed) before the push is enqueued *)
Theorem C10_server_after_start_refuted_join :
  exists s, run cfg_b init sched_b = Some s /\ ~ C10Spec (log s).
Proof. exact c10_refuted_server_join. Qed.
Print Assumptions C10_server_after_start_refuted_join.
Theorem C10_server_after_start_refuted_pub :
  exists s, run cfg_b2 init sched_b2 = Some s /\ ~ C10Spec (log s).
Proof. exact c10_refuted_server_pub. Qed.
Print Assumptions C10_server_after_start_refuted_pub.

Example C10_client_like_client : forall p r s e j a b bt o f1 f2, client_like (mkCfg VClient p r s e j a b bt o f1 f2) = true.
Proof. reflexivity. Qed.
Example C10_client_like_server_patched : forall p r s e j a b bt o f2, client_like (mkCfg VServer p r s e j a b bt o true f2) = true.
Proof. reflexivity. Qed.
Example C10_client_like_server_current : forall p r s e j a b bt o f2, client_like (mkCfg VServer p r s e j a b bt o false f2) = false.
Proof. reflexivity. Qed.

(* ---- the oracle evaluated on the implementation's transport log is the specification ---- *)
Theorem C10_oracle_spec : forall l, c10_oracle l = true <-> C10Spec l.
Proof. exact c10_oracle_spec. Qed.
Print Assumptions C10_oracle_spec.

(* ---- non-vacuity: a run with joins and publications inside the bracket ---- *)
Example C10_reachable :
  option_map log (run (mkCfg VClient false false 0 0 true false false false false false false) init
    [LReserve; LStartBuf; LHubAdd; LHistRead; LMerge; LWriteReply; LCommit; LStopBuf;
     LJoinEv; LDeliver 0%nat false; LCheck; LEnqueue;
     LPublish false 100%nat; LDeliver 0%nat false; LSync; LCheck; LEnqueue;
     LUnsub UClient; LUnsubHub; LUnsubOut; LLeaveEv; LDeliver 0%nat false])
  = Some [FSubReply false [] 0 0; FJoin; FPub (mkP 1 1 false); FUnsubReply].
Proof. vm_compute. reflexivity. Qed.
