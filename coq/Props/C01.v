(* C01 Positioned stream delivery is gap-free, duplicate-free and ordered.
   Property theorems only; proofs live in Proofs/Positioned*.v.

   Model: Model/Positioned.v, a labelled transition system of one connection / one channel /
   one subscription attempt (client command or server-side Client.Subscribe) against a broker
   stream with in-flight PUB/SUB tokens.  A schedule is a list of labels; every theorem
   below quantifies over ALL schedules, i.e. all interleavings of the subscribe thread's
   steps, the per-delivery steps (hub / Sync / CheckPosition / Enqueue), unsubscribe threads,
   publishes, and the faults: LDrop, LDup, reorder and delay (LDeliver takes ANY token at ANY
   time), lag flag, LClearHistory (trim), LEpochReset.
   Specification: Model/PositionedSpec.v (written over the transport log and the broker's
   ground truth only).

   Configuration flags c_fix_anchor / c_fix_srvpubs = false is the code as it stands;
   = true is the code with the two proposed patches.  [good c] = positioned, and whenever
   recovery is requested the patched reply construction is used. *)
From Coq Require Import List NArith Bool Sorting.Sorted.
From Cfg Require Import Model.Merge Model.Positioned Model.PositionedSpec Proofs.PositionedLib
  Proofs.Positioned Proofs.PositionedInv Proofs.PositionedEnd Proofs.PositionedRefute.
Import ListNotations.
Open Scope N_scope.

(* ---- general form ---- *)
Theorem C01_all_schedules : forall c ls s,
  good c -> run c init ls = Some s -> C01Spec (g_log s) (log s).
Proof. exact c01_all_schedules. Qed.
Print Assumptions C01_all_schedules.

(* ---- per subscribe variant ---- *)

(* client subscribe command, positioned, no recovery requested: THE CODE AS IT STANDS
   (patch flags arbitrary: they are not consulted on this path) *)
Theorem C01_client_positioned : forall since ep jl fa fs f0 f1 f2 ls s,
  run (mkCfg VClient true false since ep jl fa fs false f0 f1 f2) init ls = Some s -> C01Spec (g_log s) (log s).
Proof.
  intros. eapply c01_all_schedules; [|eassumption].
  split; [reflexivity|]. split; [intros; discriminate|]. split; [intros; discriminate|reflexivity].
Qed.
Print Assumptions C01_client_positioned.

(* server-side Client.Subscribe, positioned, no RecoverSince: the code as it stands *)
Theorem C01_server_positioned : forall since ep jl fa fs f0 f1 f2 ls s,
  run (mkCfg VServer true false since ep jl fa fs false f0 f1 f2) init ls = Some s -> C01Spec (g_log s) (log s).
Proof.
  intros. eapply c01_all_schedules; [|eassumption].
  split; [reflexivity|]. split; [intros; discriminate|]. split; [intros; discriminate|reflexivity].
Qed.
Print Assumptions C01_server_positioned.

(* connect-time server-side subscription (ConnectReply.Subscriptions), positioned, the client
   did not ask to recover it: the code as it stands *)
Theorem C01_connect_positioned : forall since ep jl fa fs f0 f1 f2 ls s,
  run (mkCfg VConnect true false since ep jl fa fs false f0 f1 f2) init ls = Some s -> C01Spec (g_log s) (log s).
Proof.
  intros. eapply c01_all_schedules; [|eassumption].
  split; [reflexivity|]. split; [intros; discriminate|]. split; [intros; discriminate|reflexivity].
Qed.
Print Assumptions C01_connect_positioned.

(* connect-time subscription recovered through ConnectRequest.Subs: the same reply
   construction as the client command, so patched holds / as it stands refuted *)
Theorem C01_connect_recover_patched : forall since ep jl fs f0 f1 f2 ls s,
  run (mkCfg VConnect true true since ep jl true fs false f0 f1 f2) init ls = Some s -> C01Spec (g_log s) (log s).
Proof.
  intros. eapply c01_all_schedules; [|eassumption].
  split; [reflexivity|]. split; [intros; reflexivity|]. split; [intros; discriminate|reflexivity].
Qed.
Print Assumptions C01_connect_recover_patched.
Theorem C01_connect_recover_refuted :
  exists s, run cfg_connect_recover init sched_client_drop = Some s /\ ~ C01Spec (g_log s) (log s).
Proof. exact c01_connect_recover_refuted. Qed.
Print Assumptions C01_connect_recover_refuted.

(* client subscribe command with recovery: holds for the PATCHED reply construction ... *)
Theorem C01_client_recover_patched : forall since ep jl fs f0 f1 f2 ls s,
  run (mkCfg VClient true true since ep jl true fs false f0 f1 f2) init ls = Some s -> C01Spec (g_log s) (log s).
Proof.
  intros. eapply c01_all_schedules; [|eassumption].
  split; [reflexivity|]. split; [intros; reflexivity|]. split; [intros; discriminate|reflexivity].
Qed.
Print Assumptions C01_client_recover_patched.

(* ... and is REFUTED for the code as it stands: by a PUB/SUB drop inside the subscribe
   window, and even without any lost message (a delayed PUB/SUB copy of a publication the
   client already has is sent again). Both witnesses were replayed on the implementation. *)
Theorem C01_client_recover_refuted_drop :
  exists s, run cfg_client_recover init sched_client_drop = Some s /\ ~ C01Spec (g_log s) (log s).
Proof. exact c01_client_recover_refuted_drop. Qed.
Print Assumptions C01_client_recover_refuted_drop.
Theorem C01_client_recover_refuted_delay :
  exists s, run cfg_client_recover init sched_client_delay = Some s /\ ~ C01Spec (g_log s) (log s).
Proof. exact c01_client_recover_refuted_delay. Qed.
Print Assumptions C01_client_recover_refuted_delay.

(* server-side Client.Subscribe with RecoverSince: holds with both patches ... *)
Theorem C01_server_recover_patched : forall since ep jl f0 f1 f2 ls s,
  run (mkCfg VServer true true since ep jl true true false f0 f1 f2) init ls = Some s -> C01Spec (g_log s) (log s).
Proof.
  intros. eapply c01_all_schedules; [|eassumption].
  split; [reflexivity|]. split; [intros; reflexivity|]. split; [intros; reflexivity|reflexivity].
Qed.
Print Assumptions C01_server_recover_patched.

(* ... and is REFUTED for the code as it stands by a fault-free schedule *)
Theorem C01_server_recover_refuted :
  exists s, run cfg_server_recover init sched_server = Some s /\ ~ C01Spec (g_log s) (log s).
Proof. exact c01_server_recover_refuted. Qed.
Print Assumptions C01_server_recover_refuted.

(* ---- "... it ends the subscription instead of delivering past the gap" ---- *)

(* consequence of the specification alone: an offset that was neither delivered nor
   withheld is never passed *)
Theorem C01_never_past_gap : forall glog l p0 r g,
  C01Spec glog l -> recv l = Some (p0, r) ->
  p0 < g -> ~ In g r -> ~ In g (withheld glog) -> forall o, In o r -> o < g.
Proof. exact spec_never_past_gap. Qed.
Print Assumptions C01_never_past_gap.

(* every configuration without per-channel batching (patched or not), every schedule: after the unsubscribe
   reply / unsubscribe push / disconnect no positioned publication is written *)
Theorem C01_no_pub_after_end : forall c ls s,
  c_batch c = false -> run c init ls = Some s -> no_pub_after_end (log s) = true.
Proof. exact c01_no_pub_after_end. Qed.
Print Assumptions C01_no_pub_after_end.

(* the three insufficient-state branches of CheckPosition (lag, epoch, gap) deliver
   nothing, keep the position and spawn the goroutine that ends the subscription ... *)
Theorem C01_detect_spawns : forall c s p lag pos pep,
  c_pos c = true -> ch s = Sub pos pep -> dl s = DPub p lag PCheck ->
  (lag = true \/ (pe p <> pep /\ pep <> 0) \/ (lag = false /\ pe p = pep /\ pos + 1 < po p)) ->
  exists s', step c s LCheck = Some s' /\ pending s' = S (pending s) /\ log s' = log s /\
             ch s' = ch s /\ dl s' = DIdle.
Proof. exact c01_detect_spawns. Qed.
Print Assumptions C01_detect_spawns.

(* ... which, when it runs, writes the insufficient-state unsubscribe (client-side
   subscription) or disconnect (server-side subscription).  That it eventually runs is a
   fairness assumption on the Go scheduler, not proved. *)
Theorem C01_pending_ends_client : forall c s n pos pep,
  c_var c = VClient -> pending s = S n -> up s = UIdle -> dl s = DIdle -> closed s = false ->
  ch s = Sub pos pep -> cw s = [] ->
  exists s', run c s [LUnsub UInsuff; LUnsubHub; LUnsubOut] = Some s' /\
             log s' = log s ++ [FUnsubPush code_unsub_insufficient] /\
             ch s' = NoCh /\ hub s' = false /\ pending s' = n.
Proof. exact c01_pending_ends_client. Qed.
Print Assumptions C01_pending_ends_client.
Theorem C01_pending_ends_server : forall c s n,
  insuff_disc c = true -> pending s = S n -> closed s = false -> cw s = [] ->
  exists s', step c s LAsyncDisc = Some s' /\
             log s' = log s ++ [FDisconnect code_disc_insufficient] /\ closed s' = true.
Proof. exact c01_pending_ends_server. Qed.
Print Assumptions C01_pending_ends_server.

(* ---- the oracle used on the implementation's transport log decides the specification ---- *)
Theorem C01_oracle_sound : forall glog l, c01_oracle glog l = true -> C01Spec glog l.
Proof. exact c01_oracle_sound. Qed.
Print Assumptions C01_oracle_sound.
Theorem C01_oracle_complete : forall glog l, C01Spec glog l -> c01_oracle glog l = true.
Proof. exact c01_oracle_complete. Qed.
Print Assumptions C01_oracle_complete.

(* ---- non-vacuity ---- *)
(* a schedule with recovery from history + buffer + live pushes + a filtered publication,
   patched model: the hypotheses of the theorems are reachable and deliver publications *)
Example C01_reachable_recover :
  option_map log (run (mkCfg VClient true true 1 1 false true false false false false false) init
    [P; P; P; D; D; D; LReserve; LStartBuf; LHubAdd; P; D; LSync; LHistRead; LPublish true 100%nat; D; LSync;
     LMerge; LWriteReply; LCommit; LStopBuf; P; D; LSync; LCheck; LEnqueue])
  = Some [FSubReply true [mkP 2 1 false; mkP 3 1 false; mkP 4 1 false] 1 1; FPub (mkP 6 1 false)].
Proof. vm_compute. reflexivity. Qed.
(* a live gap ends a client-side subscription with the insufficient-state unsubscribe *)
Example C01_reachable_gap :
  option_map log (run (mkCfg VClient true false 0 0 false false false false false false false) init
    [LReserve; LStartBuf; LHubAdd; LHistRead; LMerge; LWriteReply; LCommit; LStopBuf;
     P; P; LDrop 0%nat; D; LSync; LCheck; LUnsub UInsuff; LUnsubHub; LUnsubOut; P; D])
  = Some [FSubReply false [] 0 1; FUnsubPush 2500].
Proof. vm_compute. reflexivity. Qed.
