(* C01 Positioned stream delivery is gap-free, duplicate-free and ordered.
   Property theorems only; proofs live in Proofs/Positioned*.v. *)
From Coq Require Import List NArith Bool.
From Cfg Require Import Model.Merge Model.Positioned Model.PositionedSpec Proofs.PositionedLib Proofs.PositionedInv.
Import ListNotations.
Open Scope N_scope.

(* For ALL schedules (interleavings of the subscribe thread, deliveries, unsubscribes,
   publishes, and the PUB/SUB faults drop / dup / reorder-delay / lag / history clear /
   epoch reset) the transport log meets the specification -- for every subscription
   configuration in which recovery, when requested, goes through the anchored reply
   ([good]: positioned; patch flags on whenever c_rec). *)
Theorem C01_all_schedules : forall c ls s,
  good c -> run c init ls = Some s -> C01Spec (g_log s) (log s).
Proof. exact c01_all_schedules. Qed.
Print Assumptions C01_all_schedules.

Theorem C01_oracle_sound : forall glog l, c01_oracle glog l = true -> C01Spec glog l.
Proof. exact c01_oracle_sound. Qed.
Print Assumptions C01_oracle_sound.
