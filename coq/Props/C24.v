(* C24 Map key expiry removes each expired key exactly once.
   The sweep is two kinds of atomic action (OPhase1: collect candidates under
   the hub lock; OPhase2: re-validate and remove one candidate under
   pubLock(ch) -> hub lock) interleaved arbitrarily with publish, keep-alive,
   remove, clear, reads and clock advances.  A schedule is a list of labels;
   [run] executes it ([OPhase1]/[OPhase2] are no-ops when not enabled).
   Property theorems only; proofs live in Proofs/MapExpiry*.v, MapSchedule.v. *)
From Coq Require Import List NArith ZArith Bool.
From Cfg Require Import Model.MapHub Proofs.MapBase Proofs.MapExpiry Proofs.MapExpiry2
  Proofs.MapCorollaries Proofs.MapSchedule.
Import ListNotations.
Open Scope N_scope.

(* Over ALL schedules: the number of removal broadcasts of a key equals the
   number of times the key left the state other than by Clear - so a key
   removed or republished concurrently with its expiry is never removed twice
   and no removal is lost. *)
Theorem C24_removals_match_departures :
  forall cfgs sched ch k,
    rm_count (h_bcast (fst (run cfgs hub0 sched))) ch k = departures cfgs hub0 sched ch k.
Proof. intros. rewrite schedule_removals by apply Inv0. reflexivity. Qed.
Print Assumptions C24_removals_match_departures.

(* the same fact for one step from any state satisfying the tracking invariant *)
Theorem C24_step_removals :
  forall cfgs h o h' r, Inv h -> step cfgs h o = (h', r) ->
    exists new, h_bcast h' = h_bcast h ++ new /\
      forall ch k, rm_count new ch k = if departed h h' o ch k then 1%nat else 0%nat.
Proof. exact step_Eff. Qed.
Print Assumptions C24_step_removals.

(* The removal performed by Phase 2 is appended to the stream exactly once and
   broadcast with that offset (or nothing at all happens for a candidate whose
   entry is gone or carries another deadline). *)
Theorem C24_phase2_one_removal :
  forall h h', phase2 h = Some h' ->
  match h_pend h with
  | [] => False
  | ev :: rest =>
    h_pend h' = rest /\
    ((exists e q ps,
       entry_at h (ev_ch ev) (ev_key ev) = Some e /\ e_exp e = ev_exp ev /\
       (forall i k, entry_at h' i k = if ck_eqb (i, k) (ev_ch ev, ev_key ev) then None else entry_at h i k) /\
       h_bcast h' = h_bcast h ++ [mkBc (ev_ch ev) q ps false None] /\
       p_key q = ev_key ev /\ p_removed q = true /\ p_tags q = ev_tags ev /\
       (forall i, i <> ev_ch ev -> items_at h' i = items_at h i /\ top_at h' i = top_at h i) /\
       (0 < ev_size ev ->
          p_off q = top_at h (ev_ch ev) + 1 /\ fst ps = p_off q /\ top_at h' (ev_ch ev) = p_off q /\
          items_at h' (ev_ch ev) =
            skipn (length (items_at h (ev_ch ev) ++ [q]) - N.to_nat (ev_size ev)) (items_at h (ev_ch ev) ++ [q])) /\
       (ev_size ev = 0 -> items_at h' (ev_ch ev) = items_at h (ev_ch ev) /\ top_at h' (ev_ch ev) = top_at h (ev_ch ev))) \/
     ((forall e, entry_at h (ev_ch ev) (ev_key ev) = Some e -> e_exp e <> ev_exp ev) /\
      h_bcast h' = h_bcast h /\ (forall i k, entry_at h' i k = entry_at h i k) /\
      (forall i, items_at h' i = items_at h i /\ top_at h' i = top_at h i)))
  end.
Proof. exact phase2_removal. Qed.
Print Assumptions C24_phase2_one_removal.

(* The expiry bookkeeping is never lost, whatever the interleaving: in every
   reachable state each key with a deadline is recorded in keyExpires and
   waits in the queue or among the pending candidates with that deadline, and
   nextKeyExpireCheck does not overshoot the queue ([Inv]). *)
Theorem C24_tracking_invariant : forall cfgs sched, Inv (fst (run cfgs hub0 sched)).
Proof. exact reachable_Inv. Qed.
Print Assumptions C24_tracking_invariant.

(* A key refreshed before its deadline is not removed: whatever candidates
   are pending, no action of the sweep touches an entry whose current
   deadline is in the future (or absent) ... *)
Theorem C24_refreshed_kept :
  forall cfgs h o h' r, Inv h ->
    (o = OPhase1 \/ o = OPhase2 \/ o = OSweep) -> step cfgs h o = (h', r) ->
    forall ch k e, entry_at h ch k = Some e -> alive h e -> entry_at h' ch k = Some e.
Proof. exact sweep_keeps_alive. Qed.
Print Assumptions C24_refreshed_kept.

(* ... and an accepted publish or a keep-alive (suppressed if_new publish with
   RefreshTTLOnSuppress) gives the key the deadline now + KeyTTL. *)
Theorem C24_refresh_sets_deadline :
  forall cfgs h ch k o h' p s r c cf,
    publish cfgs h ch k o = (h', URes p s r c) -> cfg_of cfgs ch = CfgOk cf -> 0 < cf_keyttl cf -> k <> [] ->
    (s = false \/ (r = RKeyExists /\ po_refresh o = true)) ->
    h_now h' = h_now h /\ exists e, entry_at h' ch k = Some e /\ e_exp e = h_now h + cf_keyttl cf.
Proof. exact refresh_sets_deadline. Qed.
Print Assumptions C24_refresh_sets_deadline.

(* A key whose TTL elapsed without refresh is removed: from any reachable
   state without a sweep in flight, one sweep removes exactly the keys whose
   deadline has passed and leaves all others untouched (with
   C24_step_removals: one removal broadcast / stream entry each). *)
Theorem C24_expired_removed :
  forall cfgs h, Inv h -> h_pend h = [] ->
    exists h', step cfgs h OSweep = (h', RUnit) /\ h_pend h' = [] /\ Inv h' /\
      forall i k, entry_at h' i k =
        match entry_at h i k with
        | Some e => if expired_e (h_now h) e then None else Some e
        | None => None
        end.
Proof. exact quiescent_sweep_expires. Qed.
Print Assumptions C24_expired_removed.

(* ---- non-vacuity: the race of the property text ---- *)
Definition ex_cfgs := [mkRaw 2 2 3 0 0 false].
Definition ex_pub (d : N) := mkPO 0 0 d None false 0 0 0%Z KReplace false None.
Definition ex_keepalive (d : N) := mkPO 0 0 d None false 0 0 0%Z KIfNew true None.
Definition ex_rm := mkRO 0 0 None None.

(* key a expires; between the phases it is removed and republished: one
   removal (the explicit one), the republished key survives Phase 2 *)
Example C24_ex_republish_race :
  let h := fst (run ex_cfgs hub0
     [OPublish 0 [97] (ex_pub 1); OAdvance 3; OPhase1; ORemove 0 [97] ex_rm; OPublish 0 [97] (ex_pub 2); OPhase2]) in
  rm_count (h_bcast h) 0 [97] = 1%nat /\ present h 0 [97] = true /\ h_pend h = [].
Proof. vm_compute. auto. Qed.

(* keep-alive between the phases: no removal at all *)
Example C24_ex_keepalive_race :
  let h := fst (run ex_cfgs hub0
     [OPublish 0 [97] (ex_pub 1); OAdvance 3; OPhase1; OPublish 0 [97] (ex_keepalive 2); OPhase2]) in
  rm_count (h_bcast h) 0 [97] = 0%nat /\ present h 0 [97] = true.
Proof. vm_compute. auto. Qed.

(* no interference: exactly one removal, key gone *)
Example C24_ex_plain_expiry :
  let h := fst (run ex_cfgs hub0 [OPublish 0 [97] (ex_pub 1); OAdvance 3; OPhase1; OPhase2; OPhase2]) in
  rm_count (h_bcast h) 0 [97] = 1%nat /\ present h 0 [97] = false.
Proof. vm_compute. auto. Qed.
