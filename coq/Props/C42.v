(* C42 Buffer pools never hand out undersized or dirty buffers.
   Property theorems only; proofs live in Proofs/Pool.v. *)
From Coq Require Import List NArith ZArith Bool.
From Cfg Require Import Model.Pool Model.PoolSpec Proofs.Pool.
Import ListNotations.
Open Scope N_scope.

(* For ALL three pools (byte buffers, byte-slice lists, item buffers), ALL
   sequences of get / mutate / put with arbitrary lengths n >= 0, arbitrary
   caller mutations within Go's slice rules (writes, re-slicing up to cap,
   replacing the slice by any other one) and ALL choices of the underlying
   sync.Pool (any pooled element of the class, or none): every Get returns,
   without panic, a buffer with cap >= n that is empty (len = 0; item
   buffers: len = n and every visible slot zero). *)
Theorem C42_get_good :
  forall k ops n o, (0 <= n)%Z -> In (n, o) (outs k ops) -> good k n o.
Proof. exact outs_good. Qed.
Print Assumptions C42_get_good.

(* The pool invariant behind it: after any run every pooled buffer sits in an
   existing class idx with 2^idx <= cap, has len = 0, its non-zero slots lie
   inside the backing array, and pooled item buffers are entirely zero. *)
Theorem C42_pool_inv : forall k ops, Inv k (final_from k init ops).
Proof. exact pool_inv. Qed.
Print Assumptions C42_pool_inv.

(* Power-of-two indexing: Get rounds the length up to the smallest class that
   fits, Put rounds the capacity down to the largest class it can serve. *)
Theorem C42_next_log2_spec :
  forall k v, 1 <= v -> v <= maxlen k ->
    next_log2 k v < nclasses k /\ v <= 2 ^ next_log2 k v /\ (2 <= v -> 2 ^ (next_log2 k v - 1) < v).
Proof.
  intros k v H1 H2. split; [exact (next_log2_class k v H1 H2)|].
  split; [exact (next_log2_ge k v H1)|exact (next_log2_minimal k v)].
Qed.
Print Assumptions C42_next_log2_spec.

Theorem C42_prev_log2_spec :
  forall k c, 1 <= c -> c <= maxlen k ->
    prev_log2 k c < nclasses k /\ 2 ^ prev_log2 k c <= c /\ c < 2 ^ (prev_log2 k c + 1).
Proof.
  intros k c H1 H2. split; [exact (prev_log2_class k c H1 H2)|].
  split; [exact (prev_log2_le k c H1 H2)|exact (prev_log2_maximal k c H1 H2)].
Qed.
Print Assumptions C42_prev_log2_spec.

(* The oracle applied to implementation observations decides the spec. *)
Theorem C42_oracle_sound : forall k n o, good_b k n o = true <-> good k n o.
Proof. exact good_b_iff. Qed.
Print Assumptions C42_oracle_sound.

(* History: before /repo commit beefe1b7 putItemBuf cleared only B[0:len];
   with that Put the property is false (get 4; fill; B = B[:0]; put; get 4
   returns the stale items).  Found by this check, fixed in /repo. *)
Theorem C42_item_prefix_clear_refuted :
  exists s1 s2 o,
    get IB init 4 None = (s1, ObsBuf 4 4 None) /\
    get IB (put_item_prefix_clear (mutate (mutate s1 0 MFill) 0 (MReslice 0)) 0) 4 (Some 0) = (s2, o) /\
    ~ good IB 4 o.
Proof. exact item_prefix_clear_refuted. Qed.
Print Assumptions C42_item_prefix_clear_refuted.

(* Non-vacuity: reuse across classes; reuse of an item buffer that was put back re-sliced. *)
Example C42_reuse_bb :
  outs BB [OGet 5 None; OMut 0 (MReslice 3); OMut 0 MFill; OMut 0 (MSetNew 12 9 true); OPut 0;
           OGet 8 (Some 0); OGet 9 None]
  = [(5%Z, ObsBuf 8 0 None); (8%Z, ObsBuf 12 0 (Some 0)); (9%Z, ObsBuf 16 0 None)].
Proof. vm_compute. reflexivity. Qed.
Example C42_item_run :
  outs IB [OGet 3 None; OMut 0 (MReslice 4); OMut 0 (MWrite 3); OMut 0 (MReslice 3); OPut 0; OGet 4 (Some 0)]
  = [(3%Z, ObsBuf 4 3 None); (4%Z, ObsBuf 4 4 None)].
Proof. vm_compute. reflexivity. Qed.
Example C42_bs_keeps_hidden_slots :
  outs BS [OGet 4 None; OMut 0 (MReslice 4); OMut 0 MFill; OMut 0 (MReslice 1); OPut 0; OGet 3 (Some 0)]
  = [(4%Z, ObsBuf 4 0 None); (3%Z, ObsBuf 4 0 (Some 1))].
Proof. vm_compute. reflexivity. Qed.
Example C42_bb_negative_panics :
  outs BB [OGet (-4294967296) None] = [((-4294967296)%Z, ObsPanic)].
Proof. vm_compute. reflexivity. Qed.
