(* C42 Buffer pools never hand out undersized or dirty buffers.
   Property theorems only; proofs live in Proofs/Pool.v. *)
From Coq Require Import List NArith ZArith Bool.
From Cfg Require Import Model.Pool Model.PoolSpec Proofs.Pool.
Import ListNotations.
Open Scope N_scope.

(* For ALL three pools, ALL sequences of get / mutate / put with arbitrary
   lengths n >= 0, arbitrary caller mutations and ALL choices of the
   underlying sync.Pool (any pooled element of the class, or none): every Get
   returns without panic a buffer with cap >= n and the length contract
   (len = 0; item buffers: len = n). *)
Theorem C42_get_size_ok :
  forall k ops n o, (0 <= n)%Z -> In (n, o) (outs k ops) -> size_ok k n o.
Proof. exact outs_size_ok. Qed.
Print Assumptions C42_get_size_ok.

(* Byte buffers and byte-slice lists: the full property, unconditionally. *)
Theorem C42_bytes_good :
  forall k, k <> IB -> forall ops n o, (0 <= n)%Z -> In (n, o) (outs k ops) -> good k n o.
Proof. exact bytes_good. Qed.
Print Assumptions C42_bytes_good.

(* Item buffers: the full property holds for every run in which each Put is
   "covered" (all non-zero slots of the buffer lie below its length when it is
   put back) ... *)
Theorem C42_item_good_partial :
  forall ops, covered_from IB init ops = true ->
  forall n o, (0 <= n)%Z -> In (n, o) (outs IB ops) -> good IB n o.
Proof. exact item_good. Qed.
Print Assumptions C42_item_good_partial.

(* ... which is what writer.go's callers guarantee: they never reassign
   itemBuf.B and only write below len. *)
Theorem C42_item_writer_discipline :
  forall ops, forallb no_reslice_op ops = true -> covered_from IB init ops = true.
Proof. exact discipline_covered. Qed.
Print Assumptions C42_item_writer_discipline.

(* Full statement for item buffers ("regardless of what was previously
   returned to the pool"):
     forall ops n o, 0 <= n -> In (n,o) (outs IB ops) -> good IB n o
   is FALSE on the faithful model: putItemBuf clears only B[0:len]. *)
Theorem C42_item_dirty_refuted :
  exists ops n o, legal_from IB init ops = true /\ (0 <= n)%Z /\
                  In (n, o) (outs IB ops) /\ ~ good IB n o.
Proof. exact item_dirty_refuted. Qed.
Print Assumptions C42_item_dirty_refuted.

(* The pool invariant behind the above: after any run every pooled buffer sits
   in an existing class idx with 2^idx <= cap and has len = 0. *)
Theorem C42_pool_inv : forall k ops, Inv k (final_from k init ops).
Proof. exact pool_inv. Qed.
Print Assumptions C42_pool_inv.

(* Power-of-two indexing: Get rounds the length up to the smallest class that
   fits, Put rounds the capacity down to the largest class it can serve. *)
Theorem C42_next_log2_spec :
  forall k v, 1 <= v -> v <= maxlen k ->
    next_log2 k v < nclasses k /\ v <= 2 ^ next_log2 k v /\ (2 <= v -> 2 ^ (next_log2 k v - 1) < v).
Proof.
  intros k v H1 H2. split; [exact (next_log2_class k v H1 H2)|].
  split; [exact (next_log2_ge k v H1)|exact (next_log2_minimal k v)].
Qed.
Print Assumptions C42_next_log2_spec.

Theorem C42_prev_log2_spec :
  forall k c, 1 <= c -> c <= maxlen k ->
    prev_log2 k c < nclasses k /\ 2 ^ prev_log2 k c <= c /\ c < 2 ^ (prev_log2 k c + 1).
Proof.
  intros k c H1 H2. split; [exact (prev_log2_class k c H1 H2)|].
  split; [exact (prev_log2_le k c H1 H2)|exact (prev_log2_maximal k c H1 H2)].
Qed.
Print Assumptions C42_prev_log2_spec.

(* The oracle applied to implementation observations decides the spec. *)
Theorem C42_oracle_sound : forall k n o, good_b k n o = true <-> good k n o.
Proof. exact good_b_iff. Qed.
Print Assumptions C42_oracle_sound.

(* Non-vacuity: reuse across classes, and the refuting run. *)
Example C42_reuse_bb :
  outs BB [OGet 5 None; OMut 0 (MReslice 3); OMut 0 MFill; OMut 0 (MSetNew 12 9 true); OPut 0;
           OGet 8 (Some 0); OGet 9 None]
  = [(5%Z, ObsBuf 8 0 None); (8%Z, ObsBuf 12 0 (Some 0)); (9%Z, ObsBuf 16 0 None)].
Proof. vm_compute. reflexivity. Qed.
Example C42_covered_item_run :
  covered_from IB init [OGet 3 None; OMut 0 MFill; OPut 0; OGet 4 (Some 0)] = true /\
  outs IB [OGet 3 None; OMut 0 MFill; OPut 0; OGet 4 (Some 0)]
  = [(3%Z, ObsBuf 4 3 None); (4%Z, ObsBuf 4 4 None)].
Proof. vm_compute. split; reflexivity. Qed.
Example C42_dirty_item_run :
  outs IB dirty_witness = [(4%Z, ObsBuf 4 4 None); (4%Z, ObsBuf 4 4 (Some 0))].
Proof. vm_compute. reflexivity. Qed.
Example C42_bb_negative_panics :
  outs BB [OGet (-4294967296) None] = [((-4294967296)%Z, ObsPanic)].
Proof. vm_compute. reflexivity. Qed.
