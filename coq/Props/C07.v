(* C07 Join and leave events are paired and ordered.
   Property theorems only; proofs live in Proofs/SubJoin.v (over Model/SubLifecycle.v).
   Events of the trace carry ghost annotations: EvCommit t c g jl = thread t's
   commitSubscription installed generation g on channel c (jl = emits join/leave);
   EvJoin t c g = thread t called Broker.PublishJoin; EvJoinSkipped t c g = the server-side
   Client.Subscribe returned before its join because the subscribe push could not be enqueued.

   Full statement wanted by the property text (kept visible):
     every established join/leave subscription gets exactly one join, then, after it ends,
     exactly one leave, join before leave; nothing for failed attempts.
   On the faithful model (and on the implementation, see the known findings) the ORDER part and
   the "exactly one join" part for the server-side path are false: C07_order_refuted,
   C07_missing_join_refuted.  What is proved:
   - join side, for ALL schedules (timeouts, failures included);
   - leave side, for every schedule without the 5 s wait-gate timeout (suffix _partial = exactly
     that exclusion; with the timeout an established subscription can lose its context without
     teardown, finding C05/C08-genstamp-after-gate-timeout): exactly one leave, after the commit
     and after the removal of the context, for every established join/leave subscription that
     ended, none otherwise; and the leave comes after the join under the explicit hypothesis that
     excludes the recorded [leave, join] window (the context is not deleted between
     commitSubscription and PublishJoin).  Proofs/SubEnds.v. *)
From Coq Require Import List NArith ZArith Bool.
From Cfg Require Import Model.SubLifecycle Proofs.SubJoin Proofs.SubEnds.
Import ListNotations.
Open Scope N_scope.

(* No join for a failed or rolled-back attempt: a join is only ever published by the thread
   whose own commitSubscription succeeded for that channel and generation with join/leave
   emission, and after that commit. *)
Theorem C07_join_only_after_own_commit :
  forall sched s t c g,
    exec sched init = Some s -> In (EvJoin t c g) (trace s) ->
    exists l1 l2 l3, trace s = l1 ++ EvCommit t c g true :: l2 ++ EvJoin t c g :: l3.
Proof. exact commit_before_join. Qed.
Print Assumptions C07_join_only_after_own_commit.

(* At most one join per established subscription (per committing thread). *)
Theorem C07_join_at_most_once :
  forall sched s t c g l1 l2,
    exec sched init = Some s -> trace s = l1 ++ EvJoin t c g :: l2 ->
    forall c' g', ~ In (EvJoin t c' g') l1 /\ ~ In (EvJoin t c' g') l2.
Proof. exact join_unique. Qed.
Print Assumptions C07_join_at_most_once.

(* Once everything has finished, every join/leave-emitting commit was followed by its join,
   unless the server-side path could not enqueue its subscribe push. *)
Theorem C07_join_emitted_partial :
  forall sched s t c g,
    exec sched init = Some s -> settled s -> In (EvCommit t c g true) (trace s) ->
    In (EvJoin t c g) (trace s) \/ In (EvJoinSkipped t c g) (trace s).
Proof. exact settled_join_or_skipped. Qed.
Print Assumptions C07_join_emitted_partial.

(* ---- leave side, schedules without the wait-gate timeout ---- *)
(* [proj g tr] = the events of generation g among EvCommit, EvDelete (ghost: the unsubscribe /
   close removed the committed context from c.channels), EvLeave, EvUnsubCb / EvUnsubSkipped;
   [lv c g jl] = [EvLeave c g] if jl else []. *)

(* A leave is only published for a generation committed with join/leave, after the commit and
   after the removal of its context, and at most once. *)
Theorem C07_leave_once_after_commit_and_delete_partial :
  forall sched s c g a b,
    no_timeout sched = true -> exec sched init = Some s ->
    trace s = a ++ EvLeave c g :: b ->
    (exists t0, In (EvCommit t0 c g true) a) /\ In (EvDelete c g) a /\
    ~ In (EvLeave c g) a /\ ~ In (EvLeave c g) b.
Proof. exact leave_after_delete. Qed.
Print Assumptions C07_leave_once_after_commit_and_delete_partial.

(* At rest: an established subscription whose context is no longer in c.channels has exactly one
   leave if it has join/leave (none otherwise), between the delete and the unsubscribe occasion. *)
Theorem C07_exactly_one_leave_per_ended_subscription_partial :
  forall sched s t0 c g jl,
    no_timeout sched = true -> exec sched init = Some s -> settled s ->
    In (EvCommit t0 c g jl) (trace s) ->
    (forall x, lookup c (chans s) = Some x -> c_gen x <> g) ->
    exists e, (e = EvUnsubCb c g \/ e = EvUnsubSkipped c g) /\
              proj g (trace s) = [EvCommit t0 c g jl; EvDelete c g] ++ lv c g jl ++ [e].
Proof. exact ended_subscription_word. Qed.
Print Assumptions C07_exactly_one_leave_per_ended_subscription_partial.

(* No leave for a generation that never committed (failed / rolled-back attempts). *)
Theorem C07_no_leave_without_commit_partial :
  forall sched s g,
    no_timeout sched = true -> exec sched init = Some s ->
    (forall t0 c jl, ~ In (EvCommit t0 c g jl) (trace s)) -> proj g (trace s) = [].
Proof. exact never_committed_nothing. Qed.
Print Assumptions C07_no_leave_without_commit_partial.

(* Order.  Hypothesis (the window of the recorded finding C07-leave-before-join, excluded): the
   committed context of generation g is not removed before thread t's PublishJoin, i.e. every
   EvDelete c g in the trace has EvJoin t c g before it.  Then the leave follows the join. *)
Theorem C07_leave_after_join_outside_window_partial :
  forall sched s t c g a b,
    no_timeout sched = true -> exec sched init = Some s ->
    (forall a1 a2, trace s = a1 ++ EvDelete c g :: a2 -> In (EvJoin t c g) a1) ->
    trace s = a ++ EvLeave c g :: b -> In (EvJoin t c g) a.
Proof. exact leave_after_join. Qed.
Print Assumptions C07_leave_after_join_outside_window_partial.

(* [leave, join]: close() between commitSubscription and PublishJoin (client command path;
   no timeout involved).  Reproduced on the implementation by the driver's gated schedules. *)
Theorem C07_order_refuted :
  exists sched s,
    exec sched init = Some s /\ no_timeout sched = true /\
    filter (fun e => is_join e || is_leave e) (trace s) = [EvLeave 0 1; EvJoin 2 0 1].
Proof. exact order_refuted. Qed.
Print Assumptions C07_order_refuted.

(* a leave without any join: server-side Client.Subscribe whose push meets a closed writer *)
Theorem C07_missing_join_refuted :
  exists sched s,
    exec sched init = Some s /\ no_timeout sched = true /\
    filter (fun e => is_join e || is_leave e) (trace s) = [EvLeave 0 1] /\
    In (EvCommit 2 0 1 true) (trace s).
Proof. exact missing_join_refuted. Qed.
Print Assumptions C07_missing_join_refuted.
