(* C07 Join and leave events are paired and ordered.
   Property theorems only; proofs live in Proofs/SubJoin.v (over Model/SubLifecycle.v).
   Events of the trace carry ghost annotations: EvCommit t c g jl = thread t's
   commitSubscription installed generation g on channel c (jl = emits join/leave);
   EvJoin t c g = thread t called Broker.PublishJoin; EvJoinSkipped t c g = the server-side
   Client.Subscribe returned before its join because the subscribe push could not be enqueued.

   Full statement wanted by the property text (kept visible):
     every established join/leave subscription gets exactly one join, then, after it ends,
     exactly one leave, join before leave; nothing for failed attempts.
   On the faithful model (and on the implementation, see the known findings) the ORDER part and
   the "exactly one join" part for the server-side path are false: C07_order_refuted,
   C07_missing_join_refuted.  What is proved, for ALL schedules (timeouts, failures included): *)
From Coq Require Import List NArith ZArith Bool.
From Cfg Require Import Model.SubLifecycle Proofs.SubJoin.
Import ListNotations.
Open Scope N_scope.

(* No join for a failed or rolled-back attempt: a join is only ever published by the thread
   whose own commitSubscription succeeded for that channel and generation with join/leave
   emission, and after that commit. *)
Theorem C07_join_only_after_own_commit :
  forall sched s t c g,
    exec sched init = Some s -> In (EvJoin t c g) (trace s) ->
    exists l1 l2 l3, trace s = l1 ++ EvCommit t c g true :: l2 ++ EvJoin t c g :: l3.
Proof. exact commit_before_join. Qed.
Print Assumptions C07_join_only_after_own_commit.

(* At most one join per established subscription (per committing thread). *)
Theorem C07_join_at_most_once :
  forall sched s t c g l1 l2,
    exec sched init = Some s -> trace s = l1 ++ EvJoin t c g :: l2 ->
    forall c' g', ~ In (EvJoin t c' g') l1 /\ ~ In (EvJoin t c' g') l2.
Proof. exact join_unique. Qed.
Print Assumptions C07_join_at_most_once.

(* Once everything has finished, every join/leave-emitting commit was followed by its join,
   unless the server-side path could not enqueue its subscribe push. *)
Theorem C07_join_emitted_partial :
  forall sched s t c g,
    exec sched init = Some s -> settled s -> In (EvCommit t c g true) (trace s) ->
    In (EvJoin t c g) (trace s) \/ In (EvJoinSkipped t c g) (trace s).
Proof. exact settled_join_or_skipped. Qed.
Print Assumptions C07_join_emitted_partial.

(* [leave, join]: close() between commitSubscription and PublishJoin (client command path;
   no timeout involved).  Reproduced on the implementation by the driver's gated schedules. *)
Theorem C07_order_refuted :
  exists sched s,
    exec sched init = Some s /\ no_timeout sched = true /\
    filter (fun e => is_join e || is_leave e) (trace s) = [EvLeave 0 1; EvJoin 2 0 1].
Proof. exact order_refuted. Qed.
Print Assumptions C07_order_refuted.

(* a leave without any join: server-side Client.Subscribe whose push meets a closed writer *)
Theorem C07_missing_join_refuted :
  exists sched s,
    exec sched init = Some s /\ no_timeout sched = true /\
    filter (fun e => is_join e || is_leave e) (trace s) = [EvLeave 0 1] /\
    In (EvCommit 2 0 1 true) (trace s).
Proof. exact missing_join_refuted. Qed.
Print Assumptions C07_missing_join_refuted.
