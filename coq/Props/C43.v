(* C43 History and presence client commands honour their limits.
   Property theorems only; proofs live in Proofs/HistoryCmd.v. *)
From Coq Require Import List NArith ZArith Bool.
From Cfg Require Import Model.MemStream Model.StreamSpec Model.HistoryCmd
     Proofs.MemStream Proofs.HistoryCmd Harness.C43.
Import ListNotations.
Open Scope N_scope.

(* With a configured limit (> 0) a history reply never carries more
   publications than the limit: for ALL broker states (reachable or not), ALL
   since / limit (negative, zero, huge) / reverse parameters. *)
Theorem C43_limit : forall maxl h ch since limit rev,
  (0 < maxl)%Z ->
  match snd (client_history maxl h ch since limit rev) with
  | COk items _ _ => (Z.of_nat (length items) <= maxl)%Z
  | CErr _ => True
  end.
Proof. exact history_limit. Qed.
Print Assumptions C43_limit.

(* The clamp of handleHistory is the effective limit of the specification. *)
Theorem C43_effective_limit : forall maxl limit, clamp maxl limit = eff_limit maxl limit.
Proof. exact clamp_eff. Qed.
Print Assumptions C43_effective_limit.

(* Otherwise the reply is exactly the node-level result for the effective
   filter: over every reachable broker state (all C17 histories), the reply is
   the retained suffix filtered by since / effective limit / direction with the
   stream position, BadRequest for reverse-since-zero, UnrecoverablePosition on
   an epoch mismatch. *)
Theorem C43_exact : forall maxl h ch s since limit rev,
  reachable h -> h_streams h ch = Some s ->
  filter_ok (mkFilter since (eff_limit maxl limit) rev) = true ->
  snd (client_history maxl h ch since limit rev) =
  spec_client_history maxl (s_items s) (s_top s) (s_epoch s) since limit rev.
Proof. exact history_exact_cmd. Qed.
Print Assumptions C43_exact.

(* A reverse request since offset zero is rejected as a bad request (and does
   not touch the broker). *)
Theorem C43_reverse0 : forall maxl h ch e limit,
  client_history maxl h ch (Some (0, e)) limit true = (h, CErr ErrBadRequest).
Proof. exact history_reverse0. Qed.
Print Assumptions C43_reverse0.

(* Presence and presence-stats replies equal the node-level results (the model
   of the two handlers is the identity on the node-level result; the tie to the
   code is the correspondence run). *)
Theorem C43_presence : forall r, presence_reply r = r.
Proof. exact presence_identity. Qed.
Theorem C43_presence_stats : forall r, presence_stats_reply r = r.
Proof. exact presence_stats_identity. Qed.
Print Assumptions C43_presence.

Theorem C43_oracle_sound : forall c,
  oracle c = true <-> Forall (StepSpec (c_max c)) (c_steps c).
Proof. exact oracle_sound. Qed.
Print Assumptions C43_oracle_sound.

(* non-vacuity: limit 2 caps "no limit" and 5; error cases *)
Definition p3 := mkPopts 10 60000 0 0 0 0 0.
Definition h3 := fst (MemStream.run (hub_init 700 0) [Publish 0 1 p3; Publish 0 2 p3; Publish 0 3 p3]).
Example C43_examples :
  snd (client_history 2 h3 0 None (-1) false) = COk [mkItem 1 1; mkItem 2 2] 3 1 /\
  snd (client_history 2 h3 0 None 5 true) = COk [mkItem 3 3; mkItem 2 2] 3 1 /\
  snd (client_history 0 h3 0 None (-1) false) = COk [mkItem 1 1; mkItem 2 2; mkItem 3 3] 3 1 /\
  snd (client_history 2 h3 0 (Some (1, 1)) 0 false) = COk [] 3 1 /\
  snd (client_history 2 h3 0 (Some (1, 9)) 1 false) = CErr ErrUnrecoverablePosition /\
  snd (client_history 2 h3 0 (Some (0, 1)) 1 true) = CErr ErrBadRequest.
Proof. vm_compute. repeat split; reflexivity. Qed.
