(* C34 Redis cluster keys for one operation share a hash slot.
   Property theorems only; proofs live in Proofs/RedisKeys.v and
   Proofs/RedisKeysTable.v (table-dependent, re-proved each run). *)
From Coq Require Import String List NArith Bool.
From Cfg Require Import Model.Crc16 Model.Partition Model.RedisKeys Proofs.Crc16 Proofs.RedisKeys
                        Gen.CrcTab Gen.Precomputed Proofs.RedisKeysTable Harness.C34 Proofs.RedisKeysCall.
Import ListNotations.
Open Scope N_scope.

(* Full statement (property text): for EVERY channel, prefix and partitioning
   option all keys + the PUB/SUB channel of one operation hash to one slot.
   It is false on the faithful model (and on the code) outside [tag_safe]:
   see C34_emptytag_refuted / C34_prefix_brace_refuted.  What holds: *)

(* RedisBroker, cluster mode, ALL channels / idempotency keys / partition
   indexes: every key a publish or history script touches and the PUB/SUB
   channel carry the same Redis hash tag -- the partition tag, or the channel
   up to its first '}' -- provided the prefix has no '{' and
   (partitioned) the tag is usable / (not partitioned) the channel is
   non-empty and does not start with '}'. *)
Theorem C34_broker_same_tag_partial :
  forall c tag ch ik k,
    c_cluster c = true -> tag_safe c tag ch = true ->
    In k (broker_keys c tag ch ik) -> hash_tag k = the_tag c tag ch.
Proof. exact broker_keys_tag. Qed.
Print Assumptions C34_broker_same_tag_partial.

Theorem C34_presence_same_tag_partial :
  forall c ch k,
    c_cluster c = true -> lacks LB (c_prefix c) = true -> ch_safe ch = true ->
    In k (presence_keys c ch) -> hash_tag k = tw ch.
Proof. exact presence_keys_tag. Qed.
Print Assumptions C34_presence_same_tag_partial.

Theorem C34_map_same_tag_partial :
  forall c tag ch ik k,
    c_cluster c = true -> (0 <? c_parts c) = true -> lacks LB (c_prefix c) = true -> tag_ok tag = true ->
    In k (map_keys c tag ch ik) -> hash_tag k = tag.
Proof. exact map_keys_tag. Qed.
Print Assumptions C34_map_same_tag_partial.

(* same tag => same HASH_SLOT (CRC16/XMODEM of the tag mod 16384) *)
Theorem C34_same_tag_same_slot :
  forall k1 k2, hash_tag k1 = hash_tag k2 -> redis_slot_spec k1 = redis_slot_spec k2.
Proof. exact same_tag_same_slot. Qed.
Print Assumptions C34_same_tag_same_slot.

(* script-call level: ANY call whose KEYS are drawn from the component's key
   universe (incl. the ":nil:" placeholder for unused KEYS; this is what the
   correspondence checks on every captured EVALSHA) has all its keys and its
   PUB/SUB channel in one slot *)
Theorem C34_call_same_slot_partial :
  forall cf comp tag ch ik keys k1 k2,
    c_cluster cf = true -> comp_safe cf comp tag ch = true ->
    (forall k, In k keys -> In k (universe cf comp tag ch ik)) ->
    In k1 (keys ++ (if comp =? 1 then [] else [model_chan cf comp tag ch])) ->
    In k2 (keys ++ (if comp =? 1 then [] else [model_chan cf comp tag ch])) ->
    redis_slot_spec k1 = redis_slot_spec k2.
Proof. exact call_same_slot. Qed.
Print Assumptions C34_call_same_slot_partial.

(* the tags the brokers can use are usable: decimal indexes (all of them) and
   every bundled precomputed tag (finite: the table generated this run) *)
Theorem C34_itoa_tag_ok : forall n, tag_ok (itoa n) = true.
Proof. exact itoa_tag_ok. Qed.
Print Assumptions C34_itoa_tag_ok.

Theorem C34_precomputed_tag_ok :
  forall p tags idx, find_tags precomputed p = Some tags -> (idx < length tags)%nat ->
    tag_ok (nth idx tags []) = true.
Proof. exact precomputed_tag_ok. Qed.
Print Assumptions C34_precomputed_tag_ok.

(* the receiving node recovers the original channel from the PUB/SUB channel,
   for ALL channels (braces, dots, empty) and every configuration the
   constructors accept *)
Theorem C34_broker_extract :
  forall c tag ch,
    broker_cfg_ok c = true -> (if 0 <? c_parts c then tag_ok tag else true) = true ->
    b_extract c (b_message c tag ch) = ch.
Proof. exact b_extract_message. Qed.
Print Assumptions C34_broker_extract.

Theorem C34_map_extract :
  forall c tag ch,
    map_cfg_ok c = true -> (if 0 <? c_parts c then tag_ok tag else true) = true ->
    m_extract c (m_message c tag ch) = ch.
Proof. exact m_extract_message. Qed.
Print Assumptions C34_map_extract.

(* redisSlot (table walk over the crc16tab generated from the source, Go
   hash-tag extraction) is Redis' HASH_SLOT for ALL keys *)
Theorem C34_redis_slot_is_hash_slot :
  forall key, Forall (fun b => b < 256) key -> redis_slot_go crc16tab key = redis_slot_spec key.
Proof. exact redis_slot_go_is_hash_slot. Qed.
Print Assumptions C34_redis_slot_is_hash_slot.

(* refutations of the unrestricted statement *)
Theorem C34_emptytag_refuted :
  exists c ch, c_cluster c = true /\ c_parts c = 0 /\ lacks LB (c_prefix c) = true /\
    redis_slot_spec (b_stream c [] ch) <> redis_slot_spec (b_meta c [] ch) /\
    redis_slot_spec (b_stream c [] ch) <> redis_slot_spec (b_message c [] ch).
Proof. exact emptytag_refuted. Qed.
Print Assumptions C34_emptytag_refuted.

Theorem C34_prefix_brace_refuted :
  exists c ch, c_cluster c = true /\ ch_safe ch = true /\
    redis_slot_spec (b_stream c [] ch) <> redis_slot_spec (b_meta c [] ch).
Proof. exact prefix_brace_refuted. Qed.
Print Assumptions C34_prefix_brace_refuted.

(* non-vacuity: Redis' own documented examples of the hash-tag rule, and a safe configuration *)
Example C34_hash_tag_examples :
  hash_tag (s2b "{user1000}.following") = s2b "user1000" /\
  hash_tag (s2b "foo{}{bar}") = s2b "foo{}{bar}" /\
  hash_tag (s2b "foo{{bar}}zap") = s2b "{bar" /\
  hash_tag (s2b "foo{bar}{zap}") = s2b "bar".
Proof. vm_compute. repeat split; reflexivity. Qed.
Example C34_safe_instance :
  tag_safe (mkCfg (s2b "centrifuge") true 0 false) [] (s2b "a}b") = true /\
  map hash_tag (broker_keys (mkCfg (s2b "centrifuge") true 0 false) [] (s2b "a}b") (s2b "k"))
  = [s2b "a"; s2b "a"; s2b "a"; s2b "a"; s2b "a"].
Proof. vm_compute. split; reflexivity. Qed.
