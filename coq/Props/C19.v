(* C19 Idempotent and versioned publishes suppress exactly the duplicates
   (memory stream broker; the Redis variant is not tied here).
   Property theorems only; proofs live in Proofs/MemStream.v and
   Proofs/MemStreamDedup.v.  The model is the code AFTER the fixes
   /verif/fixes/C19-unversioned-resets-version.patch and
   /verif/fixes/C19-suppressed-refreshes-ttl.patch; the *_unfixed_refuted
   theorems show that the unpatched code violates the property. *)
From Coq Require Import List NArith ZArith Bool.
From Cfg Require Import Model.MemStream Model.StreamSpec Proofs.MemStream Proofs.MemStreamDedup Harness.C19.
Import ListNotations.
Open Scope N_scope.

(* For ALL sequences of keyed/unkeyed, versioned/unversioned publishes, reads,
   removals, clock moves and sweeps, the model's outputs (positions,
   suppression flag and reason, deliveries, history contents) are those of the
   specification, in which "holds a version" is changed only by versioned
   unsuppressed publishes and a stored idempotency result is honoured until
   its deadline.  (Same statement as C17_refines; domain as stated there.) *)
Theorem C19_refines : forall now meta ops,
  run_mono (hub_init now meta) ops = true -> ops_ok ops = true ->
  snd (MemStream.run (hub_init now meta) ops) = snd (sp_run (spec_init now meta) ops).
Proof. exact refines. Qed.
Print Assumptions C19_refines.

(* Idempotency within the TTL: after an unsuppressed keyed publish, whatever
   operation sequence follows, while the clock is before publish time + result
   TTL a publish repeating the key returns the ORIGINAL position, is marked
   suppressed (1 = idempotency), delivers nothing, and the broker state is
   literally unchanged (so no history entry is added). *)
Theorem C19_idem_within_ttl : forall h ch id o h1 off ep dl ops id' o',
  publish h ch id o = (h1, OPub off ep 0 dl) -> po_key o <> 0 -> po_key o' = po_key o ->
  h_now (fst (MemStream.run h1 ops)) < h_now h + result_secs o * 1000 ->
  publish (fst (MemStream.run h1 ops)) ch id' o' = (fst (MemStream.run h1 ops), OPub off ep 1 []).
Proof. exact idem_within_ttl. Qed.
Print Assumptions C19_idem_within_ttl.

(* After the TTL it is a fresh publish. *)
Theorem C19_idem_after_ttl : forall h ch id o off ep ex,
  h_cache h ch (po_key o) = Some (off, ep, ex) -> ex <= h_now h ->
  snd (publish h ch id o) = snd (publish h ch id (nokey o)).
Proof. exact idem_after_ttl. Qed.
Print Assumptions C19_idem_after_ttl.

(* A versioned publish is suppressed exactly when the channel holds an equal or
   higher version in the same version epoch. *)
Theorem C19_version_suppressed_iff : forall h ch id o,
  (if po_key o =? 0 then None else cache_get h ch (po_key o)) = None ->
  history_on o = true ->
  ((exists off ep dl, snd (publish h ch id o) = OPub off ep 2 dl) <->
   (exists v e, held h ch = Some (v, e) /\ 0 < po_ver o /\
                (po_vep o = 0 \/ po_vep o = e) /\ po_ver o <= v)).
Proof. exact version_suppressed_iff. Qed.
Print Assumptions C19_version_suppressed_iff.

(* ... where the held version is changed only by versioned unsuppressed
   publishes: unversioned publishes do not reset that protection, *)
Theorem C19_unversioned_keeps_version : forall h ch id o s,
  po_ver o = 0 -> h_streams h ch = Some s ->
  held (fst (publish h ch id o)) ch = held h ch.
Proof. exact unversioned_keeps_version. Qed.
Print Assumptions C19_unversioned_keeps_version.

Theorem C19_versioned_sets_version : forall h ch id o h1 off ep dl,
  publish h ch id o = (h1, OPub off ep 0 dl) -> history_on o = true -> 0 < po_ver o ->
  held h1 ch = Some (po_ver o, po_vep o).
Proof. exact versioned_sets_version. Qed.
Print Assumptions C19_versioned_sets_version.

(* ... no other operation changes it, except discarding the channel's metadata, *)
Theorem C19_other_ops_keep_version : forall h o ch s,
  h_streams h ch = Some s -> (forall c id po, o <> Publish c id po) ->
  held (fst (step h o)) ch = held h ch \/ (o = SweepRemove /\ held (fst (step h o)) ch = None).
Proof. exact other_ops_keep_version. Qed.
Print Assumptions C19_other_ops_keep_version.

(* ... and suppressed publishes (either reason) change nothing. *)
Theorem C19_suppressed_noop : forall h ch id o h1 off ep supp dl,
  publish h ch id o = (h1, OPub off ep supp dl) -> supp <> 0 -> h1 = h /\ dl = [].
Proof. exact suppressed_noop. Qed.
Print Assumptions C19_suppressed_noop.

Theorem C19_oracle_sound : forall c,
  oracle c = true <-> SpecBehaviour (c_now c) (c_meta c) (c_ops c) (c_obs c).
Proof. exact oracle_sound. Qed.
Print Assumptions C19_oracle_sound.

(* ---- the unpatched code violates the property (witnesses replayed on /repo) ---- *)
Definition pv (ver : N) (ttl : N) := mkPopts 5 ttl 0 0 0 ver 0.

(* memstream.Add overwrites the stored version with 0 on an unversioned publish:
   [v5; unversioned; v3] stores the late v3 at offset 3 instead of suppressing it *)
Theorem C19_version_unfixed_refuted :
  exists ops,
    snd (run_unfixed (hub_init 700 0) ops) <> snd (sp_run (spec_init 700 0) ops) /\
    nth 2 (snd (run_unfixed (hub_init 700 0) ops)) OUnit = OPub 3 1 0 [mkDeliv 0 3 3 3 1] /\
    nth 2 (snd (sp_run (spec_init 700 0) ops)) OUnit = OPub 2 1 2 [].
Proof.
  exists [Publish 0 1 (pv 5 60000); Publish 0 2 (pv 0 60000); Publish 0 3 (pv 3 60000)].
  vm_compute. repeat split; try reflexivity. discriminate.
Qed.

(* historyHub.add refreshes the history deadline before the version check: a
   suppressed publish (TTL 100 s) keeps alive a stream whose own TTL was 1 s *)
Theorem C19_ttl_refresh_unfixed_refuted :
  exists ops,
    nth 5 (snd (run_unfixed (hub_init 700 0) ops)) OUnit = OHist [mkItem 1 1] 1 1 /\
    nth 5 (snd (sp_run (spec_init 700 0) ops)) OUnit = OHist [] 1 1 /\
    nth 1 (snd (sp_run (spec_init 700 0) ops)) OUnit = OPub 1 1 2 [].
Proof.
  exists [Publish 0 1 (pv 5 1000); Publish 0 2 (pv 3 100000); Advance 2000;
          SweepExpire; SweepRemove; History 0 (mkFilter None (-1) false) 0].
  vm_compute. repeat split; reflexivity.
Qed.

(* the patched model agrees with the specification on both witnesses *)
Example C19_fixed_on_witnesses :
  snd (MemStream.run (hub_init 700 0)
        [Publish 0 1 (pv 5 60000); Publish 0 2 (pv 0 60000); Publish 0 3 (pv 3 60000)])
  = [OPub 1 1 0 [mkDeliv 0 1 1 1 1]; OPub 2 1 0 [mkDeliv 0 2 2 2 1]; OPub 2 1 2 []] /\
  nth 5 (snd (MemStream.run (hub_init 700 0)
        [Publish 0 1 (pv 5 1000); Publish 0 2 (pv 3 100000); Advance 2000;
         SweepExpire; SweepRemove; History 0 (mkFilter None (-1) false) 0])) OUnit
  = OHist [] 1 1.
Proof. vm_compute. split; reflexivity. Qed.

(* non-vacuity of the idempotency theorems: a keyed publish, a repeat within the
   1 s result TTL (suppressed, original position), a repeat after it (fresh) *)
Example C19_idem_example :
  snd (MemStream.run (hub_init 700 0)
        [Publish 0 1 (mkPopts 5 60000 0 7 1000 0 0); Publish 0 2 (mkPopts 5 60000 0 0 0 0 0);
         Advance 900; Publish 0 3 (mkPopts 5 60000 0 7 1000 0 0);
         Advance 100; Publish 0 4 (mkPopts 5 60000 0 7 1000 0 0)])
  = [OPub 1 1 0 [mkDeliv 0 1 1 1 1]; OPub 2 1 0 [mkDeliv 0 2 2 2 1];
     OUnit; OPub 1 1 1 []; OUnit; OPub 3 1 0 [mkDeliv 0 4 3 3 1]].
Proof. vm_compute. reflexivity. Qed.
