From Cfg Require Import Model.MapHub.
