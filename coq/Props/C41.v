(* C41 Survey collects one answer per node and terminates.
   Property theorems only; proofs live in Proofs/Survey.v. *)
From Coq Require Import List NArith Bool Arith.
From Cfg Require Import Model.Survey Proofs.Survey.
Import ListNotations.

(* For ALL schedules (any number of concurrent surveys; responses in any order, duplicated, for unknown
   or finished ids; cancellations): what a Survey call returns has at most one result per node uid, at most
   numNodes results, and every result is a response that was accepted for THAT survey. *)
Theorem C41_one_per_node_only_own : forall sched st id s res e,
  srun n_init sched = Some st -> find_sv (n_surveys st) id = Some s -> s_ret s = Some (res, e) ->
  NoDup (map fst res) /\ length res <= s_num s /\ forall u v, In (u, v) res -> In (mkResp u v) (s_accepted s).
Proof. exact returned_ok. Qed.
Print Assumptions C41_one_per_node_only_own.

(* ... and a survey accepts only a response that carries its own id while it is registered, or its own
   local reply: no other action changes what it has accepted. *)
Theorem C41_only_own_step : forall sched st l st' id s s',
  srun n_init sched = Some st ->
  sstep st l = Some st' -> find_sv (n_surveys st) id = Some s -> find_sv (n_surveys st') id = Some s' ->
  s_accepted s' = s_accepted s \/
  (exists u v, l = LDeliver u id v /\ s_phase s <> Returned /\ s_accepted s' = s_accepted s ++ [mkResp u v]) \/
  (exists v, l = LLocal id /\ s_accepted s' = s_accepted s ++ [mkResp 0 v]).
Proof.
  intros sched st l st' id s s' H. apply accepted_grows. apply (srun_inv sched _ _ NInv_init H).
Qed.
Print Assumptions C41_only_own_step.

(* handleSurveyResponse never blocks; a late, foreign or duplicate response leaves every other survey
   untouched, and one for an unknown or finished survey changes nothing at all. *)
Theorem C41_nonblocking : forall st uid id v,
  exists st', sstep st (LDeliver uid id v) = Some st' /\
              (forall id', id' <> id -> find_sv (n_surveys st') id' = find_sv (n_surveys st) id') /\
              (match find_sv (n_surveys st) id with
               | None => st' = st
               | Some s => s_phase s = Returned -> st' = st
               end).
Proof. exact deliver_total. Qed.
Print Assumptions C41_nonblocking.

(* Returns as soon as every expected node answered: when the responses a survey has accepted (collected or
   still in its channel) come from numNodes distinct nodes, its collector finishes within at most |channel|
   of its own steps (all enabled), with exactly numNodes results, and Survey can return. *)
Theorem C41_terminates_when_complete : forall sched st id s,
  srun n_init sched = Some st ->
  find_sv (n_surveys st) id = Some s -> s_phase s = Collecting ->
  s_num s <= length (uids (s_buf s) (map fst (s_results s))) ->
  exists k st' s', k <= length (s_buf s) /\ collect_n k st id = Some st' /\
                   find_sv (n_surveys st') id = Some s' /\ s_phase s' = Finished /\ length (s_results s') = s_num s.
Proof.
  intros sched st id s H Hf Hp Hu.
  apply (complete_finishes (s_buf s) st id s (srun_inv sched _ _ NInv_init H) Hf Hp eq_refl Hu).
Qed.
Print Assumptions C41_terminates_when_complete.

(* ... or the deadline passed: once the context is done the collector can stop and Survey returns what it
   has collected, with a non-nil error. *)
Theorem C41_deadline : forall st id s,
  find_sv (n_surveys st) id = Some s -> s_phase s = Collecting -> s_cancelled s = true ->
  exists st1 st2 s2, sstep st (LDeadline id) = Some st1 /\ sstep st1 (LReturn id) = Some st2 /\
                     find_sv (n_surveys st2) id = Some s2 /\ s_ret s2 = Some (s_results s, true) /\ s_phase s2 = Returned.
Proof. exact deadline_returns. Qed.
Print Assumptions C41_deadline.

(* One thing DOES block: the local handler's reply is a blocking send on the survey's channel.  If the
   collector has stopped while the channel is full (needs as many undrained responses as numNodes, e.g.
   duplicates or a node that joined after numNodes was read, plus a cancelled context or completion),
   the goroutine delivering the local reply blocks for ever.  "never block" is refuted for the local
   reply in the model; the schedule cannot be forced on the real node from outside (no gate between the
   collector's exit and the deregistration), see props JSON. *)
Theorem C41_local_reply_blocks_refuted :
  exists st id, srun n_init [LStart 1 (Some 5%N); LHandlerDone 1; LCancel 1; LDeadline 1; LDeliver 9%N 1 7%N] = Some st /\
                id = 1 /\ forall sched st', srun st sched = Some st' -> sstep st' (LLocal id) = None.
Proof.
  eexists. exists 1. split; [vm_compute; reflexivity|]. split; [reflexivity|].
  intros sched st' H.
  eapply (stuck_forever sched); [| |  |exact H].
  - apply (srun_inv [LStart 1 (Some 5%N); LHandlerDone 1; LCancel 1; LDeadline 1; LDeliver 9%N 1 7%N] n_init); [apply NInv_init|vm_compute; reflexivity].
  - vm_compute. reflexivity.
  - unfold stuck. cbn. auto.
Qed.
Print Assumptions C41_local_reply_blocks_refuted.

(* The other thing the code as found does not guarantee ("returns as soon as every expected node
   answered"): duplicates of one node can fill the survey's channel, so that the genuine answer of the last
   expected node is dropped by the non-blocking send; the survey then has heard from every node but keeps
   collecting until its deadline.  (Both refutations are KNOWN findings, reproduced on the real node by the
   stress classes of the driver.) *)
Theorem C41_duplicates_drop_answer_refuted :
  exists st s, srun n_init [LStart 3 (Some 5%N); LLocal 1; LHandlerDone 1; LCollect 1;
                            LDeliver 1%N 1 10%N; LDeliver 1%N 1 11%N; LDeliver 1%N 1 12%N;   (* node 1, three times *)
                            LDeliver 2%N 1 20%N;                                           (* node 2: dropped *)
                            LCollect 1; LCollect 1; LCollect 1] = Some st /\
    find_sv (n_surveys st) 1 = Some s /\ s_phase s = Collecting /\ s_buf s = [] /\
    map fst (s_results s) = [0%N; 1%N] /\ sstep st (LReturn 1) = None /\ sstep st (LCollect 1) = None.
Proof. eexists. eexists. split; [vm_compute; reflexivity|]. repeat split; reflexivity. Qed.
Print Assumptions C41_duplicates_drop_answer_refuted.

(* ---- non-vacuity ---- *)
(* three nodes; node 2 answers twice (the second answer overwrites), node 1 once, the local reply; a response
   for an unknown survey and one after the return are ignored *)
Example C41_ex :
  exists st s, srun n_init [LStart 3 (Some 50%N); LLocal 1; LHandlerDone 1; LCollect 1;
                            LDeliver 2%N 1 20%N; LDeliver 2%N 7 99%N; LCollect 1; LDeliver 2%N 1 21%N; LCollect 1;
                            LDeliver 1%N 1 10%N; LCollect 1; LReturn 1; LDeliver 3%N 1 30%N] = Some st /\
    find_sv (n_surveys st) 1 = Some s /\ s_ret s = Some ([(0%N, 50%N); (2%N, 21%N); (1%N, 10%N)], false).
Proof. eexists. eexists. split; [vm_compute; reflexivity|]. split; reflexivity. Qed.
