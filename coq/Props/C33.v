(* C33 Redis PUB/SUB payload framing round-trips and parsing is total.
   Property theorems only; proofs live in Proofs/PushFrame.v and
   Proofs/PushFrameHarness.v.

   [extract true]: model of extractPushData + parseDeltaPush of /repo/broker_redis.go
   as they are after fixes/C33-parse-bounds.patch, every Go slice expression being an
   explicit operation that yields [Panic] when Go would panic.  [extract false]: the
   code before the fix.  The Lua templates lua_* are generated from the script sources
   (Gen/C33Lua.v) and evaluated by [eval_tpl]. *)
From Coq Require Import List NArith ZArith Bool.
From Cfg Require Import Model.Decimal Model.PushFrame Gen.C33Lua
  Proofs.PushFrame Harness.C33 Proofs.PushFrameHarness.
Import ListNotations.
Open Scope N_scope.

(* Decoding an arbitrary PUB/SUB payload never crashes the node. *)
Theorem C33_total : forall data, extract true data <> Panic.
Proof. exact extract_total. Qed.
Print Assumptions C33_total.

(* ... which was false before the fix (finding F6): three panicking payloads. *)
Theorem C33_total_unfixed_refuted :
  extract false [95;95;112;95;95;120] = Panic /\                                   (* "__p__x" *)
  extract false [95;95;100;49;58;49;58;101;58;51;58;97;98;99] = Panic /\           (* "__d1:1:e:3:abc" *)
  extract false [95;95;100;49;58;49;58;101;58;45;49;58;97;98;99;58;49;58;120] = Panic.   (* "__d1:1:e:-1:abc:1:x" *)
Proof. exact extract_unfixed_panics. Qed.
Print Assumptions C33_total_unfixed_refuted.

(* Every builder, all payload / previous-payload bytes, offsets and epochs of its
   domain: the receiving node decodes the same payload, kind, stream position,
   delta flag and previous payload.  [in_domain]: Lua prints offsets and lengths
   below 10^14 in plain decimal; positioned frames need an epoch in which no '_'
   is followed by '_' or by the end ([hdr_ok]); delta frames need an epoch without
   ':' ; a plain payload must not start with "__". *)
Theorem C33_roundtrip :
  forall k off epoch prev payload,
    in_domain k off epoch prev payload = true ->
    exists b, model_build k off epoch prev payload = Some b /\
              extract true b = Ret (expected k off epoch prev payload).
Proof. exact model_roundtrip. Qed.
Print Assumptions C33_roundtrip.

(* The same, builder by builder, in terms of the byte strings themselves. *)
Theorem C33_roundtrip_positioned :
  forall fixed off epoch payload,
    off < U64 -> hdr_ok epoch = true ->
    extract fixed (frame_p off epoch payload) = Ret (mkPush payload PPub off epoch false [] true).
Proof. exact roundtrip_p. Qed.
Print Assumptions C33_roundtrip_positioned.

Theorem C33_roundtrip_delta :
  forall fixed off epoch prev payload,
    off < U64 -> colon_free epoch = true ->
    (Z.of_nat (length prev) < 2 ^ 63)%Z -> (Z.of_nat (length payload) < 2 ^ 63)%Z ->
    extract fixed (frame_d off epoch prev payload) = Ret (mkPush payload PPub off epoch true prev true).
Proof. exact roundtrip_d. Qed.
Print Assumptions C33_roundtrip_delta.

Theorem C33_roundtrip_join :
  forall fixed payload, extract fixed (build_join payload) = Ret (mkPush payload PJoin 0 [] false [] true).
Proof. exact roundtrip_join. Qed.
Print Assumptions C33_roundtrip_join.

Theorem C33_roundtrip_leave :
  forall fixed payload, extract fixed (build_leave payload) = Ret (mkPush payload PLeave 0 [] false [] true).
Proof. exact roundtrip_leave. Qed.
Print Assumptions C33_roundtrip_leave.

Theorem C33_roundtrip_plain :
  forall fixed payload, has_pfx payload meta_sep = false ->
    extract fixed (build_plain payload) = Ret (mkPush payload PPub 0 [] false [] true).
Proof. exact roundtrip_plain. Qed.
Print Assumptions C33_roundtrip_plain.

(* the templates generated from the Lua sources evaluate to these byte strings *)
Theorem C33_lua_templates :
  forall off epoch prev payload,
    off < LUA_PLAIN -> N.of_nat (length prev) < LUA_PLAIN -> N.of_nat (length payload) < LUA_PLAIN ->
    eval_tpl (mkEnv off epoch prev payload) lua_stream_plain = Some (frame_p off epoch payload) /\
    eval_tpl (mkEnv off epoch prev payload) lua_list_plain = Some (frame_p off epoch payload) /\
    eval_tpl (mkEnv off epoch prev payload) lua_stream_delta = Some (frame_d off epoch prev payload) /\
    eval_tpl (mkEnv off epoch prev payload) lua_list_delta = Some (frame_d off epoch prev payload).
Proof. exact lua_templates. Qed.
Print Assumptions C33_lua_templates.

(* The offset bound of the domain is sharp: from 10^14 on, Lua's "%.14g" number
   formatting ([lua_fmt]: conversion to the nearest double, 14 significant digits
   rounded to even, exponent form) produces e.g. 1e+14, and the receiving node rejects
   the message (ok = false), for every builder that carries an offset. *)
Theorem C33_lua_large_offset_rejected :
  forall off epoch prev payload,
    LUA_PLAIN <= off ->
    N.of_nat (length prev) < LUA_PLAIN -> N.of_nat (length payload) < LUA_PLAIN ->
    hdr_ok epoch = true ->
    (forall tpl, tpl = lua_stream_plain \/ tpl = lua_list_plain ->
       exists b r, eval_tpl (mkEnv off epoch prev payload) tpl = Some b /\
                   extract true b = Ret r /\ p_ok r = false) /\
    (forall tpl, tpl = lua_stream_delta \/ tpl = lua_list_delta ->
       exists b r, eval_tpl (mkEnv off epoch prev payload) tpl = Some b /\
                   extract true b = Ret r /\ p_ok r = false).
Proof. exact lua_large_offset_rejected. Qed.
Print Assumptions C33_lua_large_offset_rejected.

(* [hdr_ok] is the weakest condition for positioned frames: without it the round trip fails. *)
Theorem C33_positioned_epoch_condition_necessary :
  forall fixed off epoch payload,
    off < U64 -> hdr_ok epoch = false ->
    extract fixed (frame_p off epoch payload) <> Ret (mkPush payload PPub off epoch false [] true).
Proof. exact roundtrip_p_needs_hdr_ok. Qed.
Print Assumptions C33_positioned_epoch_condition_necessary.

(* Epochs over the alphabet of internal/epoch.Generate (generated into Gen/C33Lua.v)
   satisfy both epoch conditions. *)
Theorem C33_generated_epoch_ok :
  forall e, forallb in_letters e = true -> hdr_ok e = true /\ colon_free e = true.
Proof. exact generated_epoch_ok. Qed.
Print Assumptions C33_generated_epoch_ok.

(* A protobuf message (first byte = a tag of wire type <= 5) is never taken for a framed one. *)
Theorem C33_plain_protobuf :
  forall b rest, b mod 8 <= 5 -> has_pfx (b :: rest) meta_sep = false.
Proof. exact plain_protobuf. Qed.
Print Assumptions C33_plain_protobuf.

(* The decidable oracle applied to the implementation's behaviour is sound. *)
Theorem C33_oracle_sound :
  forall c, oracle c = true ->
    match c with
    | CParse _ obs => obs <> Panic
    | CBuild k off epoch prev payload _ obs =>
        obs <> Panic /\
        (in_domain k off epoch prev payload = true -> obs = Ret (expected k off epoch prev payload))
    | CEpoch e => hdr_ok e = true /\ colon_free e = true
    end.
Proof. exact oracle_sound. Qed.
Print Assumptions C33_oracle_sound.

(* ---- non-vacuity ---- *)
Example C33_ex_positioned :           (* "__p1:7:abCD__hi" *)
  extract true [95;95;112;49;58;55;58;97;98;67;68;95;95;104;105]
  = Ret (mkPush [104;105] PPub 7 [97;98;67;68] false [] true).
Proof. vm_compute. reflexivity. Qed.

Example C33_ex_delta :                (* "__d1:12:ep:3:a:b:2:__" : prev "a:b", payload "__" *)
  extract true [95;95;100;49;58;49;50;58;101;112;58;51;58;97;58;98;58;50;58;95;95]
  = Ret (mkPush [95;95] PPub 12 [101;112] true [97;58;98] true).
Proof. vm_compute. reflexivity. Qed.

Example C33_ex_domain :
  in_domain BStreamD 99999999999999 [97;98] [1;2;3] [] = true /\
  in_domain BStreamD 5 [97;58;98] [] [] = false /\          (* epoch "a:b" *)
  in_domain BListP 5 [97;95] [] [] = false /\               (* epoch "a_" *)
  in_domain BListP 5 [95;97;95;98] [] [] = true.            (* epoch "_a_b" is fine *)
Proof. vm_compute. auto. Qed.

Example C33_ex_bad_epoch_delta :      (* epoch "a:b" in a delta frame is cut at the ':' *)
  extract true (frame_d 1 [97;58;98] [] [120]) <> Ret (mkPush [120] PPub 1 [97;58;98] true [] true).
Proof. vm_compute. discriminate. Qed.

Example C33_ex_malformed_not_panic :
  extract true [95;95;112;95;95;120] = Ret (mkPush [120] PPub 0 [] false [] false) /\
  extract true [95;95;100;49;58;49;58;101;58;51;58;97;98;99] = Ret (mkPush [] PPub 0 [] false [] false).
Proof. vm_compute. auto. Qed.

Example C33_ex_lua_fmt :
  lua_fmt 99999999999999 = dec 99999999999999 /\
  lua_fmt 100000000000000 = [49;101;43;49;52] /\                                  (* 1e+14 *)
  lua_fmt 123456789012345678 = [49;46;50;51;52;53;54;55;56;57;48;49;50;51;53;101;43;49;55] /\   (* 1.2345678901235e+17 *)
  lua_fmt 999999999999995 = [49;101;43;49;53] /\                                  (* carry: 1e+15 *)
  lua_fmt 18446744073709551615 = [49;46;56;52;52;54;55;52;52;48;55;51;55;49;101;43;49;57].   (* 1.844674407371e+19 *)
Proof. vm_compute. repeat split; reflexivity. Qed.
