(* C17 Memory stream broker implements bounded-stream history semantics.
   Property theorems only; proofs live in Proofs/MemStream.v. *)
From Coq Require Import List NArith ZArith Bool.
From Cfg Require Import Model.MemStream Model.StreamSpec Proofs.MemStream Proofs.MemStreamIdle Harness.C17.
Import ListNotations.
Open Scope N_scope.

(* MAIN.  For ALL operation sequences (publish with any size / TTL / meta TTL /
   idempotency key / version, history with any since / limit / direction,
   remove, arbitrary clock moves and arbitrary placement of the three
   sweepers) the model of the memory broker returns exactly the outputs of
   the bounded append-only stream specification of Model/StreamSpec.v.
   Domain (stated, not hidden): (a) since offsets that cannot wrap uint64, i.e.
   offset < 2^64-1 forward and offset >= 1 in reverse; (b) [run_mono]: no
   operation moves a channel's history or metadata deadline EARLIER than the
   deadline it currently has - true whenever each channel is used with one
   history TTL and one metadata TTL, since the clock is monotone.  Outside (b)
   the code acts on the deadline only at the later instant queued before
   (modelled: Example C17_shorter_ttl_quirk); the corollaries below do not
   need (b). *)
Theorem C17_refines : forall now meta ops,
  run_mono (hub_init now meta) ops = true -> ops_ok ops = true ->
  snd (MemStream.run (hub_init now meta) ops) = snd (sp_run (spec_init now meta) ops).
Proof. exact refines. Qed.
Print Assumptions C17_refines.

(* Offsets start at 1 and increase by one per stored publication: an
   unsuppressed history publish returns top+1 (top = 0 when the channel has no
   metadata), the new top is that offset, the publication is the newest
   retained item, it is delivered once with that position, and the epoch is the
   channel's existing epoch, or a fresh one when the channel had no metadata. *)
Theorem C17_offsets_consecutive : forall h ch id o h' off ep dl,
  publish h ch id o = (h', OPub off ep 0 dl) -> history_on o = true ->
  off = top_of h ch + 1 /\ top_of h' ch = off /\
  dl = [mkDeliv ch id off off ep] /\
  epoch_of h' ch = Some ep /\
  (forall e, epoch_of h ch = Some e -> ep = e) /\
  (epoch_of h ch = None -> ep = h_fresh h) /\
  exists rest, items_of h' ch = rest ++ [mkItem off id].
Proof. exact publish_offset. Qed.
Print Assumptions C17_offsets_consecutive.

(* History returns exactly the retained items filtered by since, limit and
   direction, together with (top, epoch); and in every reachable state the
   retained items are a consecutively numbered run ending at top (a suffix of
   the append-only log). *)
Theorem C17_history_exact : forall h ch s f m,
  reachable h -> h_streams h ch = Some s -> filter_ok f = true ->
  snd (hub_get h ch f m) = OHist (spec_filter (s_top s) (s_items s) f) (s_top s) (s_epoch s) /\
  wf_stream s.
Proof. exact history_exact. Qed.
Print Assumptions C17_history_exact.

Theorem C17_history_unknown_channel : forall h ch f m,
  h_streams h ch = None ->
  snd (hub_get h ch f m) = OHist [] 0 (h_fresh h) /\
  h_streams (fst (hub_get h ch f m)) ch = Some (s_new (h_fresh h)).
Proof. exact history_unknown. Qed.
Print Assumptions C17_history_unknown_channel.

(* The epoch changes only when the stream's metadata is discarded: a stream
   that survives a step keeps its epoch (and its top never decreases); the
   only step after which the stream is gone is SweepRemove with the channel's
   metadata deadline due. *)
Theorem C17_epoch_changes_only_on_discard : forall h o ch s,
  h_streams h ch = Some s ->
  match h_streams (fst (step h o)) ch with
  | Some s' => s_epoch s' = s_epoch s /\ s_top s <= s_top s'
  | None => o = SweepRemove /\
            exists d q, h_rem h ch = Some (d, q) /\ d <= now_s h /\ q <= now_s h
  end.
Proof. exact epoch_stable. Qed.
Print Assumptions C17_epoch_changes_only_on_discard.

(* ... and a channel created afterwards gets an epoch no live stream has. *)
Theorem C17_epochs_never_reused : forall h, reachable h ->
  forall ch s, h_streams h ch = Some s -> s_epoch s < h_fresh h.
Proof. exact reachable_epochs_below. Qed.
Print Assumptions C17_epochs_never_reused.

(* A removed or expired stream keeps its top offset and epoch. *)
Theorem C17_remove_expire_keep_position : forall h o ch s,
  (exists c, o = Remove c) \/ o = SweepExpire ->
  h_streams h ch = Some s ->
  exists s', h_streams (fst (step h o)) ch = Some s' /\
             s_top s' = s_top s /\ s_epoch s' = s_epoch s /\
             s_ver s' = s_ver s /\ s_vep s' = s_vep s /\
             (s_items s' = [] \/ s_items s' = s_items s).
Proof. exact clear_keeps_position. Qed.
Print Assumptions C17_remove_expire_keep_position.

(* ... so a publish after expiry / removal continues at top+1 in the same epoch, *)
Theorem C17_publish_after_expiry_continues : forall h o ch s id po,
  (exists c, o = Remove c) \/ o = SweepExpire ->
  h_streams h ch = Some s ->
  po_key po = 0 -> po_ver po = 0 -> history_on po = true ->
  snd (publish (fst (step h o)) ch id po) =
  OPub (s_top s + 1) (s_epoch s) 0 [mkDeliv ch id (s_top s + 1) (s_top s + 1) (s_epoch s)].
Proof. exact publish_after_clear_continues. Qed.
Print Assumptions C17_publish_after_expiry_continues.

(* ... while after the metadata was discarded it restarts at 1 in a fresh epoch. *)
Theorem C17_publish_after_discard_restarts : forall h ch id po,
  h_streams h ch = None -> po_key po = 0 -> history_on po = true ->
  snd (publish h ch id po) = OPub 1 (h_fresh h) 0 [mkDeliv ch id 1 1 (h_fresh h)].
Proof. exact publish_after_discard_restarts. Qed.
Print Assumptions C17_publish_after_discard_restarts.

(* The oracle used on implementation output decides the specification. *)
Theorem C17_oracle_sound : forall c,
  oracle c = true <-> SpecBehaviour (c_now c) (c_meta c) (c_ops c) (c_obs c).
Proof. exact oracle_sound. Qed.
Print Assumptions C17_oracle_sound.

(* Encoding lemma for the correspondence run: two consecutive idle sweeper
   ticks equal one tick after the combined clock move (state and all later
   outputs), so a long clock move may be recorded with its last tick only.
   (Functional extensionality: the hub's maps are functions.) *)
Theorem C17_idle_ticks_collapse : forall h d1 d2 r,
  MemStream.run h (ticks [d1; d2] ++ r) =
  (fst (MemStream.run h (ticks [d1 + d2] ++ r)),
   OUnit :: OUnit :: OUnit :: OUnit :: snd (MemStream.run h (ticks [d1 + d2] ++ r))).
Proof. exact idle_ticks_collapse. Qed.
Print Assumptions C17_idle_ticks_collapse.

(* ---- non-vacuity and the documented corner ---- *)
Definition po (size : Z) (ttl meta : N) := mkPopts size ttl meta 0 0 0 0.

(* trim to size 2, read, expire (sweep after the 2 s TTL), publish continues at 4,
   metadata discarded after the 5 s meta TTL, channel restarts at 1 in epoch 2 *)
Example C17_run_example :
  snd (MemStream.run (hub_init 700 0)
    [Publish 7 1 (po 2 2000 5000); Publish 7 2 (po 2 2000 5000); Publish 7 3 (po 2 2000 5000);
     History 7 (mkFilter None (-1) false) 5000;
     History 7 (mkFilter (Some (2, 1)) (-1) false) 5000;
     History 7 (mkFilter (Some (4, 0)) 1 true) 5000;
     Advance 2000; SweepExpire; SweepRemove;
     History 7 (mkFilter None (-1) false) 0;
     Publish 7 4 (po 2 2000 0);
     Advance 5000; SweepExpire; SweepRemove;
     Publish 7 5 (po 2 2000 0)])
  = [OPub 1 1 0 [mkDeliv 7 1 1 1 1]; OPub 2 1 0 [mkDeliv 7 2 2 2 1]; OPub 3 1 0 [mkDeliv 7 3 3 3 1];
     OHist [mkItem 2 2; mkItem 3 3] 3 1;
     OHist [mkItem 3 3] 3 1;
     OHist [mkItem 3 3] 3 1;
     OUnit; OUnit; OUnit;
     OHist [] 3 1;
     OPub 4 1 0 [mkDeliv 7 4 4 4 1];
     OUnit; OUnit; OUnit;
     OPub 1 2 0 [mkDeliv 7 5 1 1 2]].
Proof. vm_compute. reflexivity. Qed.

Example C17_run_example_in_domain :
  run_mono (hub_init 700 0)
    [Publish 7 1 (po 2 2000 5000); Publish 7 2 (po 2 2000 5000); Publish 7 3 (po 2 2000 5000);
     History 7 (mkFilter None (-1) false) 5000;
     Advance 2000; SweepExpire; SweepRemove;
     Publish 7 4 (po 2 2000 5000);
     Advance 5000; SweepExpire; SweepRemove;
     Publish 7 5 (po 2 2000 5000)] = true.
Proof. vm_compute. reflexivity. Qed.

(* outside (b): a 5 s TTL followed by a 1 s TTL.  The queue entry keeps
   priority now+5, so the sweep at +1 s leaves the stream alone (the
   specification would expire it) and only the sweep at +5 s clears it. *)
Example C17_shorter_ttl_quirk :
  let ops := [Publish 7 1 (po 2 5000 0); Publish 7 2 (po 2 1000 0);
              Advance 1000; SweepExpire; History 7 (mkFilter None (-1) false) 0;
              Advance 4000; SweepExpire; History 7 (mkFilter None (-1) false) 0] in
  run_mono (hub_init 700 0) ops = false /\
  snd (MemStream.run (hub_init 700 0) ops)
  = [OPub 1 1 0 [mkDeliv 7 1 1 1 1]; OPub 2 1 0 [mkDeliv 7 2 2 2 1];
     OUnit; OUnit; OHist [mkItem 1 1; mkItem 2 2] 2 1;
     OUnit; OUnit; OHist [] 2 1] /\
  nth 4 (snd (sp_run (spec_init 700 0) ops)) OUnit = OHist [] 2 1.
Proof. vm_compute. repeat split; reflexivity. Qed.

(* the two points excluded from the domain: the uint64 arithmetic of
   getLocked wraps.  since.Offset = 2^64-1 forward: offset+1 = 0 is "not in the
   index", the read falls back to the front and returns the whole stream. *)
Example C17_wrap_quirk_fwd :
  snd (MemStream.run (hub_init 700 0)
    [Publish 7 1 (po 2 2000 0); History 7 (mkFilter (Some (U64 - 1, 0)) (-1) false) 0])
  = [OPub 1 1 0 [mkDeliv 7 1 1 1 1]; OHist [mkItem 1 1] 1 1] /\
  snd (sp_run (spec_init 700 0)
    [Publish 7 1 (po 2 2000 0); History 7 (mkFilter (Some (U64 - 1, 0)) (-1) false) 0])
  = [OPub 1 1 0 [mkDeliv 7 1 1 1 1]; OHist [] 1 1].
Proof. split; vm_compute; reflexivity. Qed.
