(* C03 Cache recovery delivers the newest visible publication (sequential
   case; memory stream broker).  Property theorems only; proofs live in
   Proofs/Recover.v. *)
From Coq Require Import List NArith ZArith Bool.
From Cfg Require Import Model.MemStream Model.StreamSpec Model.Merge Model.HistoryCmd Model.Recover
     Proofs.MemStream Proofs.Recover Harness.C03.
Import ListNotations.
Open Scope N_scope.

(* The complete cache-mode decision for EVERY broker state with a well-formed
   stream (every reachable one), every client position, recovery limit and
   filter outcome, when the cache-empty handler is absent or reports "not
   populated": [cache_pick] = the newest publication among the scanned ones
   (newest first, at most RecoveryMaxPublicationLimit of them; just the newest
   one when no tags filter is set) that passes the filters. *)
Theorem C03_decision : forall lim uf filt hnd h ch s off ep meta,
  h_streams h ch = Some s -> wf_stream s -> hnd = HNone \/ hnd = HNo ->
  snd (sub_cache lim uf filt hnd h ch off ep meta []) =
  match cache_pick lim uf filt s with
  | Some p => if same_position s off ep then ROk true [] off (s_epoch s)
              else ROk true [p] off (s_epoch s)
  | None => if same_position s off ep then ROk true [] off (s_epoch s)
            else ROk false [] (s_top s) (s_epoch s)
  end.
Proof. exact cache_decision. Qed.
Print Assumptions C03_decision.

(* At most the single newest publication that passes the server and client
   tags filters is delivered; nothing else ever is. *)
Theorem C03_at_most_newest_visible : forall lim uf filt hnd h ch s off ep meta,
  reachable h -> h_streams h ch = Some s -> hnd = HNone \/ hnd = HNo ->
  let pubs := res_pubs (snd (sub_cache lim uf filt hnd h ch off ep meta [])) in
  pubs = [] \/ exists p, pubs = [p] /\ newest_vis uf filt s = Some p.
Proof. exact cache_at_most_newest_visible. Qed.
Print Assumptions C03_at_most_newest_visible.

(* recovered=true ONLY when the newest publication is present in history or the
   client holds the current position (the "only if" half of the property). *)
Theorem C03_recovered_only_if : forall lim uf filt hnd h ch s off ep meta,
  reachable h -> h_streams h ch = Some s -> hnd = HNone \/ hnd = HNo ->
  is_recovered (snd (sub_cache lim uf filt hnd h ch off ep meta [])) = true ->
  s_items s <> [] \/ same_position s off ep = true.
Proof. exact cache_recovered_implies. Qed.
Print Assumptions C03_recovered_only_if.

(* Without tags filters the report is exact (iff).  [same_position] requires a
   non-zero offset, see C03_zero_position_refuted. *)
Theorem C03_recovered_iff_unfiltered : forall lim filt hnd h ch s off ep meta,
  reachable h -> h_streams h ch = Some s -> hnd = HNone \/ hnd = HNo ->
  (is_recovered (snd (sub_cache lim false filt hnd h ch off ep meta [])) = true <->
   s_items s <> [] \/ same_position s off ep = true).
Proof. exact cache_recovered_iff_unfiltered. Qed.
Print Assumptions C03_recovered_iff_unfiltered.

(* With tags filters: recovered=true iff a scanned publication is visible or the
   client holds the position - which is WEAKER than "the newest publication is
   present": see the refutation below. *)
Theorem C03_recovered_iff_filtered : forall lim filt hnd h ch s off ep meta,
  reachable h -> h_streams h ch = Some s -> hnd = HNone \/ hnd = HNo ->
  (is_recovered (snd (sub_cache lim true filt hnd h ch off ep meta [])) = true <->
   (exists p, find (fun it => negb (filt (i_id it))) (cache_scanned lim true s) = Some p) \/
   same_position s off ep = true).
Proof. exact cache_recovered_iff_filtered. Qed.
Print Assumptions C03_recovered_iff_filtered.

(* For ANY broker state, request, cache-empty handler script (incl. one that
   populates the channel with several publications) and ANY publications racing
   the subscribe: at most one publication is delivered. *)
Theorem C03_at_most_one : forall lim uf filt hnd h ch off ep meta race,
  (length (res_pubs (snd (sub_cache lim uf filt hnd h ch off ep meta race))) <= 1)%nat.
Proof. exact cache_at_most_one. Qed.
Print Assumptions C03_at_most_one.

(* ---- the same over ARBITRARY cache-empty handler scripts (incl. handlers that
   populate the channel with several publications, visible or filtered) and
   ARBITRARY publications racing the subscribe ---- *)

(* The reply is always [finish] (merge with the PUB/SUB buffer, keep the last)
   applied to the decision table of C03_decision for ONE cache read of a
   reachable broker state [ct_read t]: the state before the subscribe, or the
   state after the raced and the handler's publications when the handler
   populated an empty cache and the first attempt had not recovered. *)
Theorem C03_decision_general : forall lim uf filt hnd h ch s off ep meta race,
  reachable h -> h_streams h ch = Some s ->
  exists t sr,
    sub_cache_tr lim uf filt hnd h ch off ep meta race = Some t /\
    snd (sub_cache lim uf filt hnd h ch off ep meta race) =
      finish true (ct_rc t) (map (to_pub (fun _ => false)) (ct_pubs t)) (ct_buf t)
             (s_top sr) (s_epoch sr) off /\
    reachable (ct_read t) /\ h_streams (ct_read t) ch = Some sr /\ wf_stream sr /\
    (ct_pubs t, ct_rc t) =
      match cache_pick lim uf filt sr with
      | Some p => if same_position sr off ep then ([], true) else ([p], true)
      | None => ([], same_position sr off ep)
      end /\
    Forall (fun q => Merge.p_filt q = filt (Merge.p_id q)) (ct_buf t).
Proof. exact cache_decision_general. Qed.
Print Assumptions C03_decision_general.

(* A delivered publication always passes the filters; it is the newest visible
   publication scanned by the deciding read or one that reached the PUB/SUB
   buffer during the subscribe, and neither is newer than it. *)
Theorem C03_at_most_newest_visible_general : forall lim uf filt hnd h ch s off ep meta race p,
  reachable h -> h_streams h ch = Some s -> uf = true \/ (forall id, filt id = false) ->
  In p (res_pubs (snd (sub_cache lim uf filt hnd h ch off ep meta race))) ->
  exists t sr,
    sub_cache_tr lim uf filt hnd h ch off ep meta race = Some t /\
    reachable (ct_read t) /\ h_streams (ct_read t) ch = Some sr /\
    filt (i_id p) = false /\
    (cache_pick lim uf filt sr = Some p \/ exists q, In q (ct_buf t) /\ p = of_pub q) /\
    (forall p', In p' (ct_pubs t) -> i_off p' <= i_off p) /\
    (forall q, In q (ct_buf t) -> Merge.p_filt q = false -> Merge.p_off q <= i_off p).
Proof. exact cache_delivered_general. Qed.
Print Assumptions C03_at_most_newest_visible_general.

Theorem C03_recovered_only_if_general : forall lim uf filt hnd h ch s off ep meta race,
  reachable h -> h_streams h ch = Some s ->
  is_recovered (snd (sub_cache lim uf filt hnd h ch off ep meta race)) = true ->
  exists t sr,
    sub_cache_tr lim uf filt hnd h ch off ep meta race = Some t /\
    reachable (ct_read t) /\ h_streams (ct_read t) ch = Some sr /\
    (s_items sr <> [] \/ same_position sr off ep = true).
Proof. exact cache_recovered_only_if_general. Qed.
Print Assumptions C03_recovered_only_if_general.

(* Server-side Client.Subscribe in cache mode (RecoverSince or AutoCacheRecover):
   the push announces the requested offset when a publication was picked or the
   position is held, the top otherwise; it carries neither the recovered flag
   nor the picked publication. *)
Theorem C03_serverside_decision : forall lim uf filt hnd h ch s off ep meta,
  h_streams h ch = Some s -> wf_stream s -> hnd = HNone \/ hnd = HNo ->
  snd (srv_cache lim uf filt hnd h ch off ep meta) =
  match cache_pick lim uf filt s with
  | Some _ => PSub off (s_epoch s)
  | None => if same_position s off ep then PSub off (s_epoch s) else PSub (s_top s) (s_epoch s)
  end.
Proof. exact srv_cache_decision. Qed.
Print Assumptions C03_serverside_decision.

Theorem C03_oracle_sound : forall off ep fl extra full recovered pubs,
  cache_ok_on off ep fl extra full recovered pubs = true <-> CacheOn off ep fl extra full recovered pubs.
Proof. exact cache_ok_on_sound. Qed.
Print Assumptions C03_oracle_sound.

(* ---- the "if" half of the property fails on the faithful model (and on the
   code: finding keys all-filtered / zero-position) ---- *)
Definition p5 := mkPopts 5 60000 0 0 0 0 0.
Definition hA := fst (MemStream.run (hub_init 700 0) [Publish 0 1 p5; Publish 0 2 p5]).

(* the newest publication (offset 2 = top) IS in history, the client (at offset
   1) does not hold the position, but every scanned publication is excluded by
   the filters: recovered=false is reported *)
Theorem C03_recovered_iff_refuted :
  exists s, h_streams hA 0 = Some s /\ s_items s <> [] /\
    i_off (last (s_items s) (mkItem 0 0)) = s_top s /\
    same_position s 1 1 = false /\
    snd (sub_cache 0 true (fun _ => true) HNone hA 0 1 1 0 []) = ROk false [] 2 1.
Proof.
  eexists. split; [vm_compute; reflexivity|]. vm_compute. repeat split; try reflexivity. discriminate.
Qed.

(* a client presenting (0, current epoch) to an empty stream whose top is 0 does
   hold the current position, yet recovered=false is reported (cmdOffset > 0 is
   required by isCacheRecovered) *)
Definition hB := fst (MemStream.run (hub_init 700 0) [History 0 (mkFilter None (-1) false) 0]).
Theorem C03_zero_position_refuted :
  exists s, h_streams hB 0 = Some s /\ s_top s = 0 /\ s_epoch s = 1 /\
    snd (sub_cache 0 false (fun _ => false) HNone hB 0 0 1 0 []) = ROk false [] 0 1.
Proof. eexists. split; [vm_compute; reflexivity|]. vm_compute. repeat split; reflexivity. Qed.

(* third deviation (finding key cache-gap-disconnect): the newest VISIBLE
   publication (offset 1) is older than a filtered one (offset 2); a visible
   publication (offset 3) arrives while the subscribe runs: MergePublications
   sees a gap between 1 and 3 (cache recovery adds no marker for the filtered
   offset 2) and the subscribe ends in DisconnectInsufficientState (3010) *)
Definition p5t (id : N) := (id, p5).
Theorem C03_gap_disconnect_refuted :
  snd (sub_cache 0 true (fun id => id =? 2) HNo hA 0 0 1 0 [p5t 3]) = RErr 3010.
Proof. vm_compute. reflexivity. Qed.

(* the populate path with filters: the handler stores a visible then a filtered
   publication; the visible one is delivered *)
Example C03_populate_filtered :
  snd (sub_cache 0 true (fun id => id =? 8) (HPopulate [p5t 7; p5t 8]) hB 0 0 0 0 []) = ROk true [mkItem 1 7] 0 1.
Proof. vm_compute. reflexivity. Qed.

(* non-vacuity of the positive theorems *)
Example C03_examples :
  snd (sub_cache 0 false (fun _ => false) HNone hA 0 0 0 0 []) = ROk true [mkItem 2 2] 0 1 /\
  snd (sub_cache 0 true (fun id => id =? 2) HNone hA 0 1 1 0 []) = ROk true [mkItem 1 1] 1 1 /\
  snd (sub_cache 1 true (fun id => id =? 2) HNone hA 0 1 1 0 []) = ROk false [] 2 1 /\
  snd (sub_cache 0 false (fun _ => false) HNone hA 0 2 1 0 []) = ROk true [] 2 1 /\
  snd (sub_cache 0 false (fun _ => false) (HPopulate [(9, p5)]) hB 0 0 0 0 []) = ROk true [mkItem 1 9] 0 1.
Proof. vm_compute. repeat split; reflexivity. Qed.
