From Cfg Require Import Harness.C03.
Theorem C03_stub : True. Proof. exact I. Qed.
