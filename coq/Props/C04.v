(* C04 Publication routing matches subscription state.
   Property theorems only; proofs live in Proofs/SubRoute*.v.

   Model: Model/SubLifecycle.v (one connection, several channels, client- and
   server-side subscribe / unsubscribe, close, connect, presence ticks, other
   connections' subscriptions, the dissolver job).  A schedule is a list of
   labels; [exec] runs it from [init]; one label = one lock section or one
   call into a driver-replaceable interface.

   Full statement wanted by the property text (kept visible):
     forall sched s, exec sched init = Some s -> settled s -> forall c, routing_agrees s c.
   It is FALSE on the faithful model when the 5 s wait-gate timeout fires
   (C04_timeout_refuted); it is proved for all schedules without that label. *)
From Coq Require Import List NArith ZArith Bool.
From Cfg Require Import Model.SubLifecycle Proofs.SubRoute Proofs.SubRouteStep Proofs.SubRouteSettled.
Import ListNotations.
Open Scope N_scope.

(* At EVERY reachable state (not only settled ones) a subscription the connection
   reports has its routing entry, of the same generation. *)
Theorem C04_reported_is_routed_partial :
  forall sched s c x,
    no_timeout sched = true -> exec sched init = Some s ->
    lookup c (chans s) = Some x -> c_sub x = true -> hub s c = Some (c_gen x).
Proof. exact reported_is_routed. Qed.
Print Assumptions C04_reported_is_routed_partial.

(* Once every started operation has finished: subscribed <-> routing entry, the
   entry carries the context's generation, there is no entry without a context,
   and a publication is delivered exactly once iff subscribed (never twice). *)
Theorem C04_settled_partial :
  forall sched s,
    no_timeout sched = true -> exec sched init = Some s -> settled s ->
    forall c, routing_agrees s c.
Proof. exact routing_settled. Qed.
Print Assumptions C04_settled_partial.

(* The routing invariant itself, for all schedules without the timeout label. *)
Theorem C04_inv_partial :
  forall sched s, no_timeout sched = true -> exec sched init = Some s -> Inv s.
Proof. exact exec_inv_init. Qed.
Print Assumptions C04_inv_partial.

(* With the timeout label the full statement fails on the model: a hub entry
   without any context survives the close (model-level witness; the schedule
   needs a preemption between two lock sections of subscribeCmd that no natural
   gate offers, so it is not replayed on the implementation). *)
Theorem C04_timeout_refuted :
  exists sched s,
    exec sched init = Some s /\ all_finished s = true /\
    hub s 0 = Some 2 /\ is_subscribed s 0 = false /\ delivered s 0 = 1.
Proof. exact timeout_refuted. Qed.
Print Assumptions C04_timeout_refuted.

(* Non-vacuity: a schedule with a stale unsubscribe racing a re-subscribe reaches a
   settled state in which the connection is subscribed with the NEW generation. *)
Definition o_pj := mkOpts true true.
Definition stale_unsub_schedule : list label :=
  [LSpawn OConnect] ++ rep 9 (LStep 0 true) ++
  [LSpawn (OSubCli 0 o_pj)] ++ rep 11 (LStep 2 true) ++       (* generation 1 established *)
  [LSpawn (OUnsubCli 0); LStep 4 true] ++                     (* U1 snapshots generation 1 *)
  [LSpawn (OUnsubCli 0)] ++ rep 6 (LStep 6 true) ++           (* U2 removes generation 1 completely *)
  [LSpawn (OSubSrv 0 o_pj)] ++ rep 9 (LStep 8 true) ++        (* generation 2 established *)
  rep 1 (LStep 4 true).                                       (* U1's gen-matched delete is a no-op *)

Example C04_nonvacuous :
  exists s, exec stale_unsub_schedule init = Some s /\ no_timeout stale_unsub_schedule = true /\
            all_finished s = true /\ is_subscribed s 0 = true /\ hub s 0 = Some 2.
Proof.
  destruct (exec stale_unsub_schedule init) as [s|] eqn:E; [|vm_compute in E; discriminate].
  exists s. split; auto. vm_compute in E. inversion E; subst. vm_compute. repeat split; reflexivity.
Qed.
