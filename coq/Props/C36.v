(* C36 Liveness timers close exactly the connections they should.
   Property theorems only; proofs in Proofs/Timers.v, model Model/Timers.v (the code after
   fixes/C36-refresh-no-expiry-keeps-timers.patch), specification predicate Model/TimersSpec.v. *)
From Coq Require Import List NArith Bool.
From Cfg Require Import Model.Timers Model.TimersSpec Proofs.Timers.
Import ListNotations.
Open Scope N_scope.

(* Single-timer multiplexing never starves a due check: for ALL configurations and ALL
   sequences of time steps, timer firings (only when due), connects, pongs, client refresh /
   sub refresh commands and server-side Refresh calls, an open connection always has its one
   timer armed not later than every pending deadline (expiry, presence tick, ping, pong check). *)
Theorem C36_no_starvation :
  forall g ls s os, exec g (init g) ls = Some (s, os) -> cover_ok (snap_of s) = true.
Proof. exact no_starvation. Qed.
Print Assumptions C36_no_starvation.

(* The code before the fix violates it: Refresh() without expiry on an expiring connection,
   then the old expiry check fires and nothing is armed any more (no pings, no pong checks). *)
Theorem C36_prefix_code_starves_refuted :
  exists g ls s os,
    exec_prefix g (init g) ls = Some (s, os) /\ closed s = false /\ cover_ok (snap_of s) = false.
Proof. exact prefix_starves. Qed.
Print Assumptions C36_prefix_code_starves_refuted.

(* A timer never fires before it is due. *)
Theorem C36_not_before_due :
  forall g s k due, armed s = Some (k, due) -> now s < due -> fire g s = None.
Proof. exact fire_not_before. Qed.
Print Assumptions C36_not_before_due.

(* No pong: when the pong check fires, the connection is closed with no-pong (3012) iff no pong
   was recorded after the last ping; otherwise it stays open and the check is cleared. *)
Theorem C36_pong_check :
  forall g s due,
    closed s = false -> armed s = Some (OpPong, due) -> due <= now s ->
    (lastSeen s < lastPing s ->
       exists s', fire g s = Some (s', [OClose 3012]) /\ closed s' = true) /\
    (lastPing s <= lastSeen s ->
       exists s', fire g s = Some (s', []) /\ closed s' = false /\ nPong s' = 0).
Proof. exact pong_check. Qed.
Print Assumptions C36_pong_check.

(* ... and over ALL runs "recorded after the last ping" means exactly "a pong frame was
   accepted since the last ping" (ponged): an answered ping never leads to no-pong, an
   unanswered one always does. *)
Theorem C36_pong_bookkeeping :
  forall g ls s os, exec g (init g) ls = Some (s, os) ->
    (ponged s = true -> lastPing s <= lastSeen s) /\
    (ponged s = false -> 0 < lastPing s -> lastSeen s < lastPing s).
Proof. intros g ls s os H. destruct (exec_K g ls s os H) as [_ [_ [A B]]]. auto. Qed.
Print Assumptions C36_pong_bookkeeping.

(* Stale: the stale check closes an unauthenticated connection with 3502. *)
Theorem C36_stale_check :
  forall g s due,
    closed s = false -> armed s = Some (OpStale, due) -> due <= now s -> auth s = false ->
    exists s', fire g s = Some (s', [OClose 3502]) /\ closed s' = true.
Proof. exact stale_check. Qed.
Print Assumptions C36_stale_check.

(* Expiry: when the expiry check fires past the expiry and nobody extends it (client-side
   refresh mode, or no RefreshHandler), the connection is closed with expired (3005) ... *)
Theorem C36_expire_check :
  forall g s due,
    closed s = false -> armed s = Some (OpExpire, due) -> due <= now s ->
    0 < exp s -> exp s <= now s -> (csr s = true \/ g_refresh g = RNone) ->
    exists s', fire g s = Some (s', [OClose 3005]) /\ closed s' = true.
Proof. exact expire_check. Qed.
Print Assumptions C36_expire_check.

(* ... over ALL runs the expiry check is never armed before the CURRENT expiry, so a
   connection refreshed in time is not closed at the old one ... *)
Theorem C36_expire_not_early :
  forall g ls s os due,
    exec g (init g) ls = Some (s, os) -> closed s = false ->
    armed s = Some (OpExpire, due) -> 0 < exp s /\ exp s <= due.
Proof. exact expire_not_early. Qed.
Print Assumptions C36_expire_not_early.

(* ... and an accepted client refresh moves it to the new expiry plus the grace delay. *)
Theorem C36_refresh_moves_deadline :
  forall g s e,
    closed s = false -> csr s = true -> now s < e ->
    let s' := fst (refresh_cmd g s e) in
    exp s' = e /\ nExpire s' = e + g_exp_delay g /\ closed s' = false.
Proof. exact refresh_moves_deadline. Qed.
Print Assumptions C36_refresh_moves_deadline.

(* Subscription expiry: the presence tick unsubscribes (2501) exactly the client-side
   subscriptions whose expiry plus grace delay has passed and that the application does not
   extend ([sub_gone]: client-side refresh, or the SubRefreshHandler fails / answers expired);
   the handler is asked exactly about the expired ones without client-side refresh ([tick_out]). *)
Theorem C36_subscription_expiry :
  forall g l s,
    closed s = false ->
    (forall b, In b l -> sub_gone g s b = true -> sb_server b = false) ->
    snd (tick_subs g s l) = flat_map (tick_out g s) l /\
    closed (fst (tick_subs g s l)) = false.
Proof. exact tick_subs_spec. Qed.
Print Assumptions C36_subscription_expiry.

(* Server-side sub refresh: an expired subscription without client-side refresh that the
   SubRefreshHandler extends stays subscribed with the new expiry; nothing is written. *)
Theorem C36_subscription_extended :
  forall g s b e,
    closed s = false -> sub_expired g s b = true -> sub_refreshed g s b = Some e ->
    tick_subs g s [b] = (set_subs s (set_sub_exp (subs s) (sb_name b) e), [OAsk (sb_name b)]).
Proof. exact tick_sub_extended. Qed.
Print Assumptions C36_subscription_extended.

(* Periodic position check at the presence tick: the subscriptions found at an invalid position
   ([pos_invalid]: positioned, last check more than the delay ago, stream top differs) are
   exactly the ones unsubscribed with 2500; a server-side one closes with 3010; one checked
   no more than the delay ago is left alone. *)
Theorem C36_position_invalid_unsubscribes :
  forall l s,
    closed s = false -> (forall b, In b l -> sb_server b = false) ->
    snd (tick_pos s l) = map (fun b => OUnsub (sb_name b) 2500) l /\
    closed (fst (tick_pos s l)) = false.
Proof. exact tick_pos_spec. Qed.
Print Assumptions C36_position_invalid_unsubscribes.

Theorem C36_position_invalid_server_side :
  forall s b r, closed s = false -> sb_server b = true -> tick_pos s (b :: r) = close s 3010.
Proof. exact tick_pos_server. Qed.
Print Assumptions C36_position_invalid_server_side.

Theorem C36_position_check_not_before_delay :
  forall g s b, now s - sb_check b <= g_pos_delay g -> pos_invalid g s b = false.
Proof. exact pos_not_due. Qed.
Print Assumptions C36_position_check_not_before_delay.

(* The stale check spares an authenticated connection also while its connect command is still
   inside the application's OnConnect handler (authenticated, on-connect timers not armed yet,
   the stale timer still the armed one and firing when due): nothing is written or closed, and
   the whole label is a connect [d] seconds later. *)
Theorem C36_stale_spares_connecting :
  forall g s e c fp fi d,
    unusable s = false -> snd (connect_slow g s e c fp fi d) = [].
Proof. exact stale_spares_connecting. Qed.
Print Assumptions C36_stale_spares_connecting.

Theorem C36_slow_connect_is_late_connect :
  forall g s e c fp fi d,
    unusable s = false ->
    connect_slow g s e c fp fi d = (connect g (advance s d) e c fp fi, []).
Proof. exact connect_slow_eq. Qed.
Print Assumptions C36_slow_connect_is_late_connect.

(* Non-vacuity: a run with ping, pong, refresh and an expiry close. *)
Definition ex_cfg := mkCfg 20 10 23 20 10 10 false RNone SFail 0.
Example C36_ex_run :
  match exec ex_cfg (init ex_cfg)
          [LAdvance 5; LConnect 20 true 13 10; LAdvance 10; LFire; LPong; LRefreshCmd 60;
           LAdvance 60; LFire; LFire; LFire; LFire] with
  | Some (s, os) => (closed s, concat os)
  | None => (false, [])
  end = (true, [OPing; OReply 0; OPing; OClose 3005]).
Proof. vm_compute. reflexivity. Qed.
Example C36_ex_expired :
  match exec ex_cfg (init ex_cfg) [LAdvance 5; LConnect 20 true 13 10; LAdvance 30; LFire; LFire; LFire] with
  | Some (s, os) => (closed s, concat os)
  | None => (false, [])
  end = (true, [OPing; OClose 3005]).
Proof. vm_compute. reflexivity. Qed.
