(* placeholder while the correspondence is being established *)
From Cfg Require Import Model.Timers.
From Coq Require Import NArith.
Example C36_placeholder : closed (init (mkCfg 20%N 10%N 30%N 20%N 10%N 10%N false RNone)) = false.
Proof. reflexivity. Qed.
