(* C37 Connection limits are enforced.
   Property theorems only; proofs in Proofs/Limits.v, model Model/Limits.v (the code after
   fixes/C37-shared-poll-channel-length.patch and fixes/C37-map-subscribe-limit.patch),
   specification predicate Model/LimitsSpec.v. *)
From Coq Require Import List NArith Bool.
From Cfg Require Import Model.Limits Model.LimitsSpec Proofs.Limits.
Import ListNotations.
Open Scope N_scope.

(* For ALL configurations and ALL sequences of client subscribe commands (stream, shared-poll
   and map routes, callbacks answered at once or held and completed in any order),
   server-side subscribes, unsubscribes (also one that waits for a held subscribe callback),
   enqueues, and whatever server-side subscriptions the connection starts with: after every step the connection holds at
   most [limit] channels, counting the reservations of subscribes still in flight. *)
Theorem C37_limit_never_exceeded :
  forall g names ls t, trace g (fst (start g names)) ls = Some t ->
    forall o s, In (o, s) t -> g_limit g = 0 \/ held s <= g_limit g.
Proof. exact limit_invariant. Qed.
Print Assumptions C37_limit_never_exceeded.

(* Connect-time server-side subscriptions above the limit disconnect with 3505 and none is created. *)
Theorem C37_connect_over_limit :
  forall g names, 0 < g_limit g -> g_limit g < N.of_nat (length names) ->
    start g names = (mkSt true [] [] [] [] 0 0, [OClose 3505]).
Proof. exact connect_over_limit. Qed.
Print Assumptions C37_connect_over_limit.

(* The code before the fixes violates it: overlapping map subscribes with held callbacks all
   pass the limit check (a map subscribe reserved nothing) and are all installed. *)
Theorem C37_limit_prefix_refuted :
  exists g ls t o s, trace_prefix g init ls = Some t /\ In (o, s) t /\ 0 < g_limit g /\ g_limit g < held s.
Proof. exact limit_prefix_refuted. Qed.
Print Assumptions C37_limit_prefix_refuted.

(* At the limit a further (valid, new) client subscribe gets limit exceeded (106), nothing
   is reserved and the application is not called ... *)
Theorem C37_at_limit_client :
  forall g s n len rt sc,
    closed s = false -> 0 < g_limit g -> g_limit g <= held s ->
    (g_maxlen g = 0 \/ len <= g_maxlen g) -> taken s n = false ->
    sub_cmd g s n len rt sc = (s, [OReply 106]).
Proof. exact at_limit_client. Qed.
Print Assumptions C37_at_limit_client.

(* ... and a server-side subscribe disconnects with channel limit (3505). *)
Theorem C37_at_limit_server :
  forall g s n,
    closed s = false -> 0 < g_limit g -> g_limit g <= held s ->
    exists s', srv_sub g s n = (s', [OClose 3505]) /\ closed s' = true.
Proof. exact at_limit_server. Qed.
Print Assumptions C37_at_limit_server.

(* A client subscribe with an over-long channel name is rejected (107) on EVERY route, in
   every state: nothing reserved, no application callback. *)
Theorem C37_too_long_rejected :
  forall g s n len rt sc,
    closed s = false -> 0 < g_maxlen g -> g_maxlen g < len ->
    sub_cmd g s n len rt sc = (s, [OReply 107]).
Proof. exact too_long_rejected. Qed.
Print Assumptions C37_too_long_rejected.

(* The code before the fix violates this on the shared-poll route. *)
Theorem C37_too_long_prefix_refuted :
  exists g s n len sc, closed s = false /\ 0 < g_maxlen g /\ g_maxlen g < len /\
    sub_cmd_prefix g s n len RSharedPoll sc <> (s, [OReply 107]).
Proof. exact too_long_prefix_refuted. Qed.
Print Assumptions C37_too_long_prefix_refuted.

(* Queue limit: closed as slow (3008) exactly when the queued bytes exceed it. *)
Theorem C37_slow_iff :
  forall g s size,
    closed s = false -> 0 < g_maxq g ->
    (g_maxq g < q s + size ->
       exists s', enqueue g s size = (s', [OClose 3008]) /\ closed s' = true) /\
    (q s + size <= g_maxq g ->
       exists s', enqueue g s size = (s', []) /\ closed s' = false /\ q s' = q s + size).
Proof. exact slow_iff. Qed.
Print Assumptions C37_slow_iff.

(* Non-vacuity *)
Example C37_ex_limit :
  match trace (mkCfg 2 8 0) init
          [LSub 1 3 RStream SAsync; LSub 2 3 RStream SAsync; LSub 3 3 RStream SOk; LComplete 0 true;
           LComplete 1 false; LSub 3 3 RStream SOk; LSrvSub 10] with
  | Some t => map fst t
  | None => []
  end = [[OHandler 1]; [OHandler 2]; [OReply 106]; [OReply 0]; [OReply 103]; [OHandler 3; OReply 0]; [OClose 3505]].
Proof. vm_compute. reflexivity. Qed.
Example C37_ex_map :
  match trace (mkCfg 2 0 0) init
          [LSub 1 3 RMap SAsync; LSub 2 3 RMap SAsync; LSub 3 3 RMap SAsync;
           LComplete 0 true; LComplete 1 true; LComplete 2 true] with
  | Some t => map fst t
  | None => []
  end = [[OHandler 1]; [OHandler 2]; [OHandler 3]; [OReply 0]; [OReply 0]; [OReply 106]].
Proof. vm_compute. reflexivity. Qed.
Example C37_ex_slow :
  match trace (mkCfg 0 0 200) init [LEnqueue 100; LEnqueue 100; LEnqueue 40] with
  | Some t => map fst t
  | None => []
  end = [[]; []; [OClose 3008]].
Proof. vm_compute. reflexivity. Qed.
