From Coq Require Import NArith.
From Cfg Require Import Model.Limits.
Example C37_placeholder : closed init = false. Proof. reflexivity. Qed.
