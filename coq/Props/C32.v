(* placeholder *)
From Cfg Require Import Model.StreamFraming.
