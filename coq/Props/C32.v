(* C32 SSE and HTTP-stream framing deliver each message intact.
   Property theorems only; proofs live in Proofs/StreamFraming.v and
   Proofs/StreamFramingHarness.v.

   Server side: [sse_frame true] (handler_sse.go after fixes/C32-sse-strip-cr.patch),
   [json_frame], [pb_frame] (handler_http_stream.go).  Client side: [sse_parse] (WHATWG
   event-stream interpretation), [ndjson_parse], [pb_parse], written from the standards. *)
From Coq Require Import List NArith Bool.
From Cfg Require Import Model.Decimal Model.StreamFraming Proofs.StreamFraming
  Harness.C32 Proofs.StreamFramingHarness.
Import ListNotations.
Open Scope N_scope.

(* SSE: for ALL message lists without raw LF (the protocol's JSON encoder strips raw LF
   from raw payloads and escapes it inside strings; corr checks this on every queued
   message) an EventSource parser receives exactly one event per message, in order, of
   the default type, whose data is the message with raw CRs removed ... *)
Theorem C32_sse :
  forall msgs, Forall (fun m => lf_free m = true) msgs ->
    sse_parse (sse_frame true msgs) = map (fun m => mkEv [] (strip_cr m) [] None) msgs.
Proof. exact sse_roundtrip. Qed.
Print Assumptions C32_sse.

(* ... which for JSON texts (no raw control character inside a string literal) is the
   same JSON text up to insignificant whitespace: the content decodes to the same message. *)
Theorem C32_sse_content :
  forall msgs,
    Forall (fun m => lf_free m = true) msgs ->
    Forall (fun m => json_clean m = true) msgs ->
    map ev_type (sse_parse (sse_frame true msgs)) = map (fun _ => []) msgs /\
    map (fun e => normalise (ev_data e)) (sse_parse (sse_frame true msgs)) = map normalise msgs.
Proof. exact sse_roundtrip_content. Qed.
Print Assumptions C32_sse_content.

(* the same for any later slice of the body (the handler writes batch by batch) *)
Theorem C32_sse_chunk :
  forall msgs, Forall (fun m => lf_free m = true) msgs ->
    sse_parse (flat_map (sse_msg true) msgs) = map (fun m => mkEv [] (strip_cr m) [] None) msgs.
Proof. exact sse_chunk_roundtrip. Qed.
Print Assumptions C32_sse_chunk.

(* The handlers get the messages in batches and write batch after batch (several
   messages per write / flush): the same holds for every batching. *)
Theorem C32_sse_batches :
  forall batches, Forall (Forall (fun m => lf_free m = true)) batches ->
    sse_parse (sse_body true batches) = map (fun m => mkEv [] (strip_cr m) [] None) (concat batches).
Proof. exact sse_batches_roundtrip. Qed.
Print Assumptions C32_sse_batches.

Theorem C32_ndjson_batches :
  forall batches, Forall (Forall (fun m => lf_free m = true)) batches ->
    ndjson_parse (json_body batches) = concat batches.
Proof. exact json_batches_roundtrip. Qed.
Print Assumptions C32_ndjson_batches.

Theorem C32_pb_batches :
  forall batches, Forall (Forall pb_small) batches ->
    pb_parse (S (length (pb_body batches))) (pb_body batches) = Some (concat batches).
Proof. exact pb_batches_roundtrip. Qed.
Print Assumptions C32_pb_batches.

(* The parser implements the id and retry fields (and the leading BOM) of the standard;
   the handler never produces them: every event has an empty last-event-id, no
   reconnection time and the default type. *)
Theorem C32_sse_no_id_retry :
  forall msgs, Forall (fun m => lf_free m = true) msgs ->
    Forall (fun e => ev_id e = [] /\ ev_retry e = None /\ ev_type e = []) (sse_parse (sse_frame true msgs)).
Proof. exact sse_no_id_retry. Qed.
Print Assumptions C32_sse_no_id_retry.

(* Before the fix the statement is false (finding F8): {"a":<CR>1} is a JSON text the
   protocol accepts, and the event a conforming parser receives is cut at the CR. *)
Theorem C32_sse_unfixed_refuted :
  exists msgs,
    Forall (fun m => lf_free m = true) msgs /\ Forall (fun m => json_clean m = true) msgs /\
    map (fun e => normalise (ev_data e)) (sse_parse (sse_frame false msgs)) <> map normalise msgs.
Proof. exact sse_unfixed_refuted. Qed.
Print Assumptions C32_sse_unfixed_refuted.

(* HTTP streaming, JSON: records split at LF are exactly the messages (raw CR is legal
   JSON whitespace inside a record). *)
Theorem C32_ndjson :
  forall msgs, Forall (fun m => lf_free m = true) msgs -> ndjson_parse (json_frame msgs) = msgs.
Proof. exact ndjson_roundtrip. Qed.
Print Assumptions C32_ndjson.

(* HTTP streaming, Protobuf: ALL binary messages (any bytes, shorter than 2^56). *)
Theorem C32_pb :
  forall msgs, Forall pb_small msgs ->
    pb_parse (S (length (pb_frame msgs))) (pb_frame msgs) = Some msgs.
Proof. exact pb_roundtrip. Qed.
Print Assumptions C32_pb.

Theorem C32_strip_cr_same_json :
  forall m, json_clean m = true -> normalise (strip_cr m) = normalise m.
Proof. exact strip_cr_same_json. Qed.
Print Assumptions C32_strip_cr_same_json.

(* the decidable oracle is sound, and the model passes it on all inputs of its domain *)
Theorem C32_oracle_sound :
  forall c, oracle c = true ->
    match c with
    | CSsePre body => exists e, sse_parse body = [e] /\ ev_type e = []
    | CSse body ref => Forall2 same_event (sse_parse body) ref
    | CNd body ref => ndjson_parse body = ref
    | CPb body ref => pb_parse (S (length body)) body = Some ref
    end.
Proof. exact oracle_sound. Qed.
Print Assumptions C32_oracle_sound.

Theorem C32_model_meets_oracle :
  forall ref,
    (Forall (fun m => lf_free m = true) ref -> Forall (fun m => json_clean m = true) ref ->
     oracle (CSse (flat_map (sse_msg true) ref) ref) = true) /\
    (Forall (fun m => lf_free m = true) ref -> oracle (CNd (json_frame ref) ref) = true) /\
    (Forall pb_small ref -> oracle (CPb (pb_frame ref) ref) = true).
Proof. exact model_meets_oracle. Qed.
Print Assumptions C32_model_meets_oracle.

(* ---- non-vacuity ---- *)
Example C32_ex_sse :     (* messages  {"a":<CR>1}  and  {"s":"data: x"}  *)
  sse_parse (sse_frame true [[123;34;97;34;58;13;49;125]; [123;34;115;34;58;34;100;97;116;97;58;32;120;34;125]])
  = [mkEv [] [123;34;97;34;58;49;125] [] None; mkEv [] [123;34;115;34;58;34;100;97;116;97;58;32;120;34;125] [] None].
Proof. vm_compute. reflexivity. Qed.

Example C32_ex_sse_unfixed_cut :   (* before the fix the first event is  {"a":  *)
  sse_parse (sse_frame false [[123;34;97;34;58;13;49;125]]) = [mkEv [] [123;34;97;34;58] [] None].
Proof. vm_compute. reflexivity. Qed.

Example C32_ex_sse_standard :      (* the parser follows the standard: comments, CRLF, multi-line data, event type *)
  sse_parse [58;120;13;10; 101;118;101;110;116;58;32;116;10; 100;97;116;97;58;97;13; 100;97;116;97;58;32;98;10; 10; 100;97;116;97;10;10]
  = [mkEv [116] [97;10;98] [] None; mkEv [] [] [] None].
Proof. vm_compute. reflexivity. Qed.

Example C32_ex_pb :
  pb_parse 10 (pb_frame [[10;13;0]; []; repeat 7 130]) = Some [[10;13;0]; []; repeat 7 130].
Proof. vm_compute. reflexivity. Qed.

Example C32_ex_json_clean :
  json_clean [123;34;97;34;58;13;49;125] = true /\           (* {"a":<CR>1} *)
  json_clean [34;97;13;34] = false /\                        (* "a<CR>" : raw CR inside a string is not JSON *)
  normalise [123;32;34;97;32;34;9;58;13;10;49;125] = [123;34;97;32;34;58;49;125].
Proof. vm_compute. auto. Qed.

Example C32_ex_sse_id_retry_bom :   (* BOM, "id: 7", "retry: 250", "retry: x" (ignored), "id" with NUL (ignored) *)
  sse_parse [239;187;191; 105;100;58;32;55;10; 114;101;116;114;121;58;32;50;53;48;10; 100;97;116;97;58;97;10;10;
             114;101;116;114;121;58;120;10; 105;100;58;0;10; 100;97;116;97;58;98;10;10]
  = [mkEv [] [97] [55] (Some 250); mkEv [] [98] [55] (Some 250)].
Proof. vm_compute. reflexivity. Qed.
