(* C11 (preliminary; theorems added below as they are proved) *)
From Coq Require Import List NArith Bool.
From Cfg Require Import Model.Connect.
Import ListNotations.

Example C11_smoke :
  option_map wlog (crun (mkCC false true false false) cinit [AConnAdd; AConnReply; AWBegin; AWEnd; APush; AWBegin; AWEnd])
  = Some [WRaw IConn; WEnc IPush].
Proof. vm_compute. reflexivity. Qed.
