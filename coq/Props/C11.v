(* C11 The connect reply is the first server message; dictionary-compression encoder life cycle.
   Property theorems only; proofs in Proofs/Connect.v.  Model: Model/Connect.v (one
   connection: connect thread, pushes reaching the client through the hub, the writer
   goroutine with Encode as a two-step action, direct ReplyWithoutQueue writes, close() in
   four steps).  All theorems quantify over ALL schedules (lists of labels).

   Flags: cc_fix_hub = false / cc_fix_lock = false is the code as it stands.
   cc_fix_hub = true  -- nothing can address the connection inside the window between
        addClient and the connect reply (the proposed patch; equivalently: the code as it
        stands restricted to schedules with no push in that window);
   cc_fix_lock = true -- CloseDictionaryCompression runs under the write mutex (proposed patch). *)
From Coq Require Import List NArith Bool.
From Cfg Require Import Model.Connect Proofs.Connect.
Import ListNotations.

(* the first frame on the wire is never an encoded one: every configuration, every schedule *)
Theorem C11_first_frame_raw : forall c ls s, crun c cinit ls = Some s -> head_raw (wlog s).
Proof. exact c11_first_frame_raw. Qed.
Print Assumptions C11_first_frame_raw.

(* the connect reply is the first message -- queue mode, no push inside the window.
   PARTIAL w.r.t. the property text: the property quantifies over node-level sends /
   subscribes / publications racing the connect, which is exactly the window excluded here
   (see the refutation below); ReplyWithoutQueue is not covered by this theorem. *)
Theorem C11_connect_first_partial : forall c ls s,
  cc_rwq c = false -> cc_fix_hub c = true -> crun c cinit ls = Some s -> conn_first (wlog s) = true.
Proof. exact c11_connect_first. Qed.
Print Assumptions C11_connect_first_partial.

(* REFUTED for the code as it stands: a push accepted inside the window is written first
   (raw) and the connect reply is then written ENCODED *)
Theorem C11_connect_first_refuted :
  exists s, crun (mkCC false true false false) cinit sched_window = Some s /\
            conn_first (wlog s) = false /\ conn_raw (wlog s) = false.
Proof. exact c11_connect_first_refuted. Qed.
Print Assumptions C11_connect_first_refuted.

(* encoder call log: Close at most once, never while an Encode is running, no Encode after
   it -- in queue mode as the code stands, and in every mode with the write-mutex patch *)
Theorem C11_encoder_lifecycle : forall c ls s,
  (cc_rwq c = false \/ cc_fix_lock c = true) -> crun c cinit ls = Some s -> elog_ok 0 false (elog s) = true.
Proof. exact c11_encoder_lifecycle. Qed.
Print Assumptions C11_encoder_lifecycle.

(* REFUTED with ReplyWithoutQueue as the code stands: Close during Encode *)
Theorem C11_encoder_refuted :
  exists s, crun (mkCC true true false false) cinit sched_close_encode = Some s /\
            elog_ok 0 false (elog s) = false.
Proof. exact c11_encoder_refuted. Qed.
Print Assumptions C11_encoder_refuted.

(* "every later frame goes through the connection's encoder": queue mode, negotiated codec *)
Theorem C11_rest_encoded : forall c ls s,
  cc_rwq c = false -> cc_dict c = true -> crun c cinit ls = Some s -> rest_encoded (wlog s) = true.
Proof. exact c11_rest_encoded. Qed.
Print Assumptions C11_rest_encoded.
(* (with ReplyWithoutQueue a reply written directly after CloseDictionaryCompression goes out
   raw: the statement does not hold there, with or without the lock patch) *)
Example C11_rest_encoded_rwq_counterexample :
  option_map wlog (crun (mkCC true true false true) cinit
     [AConnAdd; AConnReply; ADEnd; AKFlag; AKWriter; AKDict; ADirect; ADEnd])
  = Some [WRaw IConn; WRaw IPush].
Proof. vm_compute. reflexivity. Qed.

(* "the encoder is closed exactly once": every configuration, every schedule -- never more
   than one Close; exactly one once a codec was installed and close() has reached
   CloseDictionaryCompression; none before *)
Theorem C11_close_once : forall c ls s, crun c cinit ls = Some s ->
  (count_close (elog s) <= 1)%nat /\
  (cc_dict c = true -> pcC s <> CStart -> closing (kl s) = true -> count_close (elog s) = 1%nat) /\
  (closing (kl s) = false -> count_close (elog s) = 0%nat).
Proof. exact c11_close_once. Qed.
Print Assumptions C11_close_once.

Example C11_reachable :
  option_map (fun s => (wlog s, elog s))
    (crun (mkCC false true false false) cinit
       [AConnAdd; AConnReply; AWBegin; AWEnd; APush; AWBegin; AWEnd; AKFlag; AKWriter; AKDict; AKDone])
  = Some ([WRaw IConn; WEnc IPush], [EBegin; EEnd; EClose]).
Proof. vm_compute. reflexivity. Qed.
