(* C39 Recovery merge is sorted, deduplicated and detects gaps.
   Property theorems only; proofs live in Proofs/Merge.v. *)
From Coq Require Import List NArith Bool.
From Cfg Require Import Model.Merge Model.MergeSpec Proofs.Merge.
Import ListNotations.

(* For ALL pairs of publication lists the model of MergePublications meets
   the specification (sorted, no duplicate offsets, no placeholders, exactly
   the real offsets of the union, max seen offset; failure iff buffered
   non-empty and an uncovered hole exists). *)
Theorem C39_merge_spec :
  forall rec buf,
    let '(out, maxo, ok) := merge rec buf in MergeSpec rec buf out maxo ok.
Proof. exact merge_meets_spec. Qed.
Print Assumptions C39_merge_spec.

(* The decidable oracle applied to implementation output is sound and
   complete for the specification. *)
Theorem C39_oracle_sound :
  forall rec buf out maxo ok,
    merge_spec_b rec buf out maxo ok = true -> MergeSpec rec buf out maxo ok.
Proof. exact merge_spec_b_sound. Qed.
Print Assumptions C39_oracle_sound.

Theorem C39_oracle_complete :
  forall rec buf out maxo ok,
    MergeSpec rec buf out maxo ok -> merge_spec_b rec buf out maxo ok = true.
Proof. exact merge_spec_b_complete. Qed.
Print Assumptions C39_oracle_complete.

(* Non-vacuity: both outcomes occur. *)
Example C39_ok_case :
  merge [mkPub 1 false 10; mkPub 2 true 0] [mkPub 3 false 11; mkPub 1 false 12]
  = ([mkPub 1 false 10; mkPub 3 false 11], 3%N, true).
Proof. vm_compute. reflexivity. Qed.
Example C39_gap_case :
  merge [mkPub 1 false 10] [mkPub 4 false 11; mkPub 2 true 0] = ([], 0%N, false).
Proof. vm_compute. reflexivity. Qed.
