(* C30 WebSocket messages round-trip through writer and reader.
   Property theorems only; proofs live in Proofs/WsWriteA.v .. WsWriteD.v, WsWriteZ.v.
   Model: Model/WsWrite.v (flushFrame, messageWriter Write/WriteString/ReadFrom, WriteMessage,
   WriteControl, PreparedMessage, truncWriter).  The decoder on the other end is the STRICT reference
   decoder of C29 (Model/WsReadSpec.v): decoding without a violation = the wire bytes are valid RFC 6455
   frames (opcodes, FIN/continuation discipline, minimal lengths, control <= 125, mask per direction). *)
From Coq Require Import String List NArith Bool.
From Cfg Require Import Gen.WsConst Model.WsUtf8 Model.WsClose Model.WsFrame Model.WsRead Model.WsReadSpec Model.WsWrite Model.WsWriteSpec
     Proofs.WsReadB Proofs.WsReadC Proofs.WsWriteA Proofs.WsWriteB Proofs.WsWriteC Proofs.WsWriteD Proofs.WsWriteZ Proofs.WsWriteG Proofs.WsWriteJ Proofs.WsWriteK.
Import ListNotations.
Open Scope N_scope.

(* ------------------------------------------------------------------ round trip *)

(* For ALL sequences of write operations (WriteMessage, NextWriter + any mix of Write / WriteString /
   ReadFrom + Close, WriteControl, WritePreparedMessage), ALL write buffer sizes >= 1, ALL masking
   keys, server and client side, without write compression:
   the strict RFC decoder, as the peer, reads from the bytes on the wire exactly the messages whose
   write returned nil - same type, same bytes, same order - a pong per ping, and the close frame
   last; it finds no protocol violation.
   op_ok: text messages are UTF-8, messages are shorter than 2^63 bytes, close payloads are valid
   (what the application must supply); keys_ok: masking keys have 4 bytes. *)
Theorem C30_roundtrip : forall ok infl cfg ops keys,
    c_maxFrameHeaderSize < wc_buf cfg -> wc_compress cfg = false ->
    keys_ok keys -> Forall (op_ok ok) ops ->
    spec_read (strict ok) (peer_cfg cfg) infl (fst (write_all cfg keys false ops))
    = close_at_end (ops_events ops (map is_none (snd (write_all cfg keys false ops)))).
Proof.
  intros ok infl cfg ops keys Hcap Hnoz Hk Hok.
  pose proof (roundtrip ok infl cfg Hcap Hnoz ops keys Hk Hok) as R.
  unfold spec_run, S0, peer in R. unfold spec_read, peer_cfg. rewrite Hnoz. exact R.
Qed.
Print Assumptions C30_roundtrip.

(* The same, with the READER MODEL of C29 (the Go reader, proved equal to the reference decoder)
   on the other end: what it returns and writes back is what was written. *)
Theorem C30_roundtrip_reader_model : forall cfg rbuf close1 infl ops keys,
    c_maxFrameHeaderSize < wc_buf cfg -> wc_compress cfg = false -> 125 <= rbuf ->
    keys_ok keys -> Forall (op_ok is_valid_received_close_code) ops ->
    map norm_event (read_all (reader_of cfg rbuf close1) infl (fst (write_all cfg keys false ops)))
    = expected (close_at_end (ops_events ops (map is_none (snd (write_all cfg keys false ops))))).
Proof. exact model_roundtrip. Qed.
Print Assumptions C30_roundtrip_reader_model.

(* ------------------------------------------------------------------ frame-level facts *)

(* control frames never exceed 125 payload bytes, through WriteControl and through flushFrame *)
Theorem C30_control_le_125 : forall cfg keys typ data wire keys',
    write_control cfg keys typ data = inl (wire, keys') -> N.of_nat (length data) <= 125.
Proof. exact control_le_125. Qed.
Print Assumptions C30_control_le_125.

Theorem C30_flush_control_le_125 : forall cfg keys w final extra r,
    is_control_type (m_type w) = true -> flush_frame cfg keys w final extra = inl r ->
    final = true /\ N.of_nat (length (m_buf w) + length extra) <= 125.
Proof. exact flush_control_le_125. Qed.
Print Assumptions C30_flush_control_le_125.

(* client frames masked, server frames unmasked: the mask bit of every header flushFrame lays out *)
Theorem C30_mask_dir : forall server b0 len, len < two63 ->
    exists b1 rest, encode_header server b0 len = b0 :: b1 :: rest /\ b_masked b1 = negb server.
Proof. exact header_mask_bit. Qed.
Print Assumptions C30_mask_dir.

(* maskBytes is an involution (byte-wise meaning of the word-at-a-time loop) *)
Theorem C30_mask_involutive : forall key pos p, xor_mask key pos (xor_mask key pos p) = p.
Proof. exact xor_mask_invol. Qed.
Print Assumptions C30_mask_involutive.

(* one frame of flushFrame, decoded (the core lemma: three length layouts, both roles, any key) *)
Theorem C30_frame_decodes : forall ok infl masked key (fin : bool) op payload rest (frag : option fragst) typ acc total,
    N.of_nat (length payload) < two63 -> (masked = true -> length key = 4%nat) ->
    match frag with
    | None => (op = 1 \/ op = 2) /\ typ = op /\ acc = [] /\ total = 0
    | Some f => op = 0 /\ f = (typ, false, acc, total)
    end ->
    total + N.of_nat (length payload) < two63 ->
    spec_frame (strict ok) (mkScfg masked false 0 0 no_avail) infl frag (enc_frame masked key (b0_of op fin) payload ++ rest)
    = if fin then complete (strict ok) (mkScfg masked false 0 0 no_avail) infl typ false (acc ++ payload) rest
      else FCont [] (Some (typ, false, acc ++ payload, total + N.of_nat (length payload))) rest.
Proof. exact decode_data_frame. Qed.
Print Assumptions C30_frame_decodes.

(* ------------------------------------------------------------------ extension: write compression *)

(* truncWriter: for every sequence of writes of the flate.Writer, the messageWriter receives the
   stream without its last four bytes, in order; they stay in the truncWriter. *)
Theorem C30_trunc_writer : forall zs held ds h,
    (length held <= 4)%nat -> trunc_all held zs = (ds, h) ->
    concat ds ++ h = held ++ concat zs /\ length h = Nat.min 4 (length held + length (concat zs)).
Proof. exact trunc_all_spec. Qed.
Print Assumptions C30_trunc_writer.

(* when the flate stream ends with a sync flush (00 00 ff ff), the frames carry exactly the stream
   without that tail (RFC 7692 7.2.1) and flateWriteWrapper.Close finds the tail *)
Theorem C30_compressed_frames : forall zs body ds h,
    concat zs = body ++ flate_sync_tail -> trunc_all [] zs = (ds, h) ->
    concat ds = body /\ h = flate_sync_tail.
Proof. exact trunc_sync_flush. Qed.
Print Assumptions C30_compressed_frames.

(* The round trip WITH write compression, under the stated contract of compress/flate
   (deflate = what flate.Writer emits for Write(x)+Flush(); inflate = RFC 7692 7.2.2 on the peer):
       forall x, exists body, deflate x = body ++ 00 00 ff ff  /\  inflate body = Some x.
   For ALL sequences of operations on a connection with permessage-deflate negotiated
   (wc_compress cfg), write compression switched on and off between messages (the flag each
   operation is tagged with; centrifuge does this through CompressionMinSize), every chunking zs of
   the flate output, all buffer sizes, keys and both roles: the strict decoder with the extension
   negotiated reads exactly the messages whose write returned nil, compressed ones (RSV1 on their
   first frame, fragmented by the write buffer) inflated back to the original bytes. *)
Theorem C30_roundtrip_compressed : forall ok deflate inflate,
    (forall x, exists body, deflate x = body ++ flate_sync_tail /\ inflate body = Some x) ->
    forall cfg, c_maxFrameHeaderSize < wc_buf cfg ->
    forall ops keys,
      keys_ok keys -> Forall (fun to => op_ok_flate ok cfg deflate (fst to) (snd to)) ops ->
      spec_read (strict ok) (peer_cfg cfg) inflate (fst (write_all_t cfg keys false ops))
      = close_at_end (ops_events (map snd ops) (map is_none (snd (write_all_t cfg keys false ops)))).
Proof.
  intros ok deflate inflate Hf cfg Hcap ops keys Hk Hok.
  exact (roundtrip_flate ok deflate inflate Hf cfg Hcap ops keys Hk Hok).
Qed.
Print Assumptions C30_roundtrip_compressed.

(* the same with the contract given per message (any chunks zs whose concatenation ends in a sync
   flush and whose body the decoder's inflate maps back to the message) *)
Theorem C30_roundtrip_mixed : forall ok infl cfg,
    c_maxFrameHeaderSize < wc_buf cfg ->
    forall ops keys,
      keys_ok keys -> Forall (fun to => op_ok_t ok infl cfg (fst to) (snd to)) ops ->
      spec_read (strict ok) (peer_cfg cfg) infl (fst (write_all_t cfg keys false ops))
      = close_at_end (ops_events (map snd ops) (map is_none (snd (write_all_t cfg keys false ops)))).
Proof. intros ok infl cfg Hcap ops keys Hk Hok. exact (roundtrip_t ok infl cfg Hcap ops keys Hk Hok). Qed.
Print Assumptions C30_roundtrip_mixed.

(* The round trip for ALL operations: as C30_roundtrip_mixed, and additionally control messages
   (ping, pong, close) written through WriteMessage, NextWriter+...+Close and WritePreparedMessage -
   one control frame with all the data, or refused when longer than 125 bytes / not writable in one
   frame - and message types that are neither data nor control (refused by every API).  op_ok_all asks
   the application for nothing but: text is UTF-8, sizes < 2^63, close payloads valid, 4-byte keys,
   and the flate contract for compressed messages. *)
Theorem C30_roundtrip_all : forall ok infl cfg,
    c_maxFrameHeaderSize < wc_buf cfg ->
    forall ops keys,
      keys_ok keys -> Forall (fun to => op_ok_all ok infl cfg (fst to) (snd to)) ops ->
      spec_read (strict ok) (peer_cfg cfg) infl (fst (write_all_t cfg keys false ops))
      = close_at_end (ops_events (map snd ops) (map is_none (snd (write_all_t cfg keys false ops)))).
Proof. intros ok infl cfg Hcap ops keys Hk Hok. exact (roundtrip_all ok infl cfg Hcap ops keys Hk Hok). Qed.
Print Assumptions C30_roundtrip_all.

(* The harness runs write_all_o, which adds writers the application left open (XOpen: NextWriter +
   writes, no Close; the next NextWriter / WriteMessage finishes that message).  Without such writers
   it is exactly the run of the theorems above; sequences with XOpen are checked on the
   implementation only (model wire = real wire, and the real peer and the strict decoder both read
   xops_events). *)
Theorem C30_open_writer_conservative : forall ops cfg keys sent,
    write_all_o cfg keys sent None (map (fun to => XOp (fst to) (snd to)) ops) = write_all_t cfg keys sent ops.
Proof. intros ops cfg keys sent. exact (write_all_o_closed ops cfg keys sent). Qed.
Print Assumptions C30_open_writer_conservative.

(* ------------------------------------------------------------------ non-vacuity *)

Definition ex_cfg_srv : wcfg := mkWcfg true 16 false.   (* write buffer of 2 payload bytes *)
Definition ex_cfg_cli : wcfg := mkWcfg false 16 false.
Definition ex_ops : list wop :=
  [OpStream 1 [CWrite [72; 101]; CString [108; 108]; CReadFrom [111]];   (* "Hello" in three pieces *)
   OpControl 9 [112];
   OpMessage 2 [1; 2; 3];
   OpControl 9 (repeat 0 126);                                           (* too long: refused *)
   OpControl 8 [3; 232];
   OpMessage 2 [4]].                                                     (* after close: refused *)

Example C30_ex_server_wire :
  write_all ex_cfg_srv [] false ex_ops
  = ([1; 2; 72; 101;  0; 2; 108; 108;  128; 1; 111;  137; 1; 112;  130; 3; 1; 2; 3;  136; 2; 3; 232],
     [None; None; None; Some WeControl; None; Some WeCloseSent]).
Proof. vm_compute. reflexivity. Qed.

Example C30_ex_ops_ok : Forall (op_ok is_valid_received_close_code) ex_ops /\ keys_ok [[1; 2; 3; 4]; [5; 6; 7; 8]].
Proof.
  split; [|repeat constructor].
  unfold ex_ops. constructor.
  { split; [left; reflexivity|]. split; [vm_compute; reflexivity|]. intros _. vm_compute. reflexivity. }
  constructor. { intro H. discriminate. }
  constructor. { split; [right; reflexivity|]. split; [vm_compute; reflexivity|]. intro H. discriminate. }
  constructor. { intro H. discriminate. }
  constructor. { intros _. split; vm_compute; reflexivity. }
  constructor. { split; [right; reflexivity|]. split; [vm_compute; reflexivity|]. intro H. discriminate. }
  constructor.
Qed.

Example C30_ex_decoded :
  spec_read (strict is_valid_received_close_code) (peer_cfg ex_cfg_cli) (fun _ => None)
            (fst (write_all ex_cfg_cli [[1; 2; 3; 4]; [5; 6; 7; 8]] false ex_ops))
  = [SMsg 1 [72; 101; 108; 108; 111]; SPong [112]; SMsg 2 [1; 2; 3]; SEnd (OClosed 1000 [])].
Proof. vm_compute. reflexivity. Qed.

(* a compressed message: flate's output for "Hello" (RFC 7692 7.2.3.1) handed over in two chunks, client side *)
Definition ex_z : list bytes := [[242; 72; 205]; [201; 201; 7; 0; 0; 0; 255; 255]].
Example C30_ex_compressed_wire :
  write_all_t (mkWcfg false 16 true) [[1; 2; 3; 4]; [5; 6; 7; 8]; [9; 9; 9; 9]; [1; 1; 1; 1]] false
              [(true, OpZ 1 [72; 101; 108; 108; 111] ex_z); (false, OpMessage 2 [7])]
  = ([65; 130; 1; 2; 3; 4; 243; 74;  0; 130; 5; 6; 7; 8; 200; 207;  0; 130; 9; 9; 9; 9; 192; 14;  128; 129; 1; 1; 1; 1; 1;
      130; 129; 0; 0; 0; 0; 7], [None; None]).
Proof. vm_compute. reflexivity. Qed.

(* control messages through the message APIs, client side, write buffer of 2 bytes: the 3-byte ping does
   not fit into one frame and is refused, the 2-byte one goes out as a single frame *)
Example C30_ex_control_via_messages :
  write_all_t ex_cfg_cli [[1; 2; 3; 4]; [5; 6; 7; 8]] false
              [(true, OpMessage 9 [1; 2; 3]); (true, OpStream 9 [CWrite [7]; CString [8]]); (true, OpMessage 5 [1])]
  = ([137; 130; 1; 2; 3; 4; 6; 10], [Some WeControl; None; Some WeBadType]).
Proof. vm_compute. reflexivity. Qed.
