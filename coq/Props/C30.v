(* placeholder while the correspondence is being validated *)
From Cfg Require Import Model.WsWrite Model.WsWriteSpec.
Theorem C30_placeholder : True. Proof. exact I. Qed.
