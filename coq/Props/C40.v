(* C40 Deferred jobs run until they succeed.
   Property theorems only; proofs live in Proofs/Dissolve.v. *)
From Coq Require Import List NArith ZArith Bool Arith Permutation Lia.
From Cfg Require Import Model.RingQueue Model.Dissolve Proofs.Dissolve.
Import ListNotations.

(* The job ring queue never panics (its resize has no empty-queue branch: safe because above the
   initial capacity it is always more than half full) under ANY schedule of Submit / Close / workers. *)
Theorem C40_no_panic : forall ic nw sched, 1 <= ic -> drun (dinitial ic nw) sched <> DPanic.
Proof. exact d_no_panic. Qed.
Print Assumptions C40_no_panic.

(* Conservation.  While the queue is open every accepted job is in exactly one place: succeeded, in the
   queue, or in the hands of exactly one worker (taken / running / about to be re-queued).  Job ids
   are pairwise distinct, so "exactly one" is what the permutation says. *)
Theorem C40_conservation : forall ic nw sched s, 1 <= ic ->
  drun (dinitial ic nw) sched = DNext s -> dclosed (d_q s) = false ->
  Permutation (d_accepted s) (d_succeeded s ++ dabs (d_q s) ++ held s) /\
  NoDup (map it_id (d_accepted s)).
Proof.
  intros ic nw sched s Hic H. apply inv_conservation. apply (dreach_inv ic nw); auto. exists sched; auto.
Qed.
Print Assumptions C40_conservation.

(* No job is executed after it succeeded: in the execution log no start of j follows a successful finish of j. *)
Theorem C40_no_rerun_after_success : forall ic nw sched s, 1 <= ic ->
  drun (dinitial ic nw) sched = DNext s ->
  forall l1 j f l2, d_log s = l1 ++ EStart j f :: l2 -> ~ In (EFinish j true) l1.
Proof.
  intros ic nw sched s Hic H. apply inv_no_rerun. apply (dreach_inv ic nw); auto. exists sched; auto.
Qed.
Print Assumptions C40_no_rerun_after_success.

(* After Close.  (a) Submit is refused and queues nothing. *)
Theorem C40_after_close_submit : forall ic nw sched s j s', 1 <= ic ->
  drun (dinitial ic nw) sched = DNext s -> dclosed (d_q s) = true -> dstep s (LSubmit j) = DNext s' ->
  In j (d_rejected s') /\ d_accepted s' = d_accepted s /\ dabs (d_q s') = [] /\ d_log s' = d_log s.
Proof.
  intros ic nw sched s j s' Hic H. apply closed_submit. apply (dreach_inv ic nw); auto. exists sched; auto.
Qed.
Print Assumptions C40_after_close_submit.

(* (b) The reading of "no job is executed after the queue is closed" that the code guarantees: for every
   schedule sched1 ; Close ; sched2, the runs that START after Close are runs of jobs that a worker had
   already removed from the queue, and not yet started, at the moment of Close -- each of them at most
   once (so at most one per worker); nothing is taken from the queue and no failed job is retried
   after Close. *)
Theorem C40_after_close : forall ic nw sched1 sched2 s1 s, 1 <= ic ->
  drun (dinitial ic nw) sched1 = DNext s1 -> dclosed (d_q s1) = false ->
  drun s1 (LDClose :: sched2) = DNext s ->
  Permutation (late_starts (d_log s) ++ holding_jobs s) (holding_jobs s1).
Proof. exact after_close. Qed.
Print Assumptions C40_after_close.

(* (c) The strict reading -- no run may start once Close has been called -- is FALSE for this design:
   a worker that has taken a job (queue.Remove returned) starts it after Close. *)
Theorem C40_strict_refuted :
  exists sched s, drun (dinitial 2 1) sched = DNext s /\ In (EStart (mkJob 1) true) (d_log s).
Proof.
  exists [LSubmit (mkJob 1); LWStep 0; LWStep 0; LDClose; LWStep 0]. eexists. split; [vm_compute; reflexivity|].
  cbn. auto.
Qed.
Print Assumptions C40_strict_refuted.

(* Liveness under bounded failures, never-closed queue.  From ANY reachable open state, for ANY continuation
   made of worker actions only (LWStep / LWWake / LWFinish, the outcome of every run chosen freely):
   (1) the continuation has at most  rank s + (Q-1) * (failed runs in it)  steps, where
       rank s <= Q * (jobs queued) + workers * (Q + 9) and Q = 4 * workers + 8 -- a computable bound; in
       particular, if every job fails at most k times, fails <= k * #jobs and every worker-only run is finite;
   (2) explicit fairness premise = the continuation is maximal (it stops only where NO worker action is
       enabled; by (1) every fair run gets there): then every submitted job has succeeded.
   The ranking function: Q per queued job, plus per worker 0..6 by program counter (a worker about to call
   Remove counts 4 when the queue is empty, 0 otherwise -- the only place where another worker's action can
   raise a worker's rank, paid for by the Q of the job that was taken), plus Q+3 for a job about to be
   re-queued; a failed run raises the rank by Q-2. *)
Theorem C40_liveness : forall ic nw sched0 s sched s', 1 <= ic ->
  drun (dinitial ic nw) sched0 = DNext s -> dclosed (d_q s) = false ->
  forallb worker_label sched = true -> drun s sched = DNext s' ->
  length sched <= rank s + (Qc s - 1) * fails sched /\
  rank s <= Qc s * dcnt (d_q s) + length (d_w s) * (Qc s + 9) /\
  (1 <= length (d_w s) -> (forall l, worker_label l = true -> dstep s' l = DBlocked) ->
   Permutation (d_accepted s') (d_succeeded s') /\ d_accepted s' = d_accepted s).
Proof. exact liveness. Qed.
Print Assumptions C40_liveness.

(* no deadlock: while open every worker can move, except one asleep on an EMPTY queue *)
Theorem C40_progress : forall ic nw sched s w p, 1 <= ic ->
  drun (dinitial ic nw) sched = DNext s -> dclosed (d_q s) = false -> getw (d_w s) w = Some p ->
  match p with
  | WRunning _ => forall ok, exists s', dstep s (LWFinish w ok) = DNext s'
  | WCondWait => dcnt (d_q s) <> 0 -> exists s', dstep s (LWWake w) = DNext s'
  | WExit => False
  | _ => exists s', dstep s (LWStep w) = DNext s'
  end.
Proof.
  intros ic nw sched s w p Hic H. apply progress. apply (dreach_inv ic nw); auto. exists sched; auto.
Qed.
Print Assumptions C40_progress.

(* the number of runs is at most (#accepted jobs) + (#failed runs) *)
Theorem C40_bounded_runs : forall ic nw sched s, 1 <= ic ->
  drun (dinitial ic nw) sched = DNext s ->
  count_starts (d_log s) <= length (d_accepted s) + count_failures (d_log s).
Proof. exact bounded_runs. Qed.
Print Assumptions C40_bounded_runs.

(* ---- non-vacuity ---- *)
(* two workers, three jobs, job 1 fails once and is retried; at rest everything succeeded *)
Example C40_ex_retry :
  exists s, drun (dinitial 2 2)
    [LSubmit (mkJob 1); LSubmit (mkJob 2); LSubmit (mkJob 3);
     LWStep 0; LWStep 0; LWStep 0; LWStep 1; LWStep 1; LWStep 1;
     LWFinish 0 false; LWStep 0; LWFinish 1 true;
     LWStep 1; LWStep 1; LWStep 1; LWFinish 1 true;
     LWStep 0; LWStep 0; LWStep 0; LWFinish 0 true] = DNext s /\
    d_succeeded s = [mkJob 2; mkJob 3; mkJob 1] /\ dcnt (d_q s) = 0 /\ held s = [] /\
    dclosed (d_q s) = false /\ count_starts (d_log s) = 4.
Proof. eexists. vm_compute. repeat split; reflexivity. Qed.

(* Close discards the queued job 2; the failed job 1 is not retried; Submit is refused *)
Example C40_ex_close :
  exists s, drun (dinitial 2 1)
    [LSubmit (mkJob 1); LSubmit (mkJob 2); LWStep 0; LWStep 0; LWStep 0; LDClose;
     LWFinish 0 false; LWStep 0; LWStep 0; LWStep 0; LSubmit (mkJob 3)] = DNext s /\
    d_log s = [EStart (mkJob 1) false; EFinish (mkJob 1) false] /\
    getw (d_w s) 0 = Some WExit /\ d_rejected s = [mkJob 3].
Proof. eexists. vm_compute. repeat split; reflexivity. Qed.

(* a maximal worker-only continuation: 13 steps <= the bound, no worker action enabled at the end *)
Example C40_ex_liveness :
  let s := match drun (dinitial 2 1) [LSubmit (mkJob 1); LSubmit (mkJob 2)] with DNext s => s | _ => dinitial 2 1 end in
  let sched := [LWStep 0; LWStep 0; LWStep 0; LWFinish 0 false; LWStep 0; LWStep 0; LWStep 0; LWStep 0; LWFinish 0 true;
                LWStep 0; LWStep 0; LWStep 0; LWFinish 0 true; LWStep 0] in
  exists s', drun s sched = DNext s' /\ d_succeeded s' = [mkJob 2; mkJob 1] /\
             dstep s' (LWStep 0) = DBlocked /\ dstep s' (LWWake 0) = DBlocked /\
             length sched <= rank s + (Qc s - 1) * fails sched.
Proof. eexists. vm_compute. repeat split; try reflexivity. lia. Qed.
