(* C40 Deferred jobs run until they succeed.
   Property theorems only; proofs live in Proofs/Dissolve.v. *)
From Coq Require Import List NArith ZArith Bool Arith Permutation.
From Cfg Require Import Model.RingQueue Model.Dissolve Proofs.Dissolve.
Import ListNotations.

(* The job ring queue never panics (its resize has no empty-queue branch: safe because above the
   initial capacity it is always more than half full) under ANY schedule of Submit / Close / workers. *)
Theorem C40_no_panic : forall ic nw sched, 1 <= ic -> drun (dinitial ic nw) sched <> DPanic.
Proof. exact d_no_panic. Qed.
Print Assumptions C40_no_panic.

(* Conservation.  While the queue is open every accepted job is in exactly one place: succeeded, in the
   queue, or in the hands of exactly one worker (taken / running / about to be re-queued).  Job ids
   are pairwise distinct, so "exactly one" is what the permutation says. *)
Theorem C40_conservation : forall ic nw sched s, 1 <= ic ->
  drun (dinitial ic nw) sched = DNext s -> dclosed (d_q s) = false ->
  Permutation (d_accepted s) (d_succeeded s ++ dabs (d_q s) ++ held s) /\
  NoDup (map it_id (d_accepted s)).
Proof.
  intros ic nw sched s Hic H. apply inv_conservation. apply (dreach_inv ic nw); auto. exists sched; auto.
Qed.
Print Assumptions C40_conservation.

(* No job is executed after it succeeded: in the execution log no start of j follows a successful finish of j. *)
Theorem C40_no_rerun_after_success : forall ic nw sched s, 1 <= ic ->
  drun (dinitial ic nw) sched = DNext s ->
  forall l1 j f l2, d_log s = l1 ++ EStart j f :: l2 -> ~ In (EFinish j true) l1.
Proof.
  intros ic nw sched s Hic H. apply inv_no_rerun. apply (dreach_inv ic nw); auto. exists sched; auto.
Qed.
Print Assumptions C40_no_rerun_after_success.

(* After Close.  (a) Submit is refused and queues nothing. *)
Theorem C40_after_close_submit : forall ic nw sched s j s', 1 <= ic ->
  drun (dinitial ic nw) sched = DNext s -> dclosed (d_q s) = true -> dstep s (LSubmit j) = DNext s' ->
  In j (d_rejected s') /\ d_accepted s' = d_accepted s /\ dabs (d_q s') = [] /\ d_log s' = d_log s.
Proof.
  intros ic nw sched s j s' Hic H. apply closed_submit. apply (dreach_inv ic nw); auto. exists sched; auto.
Qed.
Print Assumptions C40_after_close_submit.

(* (b) The reading of "no job is executed after the queue is closed" that the code guarantees: for every
   schedule sched1 ; Close ; sched2, the runs that START after Close are runs of jobs that a worker had
   already removed from the queue, and not yet started, at the moment of Close -- each of them at most
   once (so at most one per worker); nothing is taken from the queue and no failed job is retried
   after Close. *)
Theorem C40_after_close : forall ic nw sched1 sched2 s1 s, 1 <= ic ->
  drun (dinitial ic nw) sched1 = DNext s1 -> dclosed (d_q s1) = false ->
  drun s1 (LDClose :: sched2) = DNext s ->
  Permutation (late_starts (d_log s) ++ holding_jobs s) (holding_jobs s1).
Proof. exact after_close. Qed.
Print Assumptions C40_after_close.

(* (c) The strict reading -- no run may start once Close has been called -- is FALSE for this design:
   a worker that has taken a job (queue.Remove returned) starts it after Close. *)
Theorem C40_strict_refuted :
  exists sched s, drun (dinitial 2 1) sched = DNext s /\ In (EStart (mkJob 1) true) (d_log s).
Proof.
  exists [LSubmit (mkJob 1); LWStep 0; LWStep 0; LDClose; LWStep 0]. eexists. split; [vm_compute; reflexivity|].
  cbn. auto.
Qed.
Print Assumptions C40_strict_refuted.

(* Liveness under bounded failures -- PARTIAL.  Proved:
   (1) a resting open system (queue empty, no job in a worker's hands) has executed every accepted job
       to success;
   (2) no deadlock: while open, every worker can move, except one asleep on an EMPTY queue (it can be
       woken as soon as the queue is non-empty) -- the explicit fairness premise is that enabled worker
       actions are eventually taken;
   (3) the number of runs is at most (#accepted jobs) + (#failed runs): if each job fails at most k
       times, at most (k+1) * #jobs runs happen.
   Missing for the full statement "every fair schedule without Close reaches (1) within a computable
   number of worker steps": the ranking argument bounding the workers' idle steps between runs. *)
Theorem C40_liveness_partial_rest : forall ic nw sched s, 1 <= ic ->
  drun (dinitial ic nw) sched = DNext s -> dclosed (d_q s) = false -> dcnt (d_q s) = 0 -> held s = [] ->
  Permutation (d_accepted s) (d_succeeded s).
Proof.
  intros ic nw sched s Hic H. apply terminal_all_done. apply (dreach_inv ic nw); auto. exists sched; auto.
Qed.
Print Assumptions C40_liveness_partial_rest.

Theorem C40_liveness_partial_progress : forall ic nw sched s w p, 1 <= ic ->
  drun (dinitial ic nw) sched = DNext s -> dclosed (d_q s) = false -> getw (d_w s) w = Some p ->
  match p with
  | WRunning _ => forall ok, exists s', dstep s (LWFinish w ok) = DNext s'
  | WCondWait => dcnt (d_q s) <> 0 -> exists s', dstep s (LWWake w) = DNext s'
  | WExit => False
  | _ => exists s', dstep s (LWStep w) = DNext s'
  end.
Proof.
  intros ic nw sched s w p Hic H. apply progress. apply (dreach_inv ic nw); auto. exists sched; auto.
Qed.
Print Assumptions C40_liveness_partial_progress.

Theorem C40_liveness_partial_bounded_runs : forall ic nw sched s, 1 <= ic ->
  drun (dinitial ic nw) sched = DNext s ->
  count_starts (d_log s) <= length (d_accepted s) + count_failures (d_log s).
Proof. exact bounded_runs. Qed.
Print Assumptions C40_liveness_partial_bounded_runs.

(* ---- non-vacuity ---- *)
(* two workers, three jobs, job 1 fails once and is retried; at rest everything succeeded *)
Example C40_ex_retry :
  exists s, drun (dinitial 2 2)
    [LSubmit (mkJob 1); LSubmit (mkJob 2); LSubmit (mkJob 3);
     LWStep 0; LWStep 0; LWStep 0; LWStep 1; LWStep 1; LWStep 1;
     LWFinish 0 false; LWStep 0; LWFinish 1 true;
     LWStep 1; LWStep 1; LWStep 1; LWFinish 1 true;
     LWStep 0; LWStep 0; LWStep 0; LWFinish 0 true] = DNext s /\
    d_succeeded s = [mkJob 2; mkJob 3; mkJob 1] /\ dcnt (d_q s) = 0 /\ held s = [] /\
    dclosed (d_q s) = false /\ count_starts (d_log s) = 4.
Proof. eexists. vm_compute. repeat split; reflexivity. Qed.

(* Close discards the queued job 2; the failed job 1 is not retried; Submit is refused *)
Example C40_ex_close :
  exists s, drun (dinitial 2 1)
    [LSubmit (mkJob 1); LSubmit (mkJob 2); LWStep 0; LWStep 0; LWStep 0; LDClose;
     LWFinish 0 false; LWStep 0; LWStep 0; LWStep 0; LSubmit (mkJob 3)] = DNext s /\
    d_log s = [EStart (mkJob 1) false; EFinish (mkJob 1) false] /\
    getw (d_w s) 0 = Some WExit /\ d_rejected s = [mkJob 3].
Proof. eexists. vm_compute. repeat split; reflexivity. Qed.
