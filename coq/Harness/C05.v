(* Correspondence harness for C05 (nothing of a connection survives its end). *)
From Coq Require Import List NArith ZArith Bool.
From Cfg Require Export Harness.SLCommon.
Import ListNotations.
Open Scope N_scope.

Definition case := SLCommon.case.

(* model vs implementation: status, hub registration, gauges, and per channel the context,
   hub entry, NumSubscribers and presence membership *)
Definition corr_rot (rot : bool) (c : case) : bool :=
  match model_of rot c with
  | None => false
  | Some s =>
      let ob := cs_obs c in
      (status_n (status s) =? ob_status ob) && Bool.eqb (reg s) (ob_reg ob) &&
      Bool.eqb (settled_b s) (ob_settled ob) && gauges_ok s ob &&
      forallb (fun o => ch_routing_ok s o && ch_pres_ok s o) (ob_chs ob)
  end.
(* cases marked CNoModel (connect-time server-side subscriptions, keyed tracking) have no model run: they
   are judged by the oracle only *)
Definition corr (c : case) : bool := no_model c || corr_rot false c || corr_rot true c.

(* the property on the observed settled state of a CLOSED connection: no context, no routing
   entry, no presence entry, not registered (clients and users maps), connection gauge back to
   its value before the connection (0: no other connection is ever registered in these runs),
   subscription gauge = the other connections' entries only, no tracked key registered for it in the
   shared poll manager *)
Definition oracle (c : case) : bool :=
  let ob := cs_obs c in
  negb (ob_settled ob && (ob_status ob =? 3)) ||
  (negb (ob_reg ob) && (ob_gconn ob =? 0)%Z && (ob_extra ob =? 0) &&
   (ob_gsub ob =? fold_left (fun z o => (z + Z.of_N (co_nsubs o))%Z) (ob_chs ob) 0%Z)%Z &&
   forallb (fun o => match co_ctx o, co_hub o with None, None => true | _, _ => false end &&
                     negb (co_pres o) && negb (co_issub o) && (co_deliv o =? 0)) (ob_chs ob)).

Definition run (cs : list case) := failing corr oracle cs.
