(* Correspondence harness for C11: one case = one schedule realised on the real connect
   path / writer / websocket transport, with the frames seen on the wire and the codec's
   call log. *)
From Coq Require Import List NArith Bool.
From Cfg Require Export Lib.Run Model.Connect.
Import ListNotations.

Record case := mkCase {
  k_rwq : bool; k_dict : bool; k_sched : list clabel;
  o_wire : list wire; o_elog : list eev
}.

Definition item_eqb (a b : item) : bool := match a, b with IConn, IConn | IPush, IPush => true | _, _ => false end.
Definition wire_eqb (a b : wire) : bool :=
  match a, b with WRaw x, WRaw y | WEnc x, WEnc y => item_eqb x y | _, _ => false end.
Definition eev_eqb (a b : eev) : bool :=
  match a, b with EBegin, EBegin | EEnd, EEnd | EClose, EClose => true | _, _ => false end.
Fixpoint list_eqb {A} (eqb : A -> A -> bool) (a b : list A) : bool :=
  match a, b with
  | [], [] => true
  | x :: a', y :: b' => eqb x y && list_eqb eqb a' b'
  | _, _ => false
  end.

Definition corr_with (fh fl : bool) (k : case) : bool :=
  match crun (mkCC (k_rwq k) (k_dict k) fh fl) cinit (k_sched k) with
  | Some s => list_eqb wire_eqb (wlog s) (o_wire k) && list_eqb eev_eqb (elog s) (o_elog k)
  | None => false
  end.

(* the code as it stands, or with either of the two proposed patches; the oracle decides *)
Definition corr (k : case) : bool :=
  corr_with false false k || corr_with true false k || corr_with false true k || corr_with true true k.

(* the property on what the implementation did (every case ends with a closed connection) *)
Definition oracle (k : case) : bool :=
  conn_first (o_wire k) && conn_raw (o_wire k) &&
  elog_ok 0 false (o_elog k) &&
  (if k_dict k
   then rest_encoded (o_wire k) && Nat.eqb (count_close (o_elog k)) 1
   else match o_elog k with [] => true | _ => false end).

Definition run (cs : list case) := failing corr oracle cs.
