(* Correspondence harness for C10: same case shape, schedule semantics and model tie as
   C01 (Harness/C01.v); the oracle is the C10 specification decided on the observed log. *)
From Coq Require Import List NArith Bool.
From Cfg Require Export Harness.C01 Model.BracketSpec.
Import ListNotations.
Open Scope N_scope.

Definition oracle (k : case) : bool := c10_oracle (o_log k).

Definition run (cs : list case) := failing corr oracle cs.
