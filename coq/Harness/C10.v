(* Correspondence harness for C10: same case shape, schedule semantics and model tie as
   C01 (Harness/C01.v); the oracle is the C10 specification decided on the observed log. *)
From Coq Require Import List NArith Bool.
From Cfg Require Export Harness.C01 Model.BracketSpec.
Import ListNotations.
Open Scope N_scope.

(* pushes of the channel reach the connection in the order the broker delivered them
   (per-channel batching may delay, an unsubscribe may discard, nothing may overtake) *)
Definition push_eqb (a b : frame) : bool :=
  match a, b with
  | FPub p, FPub q => pub_eqb p q
  | FJoin, FJoin | FLeave, FLeave => true
  | _, _ => false
  end.
Fixpoint subseqf (a b : list frame) : bool :=
  match a, b with
  | [], _ => true
  | _ :: _, [] => false
  | x :: a', y :: b' => if push_eqb x y then subseqf a' b' else subseqf a b'
  end.
Definition pushes (l : list frame) : list frame := filter is_push l.

(* once the subscription's end (unsubscribe reply / push, disconnect) is on the wire the
   connection no longer reports the channel: the bracket is closed on the connection's side too *)
Definition ended_log (l : list frame) : bool := existsb is_end l.

Definition oracle (k : case) : bool :=
  c10_oracle (o_log k) && subseqf (pushes (o_log k)) (o_deliv k) &&
  (if ended_log (o_log k) then negb (o_subscribed k) else true).

Definition run (cs : list case) := failing corr oracle cs.
