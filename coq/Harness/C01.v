(* Correspondence harness for C01.  One case = one schedule realised by the Go driver on
   the real Node/Client/MemoryBroker (through natural gates), with the decoded transport
   log and the broker's ground-truth publication list. *)
From Coq Require Import List NArith Bool.
From Cfg Require Export Lib.Run Model.Merge Model.MergeSpec Model.Positioned Model.PositionedSpec.
Import ListNotations.
Open Scope N_scope.

(* Harness-level schedule items.  [HL l] must be enabled in the model (a driver schedule
   that the model cannot take is a correspondence failure).  The macro items stand for a
   run-to-completion of a real goroutine whose intermediate steps the driver cannot (and
   need not) observe: each constituent label is taken if enabled, skipped otherwise. *)
Inductive hitem :=
  | HL (l : label)
  | HTail                    (* rest of a delivery: LSync; LCheck; LEnqueue *)
  | HPre                     (* a delivery up to the unlock: LSync; LCheck *)
  | HUnsub (k : ukind)       (* unsubscribe thread: LUnsub k; LUnsubHub; LUnsubOut *)
  | HUnsubRest               (* rest of an unsubscribe thread: LUnsubHub; LUnsubOut *)
  | HAsyncDisc.              (* server-side insufficient state: LAsyncDisc; LCloseCleanup *)

Definition lenient (c : cfg) (s : st) (l : label) : st :=
  match step c s l with Some s' => s' | None => s end.

Definition hstep (c : cfg) (s : st) (h : hitem) : option st :=
  match h with
  | HL l => step c s l
  | HTail => Some (lenient c (lenient c (lenient c s LSync) LCheck) LEnqueue)
  | HPre => Some (lenient c (lenient c s LSync) LCheck)
  | HUnsubRest => Some (lenient c (lenient c s LUnsubHub) LUnsubOut)
  | HUnsub k =>
      match step c s (LUnsub k) with
      | Some s1 => Some (lenient c (lenient c s1 LUnsubHub) LUnsubOut)
      | None => None
      end
  | HAsyncDisc =>
      match step c s LAsyncDisc with
      | Some s1 => Some (lenient c s1 LCloseCleanup)
      | None => None
      end
  end.

Fixpoint hrun (c : cfg) (s : st) (hs : list hitem) : option st :=
  match hs with
  | [] => Some s
  | h :: hs' => match hstep c s h with Some s' => hrun c s' hs' | None => None end
  end.

Record case := mkCase {
  k_var : variant; k_pos : bool; k_rec : bool; k_since : N; k_since_ep : N; k_jl : bool; k_batch : bool;
  k_sched : list hitem;
  o_log : list frame;       (* observed: decoded frames written to the transport *)
  o_glog : list pubT;       (* observed: what the broker accepted (offset, epoch index, filtered?) *)
  o_cwlen : N;              (* observed: items left in the per-channel batching writer at the end *)
  o_subscribed : bool;      (* observed: Client.IsSubscribed(channel) when the schedule ended *)
  o_deliv : list frame      (* the PUB/SUB messages the driver handed to the node, in delivery order
                               (as FPub / FJoin / FLeave); used by C10's push-order clause *)
}.

Definition pub_eqb (a b : pubT) : bool :=
  (po a =? po b) && (pe a =? pe b) && Bool.eqb (pf a) (pf b).

Fixpoint list_eqb {A} (eqb : A -> A -> bool) (a b : list A) : bool :=
  match a, b with
  | [], [] => true
  | x :: a', y :: b' => eqb x y && list_eqb eqb a' b'
  | _, _ => false
  end.

Definition frame_eqb (a b : frame) : bool :=
  match a, b with
  | FSubReply r1 p1 o1 e1, FSubReply r2 p2 o2 e2 =>
      Bool.eqb r1 r2 && list_eqb pub_eqb p1 p2 && (o1 =? o2) && (e1 =? e2)
  | FSubPush o1 e1, FSubPush o2 e2 => (o1 =? o2) && (e1 =? e2)
  | FPub p1, FPub p2 => pub_eqb p1 p2
  | FJoin, FJoin | FLeave, FLeave | FUnsubReply, FUnsubReply => true
  | FUnsubPush c1, FUnsubPush c2 => c1 =? c2
  | FDisconnect c1, FDisconnect c2 => c1 =? c2
  | _, _ => false
  end.

Definition corr_with (fa fs f0 f1 f2 : bool) (k : case) : bool :=
  let c := mkCfg (k_var k) (k_pos k) (k_rec k) (k_since k) (k_since_ep k) (k_jl k) fa fs (k_batch k) f0 f1 f2 in
  match hrun c init (k_sched k) with
  | Some s => list_eqb frame_eqb (log s) (o_log k) && list_eqb pub_eqb (g_log s) (o_glog k) &&
              (N.of_nat (length (cw s)) =? o_cwlen k) &&
              Bool.eqb (match ch s with Sub _ _ => true | _ => false end) (o_subscribed k)
  | None => false
  end.

(* The implementation must behave, on every schedule, like the model of the code AS FOUND
   (all patch flags off: the proposed patches were recorded as known findings and not
   applied).  [corr_any] accepts the code with any subset of the proposed patches; it is what
   the patched scratch trees were validated with. *)
Definition corr (k : case) : bool := corr_with false false false false false k.

Definition corr_any (k : case) : bool :=
  existsb (fun fl => match fl with (((fa, fs), f0), (f1, f2)) => corr_with fa fs f0 f1 f2 k end)
    (list_prod (list_prod (list_prod [false; true] [false; true]) [false; true]) (list_prod [false; true] [false; true])).

(* The property, decided on what the implementation did. Only positioned subscriptions
   are subject to C01. *)
Definition oracle (k : case) : bool :=
  if k_pos k then c01_oracle (o_glog k) (o_log k) && no_pub_after_end (o_log k) else true.

Definition run (cs : list case) := failing corr oracle cs.
