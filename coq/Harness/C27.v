(* Correspondence harness for C27: one case = one of the four node-level calls made on node A
   with a set of With* setters, executed twice on real two-node clusters: target connections
   on A (local) and on B (remote, through the control message).  Observations are canonical
   byte strings of the effect on the connections' node. *)
From Coq Require Import List String NArith Bool.
From Cfg Require Export Lib.Run Model.Control.
Import ListNotations.
Open Scope N_scope.

Record case := mkCase {
  k_call : N;                 (* 0 subscribe, 1 unsubscribe, 2 disconnect, 3 refresh *)
  k_setters : list string;    (* With* setters used in the call *)
  k_inventory : bool;         (* special case: k_setters = every setter the driver has a scenario for *)
  k_observable : bool;        (* the scenario is built so that dropping the option under test changes the effect *)
  o_local : list N;
  o_remote : list N
}.

Definition map_of (call : N) : callmap :=
  match call with 0 => sub_map | 1 => unsub_map | 2 => disc_map | _ => refresh_map end.

Definition setter_field (m : callmap) (s : string) : option string :=
  option_map snd (find (fun p => String.eqb (fst p) s) (cm_setters m)).

Definition setter_carried (m : callmap) (s : string) : bool :=
  match setter_field m s with Some f => carried_b m f | None => false end.

Fixpoint eqb_listN (a b : list N) : bool :=
  match a, b with
  | [], [] => true
  | x :: a', y :: b' => (x =? y) && eqb_listN a' b'
  | _, _ => false
  end.

(* model: if every option used is carried the remote effect equals the local one; if one is not
   and the scenario makes it observable, they differ (a lost option need not show in an
   arbitrary combination, e.g. when the narrowers match no connection).
   inventory case: every setter found in options.go has a scenario in the driver *)
Definition corr (c : case) : bool :=
  let m := map_of (k_call c) in
  if k_inventory c
  then forallb (fun p => mem_str (fst p) (k_setters c)) (cm_setters m)
  else if forallb (setter_carried m) (k_setters c) then eqb_listN (o_local c) (o_remote c)
  else if k_observable c then negb (eqb_listN (o_local c) (o_remote c)) else true.

(* the property: same effect from any node *)
Definition oracle (c : case) : bool :=
  k_inventory c || eqb_listN (o_local c) (o_remote c).

Definition run (cs : list case) := failing corr oracle cs.
