(* Correspondence harness for C19.  A case has the same shape as for C17 (an
   operation sequence on a real MemoryBroker under a virtual clock and the
   output observed for every operation); the sequences come from C19's
   generator (idempotency keys, result TTLs, versions, version epochs).
   corr   : the (patched) model reproduces the observed outputs;
   oracle : the observed outputs are those of the specification
            Model/StreamSpec.v - a keyed repeat within the result TTL returns
            the stored position, suppressed, nothing stored or delivered; a
            versioned publish is suppressed iff the channel holds a version >=
            it in the same version epoch, held versions being changed only by
            versioned unsuppressed publishes; suppressed publishes change
            nothing (observable through later reads / expiry). *)
From Cfg Require Export Harness.C17.
