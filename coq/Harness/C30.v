(* Correspondence harness for C30: a sequence of write operations on a real Conn (server or client,
   given write buffer), the bytes it put on the wire, and what a second real Conn read from them. *)
From Coq Require Import List NArith Bool.
From Cfg Require Export Lib.Run Gen.WsConst Model.WsUtf8 Model.WsClose Model.WsCloseSpec Model.WsFrame Model.WsRead Model.WsReadSpec
     Model.WsWrite Model.WsWriteSpec.
Import ListNotations.
Open Scope N_scope.

(* compact notation of the driver for long periodic byte strings *)
Fixpoint rep (p : bytes) (n : nat) : bytes :=
  match n with O => [] | S k => p ++ rep p k end.

Record case := mkCase {
  c_cfg : wcfg;
  c_keys : list bytes;        (* masking keys, in the order they appear on the wire (client only) *)
  c_infl : list (bytes * option bytes);   (* compress/flate on (compressed message ++ tail), computed by the driver's frame walker *)
  c_ops : list xop;           (* operations (with the EnableWriteCompression flag in force) and writers left open *)
  o_wire : bytes;             (* observed: everything written to the net.Conn *)
  o_errs : list N;            (* observed per operation: 0 nil, 1 errInvalidControlFrame, 2 errBadWriteOpCode, 3 ErrCloseSent, 4 other *)
  o_read : list event         (* observed: what a real peer Conn made of the wire bytes *)
}.

Fixpoint beqb (a b : bytes) : bool :=
  match a, b with
  | [], [] => true
  | x :: a', y :: b' => (x =? y) && beqb a' b'
  | _, _ => false
  end.

Definition lookup_infl (tbl : list (bytes * option bytes)) (d : bytes) : option bytes :=
  match find (fun kv => beqb (fst kv) d) tbl with
  | Some (_, v) => v
  | None => None
  end.

Definition err_code (e : option werr) : N :=
  match e with None => 0 | Some WeControl => 1 | Some WeBadType => 2 | Some WeCloseSent => 3 | Some WeInternal => 4 end.

Fixpoint nlist_eqb (a b : list N) : bool :=
  match a, b with
  | [], [] => true
  | x :: a', y :: b' => (x =? y) && nlist_eqb a' b'
  | _, _ => false
  end.

Definition rerr_eqb (a b : rerr) : bool :=
  match a, b with
  | EEof, EEof | EProto, EProto | EReadLimit, EReadLimit | EBufferFull, EBufferFull | EInflate, EInflate
  | EPanic, EPanic | EFuel, EFuel | EUnreachable, EUnreachable => true
  | EClose c t, EClose c' t' => (c =? c') && beqb t t'
  | _, _ => false
  end.
Definition event_eqb (a b : event) : bool :=
  match a, b with
  | Msg t d, Msg t' d' => (t =? t') && beqb d d'
  | Wrote o p, Wrote o' p' => (o =? o') && beqb p p'
  | Err e, Err e' => rerr_eqb e e'
  | _, _ => false
  end.
Fixpoint events_eqb (a b : list event) : bool :=
  match a, b with
  | [], [] => true
  | x :: a', y :: b' => event_eqb x y && events_eqb a' b'
  | _, _ => false
  end.

(* model = implementation: the same bytes on the wire, the same result for every operation *)
Definition corr (c : case) : bool :=
  let '(wire, errs) := write_all_o (c_cfg c) (c_keys c) false None (c_ops c) in
  beqb wire (o_wire c) && nlist_eqb (map err_code errs) (o_errs c).

Definition spec_close_ok (c : N) : bool :=
  if rfc_close_defined c then true else if rfc_close_forbidden c then false else is_valid_received_close_code c.

(* the property: an independent strict RFC decoder on the wire bytes, and the real peer, both see
   exactly the messages whose write returned nil, in order (this includes: frames are valid, control
   frames <= 125 bytes, mask bit as the direction demands) *)
Definition oracle (c : case) : bool :=
  let want := expected (close_at_end (xops_events [] (c_ops c) (map (fun e => e =? 0) (o_errs c)))) in
  events_eqb (expected (spec_read (strict spec_close_ok) (peer_cfg (c_cfg c)) (fun d => lookup_infl (c_infl c) (d ++ flate_tail)) (o_wire c))) want
  && events_eqb (map norm_event (o_read c)) want
  && errs_justified false (c_ops c) (o_errs c).

Definition run (cs : list case) := failing corr oracle cs.
