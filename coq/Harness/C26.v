(* Correspondence harness for C26 (broker subscription tracks local interest). *)
From Coq Require Import List NArith ZArith Bool.
From Cfg Require Export Harness.SLCommon.
Import ListNotations.
Open Scope N_scope.

Definition case := SLCommon.case.

(* model vs implementation: after EVERY driver command NumSubscribers, broker-subscribed and
   "subLock free" per channel; at the end also the dissolver queue (empty after a drain). *)
Definition corr_rot (rot : bool) (c : case) : bool :=
  match model_of rot c with
  | None => false
  | Some s =>
      let ob := cs_obs c in
      snaps_ok rot c && Bool.eqb (settled_b s) (ob_settled ob) &&
      (negb (ob_drained ob) || match jobs s with [] => true | _ => false end) &&
      forallb (fun o => ch_bsub_ok s o && (nsubs s (co_ch o) =? co_nsubs o)) (ob_chs ob)
  end.
Definition corr (c : case) : bool := corr_rot false c || corr_rot true c.

(* the property on what was observed: at every quiescent point with the lock free, local
   subscribers imply the broker subscription; after settling and draining they coincide *)
Definition snap_safe (x : snap) : bool := negb (sn_free x) || (sn_nsubs x =? 0) || sn_bsub x.
Definition final_exact (o : chobs) : bool := Bool.eqb (co_bsub o) (negb (co_nsubs o =? 0)).

Definition oracle (c : case) : bool :=
  let ob := cs_obs c in
  forallb (forallb snap_safe) (ob_snaps ob) &&
  (negb (ob_settled ob && ob_drained ob) || forallb final_exact (ob_chs ob)).

Definition run (cs : list case) := failing corr oracle cs.
