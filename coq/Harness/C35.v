(* Correspondence harness for C35 (internal/redispartition).
   Cases are observations of the real FindTags / TagSlot / crc16 / SlotToNode.
   Tag tables are observed as a CALLER HOLDS them: the driver obtains every
   table once (for every count FindTags accepts when probed over 0..16400, in
   ascending and in descending order of calls) and examines the held slices
   after all later lookups; random balance cases interleave two lookups. *)
From Coq Require Import List NArith Bool.
From Cfg Require Export Lib.Run Model.Crc16 Model.Partition Gen.Precomputed.
From Cfg Require Import Proofs.Partition.
Import ListNotations.
Open Scope N_scope.

Inductive case :=
| CTags (p : N) (found : bool) (tags : list (list N)) (slots : list N)
    (* FindTags(p): error or the tags; TagSlot of every tag *)
| CBal (p n : N) (mn mx sum : N)
    (* counts[SlotToNode(TagSlot(tag), n)]++ over FindTags(p): min / max / sum of the n counters *)
| CCrc (data : list N) (crc slot : N)
    (* crc16(data), TagSlot(string(data)) *)
| CNode (slot n : N) (res : option N)
    (* SlotToNode(slot, n); None = panic *)
| CProbe (hi : N) (listed accepted : list N).
    (* PrecomputedSizes(), and every p in 0..hi for which FindTags(p) returned no error (ascending) *)

Fixpoint eqb_listN (a b : list N) : bool :=
  match a, b with
  | [], [] => true
  | x :: a', y :: b' => (x =? y) && eqb_listN a' b'
  | _, _ => false
  end.

Fixpoint eqb_listlistN (a b : list (list N)) : bool :=
  match a, b with
  | [], [] => true
  | x :: a', y :: b' => eqb_listN x y && eqb_listlistN a' b'
  | _, _ => false
  end.

Definition optN_eqb (a b : option N) : bool :=
  match a, b with
  | None, None => true
  | Some x, Some y => x =? y
  | _, _ => false
  end.

(* model slots of every table entry, sorted ascending (computed once when this file is compiled) *)
Definition model_sorted_slots : list (N * list N) :=
  Eval vm_compute in map (fun e => (fst e, NSort.sort (map tag_slot (snd e)))) precomputed.

Fixpoint lookup (tbl : list (N * list N)) (p : N) : option (list N) :=
  match tbl with
  | [] => None
  | (q, v) :: t => if q =? p then Some v else lookup t p
  end.

(* run lengths of a list of node numbers: (number of runs, min run, max run, total) *)
Fixpoint runs (cur : option N) (k : N) (acc : N * N * N * N) (l : list (option N)) : N * N * N * N :=
  let close := fun '(cnt, mn, mx, tot) =>
                 match cur with
                 | None => (cnt, mn, mx, tot)
                 | Some _ => (cnt + 1, (if cnt =? 0 then k else N.min mn k), N.max mx k, tot + k)
                 end in
  match l with
  | [] => close acc
  | x :: l' =>
      if optN_eqb x cur then runs cur (k + 1) acc l'
      else runs x 1 (close acc) l'
  end.

(* min / max / sum of the per-node counters, as the Go driver computes them *)
Definition model_counts (p n : N) : option (N * N * N) :=
  match lookup model_sorted_slots p with
  | None => None
  | Some ss =>
      let nodes := map (fun s => slot_to_node s n) ss in
      if existsb (fun x => match x with None => true | Some _ => false end) nodes then None
      else
        let '(cnt, mn, mx, tot) := runs None 0 (0, 0, 0, 0) nodes in
        Some ((if cnt <? n then 0 else mn), mx, tot)
  end.

Definition corr (c : case) : bool :=
  match c with
  | CTags p found tags slots =>
      match find_tags precomputed p with
      | Some t => found && eqb_listlistN t tags && eqb_listN (map tag_slot tags) slots
      | None => negb found
      end
  | CBal p n mn mx sum =>
      match model_counts p n with
      | Some (a, b, s) => (a =? mn) && (b =? mx) && (s =? sum)
      | None => false
      end
  | CCrc data crc slot => (crc16_loop data =? crc) && (tag_slot data =? slot)
  | CNode slot n res => optN_eqb (slot_to_node slot n) res
  | CProbe hi listed accepted =>
      (* supported counts = sizes of the generated table, both as listed and as accepted *)
      let sizes := NSort.sort (map fst precomputed) in
      eqb_listN sizes listed && eqb_listN (filter (fun p => p <=? hi) sizes) accepted
  end.

(* The property on what the implementation returned:
   - a supported partition count yields exactly p tags whose slots, computed
     by the CRC16/XMODEM SPECIFICATION mod 16384, equal what TagSlot returned
     and are pairwise distinct;
   - per-node counters differ by at most one and account for all p tags;
   - crc16 / TagSlot agree with the specification;
   - SlotToNode returns the owner under the contiguous assignment. *)
Definition oracle (c : case) : bool :=
  match c with
  | CTags p found tags slots =>
      if found then
        (N.of_nat (length tags) =? p) &&
        eqb_listN (map slot_spec tags) slots &&
        strict_asc (NSort.sort slots)
      else true
  | CBal p n mn mx sum => (mx <=? mn + 1) && (sum =? p)
  | CCrc data crc slot => (crc16_spec data =? crc) && (slot =? crc mod total_slots)
  | CNode slot n res =>
      if (1 <=? n) && (n <=? total_slots) && (slot <? total_slots) then
        match res with
        | Some j => (j <? n) && owns_b n j slot
        | None => false
        end
      else true
  | CProbe hi listed accepted =>
      (* every listed count (within the probed range) is served; the property itself is judged on the
         CTags / CBal cases the driver emits for EVERY accepted count *)
      forallb (fun p => (hi <? p) || existsb (N.eqb p) accepted) listed
  end.

Definition run (cs : list case) := failing corr oracle cs.
