(* Correspondence harness for C39: one case = inputs given to the real
   recovery.MergePublications + what it returned. *)
From Coq Require Import List NArith Bool.
From Cfg Require Export Lib.Run Model.Merge Model.MergeSpec.
Import ListNotations.
Open Scope N_scope.

Record case := mkCase {
  c_rec : list pub; c_buf : list pub;          (* inputs *)
  o_out : list pub; o_max : N; o_ok : bool     (* observed *)
}.

Fixpoint eqb_listN (a b : list N) : bool :=
  match a, b with
  | [], [] => true
  | x :: a', y :: b' => (x =? y) && eqb_listN a' b'
  | _, _ => false
  end.

(* Model vs implementation on the projected observables (offsets, max, ok).
   Which of several equal-offset publications survives is left open by Go's
   unstable sort and by the property, so ids are checked by the oracle only
   (membership), not compared with the model's choice. *)
Definition corr (c : case) : bool :=
  let '(out, maxo, ok) := merge (c_rec c) (c_buf c) in
  Bool.eqb ok (o_ok c) && (maxo =? o_max c) &&
  eqb_listN (map p_off out) (map p_off (o_out c)).

(* The property itself, decided on what the implementation returned. *)
Definition oracle (c : case) : bool :=
  merge_spec_b (c_rec c) (c_buf c) (o_out c) (o_max c) (o_ok c).

Definition run (cs : list case) := failing corr oracle cs.
