(* Correspondence harness for C24: schedules in which the two phases of the
   real expireKeysIteration are interleaved with publish / remove / keep-alive
   / clear / reads of the same keys.  The driver cannot see the individual
   Phase-2 candidates that remove nothing, so a case is a list of macro labels
   that expand to the model's atomic labels:
     MPhase1        = OPhase1
     MUntil ch key  = OPhase2 repeated until the removal of (ch,key) is broadcast
                      (the driver's gate: the handler call for a decoy key)
     MDrain         = OPhase2 until no candidate is pending (sweep returned)
     MOp o          = o. *)
From Coq Require Import List NArith ZArith Bool.
From Cfg Require Export Lib.Run Model.MapHub Model.MapSpec.
Import ListNotations.
Open Scope N_scope.

Inductive mlabel := MOp (o : op) | MPhase1 | MUntil (ch : N) (k : key) | MDrain.

Record case := mkCase { c_cfgs : list rawcfg; c_sched : list mlabel; c_obs : list obs }.

Definition res_eq_dec : forall a b : res, {a = b} + {a <> b}.
Proof. repeat decide equality. Defined.
Definition bcast_eq_dec : forall a b : bcast, {a = b} + {a <> b}.
Proof. repeat decide equality. Defined.
Definition obs_eq_dec : forall a b : obs, {a = b} + {a <> b}.
Proof. intros. decide equality. apply (list_eq_dec bcast_eq_dec). apply res_eq_dec. Defined.

Definition is_rm_of (ch : N) (k : key) (b : bcast) : bool :=
  (b_ch b =? ch) && key_eqb (p_key (b_pub b)) k && p_removed (b_pub b).

(* OPhase2 until the gate key's removal shows up / until drained *)
Fixpoint until_gate (fuel : nat) (h : hub) (gate : option (N * key)) : hub :=
  match fuel with
  | O => h
  | S f =>
      match phase2 h with
      | None => h
      | Some h' =>
          let new := skipn (length (h_bcast h)) (h_bcast h') in
          match gate with
          | Some (ch, k) => if existsb (is_rm_of ch k) new then h' else until_gate f h' gate
          | None => until_gate f h' gate
          end
      end
  end.

Definition mstep (cfgs : list rawcfg) (h : hub) (l : mlabel) : hub * res :=
  match l with
  | MOp o => step cfgs h o
  | MPhase1 => step cfgs h OPhase1
  | MUntil ch k => (until_gate (length (h_pend h)) h (Some (ch, k)), RUnit)
  | MDrain => (until_gate (length (h_pend h)) h None, RUnit)
  end.

Fixpoint mrun_obs (cfgs : list rawcfg) (h : hub) (ls : list mlabel) : list obs :=
  match ls with
  | [] => []
  | l :: ls' =>
      let '(h1, r) := mstep cfgs h l in
      (r, skipn (length (h_bcast h)) (h_bcast h1)) :: mrun_obs cfgs h1 ls'
  end.

Definition corr (c : case) : bool :=
  if list_eq_dec obs_eq_dec (mrun_obs (c_cfgs c) hub0 (c_sched c)) (c_obs c) then true else false.

(* ---- the property on the observed trace: a key life-cycle tracker ----
   present keys with their deadline (0 = none), driven only by what the
   implementation reported (suppressed or not) and broadcast. *)
Record tr := mkTr { t_keys : list (ck * N); t_now : N; t_pnow : N; t_tops : list (N * N) }.

Definition ttl_of (cfgs : list rawcfg) (ch : N) : N :=
  match cfg_of cfgs ch with CfgOk cf => cf_keyttl cf | CfgErr _ => 0 end.
Definition stream_backed (cfgs : list rawcfg) (ch : N) : bool := 0 <? size_of cfgs ch.

Definition t_dead (cfgs : list rawcfg) (t : tr) (ch : N) : N :=
  if 0 <? ttl_of cfgs ch then t_now t + ttl_of cfgs ch else 0.

Definition set_keys (t : tr) (ks : list (ck * N)) : tr := mkTr ks (t_now t) (t_pnow t) (t_tops t).

(* offsets of broadcasts on a stream-backed channel are consecutive *)
Definition offset_ok (cfgs : list rawcfg) (t : tr) (b : bcast) : bool * tr :=
  if stream_backed cfgs (b_ch b) then
    let top := match aget N.eqb (t_tops t) (b_ch b) with Some x => x | None => 0 end in
    ((p_off (b_pub b) =? top + 1) && (fst (b_pos b) =? top + 1),
     mkTr (t_keys t) (t_now t) (t_pnow t) (aset N.eqb (t_tops t) (b_ch b) (top + 1)))
  else ((p_off (b_pub b) =? 0), t).

(* removals broadcast by the sweep: key present, deadline passed at Phase 1 *)
Fixpoint sweep_bcasts (cfgs : list rawcfg) (t : tr) (bs : list bcast) : bool * tr :=
  match bs with
  | [] => (true, t)
  | b :: bs' =>
      let k := (b_ch b, p_key (b_pub b)) in
      let legal :=
        p_removed (b_pub b) &&
        match aget ck_eqb (t_keys t) k with
        | Some d => (0 <? d) && (d <=? t_pnow t)
        | None => false
        end in
      let '(ok1, t1) := offset_ok cfgs t b in
      let '(ok2, t2) := sweep_bcasts cfgs (set_keys t1 (adel ck_eqb (t_keys t1) k)) bs' in
      (legal && ok1 && ok2, t2)
  end.

Definition keys_of_chan (t : tr) (ch : N) : list key :=
  map (fun x => snd (fst x)) (filter (fun x => fst (fst x) =? ch) (t_keys t)).

Definition same_key_set (a b : list key) : bool :=
  Nat.eqb (length a) (length b) && forallb (fun x => existsb (key_eqb x) b) a && forallb (fun x => existsb (key_eqb x) a) b.

Definition track_step (cfgs : list rawcfg) (t : tr) (l : mlabel) (ob : obs) : bool * tr :=
  let '(r, bs) := ob in
  match l with
  | MOp (OPublish ch k o) =>
      match r with
      | RUpd (URes _ false _ _) =>
          match bs with
          | [b] =>
              let '(ok1, t1) := offset_ok cfgs t b in
              ((b_ch b =? ch) && key_eqb (p_key (b_pub b)) k && negb (p_removed (b_pub b)) && ok1,
               if is_empty k then t1 else set_keys t1 (aset ck_eqb (t_keys t1) (ch, k) (t_dead cfgs t ch)))
          | _ => (false, t)
          end
      | RUpd (URes _ true rs _) =>
          (match bs with [] => true | _ => false end,
           match rs, aget ck_eqb (t_keys t) (ch, k) with
           | RKeyExists, Some _ =>
               if po_refresh o && (0 <? ttl_of cfgs ch)
               then set_keys t (aset ck_eqb (t_keys t) (ch, k) (t_dead cfgs t ch)) else t
           | _, _ => t
           end)
      | _ => (match bs with [] => true | _ => false end, t)
      end
  | MOp (ORemove ch k o) =>
      match r with
      | RUpd (URes _ false _ _) =>
          match bs with
          | [b] =>
              let '(ok1, t1) := offset_ok cfgs t b in
              ((b_ch b =? ch) && key_eqb (p_key (b_pub b)) k && p_removed (b_pub b) && ok1 &&
               match aget ck_eqb (t_keys t) (ch, k) with Some _ => true | None => false end,
               set_keys t1 (adel ck_eqb (t_keys t1) (ch, k)))
          | _ => (false, t)
          end
      | _ => (match bs with [] => true | _ => false end, t)
      end
  | MOp (OClear ch) =>
      (match bs with [] => true | _ => false end,
       mkTr (filter (fun x => negb (fst (fst x) =? ch)) (t_keys t)) (t_now t) (t_pnow t) (adel N.eqb (t_tops t) ch))
  | MOp (OReadState ch None [] limit [] _) =>
      (match bs with [] => true | _ => false end &&
       match r with
       | RState (StOk pubs _ _) =>
           if (limit <? 0)%Z then same_key_set (map p_key pubs) (keys_of_chan t ch) else true
       | _ => true
       end, t)
  | MOp (OAdvance n) => (match bs with [] => true | _ => false end, mkTr (t_keys t) (t_now t + n) (t_pnow t) (t_tops t))
  | MOp _ => (match bs with [] => true | _ => false end, t)
  | MPhase1 => (match bs with [] => true | _ => false end, mkTr (t_keys t) (t_now t) (t_now t) (t_tops t))
  | MUntil ch k =>
      let '(ok, t1) := sweep_bcasts cfgs t bs in
      (ok && match rev bs with b :: _ => is_rm_of ch k b | [] => false end, t1)
  | MDrain =>
      let '(ok, t1) := sweep_bcasts cfgs t bs in
      (* a completed sweep leaves no key whose deadline had passed at Phase 1 *)
      (ok && forallb (fun x => negb ((0 <? snd x) && (snd x <=? t_pnow t1))) (t_keys t1), t1)
  end.

Fixpoint track (cfgs : list rawcfg) (t : tr) (ls : list mlabel) (obs : list obs) : bool :=
  match ls, obs with
  | [], [] => true
  | l :: ls', ob :: obs' => let '(ok, t1) := track_step cfgs t l ob in ok && track cfgs t1 ls' obs'
  | _, _ => false
  end.

Definition oracle (c : case) : bool := track (c_cfgs c) (mkTr [] 0 0 []) (c_sched c) (c_obs c).

Definition run (cs : list case) := failing corr oracle cs.
