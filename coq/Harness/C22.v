(* Correspondence harness for C22: one case = one schedule of writer operations and
   client requests run against the real node + MemoryMapBroker by a scripted
   protocol client, with what every request / broadcast produced. *)
From Coq Require Import List NArith Bool Arith.
From Cfg Require Export Lib.Run Model.Merge Model.MapSub.
Import ListNotations.

(* projected observables of one step *)
Inductive oobs :=
| BNone
| BState (entries : list (nat * nat * N)) (cursor : option nat) (off ep : nat)
| BStream (pubs : list (nat * nat * option N)) (off ep : nat)
| BLive (entries : list (nat * nat * N)) (pubs : list (nat * nat * option N)) (off ep : nat) (recovered : bool)
| BErr (code : nat)                                   (* 0 unrecoverable, 1 insufficient, 2 permission *)
| BPushes (ps : list (nat * nat * option N)) (unsub : bool).

(* a reply that claimed recovered = true: what it delivered vs. the visible
   changes after the client's position according to the driver's own record of
   the successful writes *)
Record rchk := mkR { r_delivered : list (nat * nat * option N); r_expected : list (nat * nat * option N) }.

Record case := mkCase {
  c_fx : bool; c_K : nat; c_vis : list nat; c_tlimit : nat; c_size : nat; c_limit : nat;
  c_events : list sev;
  c_obs : list oobs;
  (* end of the scenario (after a position check) *)
  o_told : bool;                         (* the client was told an error / unsubscribed and is not live *)
  o_client : list (nat * N);             (* what the client holds, sorted by key *)
  o_broker : list (nat * N);             (* ReadState of the real broker, sorted by key *)
  o_recovered : list rchk
}.

Definition visf (c : case) (k : nat) : bool := existsb (Nat.eqb k) (c_vis c).

Definition proj_pub (p : nat * change) : nat * nat * option N := (fst p, ck (snd p), cv (snd p)).
Definition err_code (e : err) : nat := match e with EUnrecoverable => 0 | EInsufficient => 1 | EPermission => 2 end.

Definition proj_out (o : out) : oobs :=
  match o with
  | ONone => BNone
  | OReply (PState es cur off ep) => BState es cur off ep
  | OReply (PStream ps off ep) => BStream (map proj_pub ps) off ep
  | OReply (PLive es ps off ep r) => BLive es (map proj_pub ps) off ep r
  | OReply (PErr e) => BErr (err_code e)
  | OPushes ps u => BPushes (map proj_pub ps) u
  end.

Definition optN_eqb (a b : option N) : bool :=
  match a, b with Some x, Some y => N.eqb x y | None, None => true | _, _ => false end.
Definition optnat_eqb (a b : option nat) : bool :=
  match a, b with Some x, Some y => Nat.eqb x y | None, None => true | _, _ => false end.
Definition e_eqb (a b : nat * nat * N) : bool :=
  let '(k1, o1, v1) := a in let '(k2, o2, v2) := b in Nat.eqb k1 k2 && Nat.eqb o1 o2 && N.eqb v1 v2.
Definition p_eqb (a b : nat * nat * option N) : bool :=
  let '(o1, k1, v1) := a in let '(o2, k2, v2) := b in Nat.eqb o1 o2 && Nat.eqb k1 k2 && optN_eqb v1 v2.
Fixpoint list_eqb {A : Type} (f : A -> A -> bool) (a b : list A) : bool :=
  match a, b with
  | [], [] => true
  | x :: a', y :: b' => f x y && list_eqb f a' b'
  | _, _ => false
  end.

Definition oobs_eqb (a b : oobs) : bool :=
  match a, b with
  | BNone, BNone => true
  | BState e1 c1 o1 p1, BState e2 c2 o2 p2 => list_eqb e_eqb e1 e2 && optnat_eqb c1 c2 && Nat.eqb o1 o2 && Nat.eqb p1 p2
  | BStream s1 o1 p1, BStream s2 o2 p2 => list_eqb p_eqb s1 s2 && Nat.eqb o1 o2 && Nat.eqb p1 p2
  | BLive e1 s1 o1 p1 r1, BLive e2 s2 o2 p2 r2 =>
      list_eqb e_eqb e1 e2 && list_eqb p_eqb s1 s2 && Nat.eqb o1 o2 && Nat.eqb p1 p2 && Bool.eqb r1 r2
  | BErr x, BErr y => Nat.eqb x y
  | BPushes s1 u1, BPushes s2 u2 => list_eqb p_eqb s1 s2 && Bool.eqb u1 u2
  | _, _ => false
  end.

Definition model_obs (c : case) : list oobs :=
  map proj_out (snd (run_out (c_fx c) (c_K c) (visf c) (c_tlimit c) (init (c_size c) (c_limit c)) (c_events c))).

Definition corr (c : case) : bool := list_eqb oobs_eqb (model_obs c) (c_obs c).

(* The property on the observed behaviour:
   - at quiescence the client holds exactly the broker's state restricted to the
     keys its filter admits, unless it was told (error / unsubscribe);
   - every reply that said "recovered" delivered every visible change after the
     client's position. *)
Definition kv_eqb (a b : nat * N) : bool := Nat.eqb (fst a) (fst b) && N.eqb (snd a) (snd b).

Definition converged_b (c : case) : bool :=
  list_eqb kv_eqb (o_client c) (filter (fun kv => visf c (fst kv)) (o_broker c)).

Definition oracle (c : case) : bool :=
  (o_told c || converged_b c) &&
  forallb (fun r => list_eqb p_eqb (r_delivered r) (r_expected r)) (o_recovered c).

Definition run (cs : list case) := failing corr oracle cs.
