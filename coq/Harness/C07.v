(* Correspondence harness for C07 (join and leave events are paired and ordered). *)
From Coq Require Import List NArith ZArith Bool.
From Cfg Require Export Harness.SLCommon.
Import ListNotations.
Open Scope N_scope.

Definition case := SLCommon.case.

(* model vs implementation: per channel the sequence of OnSubscribe invocations, PublishJoin,
   PublishLeave and OnUnsubscribe events; subscription state and its join/leave flag at the end *)
Definition corr_rot (rot : bool) (c : case) : bool :=
  match model_of rot c with
  | None => false
  | Some s =>
      let ob := cs_obs c in
      Bool.eqb (settled_b s) (ob_settled ob) && (status_n (status s) =? ob_status ob) &&
      forallb (fun o => ch_trace_ok s ob o && Bool.eqb (is_subscribed s (co_ch o)) (co_issub o) &&
                        ch_flags_ok s o) (ob_chs ob)
  end.
Definition corr (c : case) : bool := corr_rot false c || corr_rot true c.

(* the property on the observed join/leave word of one channel (this connection's events as
   the broker saw them; events carry no subscription identity, so leaves are matched to
   earlier joins): every leave has its own earlier join (in every prefix #leave <= #join -
   "join before leave", "no leave for an attempt that never joined"), and once everything has
   settled #join - #leave is 1 if the connection is subscribed with join/leave emission and 0
   otherwise ("exactly one join and one leave per established subscription that ended, none
   for failed attempts"). *)
Fixpoint balanced (open : N) (l : list oev) : option N :=
  match l with
  | [] => Some open
  | OJoin _ :: l' => balanced (open + 1) l'
  | OLeave _ :: l' => if open =? 0 then None else balanced (open - 1) l'
  | _ :: l' => balanced open l'
  end.

Definition ch_jl_ok (ob : obs) (o : chobs) : bool :=
  match balanced 0 (on_ch (co_ch o) (ob_trace ob)) with
  | None => false
  | Some open =>
      negb (ob_settled ob) || (open =? (if co_issub o && co_fjl o then 1 else 0))
  end.

Definition oracle (c : case) : bool := forallb (ch_jl_ok (cs_obs c)) (ob_chs (cs_obs c)).

Definition run (cs : list case) := failing corr oracle cs.
