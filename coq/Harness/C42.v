(* Correspondence harness for C42: one case = a sequence of get/mutate/put
   operations executed on ONE of the three real pools (starting from pools
   emptied by two GC cycles), together with, for every Get, which pooled
   buffer the real sync.Pool handed back (pointer identity -> handle) and
   what was observed on the returned buffer (panic | cap, len, lowest index of
   a non-zero slot of the whole backing array). *)
From Coq Require Import List NArith ZArith Bool.
From Cfg Require Export Lib.Run Model.Pool Model.PoolSpec.
Import ListNotations.
Open Scope N_scope.

Record case := mkCase {
  c_kind : kind;
  c_ops : list op;        (* inputs, with the pool's observed choices inside OGet *)
  o_gets : list obs       (* observed result of each OGet, in order *)
}.

Definition optN_eqb (a b : option N) : bool :=
  match a, b with
  | None, None => true
  | Some x, Some y => x =? y
  | _, _ => false
  end.

Definition obs_eqb (a b : obs) : bool :=
  match a, b with
  | ObsPanic, ObsPanic => true
  | ObsBuf c l d, ObsBuf c' l' d' => (c =? c') && (l =? l') && optN_eqb d d'
  | _, _ => false
  end.

Fixpoint obs_list_eqb (a b : list obs) : bool :=
  match a, b with
  | [], [] => true
  | x :: a', y :: b' => obs_eqb x y && obs_list_eqb a' b'
  | _, _ => false
  end.

(* Model vs implementation: every op is one the model can follow (in
   particular each buffer the real pool returned sits in the class the model
   filed it under) and every Get shows the same cap / len / lowest dirty slot. *)
Definition corr (c : case) : bool :=
  legal_from (c_kind c) init (c_ops c) &&
  obs_list_eqb (map snd (outs (c_kind c) (c_ops c))) (o_gets c).

Fixpoint get_reqs (ops : list op) : list Z :=
  match ops with
  | [] => []
  | OGet n _ :: ops' => n :: get_reqs ops'
  | _ :: ops' => get_reqs ops'
  end.

(* The property itself on what the implementation returned: every buffer
   obtained for a requested length n >= 0 is [good] (PoolSpec). *)
Fixpoint oracle_go (k : kind) (reqs : list Z) (os : list obs) : bool :=
  match reqs, os with
  | [], [] => true
  | n :: reqs', o :: os' => ((n <? 0)%Z || good_b k n o) && oracle_go k reqs' os'
  | _, _ => false
  end.

Definition oracle (c : case) : bool := oracle_go (c_kind c) (get_reqs (c_ops c)) (o_gets c).

Definition run (cs : list case) := failing corr oracle cs.
