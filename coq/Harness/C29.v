(* Correspondence harness for C29: one case = reader configuration + the peer's whole byte stream
   + what a real websocket.Conn did with it (ReadMessage until the first error; control frames it
   wrote back).  compress/flate enters as a table of (compressed message ++ tail -> result) observed
   by the driver's independent frame walker. *)
From Coq Require Import List NArith Bool.
From Cfg Require Export Lib.Run Gen.WsConst Model.WsUtf8 Model.WsClose Model.WsCloseSpec Model.WsFrame Model.WsRead Model.WsReadSpec.
Import ListNotations.
Open Scope N_scope.

(* compact notation of the driver for long periodic byte strings *)
Fixpoint rep (p : bytes) (n : nat) : bytes :=
  match n with O => [] | S k => p ++ rep p k end.

Record case := mkCase {
  c_cfg : rcfg;
  c_infl : list (bytes * option bytes);     (* compress/flate on (data ++ tail), as computed by the driver *)
  c_bs : bytes;                             (* the peer's byte stream *)
  c_label : N;                              (* driver's classification: 0 none, 1..16 first strict violation, 100 read buffer *)
  c_obs : list event                        (* observed *)
}.

Fixpoint beqb (a b : bytes) : bool :=
  match a, b with
  | [], [] => true
  | x :: a', y :: b' => (x =? y) && beqb a' b'
  | _, _ => false
  end.

Definition lookup_infl (tbl : list (bytes * option bytes)) (d : bytes) : option bytes :=
  match find (fun kv => beqb (fst kv) d) tbl with
  | Some (_, v) => v
  | None => None
  end.

(* compress/flate, streaming: output produced from a prefix of a compressed message (driver's table) *)
Definition avail_of (tbl : list (bytes * N)) (d : bytes) : N :=
  match find (fun kv => beqb (fst kv) d) tbl with
  | Some (_, v) => v
  | None => 0
  end.

Definition rerr_eqb (a b : rerr) : bool :=
  match a, b with
  | EEof, EEof | EProto, EProto | EReadLimit, EReadLimit | EBufferFull, EBufferFull | EInflate, EInflate
  | EPanic, EPanic | EFuel, EFuel | EUnreachable, EUnreachable => true
  | EClose c t, EClose c' t' => (c =? c') && beqb t t'
  | _, _ => false
  end.

Definition event_eqb (a b : event) : bool :=
  match a, b with
  | Msg t d, Msg t' d' => (t =? t') && beqb d d'
  | Wrote o p, Wrote o' p' => (o =? o') && beqb p p'
  | Err e, Err e' => rerr_eqb e e'
  | _, _ => false
  end.

Fixpoint events_eqb (a b : list event) : bool :=
  match a, b with
  | [], [] => true
  | x :: a', y :: b' => event_eqb x y && events_eqb a' b'
  | _, _ => false
  end.

Definition scfg_of (cfg : rcfg) : scfg := mkScfg (rc_server cfg) (rc_compress cfg) (rc_limit cfg) (rc_dlimit cfg) (rc_avail cfg).

(* status codes a conforming reader accepts: RFC 6455 7.4; 1012-1014 implementation defined = what the source's table says *)
Definition spec_close_ok (c : N) : bool :=
  if rfc_close_defined c then true else if rfc_close_forbidden c then false else is_valid_received_close_code c.

Definition vk_idx (k : vkind) : N :=
  match k with
  | VRsv => 1 | VRsv1Ctl => 2 | VRsv1Cont => 3 | VOpcode => 4 | VCtlLen => 5 | VCtlFrag => 6 | VNestedData => 7
  | VOrphanCont => 8 | VMask => 9 | VLenMsb => 10 | VNonMinimal => 11 | VMsgLen63 => 12 | VCloseLen1 => 13
  | VCloseCode => 14 | VCloseUtf8 => 15 | VTextUtf8 => 16
  end.

Definition strict_read (c : case) : list sevent :=
  spec_read (strict spec_close_ok) (scfg_of (c_cfg c)) (fun d => lookup_infl (c_infl c) (d ++ flate_tail)) (c_bs c).

Definition model_read (cfg : rcfg) (c : case) : list event :=
  read_all cfg (lookup_infl (c_infl c)) (c_bs c).

Definition with_rbuf (cfg : rcfg) (n : N) : rcfg :=
  mkRcfg (rc_server cfg) (rc_compress cfg) (rc_limit cfg) (rc_dlimit cfg) n (rc_close1_strict cfg) (rc_avail cfg).

Definition label_of (c : case) : N :=
  if (rc_rbuf (c_cfg c) <? 125)
     && negb (events_eqb (model_read (c_cfg c) c) (model_read (with_rbuf (c_cfg c) 125) c)) then 100
  else match end_of (strict_read c) with
       | Some (OViol k) => vk_idx k
       | _ => 0
       end.

(* model = implementation on the events (free text of 1002/1009 close frames excluded), and the
   driver's classification of the stream is the reference decoder's *)
Definition corr (c : case) : bool :=
  events_eqb (map norm_event (model_read (c_cfg c) c)) (map norm_event (c_obs c))
  && (label_of c =? c_label c).

(* the property: the implementation shows exactly what a conforming decoder shows *)
Definition oracle (c : case) : bool :=
  events_eqb (expected (strict_read c)) (map norm_event (c_obs c)).

Definition run (cs : list case) := failing corr oracle cs.
