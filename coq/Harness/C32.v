(* Correspondence harness for C32.  The driver keeps one SSE, one JSON HTTP-stream and
   one Protobuf HTTP-stream connection open against the real handlers (httptest) and,
   per case, publishes a list of payloads to the channel of one of them.  [body] is the
   slice of the HTTP response body produced for those publications, [ref] the encoded
   messages the node handed to a second client of the same protocol on the same channel
   (the repo's recording test transport) -- "what the node queued". *)
From Coq Require Import List NArith Bool.
From Cfg Require Export Lib.Run Model.Decimal Model.StreamFraming.
Import ListNotations.
Open Scope N_scope.

Inductive case :=
| CSsePre (body : bytes)                        (* start of the SSE response up to the connect reply *)
| CSse (body : bytes) (ref : list bytes)
| CNd (body : bytes) (ref : list bytes)
| CPb (body : bytes) (ref : list bytes).

Fixpoint list_bytes_eqb (a b : list bytes) : bool :=
  match a, b with
  | [], [] => true
  | x :: a', y :: b' => bytes_eqb x y && list_bytes_eqb a' b'
  | _, _ => false
  end.

Fixpoint has_pre (s p : bytes) : bool :=
  match p, s with
  | [], _ => true
  | x :: p', y :: s' => (x =? y) && has_pre s' p'
  | _ :: _, [] => false
  end.

(* model of the handler's write loop on the queued messages = bytes seen on the wire;
   plus the encoder guarantee the theorems rely on (no raw LF inside a JSON message) *)
Definition corr (c : case) : bool :=
  match c with
  | CSsePre body => bytes_eqb (sse_frame true (map ev_data (sse_parse body))) body
  | CSse body ref => bytes_eqb (flat_map (sse_msg true) ref) body && forallb lf_free ref
  | CNd body ref => bytes_eqb (json_frame ref) body && forallb lf_free ref
  | CPb body ref => bytes_eqb (pb_frame ref) body
  end.

Definition connect_prefix : bytes :=      (* {"id":1,"connect":{ *)
  [123; 34; 105; 100; 34; 58; 49; 44; 34; 99; 111; 110; 110; 101; 99; 116; 34; 58; 123].

Fixpoint events_match (evs : list sse_event) (ref : list bytes) : bool :=
  match evs, ref with
  | [], [] => true
  | e :: evs', m :: ref' =>
      bytes_eqb (ev_type e) [] && bytes_eqb (ev_id e) [] &&
      (match ev_retry e with None => true | Some _ => false end) &&
      bytes_eqb (normalise (ev_data e)) (normalise m) &&
      events_match evs' ref'
  | _, _ => false
  end.

(* the property on what was observed: a standards-conforming client parser receives
   exactly one event / record per queued message, in order, with the same content
   (for SSE: the same JSON text up to insignificant whitespace) *)
Definition oracle (c : case) : bool :=
  match c with
  | CSsePre body =>
      match sse_parse body with
      | [e] => bytes_eqb (ev_type e) [] && bytes_eqb (ev_id e) [] &&
               (match ev_retry e with None => true | Some _ => false end) &&
               has_pre (ev_data e) connect_prefix &&
               has_pre (rev (ev_data e)) [125; 125]
      | _ => false
      end
  | CSse body ref => events_match (sse_parse body) ref
  | CNd body ref => list_bytes_eqb (ndjson_parse body) ref
  | CPb body ref =>
      match pb_parse (S (length body)) body with
      | Some ms => list_bytes_eqb ms ref
      | None => false
      end
  end.

Definition run (cs : list case) := failing corr oracle cs.
