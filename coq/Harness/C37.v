(* Correspondence harness for C37 *)
From Coq Require Import List NArith Bool.
From Cfg Require Export Lib.Run Model.Limits Model.LimitsSpec.
Import ListNotations.
Open Scope N_scope.

Record case := mkCase {
  k_cfg : cfg; k_labels : list label;
  o_steps : list (list out); o_snaps : list snap
}.

Definition snap_eqb (a b : snap) : bool :=
  Bool.eqb (sn_closed a) (sn_closed b) && (sn_closed a || ((sn_held a =? sn_held b) && (sn_q a =? sn_q b))).

Fixpoint trace_eqb (t : list (list out * st)) (os : list (list out)) (sns : list snap) : bool :=
  match t, os, sns with
  | [], [], [] => true
  | (o, s) :: t', o' :: os', sn :: sns' => outs_eqb o o' && snap_eqb (snap_of s) sn && trace_eqb t' os' sns'
  | _, _, _ => false
  end.

Definition corr (c : case) : bool :=
  match trace (k_cfg c) init (k_labels c) with
  | None => false
  | Some t => trace_eqb t (o_steps c) (o_snaps c)
  end.

Definition oracle (c : case) : bool := steps_spec (k_cfg c) snap0 (k_labels c) (o_steps c) (o_snaps c).

Definition run (cs : list case) := failing corr oracle cs.
