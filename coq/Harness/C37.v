(* Correspondence harness for C37 *)
From Coq Require Import List NArith Bool.
From Cfg Require Export Lib.Run Model.Limits Model.LimitsSpec.
Import ListNotations.
Open Scope N_scope.

Record case := mkCase {
  k_cfg : cfg;
  k_subs : list N;              (* server-side subscriptions returned by OnConnecting *)
  k_labels : list label;
  o_connect : list out; o_snap0 : snap;   (* observed at connect *)
  o_steps : list (list out); o_snaps : list snap
}.

Definition snap_eqb (a b : snap) : bool :=
  Bool.eqb (sn_closed a) (sn_closed b) && (sn_closed a || ((sn_held a =? sn_held b) && (sn_q a =? sn_q b))).

Fixpoint trace_eqb (t : list (list out * st)) (os : list (list out)) (sns : list snap) : bool :=
  match t, os, sns with
  | [], [], [] => true
  | (o, s) :: t', o' :: os', sn :: sns' => outs_eqb o o' && snap_eqb (snap_of s) sn && trace_eqb t' os' sns'
  | _, _, _ => false
  end.

Definition corr (c : case) : bool :=
  let '(s0, o0) := start (k_cfg c) (k_subs c) in
  outs_eqb o0 (o_connect c) && snap_eqb (snap_of s0) (o_snap0 c) &&
  match trace (k_cfg c) s0 (k_labels c) with
  | None => false
  | Some t => trace_eqb t (o_steps c) (o_snaps c)
  end.

Definition oracle (c : case) : bool :=
  connect_spec (k_cfg c) (k_subs c) (o_connect c) (o_snap0 c) &&
  steps_spec (k_cfg c) (o_snap0 c) (k_labels c) (o_steps c) (o_snaps c).

Definition run (cs : list case) := failing corr oracle cs.
