(* Correspondence harness for C12 (per-connection write path).
   Two kinds of cases:
   CaseQ : a sequential operation sequence run on the real internal/queue.Queue
           through its exported API, with what every call returned and what
           Len/Size/Closed/Cap reported after it;
   CaseW : a run of the real writer (writer.go) under deterministic control:
           the event log recorded by the driver (enqueue calls and their results,
           transport calls with their batches as they arrive at the gated
           WriteFn/WriteManyFn, gate releases, close calls) and the final Len/Closed.
   corr   : the model reproduces the observed outputs (CaseQ: qrun; CaseW: the
            observed event log is a run of the transition system, the hidden
            atomic actions being filled in by [advance]).
   oracle : the property itself decided on the observed behaviour only
            (CaseQ: abstract FIFO; CaseW: prefix / exactness / close-flush /
            slow-consumer clauses computed from the event log). *)
From Coq Require Import List NArith ZArith Bool Arith.
From Cfg Require Export Lib.Run Model.RingQueue Model.RingQueueSpec Model.Writer.
Import ListNotations.

(* ------------------------------------------------------------ equality tests *)
Fixpoint list_eqb {A} (e : A -> A -> bool) (a b : list A) : bool :=
  match a, b with
  | [], [] => true
  | x :: a', y :: b' => e x y && list_eqb e a' b'
  | _, _ => false
  end.
Definition items_eqb := list_eqb item_eqb.
Definition opt_eqb {A} (e : A -> A -> bool) (a b : option A) : bool :=
  match a, b with
  | None, None => true
  | Some x, Some y => e x y
  | _, _ => false
  end.
Definition qout_eqb (a b : qout) : bool :=
  match a, b with
  | OutBool x, OutBool y => Bool.eqb x y
  | OutItem x, OutItem y => opt_eqb item_eqb x y
  | OutItems x, OutItems y => opt_eqb items_eqb x y
  | OutRemaining x, OutRemaining y => items_eqb x y
  | OutUnit, OutUnit => true
  | _, _ => false
  end.
Definition obs_eqb (a b : qobs) : bool :=
  (ob_len a =? ob_len b) && Z.eqb (ob_size a) (ob_size b) && Bool.eqb (ob_closed a) (ob_closed b) &&
  (ob_cap a =? ob_cap b).
Definition proj_eqb (a b : nat * Z * bool) : bool :=
  let '(l1, s1, c1) := a in let '(l2, s2, c2) := b in (l1 =? l2) && Z.eqb s1 s2 && Bool.eqb c1 c2.
Definition eres_eqb (a b : eres) : bool :=
  match a, b with RNil, RNil | RClosed, RClosed | RSlow, RSlow => true | _, _ => false end.

(* ------------------------------------------------------------ writer event log *)
Inductive who := WFlusher | WTimer | WCloser (c : nat).

Inductive ev :=
| EvEnq (p : nat) (is : list item) (many : bool)   (* enqueue/enqueueMany called; its Add has been performed *)
| EvEnqDone (p : nat) (r : eres)                   (* the call returned r *)
| EvArrive (w : who) (batch : list item)           (* WriteFn/WriteManyFn entered with this batch (now blocked at the gate) *)
| EvRelease (err : bool)                           (* the gated transport call returns (err = an error) *)
| EvClose (c : nat) (flush : bool)                 (* close(flush) called *)
| EvCloseDone (c : nat).                           (* it returned *)

Record istate := mkI { i_s : wst; i_gate : option nat; i_flush : option nat; i_next : nat }.

Definition is_write (p : pc) : bool :=
  match p with GWrite _ | FWrite _ | CWrite _ => true | _ => false end.
Definition is_done_p (p : pc) : bool := match p with PDone _ => true | _ => false end.
Definition is_cdone (p : pc) : bool := match p with CDone => true | _ => false end.

(* let the owner of writer.mu run until it has released it (it must not be at the gate) *)
Fixpoint release (fuel : nat) (c : wcfg) (s : wst) (o : nat) : option wst :=
  match fuel with
  | 0 => None
  | S f =>
      match owner s with
      | Some o' => if o' =? o then
                     match astep c s (LStep o) with
                     | Next s1 => release f c s1 o
                     | _ => None
                     end
                   else Some s
      | None => Some s
      end
  end.

(* run thread t until its pc satisfies [stop], filling in hidden actions *)
Fixpoint advance (fuel : nat) (c : wcfg) (s : wst) (t : nat) (stop : pc -> bool) : option wst :=
  match fuel with
  | 0 => None
  | S f =>
      match getpc (thr s) t with
      | None => None
      | Some p =>
          if stop p then Some s else
          let l := match p with
                   | GDelayWait => if closeCh s then LStep t else LDelay t
                   | _ => LStep t
                   end in
          match astep c s l with
          | Next s1 => advance f c s1 t stop
          | Panic => None
          | Blocked =>
              match p with
              | G0 => match astep c s (LWake t) with
                      | Next s1 => advance f c s1 t stop
                      | _ => None
                      end
              | _ => match owner s with
                     | Some o => if o =? t then None else
                                   match release f c s o with
                                   | Some s1 => advance f c s1 t stop
                                   | None => None
                                   end
                     | None => None
                     end
              end
          end
      end
  end.

Definition FUEL : nat := 200.

Definition flush_usable (s : wst) (ft : option nat) : option nat :=
  match ft with
  | Some t => match getpc (thr s) t with
              | Some F0 | Some FLen | Some (FRemove _) | Some (FWrite _) => Some t
              | _ => None
              end
  | None => None
  end.

(* producers that have done their Add and size check and only have their lock section left *)
Definition run_psched (c : wcfg) (s : wst) : wst :=
  fold_right (fun (tp : nat * pc) s =>
                match getpc (thr s) (fst tp) with
                | Some PSched => match astep c s (LStep (fst tp)) with Next s1 => s1 | _ => s end
                | _ => s
                end) s (thr s).

(* the flush timer fires.  If the model's timer is not armed, what armed it in the real run has not
   been replayed yet: the holder of writer.mu (about to re-arm it) and the producers whose calls have
   not been reported as returned yet are run first. *)
Definition spawn_flush (c : wcfg) (st : istate) : option (istate * nat) :=
  let t := i_next st in
  let s0 := i_s st in
  let s1 := if tarmed s0 then Some s0
            else
              let s' := match owner s0 with
                        | Some o => release FUEL c s0 o
                        | None => Some s0
                        end in
              match s' with
              | Some s' => if tarmed s' then Some s' else Some (run_psched c s')
              | None => None
              end in
  match s1 with
  | Some s1 => match astep c s1 (LTimerFire t) with
               | Next s2 => Some (mkI s2 (i_gate st) (Some t) (S t), t)
               | _ => None
               end
  | None => None
  end.

Definition ev_step (c : wcfg) (st : istate) (e : ev) : option istate :=
  let s := i_s st in
  match e with
  | EvEnq p is many =>
      match astep c s (LEnq p is many) with
      | Next s1 =>
          match getpc (thr s1) p with
          | Some PAdded => match astep c s1 (LStep p) with
                           | Next s2 => Some (mkI s2 (i_gate st) (i_flush st) (i_next st))
                           | _ => None
                           end
          | _ => Some (mkI s1 (i_gate st) (i_flush st) (i_next st))
          end
      | _ => None
      end
  | EvEnqDone p r =>
      match advance FUEL c s p is_done_p with
      | Some s1 => match getpc (thr s1) p with
                   | Some (PDone r') => if eres_eqb r r' then Some (mkI s1 (i_gate st) (i_flush st) (i_next st)) else None
                   | _ => None
                   end
      | None =>
          (* the call returned although, in the order of the log, writer.mu is held by the thread at the
             gate: its lock section (a no-op on an already scheduled timer) ran before that thread locked;
             the model performs it later (see [settle]) *)
          match getpc (thr s) p with
          | Some PSched => if eres_eqb r RNil then Some st else None
          | _ => None
          end
      end
  | EvArrive w batch =>
      match i_gate st with
      | Some _ => None
      | None =>
          let tt := match w with
                    | WFlusher => Some (st, flusher_tid)
                    | WCloser cid => Some (st, cid)
                    | WTimer => match flush_usable s (i_flush st) with
                                | Some t => Some (st, t)
                                | None => spawn_flush c st
                                end
                    end in
          match tt with
          | Some (st1, t) =>
              match advance FUEL c (i_s st1) t is_write with
              | Some s1 => match getpc (thr s1) t with
                           | Some p => if items_eqb (items_of p) batch
                                       then Some (mkI s1 (Some t) (i_flush st1) (i_next st1)) else None
                           | None => None
                           end
              | None => None
              end
          | None => None
          end
      end
  | EvRelease err =>
      match i_gate st with
      | Some t => match astep c s (LWrite t err) with
                  | Next s1 => Some (mkI s1 None (i_flush st) (i_next st))
                  | _ => None
                  end
      | None => None
      end
  | EvClose cid flush =>
      match astep c s (LClose cid flush) with
      | Next s1 => Some (mkI s1 (i_gate st) (i_flush st) (i_next st))
      | _ => None
      end
  | EvCloseDone cid =>
      match advance FUEL c s cid is_cdone with
      | Some s1 => Some (mkI s1 (i_gate st) (i_flush st) (i_next st))
      | None => None
      end
  end.

Fixpoint ev_run (c : wcfg) (st : istate) (es : list ev) : option istate :=
  match es with
  | [] => Some st
  | e :: es' => match ev_step c st e with Some st1 => ev_run c st1 es' | None => None end
  end.

(* let every thread run as far as it can without a timer event or a transport return *)
Fixpoint settle_thread (fuel : nat) (c : wcfg) (s : wst) (t : nat) : wst :=
  match fuel with
  | 0 => s
  | S f => match astep c s (LStep t) with Next s1 => settle_thread f c s1 t | _ => s end
  end.
Definition settle (c : wcfg) (s : wst) : wst :=
  fold_left (fun s tp => settle_thread 50 c s (fst tp)) (thr s) s.

(* ------------------------------------------------------------ cases *)
Inductive case :=
| CaseQ (ic : nat) (ops : list qop) (panicked : bool) (obs : list (qout * qobs))
| CaseW (cfg : wcfg) (evs : list ev) (final_len : nat) (final_closed : bool).

Definition corr (k : case) : bool :=
  match k with
  | CaseQ ic ops panicked obs =>
      match qrun (new ic) ops with
      | Some (_, rs) => negb panicked &&
                        list_eqb (fun a b => qout_eqb (fst a) (fst b) && obs_eqb (snd a) (snd b)) rs obs
      | None => panicked
      end
  | CaseW cfg evs flen fclosed =>
      match ev_run cfg (mkI (winit cfg) None None 1000) evs with
      | Some st =>
          let s := settle cfg (settle cfg (i_s st)) in
          (cnt (wq s) =? flen) && Bool.eqb (qclosed (wq s)) fclosed
      | None => false
      end
  end.

(* ---- the property on an observed writer event log ---- *)
Fixpoint result_of (evs : list ev) (p : nat) : option eres :=
  match evs with
  | [] => None
  | EvEnqDone p' r :: evs' => if p' =? p then Some r else result_of evs' p
  | _ :: evs' => result_of evs' p
  end.

(* was the Add of producer p successful?  (nil and slow both mean the item was queued) *)
Definition accepted_p (evs : list ev) (p : nat) : bool :=
  match result_of evs p with Some RNil | Some RSlow => true | _ => false end.

Fixpoint accepted (all evs : list ev) : list item :=
  match evs with
  | [] => []
  | EvEnq p is _ :: evs' => (if accepted_p all p then is else []) ++ accepted all evs'
  | _ :: evs' => accepted all evs'
  end.

Fixpoint written (evs : list ev) : list item :=
  match evs with
  | [] => []
  | EvArrive _ b :: evs' => b ++ written evs'
  | _ :: evs' => written evs'
  end.

Fixpoint prefix_b (a b : list item) : bool :=
  match a, b with
  | [], _ => true
  | x :: a', y :: b' => item_eqb x y && prefix_b a' b'
  | _, [] => false
  end.

(* flush flag of the first (= effective) close call, and whether it returned *)
Fixpoint first_close (evs : list ev) : option (nat * bool) :=
  match evs with
  | [] => None
  | EvClose c f :: _ => Some (c, f)
  | _ :: evs' => first_close evs'
  end.
Fixpoint close_done (evs : list ev) (c : nat) : bool :=
  match evs with
  | [] => false
  | EvCloseDone c' :: evs' => (c' =? c) || close_done evs' c
  | _ :: evs' => close_done evs' c
  end.

(* slow-consumer and closed-connection clauses, walking the log with the bytes currently queued *)
Fixpoint slow_ok (maxq : Z) (all evs : list ev) (qbytes : Z) (closed : bool) : bool :=
  match evs with
  | [] => true
  | EvEnq p is _ :: evs' =>
      let r := result_of all p in
      let after := (qbytes + size_of is)%Z in
      match r with
      | None => false                                   (* every call must return *)
      | Some RClosed => slow_ok maxq all evs' qbytes closed
      | Some r' =>
          negb closed &&
          Bool.eqb (eres_eqb r' RSlow) ((0 <? maxq)%Z && (maxq <? after)%Z) &&
          slow_ok maxq all evs' after closed
      end
  | EvArrive _ b :: evs' => slow_ok maxq all evs' (qbytes - size_of b)%Z closed
  | EvCloseDone _ :: evs' => slow_ok maxq all evs' qbytes true
  | _ :: evs' => slow_ok maxq all evs' qbytes closed
  end.

Definition disturbed (e : ev) : bool :=
  match e with EvRelease true => true | EvEnqDone _ RSlow => true | EvClose _ _ => true | _ => false end.

Definition oracle (k : case) : bool :=
  match k with
  | CaseQ ic ops panicked obs =>
      if ic =? 0 then true     (* New(0) is outside the property: the writer never creates such a queue *)
      else negb panicked &&
           list_eqb (fun a b => qout_eqb (fst a) (fst b) && proj_eqb (snd a) (snd b))
                    (frun fifo_new ops) (map (fun '(r, o) => (r, obs_proj o)) obs)
  | CaseW cfg evs flen fclosed =>
      let acc := accepted evs evs in
      let wr := written evs in
      prefix_b wr acc &&
      (match first_close evs with
       | Some (c, true) => if close_done evs c then items_eqb wr acc else true
       | Some (c, false) => true
       | None => if flen =? 0 then items_eqb wr acc else true
       end) &&
      (* the driver ends a case only when no thread of the writer can move: unless the connection was
         closed, a write failed or an enqueue reported a slow consumer, nothing may be left queued *)
      (existsb disturbed evs || (flen =? 0)) &&
      slow_ok (c_maxq cfg) evs evs 0%Z false
  end.

Definition run (cs : list case) := failing corr oracle cs.
