(* Correspondence harness for C20: one case = channel configurations, an
   operation sequence, and what the real MemoryMapBroker returned / broadcast
   for every operation. *)
From Coq Require Import List NArith ZArith Bool.
From Cfg Require Export Lib.Run Model.MapHub Model.MapSpec.
Import ListNotations.
Open Scope N_scope.

Record case := mkCase { c_cfgs : list rawcfg; c_ops : list op; c_obs : list obs }.

Definition pub_eq_dec : forall a b : pub, {a = b} + {a <> b}.
Proof. repeat decide equality. Defined.
Definition res_eq_dec : forall a b : res, {a = b} + {a <> b}.
Proof. repeat decide equality. Defined.
Definition bcast_eq_dec : forall a b : bcast, {a = b} + {a <> b}.
Proof. repeat decide equality. Defined.
Definition obs_eq_dec : forall a b : obs, {a = b} + {a <> b}.
Proof. intros. decide equality. apply (list_eq_dec bcast_eq_dec). apply res_eq_dec. Defined.

Definition obs_eqb (a b : list obs) : bool := if list_eq_dec obs_eq_dec a b then true else false.

Definition corr (c : case) : bool := obs_eqb (run_obs (c_cfgs c) hub0 (c_ops c)) (c_obs c).
(* the property: the implementation's observable behaviour is the reference map's *)
Definition oracle (c : case) : bool :=
  forallb seq_op (c_ops c) && obs_eqb (spec_obs (c_cfgs c) sstate0 (c_ops c)) (c_obs c).

Definition run (cs : list case) := failing corr oracle cs.
