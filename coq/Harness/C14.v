(* Correspondence harness for C14.  Byte strings are interned by the driver
   (id 0 = "unknown"); the libraries are instantiated by the tables of what the
   REAL fossil-delta Create/Apply and JSON escape/unescape returned on the pairs
   met in the scenario. *)
From Coq Require Import List NArith Bool Arith.
From Cfg Require Export Lib.Run Model.Delta.
Import ListNotations.
Open Scope N_scope.

Record tables := mkT {
  t_len : list (N * N);                 (* id -> length in bytes *)
  t_create : list (N * N * N);          (* base, target -> fdelta.Create *)
  t_apply : list (N * N * option N);    (* base, patch -> fdelta.Apply (None = error) *)
  t_esc : list (N * N)                  (* id -> json.Escape(id) *)
}.

Fixpoint look1 (k : N) (l : list (N * N)) : option N :=
  match l with [] => None | (a, v) :: t => if a =? k then Some v else look1 k t end.
Fixpoint look1r (v : N) (l : list (N * N)) : option N :=
  match l with [] => None | (a, w) :: t => if w =? v then Some a else look1r v t end.
Fixpoint look2 (k1 k2 : N) (l : list (N * N * N)) : option N :=
  match l with [] => None | (a, b, v) :: t => if (a =? k1) && (b =? k2) then Some v else look2 k1 k2 t end.
Fixpoint look2o (k1 k2 : N) (l : list (N * N * option N)) : option (option N) :=
  match l with [] => None | (a, b, v) :: t => if (a =? k1) && (b =? k2) then Some v else look2o k1 k2 t end.

Definition dflt (o : option N) : N := match o with Some x => x | None => 0 end.

Definition blen_t (T : tables) (x : N) : nat := N.to_nat (dflt (look1 x (t_len T))).
Definition create_t (T : tables) (b t : N) : N := dflt (look2 b t (t_create T)).
Definition apply_t (T : tables) (b p : N) : option N :=
  match look2o b p (t_apply T) with Some r => r | None => None end.
Definition esc_t (T : tables) (x : N) : N := dflt (look1 x (t_esc T)).
Definition unesc_t (T : tables) (x : N) : N := dflt (look1r x (t_esc T)).

(* what the client saw, in order *)
Inductive obs :=
| OReset                                         (* fresh subscription: the client forgets what it held *)
| OPush (key : nat) (delta : bool) (data expect : N)
| ORemove (key : nat).

Inductive scen :=
| ScP (fx : bool) (script : list (pact N))       (* positioned stream channel *)
| ScU (keep : bool) (script : list (uact N))     (* unpositioned stream channel (medium keep-latest or not) *)
| ScM (filtered fxm : bool) (script : list (mact N))   (* map channel *)
| ScQ (script : list (qact N)).                        (* map channel, paginated subscribe with concurrent writers *)

Record case := mkCase {
  c_json : bool;
  c_tab : tables;
  c_scen : scen;
  c_obs : list obs;
  c_contracts : bool   (* driver: Apply(b, Create(b,t)) = t and unescape(escape x) = x held on every pair met *)
}.

(* pushes as (key, delta, data, expect) *)
Definition push := (nat * bool * N * N)%type.

Definition ev_push (e : event N) : push :=
  (0%nat, w_delta N (e_wire N e), w_data N (e_wire N e), e_expect N e).
Definition mev_push (e : mevent N) : push :=
  (me_key N e, w_delta N (me_wire N e), w_data N (me_wire N e), me_expect N e).

Fixpoint obs_pushes (l : list obs) : list push :=
  match l with
  | [] => []
  | OPush k d x e :: t => (k, d, x, e) :: obs_pushes t
  | _ :: t => obs_pushes t
  end.

(* stable insertion sort by key: the order of pushes for DIFFERENT map keys is
   not part of the property (and a state read enumerates a Go map) *)
Fixpoint ins_push (p : push) (l : list push) : list push :=
  match l with
  | [] => [p]
  | q :: t => if Nat.ltb (fst (fst (fst p))) (fst (fst (fst q))) then p :: l else q :: ins_push p t
  end.
Definition sort_pushes (l : list push) : list push := fold_right ins_push [] l.

Definition push_eqb (a b : push) : bool :=
  let '(k1, d1, x1, e1) := a in let '(k2, d2, x2, e2) := b in
  Nat.eqb k1 k2 && Bool.eqb d1 d2 && (x1 =? x2) && (e1 =? e2).
Fixpoint pushes_eqb (a b : list push) : bool :=
  match a, b with
  | [], [] => true
  | x :: a', y :: b' => push_eqb x y && pushes_eqb a' b'
  | _, _ => false
  end.

Definition model_pushes (c : case) : list push :=
  let T := c_tab c in
  let j := c_json c in
  match c_scen c with
  | ScP fx script =>
      map ev_push (snd (p_run N (blen_t T) (create_t T) (apply_t T) (esc_t T) (unesc_t T) j fx (p_init N) script))
  | ScU keep script =>
      map ev_push (snd (u_run N (blen_t T) (create_t T) (apply_t T) (esc_t T) (unesc_t T) j (u_init N keep) script))
  | ScM filtered fxm script =>
      if filtered && fxm then []      (* delta is not negotiated at all: nothing to reconstruct *)
      else map mev_push (snd (m_run N (blen_t T) (create_t T) (apply_t T) (esc_t T) (unesc_t T) j filtered (m_init N) script))
  | ScQ script =>
      map mev_push (snd (q_run N (blen_t T) (create_t T) (apply_t T) (esc_t T) (unesc_t T) j (q_init N) script))
  end.

Definition corr (c : case) : bool :=
  c_contracts c && pushes_eqb (sort_pushes (model_pushes c)) (sort_pushes (obs_pushes (c_obs c))).

(* The property on the observed behaviour: the reference client, fed with what
   was delivered and using the real Apply results, holds the published payload
   after every push. *)
Definition hmap := list (nat * N).
Fixpoint hget (k : nat) (h : hmap) : option N :=
  match h with [] => None | (a, v) :: t => if Nat.eqb a k then Some v else hget k t end.
Definition hdel (k : nat) (h : hmap) : hmap := filter (fun kv => negb (Nat.eqb (fst kv) k)) h.
Definition hset (k : nat) (v : option N) (h : hmap) : hmap :=
  match v with Some x => (k, x) :: hdel k h | None => hdel k h end.

Definition optN_eqb (a : option N) (b : N) : bool := match a with Some x => x =? b | None => false end.

Fixpoint oracle_obs (T : tables) (j : bool) (h : hmap) (l : list obs) : bool :=
  match l with
  | [] => true
  | OReset :: t => oracle_obs T j [] t
  | ORemove k :: t => oracle_obs T j (hdel k h) t
  | OPush k d x e :: t =>
      let r := client_step N (apply_t T) (unesc_t T) j (hget k h) (mkW N d x) in
      optN_eqb r e && oracle_obs T j (hset k r h) t
  end.

Definition oracle (c : case) : bool := oracle_obs (c_tab c) (c_json c) [] (c_obs c).

Definition run (cs : list case) := failing corr oracle cs.
