(* Correspondence harness for C25: a schedule of track / untrack / backend poll /
   publish / revoke / epoch flip actions driven against the real node with a
   scripted backend, and the pushes the connection received after each action. *)
From Coq Require Import List Arith Bool.
From Cfg Require Export Lib.Run Model.Keyed.
Import ListNotations.

Record case := mkCase {
  c_keep : bool;                 (* KeepLatestData *)
  c_gx : bool;                   (* probed variant of the PrevData handling *)
  c_script : list act;
  c_obs : list (list push);      (* pushes observed after each action (delta base found by applying the real patch) *)
  c_reqs : list ver;             (* the version the real node sent to the backend for the key, one per APollReq of the script *)
  c_final : list (key * ver)     (* quiescent end after fair poll cycles with a responsive backend: tracked key, newest version *)
}.

Definition push_eqb (a b : push) : bool :=
  match a, b with
  | PFull k v, PFull k' v' => Nat.eqb k k' && Nat.eqb v v'
  | PDelta k v x, PDelta k' v' x' => Nat.eqb k k' && Nat.eqb v v' && Nat.eqb x x'
  | PRemoved k, PRemoved k' => Nat.eqb k k'
  | PUnsub, PUnsub => true
  | _, _ => false
  end.

Fixpoint list_eqb {A : Type} (f : A -> A -> bool) (a b : list A) : bool :=
  match a, b with
  | [], [] => true
  | x :: a', y :: b' => f x y && list_eqb f a' b'
  | _, _ => false
  end.

(* the request side: what version the model's poller puts into each request *)
Fixpoint model_reqs (keep gx : bool) (s : st) (l : list act) : list ver :=
  match l with
  | [] => []
  | a :: t =>
      let here := match a with
                  | APollReq k => match s_ent s k with Some e => [if e_nb e then 0 else e_ver e] | None => [] end
                  | _ => []
                  end in
      here ++ model_reqs keep gx (fst (step keep gx s a)) t
  end.

Definition corr (c : case) : bool :=
  list_eqb (list_eqb push_eqb) (snd (run (c_keep c) (c_gx c) init (c_script c))) (c_obs c) &&
  list_eqb Nat.eqb (model_reqs (c_keep c) (c_gx c) init (c_script c)) (c_reqs c).

(* The property on what the connection saw: versions strictly increase per
   tracked key, a delta applies to the payload the client holds, nothing is
   pushed for a key that is not tracked (after untrack / removal / revocation /
   end of the subscription), an epoch flip unsubscribes. *)
Record ost := mkO { o_sub : bool; o_last : key -> option ver; o_held : key -> option ver; o_keys : list key }.

Definition o_push (o : ost) (p : push) : option ost :=
  match p with
  | PFull k v =>
      match o_last o k with
      | Some l => if Nat.ltb l v then Some (mkO (o_sub o) (upd (o_last o) k (Some v)) (upd (o_held o) k (Some v)) (o_keys o)) else None
      | None => None
      end
  | PDelta k v base =>
      match o_last o k, o_held o k with
      | Some l, Some h =>
          if Nat.ltb l v && Nat.eqb h base
          then Some (mkO (o_sub o) (upd (o_last o) k (Some v)) (upd (o_held o) k (Some v)) (o_keys o)) else None
      | _, _ => None
      end
  | PRemoved k => Some (mkO (o_sub o) (upd (o_last o) k None) (upd (o_held o) k None) (del_tkey k (o_keys o)))
  | PUnsub => Some (mkO false (fun _ => None) (fun _ => None) [])
  end.

Fixpoint o_pushes (o : ost) (ps : list push) : option ost :=
  match ps with
  | [] => Some o
  | p :: t => match o_push o p with Some o' => o_pushes o' t | None => None end
  end.

(* what the client itself does when it issues the action *)
Definition o_act (o : ost) (a : act) : ost :=
  match a with
  | ASubscribe => if o_sub o then o else mkO true (fun _ => None) (fun _ => None) []
  | ATrack k fresh =>
      if o_sub o then
        let cv := if fresh then 0 else match o_held o k with Some h => h | None => 0 end in
        mkO true (upd (o_last o) k (Some cv)) (if fresh then upd (o_held o) k None else o_held o) (add_tkey k (o_keys o))
      else o
  | ATrackV k cv =>
      (* the client claims version cv; its delta base stays what this node delivered *)
      if o_sub o then mkO true (upd (o_last o) k (Some cv)) (o_held o) (add_tkey k (o_keys o)) else o
  | AUntrack k _ => mkO (o_sub o) (upd (o_last o) k None) (upd (o_held o) k None) (del_tkey k (o_keys o))
  | _ => o
  end.

(* request side: while the connection tracks a key, holds no payload for it and no publication for
   the key is on its way to it ([fly]: publications whose broadcast has not resumed yet), every poll
   request for the key asks from version 0 (only then a backend that reports changes answers it) *)
Definition req_ok (o : ost) (fly : list key) (a : act) (reqs : list ver) : bool * list ver :=
  match a with
  | APollReq k =>
      match reqs with
      | [] => (true, [])      (* no request was made (no entry) *)
      | r :: rt =>
          (negb (existsb (Nat.eqb k) (o_keys o) && match o_held o k with None => true | Some _ => false end
                 && match o_last o k with Some 0 => true | _ => false end   (* ... and did not claim a version *)
                 && negb (existsb (Nat.eqb k) fly)) || Nat.eqb r 0, rt)
      end
  | _ => (true, reqs)
  end.

(* publications issued and not yet resumed, in the order of the model's list of broadcasts in flight
   (a poll response is followed at once by its delivery and is not listed) *)
Definition fly_act (fly : list key) (a : act) : list key :=
  match a with
  | APublish k _ => fly ++ [k]
  | ADeliver i _ => remove_nth i fly
  | _ => fly
  end.

Fixpoint oracle_run (o : ost) (fly : list key) (script : list act) (obs : list (list push)) (reqs : list ver) (fin : list (key * ver)) : bool :=
  match script, obs with
  | [], [] =>
      (* quiescent end: every tracked key holds the newest version *)
      forallb (fun kv => match o_held o (fst kv) with Some h => Nat.eqb h (snd kv) | None => false end) fin
  | a :: t, ps :: pt =>
      let '(rok, reqs') := req_ok o fly a reqs in
      let o1 := o_act o a in
      let flip_ok := match a with
                     | AEpochFlip => negb (o_sub o) || match o_keys o with [] => true | _ => false end || existsb (fun p => match p with PUnsub => true | _ => false end) ps
                     | _ => true
                     end in
      match o_pushes o1 ps with
      | Some o2 => rok && flip_ok && oracle_run o2 (fly_act fly a) t pt reqs' fin
      | None => false
      end
  | _, _ => false
  end.

Definition oracle (c : case) : bool :=
  oracle_run (mkO false (fun _ => None) (fun _ => None) []) [] (c_script c) (c_obs c) (c_reqs c) (c_final c).

Definition run (cs : list case) := failing corr oracle cs.
