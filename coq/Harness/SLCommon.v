(* Shared correspondence machinery for the properties over Model/SubLifecycle.v
   (C04 C05 C06 C07 C08 C26).

   The Go engine (harness/inpkg/root/c04_engine_verif_test.go) drives the real
   Node/Client with driver commands; each command lets every thread run until
   it is parked at an ARMED natural gate, blocked, or finished.  [run_cmds]
   gives the same macro semantics on top of the fine-grained [astep]: a macro
   step is a finite list of [astep] labels, so every state it reaches is a
   state of some schedule and is covered by the theorems over [exec]. *)
From Coq Require Import List NArith ZArith Bool.
From Cfg Require Export Lib.Run Model.SubLifecycle.
Import ListNotations.
Open Scope N_scope.

Definition gk_eqb (a b : gk) : bool :=
  match a, b with
  | GkSubH, GkSubH | GkBrokerSub, GkBrokerSub | GkPresAdd, GkPresAdd | GkPresRem, GkPresRem
  | GkJoin, GkJoin | GkLeave, GkLeave | GkUnsubH, GkUnsubH | GkTransport, GkTransport
  | GkDiscH, GkDiscH | GkAliveH, GkAliveH | GkConnH, GkConnH | GkBrokerUnsub, GkBrokerUnsub
  | GkConnecting, GkConnecting => true
  | _, _ => false
  end.

Definition armed_of (l : list gk) : gk -> bool := fun k => existsb (gk_eqb k) l.

Definition parks (ar : gk -> bool) (s : st) (th : thread) : bool :=
  match gate_of s th with Some k => ar k | None => false end.

(* The close loop ranges over a Go map: its order is the runtime's choice.  [rot] tells the
   model's close thread to move the head of a two-element remaining snapshot to the back before
   it takes a channel (label LStep t false at CLoop); the correspondence accepts a case when one
   of the two orders reproduces the observation. *)
Definition wants_rotation (rot : bool) (th : thread) : bool :=
  match th with
  | TCls k => match k_pc k, k_cur k, k_rest k with
              | CLoop, None, [_; _] => rot
              | _, _, _ => false
              end
  | _ => false
  end.

(* run thread [t] until it parks at an armed gate, is not enabled, or ends *)
Fixpoint run_thread (fuel : nat) (rot : bool) (ar : gk -> bool) (s : st) (t : tid) : st :=
  match fuel with
  | O => s
  | S f =>
      match thr s t with
      | None => s
      | Some th =>
          if parks ar s th then s
          else if wants_rotation rot th then
            match step_thread s t false with
            | Some s1 => match step_thread s1 t true with
                         | Some s' => run_thread f rot ar s' t
                         | None => s1
                         end
            | None => s
            end
          else match step_thread s t true with
               | Some s' => run_thread f rot ar s' t
               | None => s
               end
      end
  end.

Definition ext_tids (s : st) : list tid := map (fun k => 2 * N.of_nat k) (seq 0 (N.to_nat (next_ext s))).
Definition int_tids (s : st) : list tid := map (fun k => 2 * N.of_nat k + 1) (seq 0 (N.to_nat (next_int s))).
Definition all_tids (s : st) : list tid := ext_tids s ++ int_tids s.

Definition round (rot : bool) (ar : gk -> bool) (s : st) : st :=
  fold_left (fun s t => run_thread 100 rot ar s t) (all_tids s) s.
Definition rounds := 6%nat.

(* thread selectors for threads the driver did not start itself *)
Definition past_flip (k : crec) : bool :=
  match k_pc k with CStart | CLock | CFlip => false | _ => true end.
Definition find_close (s : st) : option tid :=
  find (fun t => match thr s t with Some (TCls k) => past_flip k | _ => false end) (all_tids s).
Definition find_job (s : st) (c : ch) : option tid :=
  find (fun t => match thr s t with Some (TJob c') => c' =? c | _ => false end) (all_tids s).

Inductive cmd :=
| CSpawn (o : op)
| CRelease (k : N) (g : gk) (c : ch) (b : bool)
    (* the k-th spawned operation's thread, parked at gate g for channel c; when several
       threads were woken at the same wait gate the winner's identity is scheduler-chosen,
       so any thread parked at (g, c) is accepted *)
| CReleaseClose (g : gk) (c : ch) (b : bool)   (* the close thread that won the status flip, parked at g for c *)
| CReleaseJob (c : ch) (b : bool)
| CTimeout (k : N)
| CTimeoutClose
| CDrain                             (* every queued dissolver job whose lock is free starts *)
| COtherAdd (c : ch) (b : bool)
| COtherRem (c : ch)
| CNoModel.                         (* marker: the schedule uses features outside the model (connect-time
                                      subscriptions, keyed tracking); only the oracle judges the case *)

Definition at_gate (ar : gk -> bool) (s : st) (t : tid) : bool :=
  match thr s t with Some th => parks ar s th | None => false end.

Definition thread_ch (th : thread) : ch :=
  match th with
  | TAtt a => a_ch a
  | TUns u => u_ch u
  | TCls k => match k_cur k with Some u => u_ch u | None => 99 end
  | TTck k => match t_pc k with
              | TAdd => hd 99 (map fst (t_todo k))
              | TCompRem => hd 99 (t_rem k)
              | _ => 99
              end
  | TCon _ => 99
  | TJob c => c
  end.
Definition parked_at (ar : gk -> bool) (s : st) (g : gk) (c : ch) (t : tid) : bool :=
  match thr s t with
  | Some th => match gate_of s th with
               | Some g' => gk_eqb g g' && ar g' && (thread_ch th =? c)
               | None => false
               end
  | None => false
  end.
(* The presence tick walks a snapshot taken from a Go map, i.e. in an order chosen by the
   runtime.  When the implementation's tick is parked at AddPresence for channel [c] while the
   model's tick (which walks in list order) is parked for another snapshot item, the model's
   remaining items are rotated so that [c] comes first: this is the schedule in which the
   snapshot order started with [c] (the membership check of the skipped head has no effect
   and is redone when its turn comes). *)
Definition bring_front (c : ch) (l : list ch) : list ch :=
  if existsb (N.eqb c) l then c :: remove1 c l else l.
Definition bring_front_p (c : ch) (l : list (ch * gen)) : list (ch * gen) :=
  match find (fun p => fst p =? c) l with
  | Some p => p :: filter (fun q => negb (fst q =? c)) l
  | None => l
  end.
Definition retarget_tick (s : st) (t : tid) (c : ch) : st :=
  match thr s t with
  | Some (TTck k) =>
      match t_pc k with
      | TAdd => thr_set t (TTck (mkT TAdd (bring_front_p c (t_todo k)) (t_added k) (t_rem k))) s
      | TCompRem => thr_set t (TTck (mkT TCompRem (t_todo k) (t_added k) (bring_front c (t_rem k)))) s
      | _ => s
      end
  | _ => s
  end.
Definition find_parked (ar : gk -> bool) (s : st) (k : N) (g : gk) (c : ch) : option (st * tid) :=
  let s1 := retarget_tick s (2 * k) c in
  if parked_at ar s1 g c (2 * k) then Some (s1, 2 * k)
  else if at_gate ar s (2 * k) then None
  else match find (parked_at ar s g c) (ext_tids s) with Some t => Some (s, t) | None => None end.

(* Dissolver jobs released by a drain command run as soon as their subLock is free (in the
   implementation they are goroutines blocked on that mutex); in the model a job that has not yet
   acquired the lock is still in the queue, so the harness starts such "eager" jobs (label
   LJobStart) whenever the lock becomes free. *)
Fixpoint start_eager (s : st) (eg : list ch) : st * list ch :=
  match eg with
  | [] => (s, [])
  | c :: r =>
      match job_start s c with
      | Some s' => start_eager s' r
      | None => let '(s2, r2) := start_eager s r in (s2, c :: r2)
      end
  end.
Fixpoint settle_e (n : nat) (rot : bool) (ar : gk -> bool) (s : st) (eg : list ch) : st * list ch :=
  match n with
  | O => (s, eg)
  | S m => let '(s2, eg2) := start_eager (round rot ar s) eg in settle_e m rot ar s2 eg2
  end.

Definition do_cmd (rot : bool) (ar : gk -> bool) (se : st * list ch) (c : cmd) : option (st * list ch) :=
  let '(s, eg) := se in
  let fin o := match o with Some s' => Some (settle_e rounds rot ar s' eg) | None => None end in
  match c with
  | CSpawn o => fin (spawn s o)
  | CRelease k g c b =>
      match find_parked ar s k g c with Some (s1, t) => fin (step_thread s1 t b) | None => None end
  | CReleaseClose g c b =>
      match find_close s with
      | Some t => if parked_at ar s g c t then fin (step_thread s t b) else None
      | None => None
      end
  | CReleaseJob c b =>
      match find_job s c with Some t => fin (step_thread s t b) | None => None end
  | CTimeout k => fin (timeout_thread s (2 * k))
  | CTimeoutClose => match find_close s with Some t => fin (timeout_thread s t) | None => None end
  | CDrain => Some (settle_e rounds rot ar s (jobs s))
  | COtherAdd c b => fin (other_add s c b)
  | COtherRem c => fin (other_rem s c)
  | CNoModel => Some se
  end.

Fixpoint run_cmds_e (rot : bool) (ar : gk -> bool) (se : st * list ch) (cs : list cmd) : option (st * list ch) :=
  match cs with
  | [] => Some se
  | c :: cs' => match do_cmd rot ar se c with Some se' => run_cmds_e rot ar se' cs' | None => None end
  end.
Definition run_cmds (rot : bool) (ar : gk -> bool) (s : st) (cs : list cmd) : option st :=
  option_map fst (run_cmds_e rot ar (s, []) cs).

Definition settled_b (s : st) : bool :=
  forallb (fun t => match thr s t with None => true | Some _ => false end) (all_tids s).

(* ---- what the Go engine observes when a case has settled ---- *)
(* event without the ghost generation *)
Inductive oev :=
| OSubCb (c : ch) | OJoin (c : ch) | OLeave (c : ch) | OUnsubCb (c : ch)
| OConnectCb | ODisconnectCb | OAliveCb.

Definition oev_of (e : ev) : list oev :=
  match e with
  | EvSubCb c _ => [OSubCb c] | EvCommit _ _ _ _ => [] | EvJoinSkipped _ _ _ => []
  | EvDelete _ _ => [] | EvUnsubSkipped _ _ => []
  | EvJoin _ c _ => [OJoin c] | EvLeave c _ => [OLeave c] | EvUnsubCb c _ => [OUnsubCb c]
  | EvConnectCb => [OConnectCb] | EvDisconnectCb => [ODisconnectCb] | EvAliveCb => [OAliveCb]
  end.
Definition otrace (s : st) : list oev := flat_map oev_of (trace s).

Definition oev_eqb (a b : oev) : bool :=
  match a, b with
  | OSubCb x, OSubCb y | OJoin x, OJoin y | OLeave x, OLeave y | OUnsubCb x, OUnsubCb y => x =? y
  | OConnectCb, OConnectCb | ODisconnectCb, ODisconnectCb | OAliveCb, OAliveCb => true
  | _, _ => false
  end.
Definition oev_ch (e : oev) : option ch :=
  match e with OSubCb c | OJoin c | OLeave c | OUnsubCb c => Some c | _ => None end.
Definition on_ch (c : ch) (l : list oev) : list oev :=
  filter (fun e => match oev_ch e with Some c' => c' =? c | None => false end) l.
Definition conn_level (l : list oev) : list oev :=
  filter (fun e => match oev_ch e with Some _ => false | None => true end) l.

Fixpoint list_eqb {A} (eqb : A -> A -> bool) (a b : list A) : bool :=
  match a, b with
  | [], [] => true
  | x :: a', y :: b' => eqb x y && list_eqb eqb a' b'
  | _, _ => false
  end.

Definition optN_eqb (a b : option N) : bool :=
  match a, b with Some x, Some y => x =? y | None, None => true | _, _ => false end.

(* per channel of the case's universe *)
Record chobs := mkChObs {
  co_ch : ch;
  co_ctx : option N;        (* c.channels[ch].subGen when present *)
  co_issub : bool;          (* Client.IsSubscribed(ch) *)
  co_hub : option N;        (* generation of the hub entry for this connection *)
  co_nsubs : N;             (* Hub.NumSubscribers(ch) *)
  co_pres : bool;           (* this connection is in Node.Presence(ch) *)
  co_bsub : bool;           (* the node is broker-subscribed to ch *)
  co_deliv : N;             (* copies of a marker publication received by the connection *)
  co_fpres : bool;          (* the subscribed context has flagEmitPresence *)
  co_fjl : bool             (* the subscribed context has flagEmitJoinLeave *)
}.

(* after every driver command, per channel of the universe (in order):
   NumSubscribers, broker-subscribed, subLock(ch) free, Client.IsSubscribed(ch) *)
Record snap := mkSnap { sn_nsubs : N; sn_bsub : bool; sn_free : bool; sn_issub : bool }.

Record obs := mkObs {
  ob_chs : list chobs;
  ob_status : N;            (* 1 connecting, 2 connected, 3 closed *)
  ob_reg : bool;            (* hub.clients / hub.users contain the connection *)
  ob_gconn : Z;             (* connectionsInflight gauge *)
  ob_gsub : Z;              (* subscriptionsInflight gauge *)
  ob_trace : list oev;
  ob_settled : bool;        (* every driver-visible thread finished *)
  ob_panic : bool;
  ob_drained : bool;        (* the run ended with a drain: no dissolver job is left *)
  ob_snaps : list (list snap);
  ob_extra : N              (* other per-connection registrations found at the end (tracked keys in the
                               shared poll manager); 0 except in keyed-tracking cases *)
}.

Record case := mkCase { cs_armed : list gk; cs_cmds : list cmd; cs_obs : obs }.

Definition no_model (c : case) : bool :=
  existsb (fun x => match x with CNoModel => true | _ => false end) (cs_cmds c).

Definition status_n (x : status_t) : N := match x with Connecting => 1 | Connected => 2 | Closed => 3 end.
Definition nsubs (s : st) (c : ch) : N := (match hub s c with Some _ => 1 | None => 0 end) + others s c.

Definition model_of (rot : bool) (c : case) : option st := run_cmds rot (armed_of (cs_armed c)) init (cs_cmds c).

Definition ch_routing_ok (s : st) (o : chobs) : bool :=
  let c := co_ch o in
  optN_eqb (option_map c_gen (lookup c (chans s))) (co_ctx o) &&
  Bool.eqb (is_subscribed s c) (co_issub o) &&
  optN_eqb (hub s c) (co_hub o) && (nsubs s c =? co_nsubs o) && (delivered s c =? co_deliv o).
Definition sub_flag (s : st) (c : ch) (f : opts -> bool) : bool :=
  match lookup c (chans s) with Some x => c_sub x && f (c_opts x) | None => false end.
Definition ch_flags_ok (s : st) (o : chobs) : bool :=
  Bool.eqb (sub_flag s (co_ch o) o_pres) (co_fpres o) && Bool.eqb (sub_flag s (co_ch o) o_jl) (co_fjl o).
Definition ch_pres_ok (s : st) (o : chobs) : bool := Bool.eqb (pres s (co_ch o)) (co_pres o).
Definition ch_bsub_ok (s : st) (o : chobs) : bool := Bool.eqb (bsub s (co_ch o)) (co_bsub o).
Definition ch_trace_ok (s : st) (ob : obs) (o : chobs) : bool :=
  list_eqb oev_eqb (on_ch (co_ch o) (otrace s)) (on_ch (co_ch o) (ob_trace ob)).

Definition conn_ok (s : st) (ob : obs) : bool :=
  (status_n (status s) =? ob_status ob) && Bool.eqb (reg s) (ob_reg ob) &&
  Bool.eqb (settled_b s) (ob_settled ob) && Bool.eqb (panicked s) (ob_panic ob) &&
  list_eqb oev_eqb (conn_level (otrace s)) (conn_level (ob_trace ob)).

Definition gauges_ok (s : st) (ob : obs) : bool :=
  (gconn s =? ob_gconn ob)%Z &&
  (fold_left (fun z o => (z + gsub s (co_ch o))%Z) (ob_chs ob) 0%Z =? ob_gsub ob)%Z.

(* the per-command snapshots of the model *)
Definition snap_of (s : st) (c : ch) : snap := mkSnap (nsubs s c) (bsub s c) (negb (slock s c)) (is_subscribed s c).
Fixpoint run_snaps (rot : bool) (ar : gk -> bool) (chs : list ch) (se : st * list ch) (cs : list cmd) : option (list (list snap)) :=
  match cs with
  | [] => Some []
  | c :: cs' =>
      match do_cmd rot ar se c with
      | Some se' => match run_snaps rot ar chs se' cs' with
                    | Some l => Some (map (snap_of (fst se')) chs :: l)
                    | None => None
                    end
      | None => None
      end
  end.
Definition snap_eqb (a b : snap) : bool :=
  (sn_nsubs a =? sn_nsubs b) && Bool.eqb (sn_bsub a) (sn_bsub b) && Bool.eqb (sn_free a) (sn_free b) &&
  Bool.eqb (sn_issub a) (sn_issub b).
Definition snaps_ok (rot : bool) (c : case) : bool :=
  match run_snaps rot (armed_of (cs_armed c)) (map co_ch (ob_chs (cs_obs c))) (init, []) (cs_cmds c) with
  | Some l => list_eqb (list_eqb snap_eqb) l (ob_snaps (cs_obs c))
  | None => false
  end.

(* full comparison: every projected observable *)
Definition corr_all_rot (rot : bool) (c : case) : bool :=
  match model_of rot c with
  | None => false
  | Some s =>
      let ob := cs_obs c in
      conn_ok s ob && gauges_ok s ob && snaps_ok rot c &&
      (negb (ob_drained ob) || match jobs s with [] => true | _ => false end) &&
      forallb (fun o => ch_routing_ok s o && ch_flags_ok s o && ch_pres_ok s o && ch_bsub_ok s o && ch_trace_ok s ob o) (ob_chs ob)
  end.

Definition corr_all (c : case) : bool := corr_all_rot false c || corr_all_rot true c.

(* debugging aid: which component of [corr_all] disagrees *)
Definition diag (rot : bool) (c : case) : option (bool * bool * list (bool * bool * bool * bool)) :=
  match model_of rot c with
  | None => None
  | Some s =>
      let ob := cs_obs c in
      Some (conn_ok s ob, gauges_ok s ob,
            map (fun o => (ch_routing_ok s o, ch_pres_ok s o, ch_bsub_ok s o, ch_trace_ok s ob o)) (ob_chs ob))
  end.

(* debugging aid: index of the first command the model does not enable *)
Fixpoint first_fail (rot : bool) (ar : gk -> bool) (se : st * list ch) (cs : list cmd) (i : N) : option N :=
  match cs with
  | [] => None
  | c :: cs' => match do_cmd rot ar se c with Some se' => first_fail rot ar se' cs' (i + 1) | None => Some i end
  end.
Definition first_fail_of (rot : bool) (c : case) := first_fail rot (armed_of (cs_armed c)) (init, []) (cs_cmds c) 0.
