(* Correspondence harness for C38.  Two kinds of cases:
   - CMed: a schedule of broadcasts / writer iterations / position checks / close run on the
     real channelMedium alone (real publicationQueue, real waitSendPub / broadcast /
     CheckPosition code) with a recording node;
   - CE2E: the end-to-end path broker -> Node.HandlePublication -> real channel medium ->
     hub -> real Client: a schedule of C01's driver (Harness/C01.v, same case shape and model
     tie) run with a channel medium configured for the channel, including the medium's
     insufficient-state marker produced by a real Node.checkPosition. *)
From Coq Require Import List NArith Bool.
From Cfg Require Export Lib.Run Harness.C10 Model.Medium.
Import ListNotations.
Open Scope N_scope.

Record mcase := mkMCase {
  k_queue : bool; k_max : N; k_delay : bool; k_now0 : N;
  k_sched : list mlabel;
  o_out : list qitem;                (* calls to handlePublication (marker = MaxUint64 offset) *)
  o_res : list (option bool);        (* CheckPosition results, None for the other steps *)
  o_left : N;                        (* publicationQueue.Len() at the end *)
  o_closed : bool
}.

Inductive case :=
  | CMed (k : mcase)
  | CE2E (k : Harness.C01.case)
         (last : option frame).      (* the last publication handed to the node after the
                                        subscribe finished (driver phase >= 6), if the script has
                                        no batching and it was not filtered *)

Fixpoint list_eqb {A} (eqb : A -> A -> bool) (a b : list A) : bool :=
  match a, b with
  | [], [] => true
  | x :: a', y :: b' => eqb x y && list_eqb eqb a' b'
  | _, _ => false
  end.
Definition ob_eqb (a b : option bool) : bool :=
  match a, b with None, None => true | Some x, Some y => Bool.eqb x y | _, _ => false end.

Definition inputs (ls : list mlabel) : list qitem :=
  flat_map (fun l => match l with MBroadcast o sz _ => [QPub o sz] | _ => [] end) ls.

Definition mcorr (k : mcase) : bool :=
  match mrun (mkMO (k_queue k) (k_max k) (k_delay k)) (minit (k_now0 k)) (k_sched k) with
  | Some (s, rs) =>
      list_eqb qitem_eqb (mout s) (o_out k) && list_eqb ob_eqb rs (o_res k) &&
      (N.of_nat (length (mq s)) =? o_left k)
  | None => false
  end.

(* the property on the observed calls: publications are forwarded in the order they were
   given (a subsequence), nothing is lost without the queue, and every position loss the
   shared check detected (result false) produced a marker that was forwarded unless the
   medium was closed or the marker is still queued *)
Definition pubs_only (l : list qitem) : list qitem :=
  filter (fun i => match i with QPub _ _ => true | _ => false end) l.
Definition detected (rs : list (option bool)) : nat :=
  length (filter (fun r => match r with Some false => true | _ => false end) rs).

Definition moracle (k : mcase) : bool :=
  subseq (pubs_only (o_out k)) (inputs (k_sched k)) qitem_eqb &&
  (if k_queue k then true else list_eqb qitem_eqb (pubs_only (o_out k)) (inputs (k_sched k))) &&
  (if o_closed k || negb (o_left k =? 0) then Nat.leb (count_insuff (o_out k)) (detected (o_res k))
   else Nat.eqb (count_insuff (o_out k)) (detected (o_res k))).

(* end to end: the subscriber behind a medium gets what C10 and C01 promise a subscriber --
   pushes bracketed by the subscription's start and end and in broker order (anything that is not
   one of the broker's messages, e.g. the medium's marker pushed as a publication, breaks the
   order clause), a positioned stream without silent gaps that stops at its end -- and the medium
   does not swallow the last publication: it is delivered unless the subscription was ended *)
Definition last_live_ok (last : option frame) (l : list frame) : bool :=
  match last with
  | None => true
  | Some f => existsb is_end l || existsb (push_eqb f) l
  end.

Definition corr (c : case) : bool :=
  match c with
  | CMed k => mcorr k
  | CE2E k _ => Harness.C01.corr k
  end.

Definition oracle (c : case) : bool :=
  match c with
  | CMed k => moracle k
  | CE2E k last => Harness.C10.oracle k && Harness.C01.oracle k && last_live_ok last (Harness.C01.o_log k)
  end.

Definition run (cs : list case) := failing corr oracle cs.
