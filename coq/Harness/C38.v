(* Correspondence harness for C38: one case = a schedule of broadcasts / writer iterations /
   position checks / close run on the real channelMedium (real publicationQueue, real
   waitSendPub / broadcast / CheckPosition code) with a recording node. *)
From Coq Require Import List NArith Bool.
From Cfg Require Export Lib.Run Model.Medium.
Import ListNotations.
Open Scope N_scope.

Record case := mkCase {
  k_queue : bool; k_max : N; k_delay : bool; k_now0 : N;
  k_sched : list mlabel;
  o_out : list qitem;                (* calls to handlePublication (marker = MaxUint64 offset) *)
  o_res : list (option bool);        (* CheckPosition results, None for the other steps *)
  o_left : N;                        (* publicationQueue.Len() at the end *)
  o_closed : bool
}.

Fixpoint list_eqb {A} (eqb : A -> A -> bool) (a b : list A) : bool :=
  match a, b with
  | [], [] => true
  | x :: a', y :: b' => eqb x y && list_eqb eqb a' b'
  | _, _ => false
  end.
Definition ob_eqb (a b : option bool) : bool :=
  match a, b with None, None => true | Some x, Some y => Bool.eqb x y | _, _ => false end.

Definition inputs (ls : list mlabel) : list qitem :=
  flat_map (fun l => match l with MBroadcast o sz _ => [QPub o sz] | _ => [] end) ls.

Definition corr (k : case) : bool :=
  match mrun (mkMO (k_queue k) (k_max k) (k_delay k)) (minit (k_now0 k)) (k_sched k) with
  | Some (s, rs) =>
      list_eqb qitem_eqb (mout s) (o_out k) && list_eqb ob_eqb rs (o_res k) &&
      (N.of_nat (length (mq s)) =? o_left k)
  | None => false
  end.

(* the property on the observed calls: publications are forwarded in the order they were
   given (a subsequence), nothing is lost without the queue, and every position loss the
   shared check detected (result false) produced a marker that was forwarded unless the
   medium was closed or the marker is still queued *)
Definition pubs_only (l : list qitem) : list qitem :=
  filter (fun i => match i with QPub _ _ => true | _ => false end) l.
Definition detected (rs : list (option bool)) : nat :=
  length (filter (fun r => match r with Some false => true | _ => false end) rs).

Definition oracle (k : case) : bool :=
  subseq (pubs_only (o_out k)) (inputs (k_sched k)) qitem_eqb &&
  (if k_queue k then true else list_eqb qitem_eqb (pubs_only (o_out k)) (inputs (k_sched k))) &&
  (if o_closed k || negb (o_left k =? 0) then Nat.leb (count_insuff (o_out k)) (detected (o_res k))
   else Nat.eqb (count_insuff (o_out k)) (detected (o_res k))).

Definition run (cs : list case) := failing corr oracle cs.
