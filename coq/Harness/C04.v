(* Correspondence harness for C04 (publication routing matches subscription state). *)
From Coq Require Import List NArith ZArith Bool.
From Cfg Require Export Harness.SLCommon.
Import ListNotations.
Open Scope N_scope.

Definition case := SLCommon.case.

(* model vs implementation on the routing observables: c.channels generations,
   IsSubscribed, the hub entry and its generation, NumSubscribers, the marker
   delivery count; plus connection status and "everything finished". *)
Definition corr_rot (rot : bool) (c : case) : bool :=
  match model_of rot c with
  | None => false
  | Some s =>
      let ob := cs_obs c in
      (status_n (status s) =? ob_status ob) && Bool.eqb (settled_b s) (ob_settled ob) &&
      Bool.eqb (panicked s) (ob_panic ob) &&
      forallb (ch_routing_ok s) (ob_chs ob)
  end.

(* the close loop's channel order is the Go runtime's choice: either order may explain the run *)
(* cases marked CNoModel (positioned delta subscriptions: outside the model) are judged by the oracle only *)
Definition corr (c : case) : bool := no_model c || corr_rot false c || corr_rot true c.

(* the property on the observed settled state: a marker publication reaches the
   connection iff it reports itself subscribed, at most once, and a reported
   subscription has its routing entry *)
Definition routing_ok (o : chobs) : bool :=
  (co_deliv o =? (if co_issub o then 1 else 0)) &&
  Bool.eqb (co_issub o) (match co_hub o with Some _ => true | None => false end).

Definition oracle (c : case) : bool :=
  let ob := cs_obs c in
  negb (ob_settled ob) || forallb routing_ok (ob_chs ob).

Definition run (cs : list case) := failing corr oracle cs.
