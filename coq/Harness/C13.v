(* Correspondence harness for C13 (per-channel batching).
   One case = a sequence of calls made by the driver on one real perChannelWriter (flushFn records the
   batches), with the batches observed during each call:
     EGet t ch / EAdd t x : the two halves of perChannelWriter.Add (getWriter, then channelWriter.Add on
                            the writer obtained) -- normally adjacent, sometimes separated by other calls;
     EFire k              : the "timer fired" branch of waitTimer for the k-th timer armed so far;
     EDel ch f / EClose f : delWriter / Close.
   corr   : the model (Model/ChanWriter.v) emits the same batches at every call;
   oracle : the property, as an abstract machine written from its text (per channel: the items added
            since the last flush; a flush must deliver flush_spec of them; an end without flush forgets
            them), decided on the observed batches only. *)
From Coq Require Import List NArith ZArith Bool Arith.
From Cfg Require Export Lib.Run Model.ChanWriter Model.ChanWriterSpec.
Import ListNotations.

Inductive cev :=
| EGet (t : nat) (ch : N)
| EAdd (t : nat) (x : citem)
| EFire (k : nat)
| EDel (ch : N) (flush : bool)
| EClose (flush : bool).

(* channel configurations, events with the batches observed during them (channel, items) *)
Record case := mkCase { c_cfg : list (N * bcfg); c_evs : list (cev * list (N * list citem)) }.

Definition cfg_of (cfgs : list (N * bcfg)) (ch : N) : bcfg :=
  match lookupN cfgs ch with Some c => c | None => mkBcfg 0 false false end.

Definition citem_eqb (a b : citem) : bool :=
  N.eqb (ci_id a) (ci_id b) && N.eqb (ci_key a) (ci_key b) && Bool.eqb (ci_pub a) (ci_pub b).
Fixpoint citems_eqb (a b : list citem) : bool :=
  match a, b with
  | [], [] => true
  | x :: a', y :: b' => citem_eqb x y && citems_eqb a' b'
  | _, _ => false
  end.

(* batches as a set keyed by channel (a Close visits the channels in Go map order) *)
Fixpoint insert_b (b : N * list citem) (l : list (N * list citem)) : list (N * list citem) :=
  match l with
  | [] => [b]
  | c :: l' => if N.leb (fst b) (fst c) then b :: l else c :: insert_b b l'
  end.
Definition sort_b (l : list (N * list citem)) := fold_right insert_b [] l.
Fixpoint batches_eqb (a b : list (N * list citem)) : bool :=
  match a, b with
  | [], [] => true
  | x :: a', y :: b' => N.eqb (fst x) (fst y) && citems_eqb (snd x) (snd y) && batches_eqb a' b'
  | _, _ => false
  end.

(* what the model emitted during the last step *)
Definition new_out (s s' : pst) : list (N * list citem) :=
  map (fun e => (fst (fst e), snd e)) (skipn (length (p_out s)) (p_out s')).

Record hst := mkH { h_s : pst; h_tm : list nat }.

Definition hstep (cf : N -> bcfg) (h : hst) (e : cev) : option (hst * list (N * list citem)) :=
  let s := h_s h in
  match e with
  | EGet t ch => option_map (fun s' => (mkH s' (h_tm h), new_out s s')) (pstep cf s (PGet t ch))
  | EAdd t x =>
      match lookup (p_refs s) t with
      | Some (ch, i) =>
          match pstep cf s (PAdd t x) with
          | Some s' =>
              (* the driver learns of a timer by finding w.timerStop set after the call: a timer armed and
                 cancelled within the same call (size-triggered flush) is not numbered *)
              let tm' := if length (p_timers s) <? length (p_timers s') then
                           match p_timers s', lookup (p_inst s') i with
                           | (tm, _) :: _, Some w =>
                               match cw_timer w with
                               | Some t => if t =? tm then h_tm h ++ [tm] else h_tm h
                               | None => h_tm h
                               end
                           | _, _ => h_tm h
                           end
                         else h_tm h in
              Some (mkH s' tm', new_out s s')
          | None => None
          end
      | None => None
      end
  | EFire k =>
      match nth_error (h_tm h) k with
      | Some tm =>
          match pstep cf s (PFire tm) with
          | Some s' => Some (mkH s' (h_tm h), new_out s s')
          | None => Some (h, [])       (* that goroutine has already finished: nothing happens *)
          end
      | None => None
      end
  | EDel ch f => option_map (fun s' => (mkH s' (h_tm h), new_out s s')) (pstep cf s (PDel ch f))
  | EClose f => option_map (fun s' => (mkH s' (h_tm h), new_out s s')) (pstep cf s (PClose f))
  end.

Fixpoint hrun (cf : N -> bcfg) (h : hst) (evs : list (cev * list (N * list citem))) : bool :=
  match evs with
  | [] => true
  | (e, obs) :: evs' =>
      match hstep cf h e with
      | Some (h', out) => batches_eqb (sort_b out) (sort_b obs) && hrun cf h' evs'
      | None => false
      end
  end.

Definition corr (c : case) : bool := hrun (cfg_of (c_cfg c)) (mkH p_init []) (c_evs c).

(* ---- the property as an abstract machine over the observed batches ---- *)
Definition upd_pend (p : list (N * list citem)) (ch : N) (l : list citem) : list (N * list citem) :=
  (ch, l) :: removeN p ch.
Definition pend_of (p : list (N * list citem)) (ch : N) : list citem :=
  match lookupN p ch with Some l => l | None => [] end.

(* every observed batch of channel ch must be the flush of what is pending for ch *)
Fixpoint check_batches (cf : N -> bcfg) (p : list (N * list citem)) (obs : list (N * list citem))
  : option (list (N * list citem)) :=
  match obs with
  | [] => Some p
  | (ch, items) :: obs' =>
      if citems_eqb items (flush_spec (b_latest (cf ch)) (pend_of p ch)) &&
         negb (match items with [] => true | _ => false end)
      then check_batches cf (upd_pend p ch []) obs' else None
  end.

(* refs: in-flight Add calls: thread -> (channel, has an end event of that channel occurred since its
   getWriter?).  An Add call that overlaps an end event (delWriter of its channel, or Close) may take
   effect when its second half runs, or not at all (the push raced with the end and is dropped): the
   property does not say which; both are tried.  What is NOT allowed is an item that is delivered although
   the channel's pending list (as the sequence of completed calls defines it) does not contain it. *)
Definition taint (refs : list (nat * (N * bool))) (f : N -> bool) : list (nat * (N * bool)) :=
  map (fun r => (fst r, (fst (snd r), snd (snd r) || f (fst (snd r))))) refs.

(* delivery obligations (nothing may be lost): a channel whose held items reach MaxSize must have been
   flushed by the call that added the last one; an end WITH flush must leave nothing pending *)
Definition size_ok (cf : N -> bcfg) (p : list (N * list citem)) (ch : N) : bool :=
  negb ((0 <? b_max (cf ch))%Z && (b_max (cf ch) <=? Z.of_nat (held_count (b_latest (cf ch)) (pend_of p ch)))%Z).
Definition none_pending (cf : N -> bcfg) (p : list (N * list citem)) (ch : N) : bool :=
  match flush_spec (b_latest (cf ch)) (pend_of p ch) with [] => true | _ => false end.

Fixpoint o_run (cf : N -> bcfg) (closed : bool) (refs : list (nat * (N * bool))) (p : list (N * list citem))
               (evs : list (cev * list (N * list citem))) : bool :=
  match evs with
  | [] => true
  | (e, obs) :: evs' =>
      match e with
      | EGet t ch => (match obs with [] => true | _ => false end) &&
                     (* after Close the connection is gone: whatever is added later may be dropped *)
                     o_run cf closed ((t, (ch, closed)) :: refs) p evs'
      | EAdd t x =>
          match lookup refs t with
          | Some (ch, tainted) =>
              (* the item is added to the channel now; a flush during the call includes it *)
              (match check_batches cf (upd_pend p ch (pend_of p ch ++ [x])) obs with
               | Some p' => size_ok cf p' ch && o_run cf closed (remove_k refs t) p' evs'
               | None => false
               end)
              || (tainted && (match obs with [] => true | _ => false end) && o_run cf closed (remove_k refs t) p evs')
          | None => false
          end
      | EFire _ =>
          match check_batches cf p obs with Some p' => o_run cf closed refs p' evs' | None => false end
      | EDel ch f =>
          (* with flush: what is delivered now must be the pending items, all of them; in both cases
             nothing that was pending before the end may be delivered later *)
          match (if f then check_batches cf p obs else match obs with [] => Some p | _ => None end) with
          | Some p' => (negb f || none_pending cf p' ch) &&
                       o_run cf closed (taint refs (N.eqb ch)) (upd_pend p' ch []) evs'
          | None => false
          end
      | EClose f =>
          match (if f then check_batches cf p obs else match obs with [] => Some p | _ => None end) with
          | Some p' => (negb f || forallb (fun e => none_pending cf p' (fst e)) p') &&
                       o_run cf true (taint refs (fun _ => true)) [] evs'
          | None => false
          end
      end
  end.

Definition oracle (c : case) : bool := o_run (cfg_of (c_cfg c)) false [] [] (c_evs c).

Definition run (cs : list case) := failing corr oracle cs.
