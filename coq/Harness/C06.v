(* Correspondence harness for C06 (presence reflects live subscriptions).
   Two kinds of cases: call sequences on the real presenceHub (presence_memory.go) against
   Model/PresenceHub.v, and gated life-cycle schedules on the real Node/Client against
   Model/SubLifecycle.v. *)
From Coq Require Import List NArith ZArith Bool.
From Cfg Require Export Harness.SLCommon Model.PresenceHub.
Import ListNotations.
Open Scope N_scope.

(* final observation of one channel: Presence(ch) as (client id, user id) pairs, PresenceStats(ch) *)
Record pfinal := mkPFinal { pf_ch : N; pf_entries : list (N * N); pf_clients : N; pf_users : N }.

Inductive case :=
| CPres (ops : list pop) (steps : list (N * N)) (final : list pfinal) (uids : list N)
    (* steps: PresenceStats of the operation's channel after every call *)
| CLife (c : SLCommon.case)
| CTick (subs : list (N * bool)) (ticks : list (list N)).
    (* subs: the connection's subscriptions (channel, presence enabled); ticks: per presence tick that ran
       alone, the channels of the AddPresence calls it made (sequential or concurrent variant) *)

Definition pop_ch (o : pop) : N := match o with PAdd c _ _ | PRemove c _ => c end.

Fixpoint run_steps (h : phub) (ops : list pop) : list (N * N) :=
  match ops with
  | [] => []
  | o :: ops' => let h' := papply h o in pstats h' (pop_ch o) :: run_steps h' ops'
  end.

Definition pairN_eqb (a b : N * N) : bool := (fst a =? fst b) && (snd a =? snd b).
Definition optN_eqb' (a b : option N) : bool :=
  match a, b with Some x, Some y => x =? y | None, None => true | _, _ => false end.

Definition pres_corr (ops : list pop) (steps : list (N * N)) (final : list pfinal) (uids : list N) : bool :=
  let h := prun ops in
  list_eqb pairN_eqb (run_steps [] ops) steps &&
  forallb (fun f =>
    pairN_eqb (pstats h (pf_ch f)) (pf_clients f, pf_users f) &&
    (N.of_nat (length (pf_entries f)) =? N.of_nat (length (pget h (pf_ch f)))) &&
    forallb (fun u => optN_eqb' (plookup u (pget h (pf_ch f))) (plookup u (pf_entries f))) uids) final.

(* life-cycle: presence membership, subscription state and presence flag per channel *)
Definition life_corr_rot (rot : bool) (c : SLCommon.case) : bool :=
  match model_of rot c with
  | None => false
  | Some s =>
      let ob := cs_obs c in
      Bool.eqb (settled_b s) (ob_settled ob) && (status_n (status s) =? ob_status ob) &&
      forallb (fun o => ch_pres_ok s o && Bool.eqb (is_subscribed s (co_ch o)) (co_issub o) &&
                        ch_flags_ok s o) (ob_chs ob)
  end.

(* tick variants: the refreshed channels of every tick = the model tick's snapshot [pres_items] of
   c.channels with these subscriptions (each item is visited once by TCheck/TAdd), as multisets *)
Definition tick_chans (subs : list (N * bool)) : amap ctx :=
  fold_left (fun m p => insert (fst p) (mkCtx (1 + N.of_nat (length m)) true true false (mkOpts (snd p) false)) m) subs [].
Definition tick_expected (subs : list (N * bool)) : list N := map fst (pres_items (tick_chans subs)).
Definition countN (c : N) (l : list N) : nat := length (filter (N.eqb c) l).
Definition same_multiset (a b : list N) : bool := forallb (fun c => Nat.eqb (countN c a) (countN c b)) (a ++ b).
Definition tick_corr (subs : list (N * bool)) (ticks : list (list N)) : bool :=
  forallb (same_multiset (tick_expected subs)) ticks.

Definition corr (c : case) : bool :=
  match c with
  | CPres ops steps final uids => pres_corr ops steps final uids
  | CLife lc => life_corr_rot false lc || life_corr_rot true lc
  | CTick subs ticks => tick_corr subs ticks
  end.

(* ---- the property on observed behaviour ---- *)
(* statistics = the distinct clients and users of the returned presence set; the set itself =
   what the call history says (last call about (channel, client) was an add with that user) *)
Fixpoint distinct (l : list N) : list N :=
  match l with [] => [] | x :: l' => if memN x l' then distinct l' else x :: distinct l' end.
Definition last_call (ops : list pop) (c uid : N) : option N :=
  fold_left (fun acc o =>
    match o with
    | PAdd c' u' usr => if (c' =? c) && (u' =? uid) then Some usr else acc
    | PRemove c' u' => if (c' =? c) && (u' =? uid) then None else acc
    end) ops None.

Definition pres_oracle (ops : list pop) (final : list pfinal) (uids : list N) : bool :=
  forallb (fun f =>
    (pf_clients f =? N.of_nat (length (distinct (map fst (pf_entries f))))) &&
    (N.of_nat (length (pf_entries f)) =? pf_clients f) &&
    (pf_users f =? N.of_nat (length (distinct (map snd (pf_entries f))))) &&
    forallb (fun u => optN_eqb' (plookup u (pf_entries f)) (last_call ops (pf_ch f) u)) uids) final.

(* once operations have settled (the run ends with a presence tick): the connection is in
   Presence(ch) exactly when it is subscribed to ch with presence enabled *)
Definition life_oracle (c : SLCommon.case) : bool :=
  let ob := cs_obs c in
  negb (ob_settled ob) ||
  forallb (fun o => Bool.eqb (co_pres o) (co_issub o && co_fpres o)) (ob_chs ob).

(* every tick refreshes every subscription with presence exactly once and nothing else *)
Definition tick_oracle (subs : list (N * bool)) (ticks : list (list N)) : bool :=
  forallb (fun t =>
    forallb (fun p : N * bool => Nat.eqb (countN (fst p) t) (if snd p then 1%nat else 0%nat)) subs &&
    forallb (fun c : N => existsb (fun p : N * bool => fst p =? c) subs) t) ticks.

Definition oracle (c : case) : bool :=
  match c with
  | CPres ops _ final uids => pres_oracle ops final uids
  | CLife lc => life_oracle lc
  | CTick subs ticks => tick_oracle subs ticks
  end.

Definition run (cs : list case) := failing corr oracle cs.
