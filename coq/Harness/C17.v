(* Correspondence harness for C17: one case = an operation sequence executed
   on a real MemoryBroker under a virtual clock (testing/synctest bubble; the
   real sweeper goroutines run) + the output observed for every operation. *)
From Coq Require Import List NArith ZArith Bool Lia.
From Cfg Require Export Lib.Run Model.MemStream Model.StreamSpec.
From Cfg Require Import Proofs.MemStream.
Import ListNotations.
Open Scope N_scope.

Record case := mkCase {
  c_now : N;             (* clock (ms) when the broker was created *)
  c_meta : N;            (* node-level HistoryMetaTTL, ms *)
  c_ops : list op;       (* operations, sweeper ticks made explicit by the driver *)
  c_obs : list out       (* observed outputs, epochs canonicalised to first-seen indices *)
}.

(* model = implementation on the projected observables *)
Definition corr (c : case) : bool :=
  outs_eqb (snd (run (hub_init (c_now c) (c_meta c)) (c_ops c))) (c_obs c).

(* the property: the observed outputs are those of the bounded-stream
   specification (sweeps as scheduled, or expiry effective immediately),
   for operation sequences inside the stated domain: since offsets that do
   not wrap, and per-channel deadlines that never move earlier (see
   Model/MemStream.v, mono_ok) *)
Definition in_domain (c : case) : bool :=
  ops_ok (c_ops c) && run_mono (hub_init (c_now c) (c_meta c)) (c_ops c).

Definition oracle (c : case) : bool :=
  negb (in_domain c) ||
  outs_eqb (snd (sp_run (spec_init (c_now c) (c_meta c)) (c_ops c))) (c_obs c) ||
  outs_eqb (sp_run_eager (spec_init (c_now c) (c_meta c)) (c_ops c)) (c_obs c).

Definition SpecBehaviour (now meta : N) (ops : list op) (obs : list out) : Prop :=
  ops_ok ops = true -> run_mono (hub_init now meta) ops = true ->
  obs = snd (sp_run (spec_init now meta) ops) \/ obs = sp_run_eager (spec_init now meta) ops.

Lemma oracle_sound : forall c,
  oracle c = true <-> SpecBehaviour (c_now c) (c_meta c) (c_ops c) (c_obs c).
Proof.
  intros c. unfold oracle, SpecBehaviour, in_domain.
  rewrite !orb_true_iff, negb_true_iff, !outs_eqb_eq.
  destruct (ops_ok (c_ops c)); destruct (run_mono (hub_init (c_now c) (c_meta c)) (c_ops c));
    cbn [andb]; split; intros H; try (intros; discriminate); try (left; left; reflexivity).
  - intros _ _. destruct H as [[H|H]|H]; [discriminate|left|right]; auto.
  - destruct (H eq_refl eq_refl) as [E|E]; [left; right|right]; auto.
Qed.

Definition run (cs : list case) := failing corr oracle cs.
